(* C36 - properties of the path-keyed map [step path_prims]: it coincides with the typed map outside the
   class kind_confusion; an operation touches the rows of its own key only; what the answers mean; the
   directories of storable names. *)
From LanceV Require Import Common.Base Ns.Model_Namespace Ns.Proofs_Namespace Ns.Proofs_NamespaceRefine.
Local Open Scope N_scope.

(* ------------------------------------------------------------------ typed = kind-blind outside the class *)

Lemma contains_typed : forall t k rs, holds (negb t) k rs = false ->
  a_contains (Some t) k rs = t_contains (Some t) k rs.
Proof.
  intros t k rs Hh. unfold a_contains, t_contains. f_equal. unfold holds in Hh.
  induction rs as [|r rs IH]; [reflexivity|]. cbn [existsb] in *. apply orb_false_iff in Hh as [H1 H2].
  rewrite (IH H2). f_equal. destruct (path_eqb (r_key r) k); [|reflexivity]. cbn [andb] in *.
  destruct (r_tab r), t; cbn in *; try reflexivity; discriminate.
Qed.

Lemma q_contains_typed : forall s t k, holds (negb t) k (rows s) = false ->
  q_contains path path_prims s (Some t) k = q_contains path typed_prims s (Some t) k.
Proof.
  intros s t k Hh. unfold q_contains. destruct (dead s); [reflexivity|]. apply contains_typed. exact Hh.
Qed.

Lemma check_levels_typed : forall s levels, existsb (fun l => holds true l (rows s)) levels = false ->
  check_levels path path_prims s levels = check_levels path typed_prims s levels.
Proof.
  intros s levels. induction levels as [|l r IH]; intro Hh; [reflexivity|].
  cbn [existsb] in Hh. apply orb_false_iff in Hh as [H1 H2]. cbn [check_levels].
  change (p_key_j path_prims l) with l. change (p_key_j typed_prims l) with l.
  rewrite (q_contains_typed s false l H1).
  destruct (q_contains path typed_prims s (Some false) l) as [[|]| |]; try reflexivity. apply IH. exact H2.
Qed.

Lemma q_contains_none : forall s k, q_contains path path_prims s None k = q_contains path typed_prims s None k.
Proof.
  intros s k. unfold q_contains. destruct (dead s); [reflexivity|]. cbn [p_contains path_prims typed_prims].
  unfold a_contains, t_contains. f_equal. apply existsb_ext_in. intros r _. rewrite andb_true_r. reflexivity.
Qed.

Lemma step_typed : forall mode s o, confused mode s o = false ->
  step path_prims mode s o = step typed_prims mode s o.
Proof.
  intros mode s o Hc. unfold confused in Hc.
  destruct (mode =? 0) eqn:M0.
  { destruct o; cbn [step]; rewrite M0; reflexivity. }
  destruct o as [id|id|id|id|id tok lim|id|id|id|id|id|id tok lim|id loc|id]; cbn [step]; rewrite M0; cbn [negb].
  - (* create_namespace *)
    unfold m_create_ns. destruct id as [|x r]; [reflexivity|]. rewrite (check_levels_typed s _ Hc).
    change (p_key_j path_prims (x :: r)) with (x :: r). change (p_key_j typed_prims (x :: r)) with (x :: r).
    rewrite q_contains_none. reflexivity.
  - (* drop_namespace *)
    unfold m_drop_ns. destruct id as [|x r]; [reflexivity|].
    change (p_key_j path_prims (x :: r)) with (x :: r). change (p_key_j typed_prims (x :: r)) with (x :: r).
    rewrite (q_contains_typed s false (x :: r) Hc). reflexivity.
  - reflexivity.
  - (* namespace_exists *)
    unfold m_ns_exists. destruct id as [|x r]; [reflexivity|].
    change (p_key_j path_prims (x :: r)) with (x :: r). change (p_key_j typed_prims (x :: r)) with (x :: r).
    rewrite (q_contains_typed s false (x :: r) Hc). reflexivity.
  - reflexivity.
  - reflexivity.
  - (* create_table *)
    unfold m_create_table. destruct id as [|x r]; [reflexivity|].
    change (p_key_b path_prims (x :: r)) with (x :: r). change (p_key_b typed_prims (x :: r)) with (x :: r).
    rewrite q_contains_none. reflexivity.
  - reflexivity.
  - (* table_exists *)
    unfold m_table_exists. destruct id as [|x r]; [reflexivity|].
    change (p_key_b path_prims (x :: r)) with (x :: r). change (p_key_b typed_prims (x :: r)) with (x :: r).
    rewrite (q_contains_typed s true (x :: r) Hc). reflexivity.
  - reflexivity.
  - reflexivity.
  - (* register_table *)
    unfold m_register. destruct id as [|x r]; [reflexivity|]. rewrite (check_levels_typed s _ Hc).
    change (p_key_b path_prims (x :: r)) with (x :: r). change (p_key_b typed_prims (x :: r)) with (x :: r).
    rewrite q_contains_none. reflexivity.
  - reflexivity.
Qed.

Lemma run_typed : forall mode ops s, confused_run mode s ops = false ->
  run path_prims mode s ops = run typed_prims mode s ops.
Proof.
  intros mode ops. induction ops as [|o r IH]; intros s Hc; [reflexivity|].
  cbn [confused_run] in Hc. apply orb_false_iff in Hc as [H1 H2]. cbn [run].
  rewrite (step_typed mode s o H1). destruct (step typed_prims mode s o) as [a s1]. cbn [snd] in H2.
  rewrite (IH (bump s1) H2). reflexivity.
Qed.

Theorem map_is_typed : forall mode ops, Known_C36_kind_confusion mode ops = false -> map_run mode ops = typed_run mode ops.
Proof. intros mode ops Hc. unfold map_run, typed_run. rewrite (run_typed mode ops init Hc). reflexivity. Qed.

(* ------------------------------------------------------------------ storable operation lists *)

Lemma storable_of_classes : forall ops,
  Known_C36_delimiter_or_quote_in_name ops = false -> Known_C36_path_unsafe_name ops = false ->
  forallb storable_op ops = true.
Proof.
  intros ops H1 H2. unfold Known_C36_delimiter_or_quote_in_name, Known_C36_path_unsafe_name in *.
  apply forallb_forall. intros o Ho.
  assert (A : existsb (existsb dq_char) (op_id o) = false).
  { destruct (existsb (existsb dq_char) (op_id o)) eqn:E; [|reflexivity].
    assert (existsb (fun o => existsb (existsb dq_char) (op_id o)) ops = true) by (apply existsb_exists; exists o; split; assumption).
    congruence. }
  assert (B : existsb (existsb (fun c => negb (safe_char c) && negb (dq_char c))) (op_id o) = false).
  { destruct (existsb (existsb (fun c => negb (safe_char c) && negb (dq_char c))) (op_id o)) eqn:E; [|reflexivity].
    assert (existsb (fun o => existsb (existsb (fun c => negb (safe_char c) && negb (dq_char c))) (op_id o)) ops = true)
      by (apply existsb_exists; exists o; split; assumption).
    congruence. }
  unfold storable_op, storable_path, storable. apply forallb_forall. intros n Hn. apply forallb_forall. intros c Hc.
  destruct (safe_char c) eqn:S; [reflexivity|]. exfalso.
  destruct (dq_char c) eqn:D.
  - assert (existsb (existsb dq_char) (op_id o) = true).
    { apply existsb_exists. exists n. split; [exact Hn|]. apply existsb_exists. exists c. split; assumption. }
    congruence.
  - assert (existsb (existsb (fun c => negb (safe_char c) && negb (dq_char c))) (op_id o) = true).
    { apply existsb_exists. exists n. split; [exact Hn|]. apply existsb_exists. exists c. split; [exact Hc|]. rewrite S, D. reflexivity. }
    congruence.
Qed.

(* ------------------------------------------------------------------ frame: other keys are untouched *)

Definition lookup (k : path) (rs : list (row path)) : list (row path) := filter (fun r => path_eqb (r_key r) k) rs.

(* every table row carries a non-empty location *)
Definition locs_ok (s : state path) : Prop :=
  Forall (fun r => r_tab r = true -> loc_or_empty r <> []) (rows s).

Lemma lookup_insert : forall k q t l rs rs', q <> k -> a_insert k t l rs = Ok rs' -> lookup q rs' = lookup q rs.
Proof.
  intros k q t l rs rs' Hq E. unfold a_insert in E. destruct (existsb _ rs); [discriminate|]. inversion E; subst.
  unfold lookup. rewrite filter_app. cbn [filter r_key fst].
  assert (path_eqb k q = false) by (apply path_eqb_neq; congruence). rewrite H. apply app_nil_r.
Qed.

Lemma lookup_delete : forall k q rs rs', q <> k -> a_delete k rs = Ok rs' -> lookup q rs' = lookup q rs.
Proof.
  intros k q rs rs' Hq E. unfold a_delete in E. inversion E; subst. clear E. unfold lookup.
  induction rs as [|r rs IH]; [reflexivity|]. cbn [filter].
  destruct (path_eqb (r_key r) k) eqn:K; cbn [negb filter].
  - apply path_eqb_eq in K. assert (path_eqb (r_key r) q = false) by (apply path_eqb_neq; congruence).
    rewrite H. exact IH.
  - destruct (path_eqb (r_key r) q); [f_equal|]; exact IH.
Qed.

Lemma q_insert_lookup : forall s k q t l rs', q <> k -> q_insert path path_prims s k t l = Ok rs' -> lookup q rs' = lookup q (rows s).
Proof. intros s k q t l rs' Hq E. unfold q_insert in E. destruct (dead s); [discriminate|]. eapply lookup_insert; eassumption. Qed.

Lemma q_delete_lookup : forall s k q rs', q <> k -> q_delete path path_prims s k = Ok rs' -> lookup q rs' = lookup q (rows s).
Proof. intros s k q rs' Hq E. unfold q_delete in E. destruct (dead s); [discriminate|]. eapply lookup_delete; eassumption. Qed.

Lemma one_row_in : forall (m : list (row path)) r, one_row m = Ok (Some r) -> In r m.
Proof. intros [|r0 [|r1 m]] r E; inversion E; subst. left. reflexivity. Qed.

Lemma q_find_table_loc : forall s k r, locs_ok s -> q_find path path_prims s true k = Ok (Some r) -> loc_or_empty r <> [].
Proof.
  intros s k r Hl E. unfold q_find in E. destruct (dead s); [discriminate|]. cbn [p_find path_prims] in E.
  unfold a_find in E. apply one_row_in in E. apply filter_In in E as [Hin Hf].
  apply andb_true_iff in Hf as [_ Ht]. unfold locs_ok in Hl. rewrite Forall_forall in Hl. apply (Hl r Hin).
  destruct (r_tab r); [reflexivity | discriminate].
Qed.

Lemma m_describe_table_state : forall s id, snd (m_describe_table path path_prims s id) = s.
Proof. intros s id. unfold m_describe_table. destruct id; [reflexivity|]. destruct (q_find _ _ _ _ _) as [[?|]| |]; reflexivity. Qed.

Lemma m_table_exists_state : forall s id, snd (m_table_exists path path_prims s id) = s.
Proof. intros s id. unfold m_table_exists. destruct id; [reflexivity|]. destruct (q_contains _ _ _ _ _) as [[|]| |]; reflexivity. Qed.

Lemma dir_describe_state : forall s id, snd (dir_describe path s id) = s.
Proof.
  intros s id. unfold dir_describe. destruct id as [|n [|y r]]; try reflexivity.
  destruct (negb (d_exists_under _ _)); [reflexivity|]. destruct (d_has_dataset _ _); [reflexivity|].
  destruct (d_has_reserved _ _); reflexivity.
Qed.

Lemma dir_exists_state : forall s id, snd (dir_exists path s id) = s.
Proof. intros s id. unfold dir_exists. destruct id as [|n [|y r]]; try reflexivity. destruct (d_exists_under _ _); reflexivity. Qed.

Ltac same_rows := match goal with |- lookup _ (rows ?s) = lookup _ (rows ?s) => reflexivity end.

(* the rows of every key other than the operation's own id are the same before and after *)
Lemma frame_step : forall mode s o q, locs_ok s -> q <> op_id o ->
  lookup q (rows (snd (step path_prims mode s o))) = lookup q (rows s).
Proof.
  intros mode s o q Hl Hq.
  destruct o as [id|id|id|id|id tok lim|id|id|id|id|id|id tok lim|id loc|id]; cbn [op_id] in Hq; cbn [step];
    destruct (negb (mode =? 0)).
  - (* create_namespace *)
    unfold m_create_ns. destruct id as [|x r]; [reflexivity|].
    destruct (check_levels _ _ _ _); [reflexivity|].
    change (p_key_j path_prims (x :: r)) with (x :: r).
    destruct (q_contains _ _ _ _ _) as [[|]| |]; try reflexivity.
    destruct (q_insert path path_prims s (x :: r) false None) as [rs| |] eqn:E; try reflexivity.
    cbn [snd set_rows rows]. eapply q_insert_lookup; eassumption.
  - destruct id; reflexivity.
  - (* drop_namespace *)
    unfold m_drop_ns. destruct id as [|x r]; [reflexivity|].
    change (p_key_j path_prims (x :: r)) with (x :: r).
    destruct (q_contains _ _ _ _ _) as [[|]| |]; try reflexivity.
    destruct (q_has_desc _ _ _ _) as [[|]| |]; try reflexivity.
    destruct (q_delete path path_prims s (x :: r)) as [rs| |] eqn:E; try reflexivity.
    cbn [snd set_rows rows]. eapply q_delete_lookup; eassumption.
  - destruct id; reflexivity.
  - unfold m_describe_ns. destruct id; [reflexivity|]. destruct (q_find _ _ _ _ _) as [[?|]| |]; reflexivity.
  - destruct id; reflexivity.
  - unfold m_ns_exists. destruct id; [reflexivity|]. destruct (q_contains _ _ _ _ _) as [[|]| |]; reflexivity.
  - destruct id; reflexivity.
  - unfold m_list. destruct (q_children _ _ _ _ _); reflexivity.
  - destruct id; reflexivity.
  - (* create_empty_table *)
    unfold m_create_empty_table. destruct id as [|x r]; [reflexivity|].
    change (p_key_b path_prims (x :: r)) with (x :: r).
    destruct (q_find _ _ _ _ _) as [[?|]| |]; try reflexivity.
    match goal with |- context [q_insert path path_prims ?s2 ?k ?t ?l] => destruct (q_insert path path_prims s2 k t l) as [rs| |] eqn:E end; try reflexivity.
    cbn [snd set_rows rows]. apply (q_insert_lookup _ _ q _ _ _ Hq) in E. exact E.
  - destruct id as [|n [|y r]]; reflexivity.
  - (* create_table *)
    unfold m_create_table. destruct id as [|x r]; [reflexivity|].
    change (p_key_b path_prims (x :: r)) with (x :: r).
    destruct (q_contains _ _ _ _ _) as [[|]| |]; try reflexivity.
    destruct (d_has_dataset _ _); [reflexivity|].
    match goal with |- context [q_insert path path_prims ?s2 ?k ?t ?l] => destruct (q_insert path path_prims s2 k t l) as [rs| |] eqn:E end; try reflexivity.
    cbn [snd set_rows rows]. apply (q_insert_lookup _ _ q _ _ _ Hq) in E. exact E.
  - destruct id as [|n [|y r]]; try reflexivity. destruct (d_has_dataset _ _); reflexivity.
  - (* drop_table *)
    unfold m_drop_table. destruct id as [|x r]; [reflexivity|].
    change (p_key_b path_prims (x :: r)) with (x :: r).
    destruct (q_find path path_prims s true (x :: r)) as [[row|]| |] eqn:F; try reflexivity.
    pose proof (q_find_table_loc s _ row Hl F) as Hloc.
    destruct (q_delete path path_prims s (x :: r)) as [rs| |] eqn:E; try reflexivity.
    apply (q_delete_lookup _ _ q _ Hq) in E.
    destruct (loc_or_empty row) as [|c l']; [contradiction|].
    destruct (d_remove_under _ _); cbn [snd set_disk set_rows rows]; exact E.
  - destruct id as [|n [|y r]]; try reflexivity. destruct (d_remove_under _ _); reflexivity.
  - (* table_exists *)
    pose proof (m_table_exists_state s id) as St.
    destruct (m_table_exists path path_prims s id) as [a s']. cbn [snd] in St. subst s'.
    destruct (is_ok a); [reflexivity|]. destruct (_ && _); [rewrite dir_exists_state|]; reflexivity.
  - rewrite dir_exists_state. reflexivity.
  - (* describe_table *)
    pose proof (m_describe_table_state s id) as St.
    destruct (m_describe_table path path_prims s id) as [a s']. cbn [snd] in St. subst s'.
    destruct (is_ok a); [reflexivity|]. destruct (_ && _); [rewrite dir_describe_state|]; reflexivity.
  - rewrite dir_describe_state. reflexivity.
  - (* list_tables *)
    destruct id as [|x r].
    + destruct (true && negb (negb (mode =? 1))); [unfold m_list; destruct (q_children _ _ _ _ _); reflexivity|].
      destruct (dead s); [reflexivity|]. destruct (q_children _ _ _ _ _); reflexivity.
    + unfold m_list; destruct (q_children _ _ _ _ _); reflexivity.
  - destruct id; reflexivity.
  - (* register_table *)
    unfold m_register. destruct id as [|x r]; [reflexivity|].
    destruct (contains_sub loc _); [reflexivity|]. destruct (starts_with loc _); [reflexivity|].
    destruct (contains_sub loc _); [reflexivity|].
    change (p_key_b path_prims (x :: r)) with (x :: r).
    destruct (check_levels _ _ _ _); [reflexivity|].
    destruct (q_contains _ _ _ _ _) as [[|]| |]; try reflexivity.
    destruct (q_insert path path_prims s (x :: r) true (Some loc)) as [rs| |] eqn:E; try reflexivity.
    cbn [snd set_rows rows]. eapply q_insert_lookup; eassumption.
  - reflexivity.
  - (* deregister_table *)
    unfold m_deregister. destruct id as [|x r]; [reflexivity|].
    change (p_key_b path_prims (x :: r)) with (x :: r).
    destruct (q_find _ _ _ _ _) as [[row|]| |]; try reflexivity.
    destruct (q_delete path path_prims s (x :: r)) as [rs| |] eqn:E; try reflexivity.
    cbn [snd set_rows rows]. eapply q_delete_lookup; eassumption.
  - reflexivity.
Qed.

(* ------------------------------------------------------------------ the invariant behind the frame theorem *)

Definition loc_ok_row (r : row path) : Prop := r_tab r = true -> loc_or_empty r <> [].

Lemma insert_locs : forall k t l rs rs', Forall loc_ok_row rs -> loc_ok_row ((k, t), l) ->
  a_insert k t l rs = Ok rs' -> Forall loc_ok_row rs'.
Proof.
  intros k t l rs rs' F Hr E. unfold a_insert in E. destruct (existsb _ rs); [discriminate|]. inversion E; subst.
  apply Forall_app. split; [exact F | constructor; [exact Hr | constructor]].
Qed.

Lemma delete_locs : forall k rs rs', Forall loc_ok_row rs -> a_delete k rs = Ok rs' -> Forall loc_ok_row rs'.
Proof.
  intros k rs rs' F E. unfold a_delete in E. inversion E; subst. rewrite Forall_forall in *.
  intros r Hr. apply filter_In in Hr as [Hr _]. apply F. exact Hr.
Qed.

Lemma q_insert_locs : forall s k t l rs', locs_ok s -> loc_ok_row ((k, t), l) ->
  q_insert path path_prims s k t l = Ok rs' -> Forall loc_ok_row rs'.
Proof. intros s k t l rs' F Hr E. unfold q_insert in E. destruct (dead s); [discriminate|]. eapply insert_locs; eassumption. Qed.

Lemma q_delete_locs : forall s k rs', locs_ok s -> q_delete path path_prims s k = Ok rs' -> Forall loc_ok_row rs'.
Proof. intros s k rs' F E. unfold q_delete in E. destruct (dead s); [discriminate|]. eapply delete_locs; eassumption. Qed.

Lemma dir_name_nonempty : forall dl id key s, dir_name path path_prims dl id key s <> [].
Proof.
  intros dl id key s. unfold dir_name. destruct ((length id =? 1)%nat && dl); [|discriminate].
  intro E. apply app_eq_nil in E as [_ E]. discriminate.
Qed.

Lemma locs_ok_step : forall mode s o, locs_ok s -> register_empty o = false ->
  locs_ok (snd (step path_prims mode s o)).
Proof.
  intros mode s o Hl Hr. unfold locs_ok in *.
  destruct o as [id|id|id|id|id tok lim|id|id|id|id|id|id tok lim|id loc|id]; cbn [step];
    destruct (negb (mode =? 0)).
  - unfold m_create_ns. destruct id as [|x r]; [exact Hl|].
    destruct (check_levels _ _ _ _); [exact Hl|].
    destruct (q_contains _ _ _ _ _) as [[|]| |]; try exact Hl.
    destruct (q_insert path path_prims s _ false None) as [rs| |] eqn:E; try exact Hl.
    cbn [snd set_rows rows]. eapply q_insert_locs; [exact Hl | | exact E]. intro T. discriminate.
  - destruct id; exact Hl.
  - unfold m_drop_ns. destruct id as [|x r]; [exact Hl|].
    destruct (q_contains _ _ _ _ _) as [[|]| |]; try exact Hl.
    destruct (q_has_desc _ _ _ _) as [[|]| |]; try exact Hl.
    destruct (q_delete path path_prims s _) as [rs| |] eqn:E; try exact Hl.
    cbn [snd set_rows rows]. eapply q_delete_locs; eassumption.
  - destruct id; exact Hl.
  - unfold m_describe_ns. destruct id; [exact Hl|]. destruct (q_find _ _ _ _ _) as [[?|]| |]; exact Hl.
  - destruct id; exact Hl.
  - unfold m_ns_exists. destruct id; [exact Hl|]. destruct (q_contains _ _ _ _ _) as [[|]| |]; exact Hl.
  - destruct id; exact Hl.
  - unfold m_list. destruct (q_children _ _ _ _ _); exact Hl.
  - destruct id; exact Hl.
  - unfold m_create_empty_table. destruct id as [|x r]; [exact Hl|].
    destruct (q_find _ _ _ _ _) as [[?|]| |]; try exact Hl.
    match goal with |- context [q_insert path path_prims ?s2 ?k ?t ?l] => destruct (q_insert path path_prims s2 k t l) as [rs| |] eqn:E end; try exact Hl.
    cbn [snd set_rows rows]. eapply q_insert_locs; [| | exact E]; [exact Hl|]. intros _. apply dir_name_nonempty.
  - destruct id as [|n [|y r]]; exact Hl.
  - unfold m_create_table. destruct id as [|x r]; [exact Hl|].
    destruct (q_contains _ _ _ _ _) as [[|]| |]; try exact Hl.
    destruct (d_has_dataset _ _); [exact Hl|].
    match goal with |- context [q_insert path path_prims ?s2 ?k ?t ?l] => destruct (q_insert path path_prims s2 k t l) as [rs| |] eqn:E end; try exact Hl.
    cbn [snd set_rows rows]. eapply q_insert_locs; [| | exact E]; [exact Hl|]. intros _. apply dir_name_nonempty.
  - destruct id as [|n [|y r]]; try exact Hl. destruct (d_has_dataset _ _); exact Hl.
  - unfold m_drop_table. destruct id as [|x r]; [exact Hl|].
    destruct (q_find _ _ _ _ _) as [[row|]| |]; try exact Hl.
    destruct (q_delete path path_prims s _) as [rs| |] eqn:E; try exact Hl.
    pose proof (q_delete_locs _ _ _ Hl E) as F.
    destruct (loc_or_empty row); [constructor|]. destruct (d_remove_under _ _); exact F.
  - destruct id as [|n [|y r]]; try exact Hl. destruct (d_remove_under _ _); exact Hl.
  - pose proof (m_table_exists_state s id) as St.
    destruct (m_table_exists path path_prims s id) as [a s']. cbn [snd] in St. subst s'.
    destruct (is_ok a); [exact Hl|]. destruct (_ && _); [rewrite dir_exists_state|]; exact Hl.
  - rewrite dir_exists_state. exact Hl.
  - pose proof (m_describe_table_state s id) as St.
    destruct (m_describe_table path path_prims s id) as [a s']. cbn [snd] in St. subst s'.
    destruct (is_ok a); [exact Hl|]. destruct (_ && _); [rewrite dir_describe_state|]; exact Hl.
  - rewrite dir_describe_state. exact Hl.
  - destruct id as [|x r].
    + destruct (true && negb (negb (mode =? 1))); [unfold m_list; destruct (q_children _ _ _ _ _); exact Hl|].
      destruct (dead s); [exact Hl|]. destruct (q_children _ _ _ _ _); exact Hl.
    + unfold m_list; destruct (q_children _ _ _ _ _); exact Hl.
  - destruct id; exact Hl.
  - unfold m_register. destruct id as [|x r]; [exact Hl|].
    destruct (contains_sub loc _); [exact Hl|]. destruct (starts_with loc _); [exact Hl|].
    destruct (contains_sub loc _); [exact Hl|].
    destruct (check_levels _ _ _ _); [exact Hl|].
    destruct (q_contains _ _ _ _ _) as [[|]| |]; try exact Hl.
    destruct (q_insert path path_prims s _ true (Some loc)) as [rs| |] eqn:E; try exact Hl.
    cbn [snd set_rows rows]. eapply q_insert_locs; [exact Hl | | exact E].
    intros _. cbn. destruct loc; [discriminate | discriminate].
  - exact Hl.
  - unfold m_deregister. destruct id as [|x r]; [exact Hl|].
    destruct (q_find _ _ _ _ _) as [[row|]| |]; try exact Hl.
    destruct (q_delete path path_prims s _) as [rs| |] eqn:E; try exact Hl.
    cbn [snd set_rows rows]. eapply q_delete_locs; eassumption.
  - exact Hl.
Qed.

Lemma locs_ok_run : forall mode ops s, locs_ok s -> existsb register_empty ops = false ->
  locs_ok (snd (run path_prims mode s ops)).
Proof.
  intros mode ops. induction ops as [|o r IH]; intros s Hl Hr; [exact Hl|].
  cbn [existsb] in Hr. apply orb_false_iff in Hr as [H1 H2]. cbn [run].
  pose proof (locs_ok_step mode s o Hl H1) as Hs. destruct (step path_prims mode s o) as [a s1]. cbn [snd] in Hs.
  specialize (IH (bump s1) Hs H2). destruct (run path_prims mode (bump s1) r) as [as_ s2]. exact IH.
Qed.

(* After any history without the class register_empty_location, an operation leaves the rows of every
   key other than its own id exactly as they were. *)
Theorem frame_run : forall mode ops o q,
  Known_C36_register_empty_location ops = false -> q <> op_id o ->
  let s := snd (run path_prims mode init ops) in
  lookup q (rows (snd (step path_prims mode s o))) = lookup q (rows s).
Proof.
  intros mode ops o q Hr Hq s. apply frame_step; [|exact Hq].
  apply locs_ok_run; [constructor | exact Hr].
Qed.

(* ------------------------------------------------------------------ what the typed map answers (manifest mode) *)

Lemma typed_table_exists : forall s id, dead s = false -> id <> [] ->
  fst (step typed_prims 1 s (OTableExists id)) = if holds true id (rows s) then ADone else AFail E_NS.
Proof.
  intros s id Hd Hid. destruct id as [|x r]; [contradiction|].
  cbn [step N.eqb negb]. change (1 =? 0) with false. change (1 =? 1) with true. cbn [negb andb].
  unfold m_table_exists, q_contains. rewrite Hd. cbn [p_contains typed_prims p_key_b].
  unfold t_contains, holds. destruct (existsb _ (rows s)); reflexivity.
Qed.

Lemma typed_ns_exists : forall s id, dead s = false -> id <> [] ->
  fst (step typed_prims 1 s (ONsExists id)) = if holds false id (rows s) then ADone else AFail E_NS.
Proof.
  intros s id Hd Hid. destruct id as [|x r]; [contradiction|].
  cbn [step]. change (1 =? 0) with false. cbn [negb].
  unfold m_ns_exists, q_contains. rewrite Hd. cbn [p_contains typed_prims p_key_j].
  unfold t_contains, holds. destruct (existsb _ (rows s)); reflexivity.
Qed.

(* the listing of a namespace: the last components of the keys whose parent it is *)
Lemma typed_list_tables : forall s id tok lim, dead s = false ->
  fst (step typed_prims 1 s (OListTables id tok lim)) =
  ANames (sort_names (map (fun r => last (r_key r) []) (filter (fun r => Bool.eqb (r_tab r) true && parent_is id (r_key r)) (rows s)))).
Proof.
  intros s id tok lim Hd. cbn [step]. change (1 =? 0) with false. change (1 =? 1) with true. cbn [negb andb].
  destruct id as [|x r]; unfold m_list, q_children; rewrite Hd; reflexivity.
Qed.

(* a table that has just been created exists; a table that has just been dropped does not *)
Lemma holds_insert : forall k t l rs rs', a_insert k t l rs = Ok rs' -> holds t k rs' = true.
Proof.
  intros k t l rs rs' E. unfold a_insert in E. destruct (existsb _ rs); [discriminate|]. inversion E; subst.
  unfold holds. rewrite existsb_app. cbn [existsb r_key r_tab fst snd]. rewrite path_eqb_refl, eqb_reflx. cbn.
  apply orb_true_r.
Qed.

Lemma holds_delete : forall k t rs rs', a_delete k rs = Ok rs' -> holds t k rs' = false.
Proof.
  intros k t rs rs' E. unfold a_delete in E. inversion E; subst. clear E. unfold holds.
  induction rs as [|r rs IH]; [reflexivity|]. cbn [filter].
  destruct (path_eqb (r_key r) k) eqn:K; cbn [negb]; [exact IH|]. cbn [existsb]. rewrite K. cbn [andb orb]. exact IH.
Qed.

Theorem create_then_exists : forall s id l v,
  fst (step typed_prims 1 s (OCreateEmptyTable id)) = ALoc l v ->
  fst (step typed_prims 1 (bump (snd (step typed_prims 1 s (OCreateEmptyTable id)))) (OTableExists id)) = ADone.
Proof.
  intros s id l v E. cbn [step] in *. change (1 =? 0) with false in *. change (1 =? 1) with true in *. cbn [negb andb] in *.
  unfold m_create_empty_table in *. destruct id as [|x r]; [discriminate|].
  destruct (q_find path typed_prims s true (p_key_b typed_prims (x :: r))) as [[row|]| |] eqn:F; try discriminate.
  match goal with H : context [q_insert path typed_prims ?s2 ?k ?t ?lc] |- _ => destruct (q_insert path typed_prims s2 k t lc) as [rs| |] eqn:I end; try discriminate.
  cbn [fst snd]. unfold q_insert in I. cbn [dead set_disk] in I.
  destruct (dead s) eqn:Hd; [discriminate|]. cbn [p_insert typed_prims] in I.
  unfold m_table_exists, q_contains. cbn [dead bump set_rows set_disk rows]. rewrite Hd.
  cbn [p_contains typed_prims p_key_b]. unfold t_contains.
  apply holds_insert in I. unfold holds in I. cbn [p_key_b typed_prims] in I. rewrite I. reflexivity.
Qed.

Theorem drop_then_gone : forall s id l v, locs_ok s ->
  fst (step typed_prims 1 s (ODropTable id)) = ALoc l v ->
  fst (step typed_prims 1 (bump (snd (step typed_prims 1 s (ODropTable id)))) (OTableExists id)) = AFail E_NS.
Proof.
  intros s id l v Hl E. cbn [step] in *. change (1 =? 0) with false in *. change (1 =? 1) with true in *. cbn [negb andb] in *.
  unfold m_drop_table in *. destruct id as [|x r]; [discriminate|].
  destruct (q_find path typed_prims s true (p_key_b typed_prims (x :: r))) as [[row|]| |] eqn:F; try discriminate.
  assert (Hloc : loc_or_empty row <> []) by (eapply (q_find_table_loc s _ row Hl); exact F).
  destruct (q_delete path typed_prims s (p_key_b typed_prims (x :: r))) as [rs| |] eqn:D; try discriminate.
  unfold q_delete in D. destruct (dead s) eqn:Hd; [discriminate|]. cbn [p_delete typed_prims] in D.
  destruct (loc_or_empty row) as [|c l']; [contradiction|].
  destruct (d_remove_under _ _); [|discriminate].
  cbn [fst snd]. unfold m_table_exists, q_contains. cbn [dead bump set_rows set_disk rows]. rewrite Hd.
  cbn [p_contains typed_prims p_key_b]. unfold t_contains.
  apply (holds_delete _ true) in D. unfold holds in D. cbn [p_key_b typed_prims] in D. rewrite D. reflexivity.
Qed.

(* ------------------------------------------------------------------ directories of storable names *)

Definition disk_safe (c : N) : bool := (NONCE0 <=? c) || ((c <? 128) && negb (part_invalid c)).
Definition disk_plain (s : str) : Prop := Forall (fun c => c <> SLASH /\ disk_safe c = true) s.

Lemma part_encode_char_safe : forall c, disk_safe c = true -> part_encode_char c = [c].
Proof.
  intros c H. unfold part_encode_char, disk_safe in *. destruct (NONCE0 <=? c); [reflexivity|].
  cbn [orb] in H. apply andb_true_iff in H as [H1 H2]. apply N.ltb_lt in H1.
  assert (E : (128 <=? c) = false) by (apply N.leb_gt; exact H1). rewrite E.
  apply negb_true_iff in H2. rewrite H2. reflexivity.
Qed.

Lemma flat_map_id : forall s, disk_plain s -> flat_map part_encode_char s = s.
Proof.
  induction s as [|c r IH]; intro H; [reflexivity|]. inversion H as [|? ? [_ Hc] Hr]; subst.
  cbn [flat_map]. rewrite (part_encode_char_safe c Hc), (IH Hr). reflexivity.
Qed.

Lemma disk_plain_noslash : forall s, disk_plain s -> has_char SLASH s = false.
Proof. intros s H. apply has_char_false_iff. eapply Forall_impl; [|exact H]. intros c [Hc _]. exact Hc. Qed.

(* a directory name without '/' that is not ".", ".." or empty is its own directory, whichever way it is resolved *)
Lemma plain_dir_faithful : forall s, disk_plain s -> s <> [] -> s <> [DOT] -> s <> DOTDOT ->
  child_key s = [s] /\ resolve_url s = [s] /\ resolve_plain s = [s].
Proof.
  intros s Hp Hne Hd Hdd.
  assert (E1 : str_eqb s [DOT] = false) by (apply str_eqb_neq; exact Hd).
  assert (E2 : str_eqb s DOTDOT = false) by (apply str_eqb_neq; exact Hdd).
  assert (E3 : str_eqb s [] = false) by (apply str_eqb_neq; exact Hne).
  assert (Hs : split_on SLASH s = [s]) by (apply split_on_nochar, disk_plain_noslash; exact Hp).
  assert (Hn : norm_segs [s] [] = [s]).
  { cbn [norm_segs]. rewrite E2, E1, E3. reflexivity. }
  split; [|split].
  - unfold child_key, part_encode. rewrite E1, E2, (flat_map_id s Hp). reflexivity.
  - unfold resolve_url. destruct s as [|c r]; [contradiction|].
    inversion Hp as [|? ? [Hc _] _]; subst. apply N.eqb_neq in Hc. rewrite Hc. rewrite Hs. exact Hn.
  - unfold resolve_plain. rewrite Hs. exact Hn.
Qed.

Lemma safe_char_disk : forall c, safe_char c = true -> c <> SLASH /\ disk_safe c = true.
Proof.
  intros c H. apply safe_char_facts in H as (_ & _ & H3 & _ & H5 & H6 & _). split; [exact H3|].
  unfold disk_safe. apply N.ltb_lt in H5. rewrite H5, H6. apply orb_true_r.
Qed.

Lemma storable_disk_plain : forall s, storable s = true -> disk_plain s.
Proof.
  intros s H. unfold storable in H. rewrite forallb_forall in H. apply Forall_forall.
  intros c Hc. apply safe_char_disk. apply H. exact Hc.
Qed.

(* root tables of directory / dual mode: `<name>.lance` *)
Theorem root_table_dir_faithful : forall n, storable n = true ->
  child_key (n ++ DOT_LANCE) = [n ++ DOT_LANCE] /\ resolve_url (n ++ DOT_LANCE) = [n ++ DOT_LANCE]
  /\ resolve_plain (n ++ DOT_LANCE) = [n ++ DOT_LANCE].
Proof.
  intros n Hn. apply plain_dir_faithful.
  - apply storable_disk_plain. rewrite storable_app, Hn. reflexivity.
  - intro E. apply app_eq_nil in E as [_ E]. discriminate.
  - intro E. apply (f_equal (@length N)) in E. rewrite app_length in E. cbn in E. lia.
  - intro E. apply (f_equal (@length N)) in E. rewrite app_length in E. cbn in E. lia.
Qed.

Lemma join_disk_plain : forall p, storable_path p = true -> disk_plain (join_dollar p).
Proof.
  induction p as [|x r IH]; intro H; [constructor|].
  unfold storable_path in H. cbn [forallb] in H. apply andb_true_iff in H as [Hx Hr].
  destruct r as [|y r'].
  - apply storable_disk_plain. exact Hx.
  - unfold join_dollar. rewrite join_with_cons2. apply Forall_app. split; [apply storable_disk_plain; exact Hx|].
    constructor; [split; [discriminate | reflexivity] | apply IH; exact Hr].
Qed.

(* hash-named directories: `<hash>_<object id>` *)
Theorem hashed_table_dir_faithful : forall k id, storable_path id = true ->
  let dn := (NONCE0 + k) :: USCORE :: join_dollar id in
  child_key dn = [dn] /\ resolve_url dn = [dn].
Proof.
  intros k id Hid dn.
  assert (Hk : disk_safe (NONCE0 + k) = true).
  { unfold disk_safe. assert (NONCE0 <=? NONCE0 + k = true) by (apply N.leb_le; lia). rewrite H. reflexivity. }
  assert (Hne : NONCE0 + k <> SLASH) by (unfold NONCE0, SLASH; lia).
  assert (Hd : NONCE0 + k <> DOT) by (unfold NONCE0, DOT; lia).
  destruct (plain_dir_faithful dn) as [A [B _]].
  - constructor; [split; assumption|]. constructor; [split; [discriminate | reflexivity]|]. apply join_disk_plain. exact Hid.
  - discriminate.
  - unfold dn. discriminate.
  - unfold dn, DOTDOT, USCORE. intro E. inversion E.
  - split; assumption.
Qed.

(* different tables get different directories *)
Lemma root_dir_injective : forall n m, n ++ DOT_LANCE = m ++ DOT_LANCE -> n = m.
Proof. intros n m E. apply app_inv_tail in E. exact E. Qed.

Lemma hashed_dir_injective : forall k k' p q, good_path p -> good_path q ->
  (NONCE0 + k) :: USCORE :: join_dollar p = (NONCE0 + k') :: USCORE :: join_dollar q -> k = k' /\ p = q.
Proof.
  intros k k' p q Gp Gq E. inversion E as [[E1 E2]]. split; [lia|].
  apply join_injective; try (apply good_nodollar; assumption); try (destruct Gp; assumption); try (destruct Gq; assumption).
Qed.
