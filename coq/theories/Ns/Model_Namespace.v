(* C36 - model of rust/lance-namespace-impls/src/dir.rs (DirectoryNamespace) and dir/manifest.rs
   (ManifestNamespace) in the three configurations
       mode 0 = directory only (manifest_enabled = false)
       mode 1 = manifest only  (manifest_enabled = true,  dir_listing_enabled = false)
       mode 2 = dual           (both enabled; the default).
   Executable definitions only (proofs: Ns/Proofs_Namespace*.v).

   Strings are lists of Unicode scalar values ([list N]).  Code points >= 0x110000 are *nonces*: the
   8-hex-digit random prefix of `generate_dir_name` (one fresh nonce per call; the harness prints it `#`).

   What is transcribed and what is trusted
     - transcribed: build_object_id / parse_object_id / split_object_id / str_object_id; every filter
       string of manifest.rs *as text*, i.e. the splice of a name between quotes is run through a model
       of the sqlparser tokenizer + the prefix parse of `Parser::parse_statement` ([lex_splice]); the
       children filter with its BYTE length used as a CHARACTER position; every operation of both
       namespaces branch for branch (section Skeleton); table_path / table_full_uri / construct_full_uri
       as functions from names to on-disk directories ([child_key]: object_store PathPart encoding,
       [resolve_url]: Url::join, [resolve_plain]: plain path concatenation); apply_pagination.
     - trusted (not modelled): the Lance table `__manifest` is a list of rows that a scan filters with
       the parsed predicate; merge_insert(WhenMatched::Fail) refuses an existing object_id; Dataset::write
       in Create mode fails iff the directory already holds a dataset; Dataset::open succeeds iff it
       does; object_store create / read_dir / remove_dir_all on a local directory.
   Declared domain of the string-level parts (what the harness generates): characters a-z A-Z 0-9, the
   punctuation of [safe_char], `_`, `$`, `'`, `/`, `.` and alphabetic non-ASCII characters; an id that contains
   `'` has a single component of at most 4 characters (longer spliced texts can close a dollar-quoted
   string, see [scan_out], and reach planner paths that are not modelled). *)
From LanceV Require Import Common.Base.
Local Open Scope N_scope.

Definition str := list N.
Definition str_eqb : str -> str -> bool := list_eqb N.eqb.
Definition path := list str.
Definition path_eqb : path -> path -> bool := list_eqb str_eqb.

Definition DOLLAR : N := 36.
Definition QUOTE : N := 39.
Definition DOT : N := 46.
Definition SLASH : N := 47.
Definition PCT : N := 37.
Definition USCORE : N := 95.
Definition HASHC : N := 35.
Definition LOWER_B : N := 98.
Definition NONCE0 : N := 1114112.                       (* 0x110000 *)
Definition DOT_LANCE : str := [46; 108; 97; 110; 99; 101].   (* ".lance" *)

(* ------------------------------------------------------------------ strings *)

Definition has_char (c : N) (s : str) : bool := existsb (N.eqb c) s.

Fixpoint starts_with (s p : str) : bool :=
  match p, s with
  | [], _ => true
  | _ :: _, [] => false
  | y :: p', x :: s' => (x =? y) && starts_with s' p'
  end.

(* starts_with(col, 'lit') reaches the scan as a LIKE pattern in which `_` is not escaped: an underscore of
   the literal matches any character *)
Fixpoint starts_with_like (s p : str) : bool :=
  match p, s with
  | [], _ => true
  | _ :: _, [] => false
  | y :: p', x :: s' => ((y =? 95) || (x =? y)) && starts_with_like s' p'
  end.

Fixpoint contains_sub (s sub : str) : bool :=
  starts_with s sub || match s with [] => false | _ :: r => contains_sub r sub end.

Definition ends_with (s suf : str) : bool := starts_with (rev s) (rev suf).

(* str::split(d): at least one piece *)
Fixpoint split_on (d : N) (s : str) : list str :=
  match s with
  | [] => [[]]
  | c :: r =>
      if c =? d then [] :: split_on d r
      else match split_on d r with
           | x :: xs => (c :: x) :: xs
           | [] => [[c]]
           end
  end.

(* [String].join(d) *)
Fixpoint join_with (d : N) (l : list str) : str :=
  match l with
  | [] => []
  | [x] => x
  | x :: r => x ++ d :: join_with d r
  end.

Definition utf8_len (c : N) : N :=
  if c <? 128 then 1 else if c <? 2048 then 2 else if c <? 65536 then 3 else 4.
Definition byte_len (s : str) : N := fold_right (fun c n => utf8_len c + n) 0 s.

Definition utf8_bytes (c : N) : list N :=
  if c <? 128 then [c]
  else if c <? 2048 then [192 + c / 64; 128 + c mod 64]
  else if c <? 65536 then [224 + c / 4096; 128 + (c / 64) mod 64; 128 + c mod 64]
  else [240 + c / 262144; 128 + (c / 4096) mod 64; 128 + (c / 64) mod 64; 128 + c mod 64].

Definition hex_digit (n : N) : N := if n <? 10 then 48 + n else 55 + n.     (* upper case *)
Definition pct_byte (b : N) : str := [PCT; hex_digit (b / 16); hex_digit (b mod 16)].

(* lexicographic order on code points = byte order of the UTF-8 encodings = Rust's String Ord *)
Fixpoint str_leb (a b : str) : bool :=
  match a, b with
  | [], _ => true
  | _ :: _, [] => false
  | x :: xs, y :: ys => if x <? y then true else if y <? x then false else str_leb xs ys
  end.
Definition str_ltb (a b : str) : bool := negb (str_leb b a).

Fixpoint insert_sorted (x : str) (l : list str) : list str :=
  match l with
  | [] => [x]
  | y :: r => if str_leb x y then x :: l else y :: insert_sorted x r
  end.
Definition sort_names (l : list str) : list str := fold_right insert_sorted [] l.

(* ------------------------------------------------------------------ object ids (manifest.rs) *)

Definition join_dollar : path -> str := join_with DOLLAR.

Definition build_object_id (ns : path) (name : str) : str :=
  match ns with
  | [] => name
  | _ => join_dollar ns ++ DOLLAR :: name
  end.

Definition parse_object_id (oid : str) : path * str :=
  let parts := split_on DOLLAR oid in (removelast parts, last parts []).

(* split_object_id (a table id, non-empty) and str_object_id *)
Definition split_object_id (id : path) : path * str := (removelast id, last id []).
Definition str_object_id (id : path) : str := join_dollar id.

(* ------------------------------------------------------------------ the spliced SQL text
   `format!("object_id = '{}'", s)` is tokenized as a whole by sqlparser (GenericDialect) and then
   `Parser::parse_statement` parses ONE statement and ignores what follows.  [str_body] reads a
   quote-delimited string whose opening quote has been consumed. *)

Inductive body :=
| BInside (content : str)                 (* the text ends inside the string *)
| BPending (content : str)                (* the text ends right after a quote: it pairs with the template's closing quote *)
| BClosed (content : str) (rest : str).   (* closed by a quote that is followed by [rest] (non-empty, does not start with a quote) *)

Fixpoint str_body (s : str) (acc : str) : body :=
  match s with
  | [] => BInside (rev acc)
  | c :: r =>
      if c =? QUOTE then
        match r with
        | [] => BPending (rev acc)
        | c2 :: r2 => if c2 =? QUOTE then str_body r2 (QUOTE :: acc) else BClosed (rev acc) r
        end
      else str_body r (c :: acc)
  end.

Definition is_ascii_alpha (c : N) : bool := ((65 <=? c) && (c <=? 90)) || ((97 <=? c) && (c <=? 122)).
Definition is_digit (c : N) : bool := (48 <=? c) && (c <=? 57).
(* char::is_alphabetic; non-ASCII characters of the declared domain are letters *)
Definition is_alphabetic (c : N) : bool := is_ascii_alpha c || ((128 <=? c) && (c <? NONCE0)).
(* GenericDialect::is_identifier_start / is_identifier_part *)
Definition is_ident_start (c : N) : bool := is_alphabetic c || (c =? USCORE) || (c =? HASHC) || (c =? 64).
Definition is_ident_part (c : N) : bool :=
  is_alphabetic c || is_digit c || (c =? 64) || (c =? DOLLAR) || (c =? HASHC) || (c =? USCORE).
(* the characters of a `$placeholder` *)
Definition is_placeholder_part (c : N) : bool := is_alphabetic c || is_digit c || (c =? USCORE).

Fixpoint drop_while (f : N -> bool) (s : str) : str :=
  match s with
  | [] => []
  | c :: r => if f c then drop_while f r else s
  end.

Inductive lexend := LErr | LOut | LIn.

(* Tokenize text that starts outside any string.  LIn: the text ends inside a quote-delimited string (the
   template's closing quote then closes it); LOut: it ends outside (the template's quote opens a string that
   is never closed: tokenizer error); LErr: tokenizer error.  `$$` / `$tag$` open a dollar-quoted string;
   within the declared domain it is never closed, so it is an error. *)
Fixpoint scan_out (fuel : nat) (s : str) : lexend :=
  match fuel with
  | O => LErr
  | S f =>
      match s with
      | [] => LOut
      | c :: r =>
          if c =? QUOTE then scan_in f r
          else if (c =? LOWER_B) && (match r with q :: _ => q =? QUOTE | [] => false end) then scan_in f (tl r)
          else if is_ident_start c then scan_out f (drop_while is_ident_part r)
          else if c =? DOLLAR then
            match r with
            | [] => LOut
            | d :: _ =>
                if d =? DOLLAR then LErr
                else match drop_while is_placeholder_part r with
                     | [] => LOut
                     | d' :: r' => if d' =? DOLLAR then LErr else scan_out f (d' :: r')
                     end
            end
          else if (c =? SLASH) || (c =? DOT) then scan_out f r
          else LErr
      end
  end
with scan_in (fuel : nat) (s : str) : lexend :=
  match fuel with
  | O => LErr
  | S f =>
      match str_body s [] with
      | BInside _ => LIn
      | BPending _ => LErr
      | BClosed _ rest => scan_out f rest
      end
  end.

Inductive splice :=
| SLit (l : str)     (* the splice is exactly one string literal *)
| SCut (l : str)     (* literal l, then a token that ends the expression: the rest of the statement is ignored *)
| SErr               (* tokenizer / parser / planner error *)
| SPanic.            (* Planner::value reaches `todo!()` (byte-string literal or placeholder operand) *)

(* first token after the literal *)
Definition after_literal (rest : str) : splice -> splice :=
  fun cut =>
  match rest with
  | [] => SErr
  | c :: r =>
      if c =? DOT then SErr                                   (* field access on a string: error *)
      else if c =? SLASH then
        match r with
        | [] => SErr
        | c2 :: r2 =>
            if c2 =? SLASH then SErr                          (* `//` DuckIntDiv: unsupported operator *)
            else if (c2 =? LOWER_B) && (match r2 with q :: _ => q =? QUOTE | [] => false end) then SPanic
            else if c2 =? DOLLAR then SPanic
            else SErr                                         (* Utf8 / Utf8, unknown column, parse error *)
        end
      else cut
  end.

Definition lex_splice (text : str) : splice :=
  match str_body text [] with
  | BInside l => SLit l
  | BPending _ => SErr
  | BClosed l rest =>
      match scan_out (S (S (length rest))) rest with
      | LIn => after_literal rest (SCut l)
      | _ => SErr
      end
  end.

(* ------------------------------------------------------------------ manifest rows and the queries *)

(* (key, is_table, location); K = str for the implementation model, K = path for the abstract map *)
Definition row (K : Type) : Type := (K * bool) * option str.
Definition r_key {K} (r : row K) : K := fst (fst r).
Definition r_tab {K} (r : row K) : bool := snd (fst r).
Definition r_loc {K} (r : row K) : option str := snd r.

(* The queries the operations are made of.  [intent] documents what the caller means by an existence
   check (Some true: a table, Some false: a namespace, None: anything); the code ignores it. *)
Record prims (K : Type) := {
  p_key_j : path -> K;        (* str_object_id / namespace_id.join("$") *)
  p_key_b : path -> K;        (* build_object_id (split_object_id id) *)
  p_text : K -> str;          (* the object id as text (hash directory names) *)
  p_contains : option bool -> K -> list (row K) -> outcome bool;            (* manifest_contains_object *)
  p_find : bool -> K -> list (row K) -> outcome (option (row K));           (* query_manifest_for_table / _namespace *)
  p_children : bool -> path -> list (row K) -> outcome (list str);          (* list_tables / list_namespaces filter *)
  p_has_desc : K -> list (row K) -> outcome bool;                           (* drop_namespace: starts_with(object_id, 'id$') *)
  p_insert : K -> bool -> option str -> list (row K) -> outcome (list (row K));   (* merge insert, WhenMatched::Fail *)
  p_delete : K -> list (row K) -> outcome (list (row K));                   (* delete_from_manifest *)
  p_root_locs : list (row K) -> list str                                    (* list_manifest_table_locations *)
}.
Arguments p_key_j {K}. Arguments p_key_b {K}. Arguments p_text {K}. Arguments p_contains {K}.
Arguments p_find {K}. Arguments p_children {K}. Arguments p_has_desc {K}. Arguments p_insert {K}.
Arguments p_delete {K}. Arguments p_root_locs {K}.

(* ---- implementation instance: keys are object-id strings, queries are SQL text *)

Definition s_contains (_ : option bool) (oid : str) (rs : list (row str)) : outcome bool :=
  match lex_splice oid with
  | SLit l | SCut l => Ok (existsb (fun r => str_eqb (r_key r) l) rs)
  | SErr => Err
  | SPanic => Panic
  end.

Definition one_row {K} (m : list (row K)) : outcome (option (row K)) :=
  match m with
  | _ :: _ :: _ => Err                       (* "Expected exactly 1 ..." *)
  | [r] => Ok (Some r)
  | [] => Ok None
  end.

(* `object_id = '<oid>' AND object_type = '<kind>'`: after a cut the type condition is not parsed *)
Definition s_find (tab : bool) (oid : str) (rs : list (row str)) : outcome (option (row str)) :=
  match lex_splice oid with
  | SLit l => one_row (filter (fun r => str_eqb (r_key r) l && Bool.eqb (r_tab r) tab) rs)
  | SCut l => one_row (filter (fun r => str_eqb (r_key r) l) rs)
  | SErr => Err
  | SPanic => Panic
  end.

(* SQL substring(s, k), 1-based character position k >= 1 *)
Definition sql_substring (s : str) (k : N) : str := skipn (N.to_nat (k - 1)) s.

Definition s_children (tab : bool) (id : path) (rs : list (row str)) : outcome (list str) :=
  match id with
  | [] =>
      Ok (map (fun r => snd (parse_object_id (r_key r)))
              (filter (fun r => Bool.eqb (r_tab r) tab && negb (has_char DOLLAR (r_key r))) rs))
  | _ =>
      let prefix := join_dollar id in
      match lex_splice (prefix ++ [DOLLAR]) with
      | SLit l =>
          let k := byte_len prefix + 2 in       (* prefix.len() + 2: bytes, used as a character position *)
          Ok (map (fun r => snd (parse_object_id (r_key r)))
                  (filter (fun r => Bool.eqb (r_tab r) tab && starts_with_like (r_key r) l
                                    && negb (has_char DOLLAR (sql_substring (r_key r) k))) rs))
      | SPanic => Panic
      | _ => Err                                 (* inside the call parentheses a cut is a parse error *)
      end
  end.

Definition s_has_desc (oid : str) (rs : list (row str)) : outcome bool :=
  match lex_splice (oid ++ [DOLLAR]) with
  | SLit l => Ok (existsb (fun r => starts_with_like (r_key r) l) rs)
  | SPanic => Panic
  | _ => Err
  end.

Definition s_insert (oid : str) (tab : bool) (loc : option str) (rs : list (row str)) : outcome (list (row str)) :=
  if existsb (fun r => str_eqb (r_key r) oid) rs then Err else Ok (rs ++ [((oid, tab), loc)]).

Definition s_delete (oid : str) (rs : list (row str)) : outcome (list (row str)) :=
  match lex_splice oid with
  | SLit l | SCut l => Ok (filter (fun r => negb (str_eqb (r_key r) l)) rs)
  | SErr => Err
  | SPanic => Panic
  end.

Definition loc_or_empty {K} (r : row K) : str := match r_loc r with Some l => l | None => [] end.

Definition s_root_locs (rs : list (row str)) : list str :=
  map loc_or_empty (filter (fun r => r_tab r && negb (has_char DOLLAR (r_key r))) rs).

Definition string_prims : prims str := {|
  p_key_j := str_object_id;
  p_key_b := fun id => let '(ns, name) := split_object_id id in build_object_id ns name;
  p_text := fun k => k;
  p_contains := s_contains;
  p_find := s_find;
  p_children := s_children;
  p_has_desc := s_has_desc;
  p_insert := s_insert;
  p_delete := s_delete;
  p_root_locs := s_root_locs |}.

(* ---- abstract instance: keys are paths (the finite map of the property) *)

Fixpoint is_prefix (p q : path) : bool :=
  match p, q with
  | [], _ => true
  | _ :: _, [] => false
  | x :: p', y :: q' => str_eqb x y && is_prefix p' q'
  end.
Definition strict_prefix (p q : path) : bool := is_prefix p q && (length p <? length q)%nat.
Definition parent_is (p q : path) : bool := match q with [] => false | _ => path_eqb (removelast q) p end.

Definition a_contains (_ : option bool) (k : path) (rs : list (row path)) : outcome bool :=
  Ok (existsb (fun r => path_eqb (r_key r) k) rs).
Definition a_find (tab : bool) (k : path) (rs : list (row path)) : outcome (option (row path)) :=
  one_row (filter (fun r => path_eqb (r_key r) k && Bool.eqb (r_tab r) tab) rs).
Definition a_children (tab : bool) (id : path) (rs : list (row path)) : outcome (list str) :=
  Ok (map (fun r => last (r_key r) []) (filter (fun r => Bool.eqb (r_tab r) tab && parent_is id (r_key r)) rs)).
Definition a_has_desc (k : path) (rs : list (row path)) : outcome bool :=
  Ok (existsb (fun r => strict_prefix k (r_key r)) rs).
Definition a_insert (k : path) (tab : bool) (loc : option str) (rs : list (row path)) : outcome (list (row path)) :=
  if existsb (fun r => path_eqb (r_key r) k) rs then Err else Ok (rs ++ [((k, tab), loc)]).
Definition a_delete (k : path) (rs : list (row path)) : outcome (list (row path)) :=
  Ok (filter (fun r => negb (path_eqb (r_key r) k)) rs).
Definition a_root_locs (rs : list (row path)) : list str :=
  map loc_or_empty (filter (fun r => r_tab r && (length (r_key r) =? 1)%nat) rs).

Definition path_prims : prims path := {|
  p_key_j := fun id => id;
  p_key_b := fun id => id;
  p_text := join_dollar;
  p_contains := a_contains;
  p_find := a_find;
  p_children := a_children;
  p_has_desc := a_has_desc;
  p_insert := a_insert;
  p_delete := a_delete;
  p_root_locs := a_root_locs |}.

(* ---- typed instance: like the abstract one, but an existence check honours its intent *)
Definition t_contains (intent : option bool) (k : path) (rs : list (row path)) : outcome bool :=
  Ok (existsb (fun r => path_eqb (r_key r) k
                        && match intent with Some t => Bool.eqb (r_tab r) t | None => true end) rs).

Definition typed_prims : prims path := {|
  p_key_j := fun id => id;
  p_key_b := fun id => id;
  p_text := join_dollar;
  p_contains := t_contains;
  p_find := a_find;
  p_children := a_children;
  p_has_desc := a_has_desc;
  p_insert := a_insert;
  p_delete := a_delete;
  p_root_locs := a_root_locs |}.

(* ------------------------------------------------------------------ directories on disk
   A directory is identified by its normalised path relative to the namespace root: a list of
   segments; leading ".." segments climb out of the root; [[0]] stands for "somewhere else"
   (Url::join of a name starting with '/'). *)

Definition dkey := list str.
Definition dkey_eqb : dkey -> dkey -> bool := list_eqb str_eqb.
Definition ABS_KEY : dkey := [[0]].
Definition DOTDOT : str := [46; 46].

(* object_store::path::parts INVALID: CONTROLS, '/', and the characters listed there *)
Definition part_invalid (c : N) : bool :=
  (c <? 32) || (c =? 127) || (c =? SLASH) || (c =? 92) || (c =? 123) || (c =? 94) || (c =? 125) || (c =? PCT)
  || (c =? 96) || (c =? 93) || (c =? 34) || (c =? 62) || (c =? 91) || (c =? 126) || (c =? 60) || (c =? HASHC)
  || (c =? 124) || (c =? 13) || (c =? 10) || (c =? 42) || (c =? 63).

Definition part_encode_char (c : N) : str :=
  if NONCE0 <=? c then [c]
  else if 128 <=? c then flat_map pct_byte (utf8_bytes c)
  else if part_invalid c then pct_byte c
  else [c].

(* PathPart::from(&str) *)
Definition part_encode (s : str) : str :=
  if str_eqb s [DOT] then [PCT; 50; 69]
  else if str_eqb s DOTDOT then [PCT; 50; 69; PCT; 50; 69]
  else flat_map part_encode_char s.

(* base_path.child(dir_name) *)
Definition child_key (dir_name : str) : dkey := [part_encode dir_name].

(* dot-segment normalisation (Url::join; PathAbs + the OS for plain paths); empty segments vanish on disk *)
Fixpoint norm_segs (segs : list str) (stack : list str) : dkey :=
  match segs with
  | [] => rev stack
  | s :: r =>
      if str_eqb s DOTDOT then
        match stack with
        | top :: st' => if str_eqb top DOTDOT then norm_segs r (DOTDOT :: stack) else norm_segs r st'
        | [] => norm_segs r [DOTDOT]
        end
      else if str_eqb s [DOT] || str_eqb s [] then norm_segs r stack
      else norm_segs r (s :: stack)
  end.

(* construct_full_uri: Url::join(root_url, dir_name), then the local path of that URL *)
Definition resolve_url (dir_name : str) : dkey :=
  match dir_name with
  | c :: _ => if c =? SLASH then ABS_KEY else norm_segs (split_on SLASH dir_name) []
  | [] => []
  end.

(* table_full_uri: format!("{}/{}.lance", root, name) used as a plain path *)
Definition resolve_plain (rel : str) : dkey := norm_segs (split_on SLASH rel) [].

(* location text of an answer: the directory relative to the root, nonces shown as '#' *)
Definition show_nonce (s : str) : str := map (fun c => if NONCE0 <=? c then HASHC else c) s.
Definition render_key (k : dkey) : str :=
  if dkey_eqb k ABS_KEY then [97; 98; 115] (* "abs" *) else show_nonce (join_with SLASH k).

(* (directory, (has .lance-reserved, holds a dataset)) *)
Definition disk := list (dkey * (bool * bool)).

Fixpoint d_get (k : dkey) (d : disk) : option (bool * bool) :=
  match d with
  | [] => None
  | (k', v) :: r => if dkey_eqb k' k then Some v else d_get k r
  end.
Fixpoint d_put (k : dkey) (v : bool * bool) (d : disk) : disk :=
  match d with
  | [] => [(k, v)]
  | (k', v') :: r => if dkey_eqb k' k then (k, v) :: r else (k', v') :: d_put k v r
  end.
Definition d_reserve (k : dkey) (d : disk) : disk :=
  match d_get k d with Some (_, ds) => d_put k (true, ds) d | None => d_put k (true, false) d end.
Definition d_has_dataset (k : dkey) (d : disk) : bool :=
  match d_get k d with Some (_, ds) => ds | None => false end.
Definition d_has_reserved (k : dkey) (d : disk) : bool :=
  match d_get k d with Some (rs, _) => rs | None => false end.
Definition d_write_dataset (k : dkey) (d : disk) : disk :=
  match d_get k d with Some (rs, _) => d_put k (rs, true) d | None => d_put k (false, true) d end.
Definition is_dprefix (k q : dkey) : bool := is_prefix k q.
(* read_dir(dir) is non-empty *)
Definition d_exists_under (k : dkey) (d : disk) : bool := existsb (fun e => is_dprefix k (fst e)) d.
(* remove_dir_all(dir): NotFound when nothing is there *)
Definition d_remove_under (k : dkey) (d : disk) : option disk :=
  if d_exists_under k d then Some (filter (fun e => negb (is_dprefix k (fst e))) d) else None.

Fixpoint dedup (l : list str) : list str :=
  match l with
  | [] => []
  | x :: r => if existsb (str_eqb x) r then dedup r else x :: dedup r
  end.

Definition strip_suffix (s suf : str) : str := firstn (length s - length suf)%nat s.

(* list_directory_tables: entries of the root directory that end with ".lance" *)
Definition dir_tables (d : disk) : list str :=
  let tops := dedup (flat_map (fun e => match fst e with
                                        | s :: _ => if str_eqb s DOTDOT || str_eqb s [0] then [] else [s]
                                        | [] => []
                                        end) d) in
  map (fun s => strip_suffix s DOT_LANCE) (filter (fun s => ends_with s DOT_LANCE) tops).

(* ------------------------------------------------------------------ apply_pagination (dir.rs) *)

Fixpoint drop_until_gt (t : str) (l : list str) : list str :=
  match l with
  | [] => []
  | x :: r => if str_ltb t x then l else drop_until_gt t r
  end.

Definition apply_pagination (names : list str) (tok : option str) (lim : option Z) : list str :=
  let s := sort_names names in
  let s1 := match tok with Some t => drop_until_gt t s | None => s end in
  match lim with
  | Some l => if (0 <=? l)%Z then firstn (Z.to_nat l) s1 else s1
  | None => s1
  end.

(* ------------------------------------------------------------------ operations and answers *)

Inductive op :=
| OCreateNs (id : path)
| ODropNs (id : path)
| ODescribeNs (id : path)
| ONsExists (id : path)
| OListNs (id : path) (tok : option str) (lim : option Z)
| OCreateEmptyTable (id : path)
| OCreateTable (id : path)
| ODropTable (id : path)
| OTableExists (id : path)
| ODescribeTable (id : path)
| OListTables (id : path) (tok : option str) (lim : option Z)
| ORegisterTable (id : path) (loc : str)
| ODeregisterTable (id : path).

Definition op_id (o : op) : path :=
  match o with
  | OCreateNs i | ODropNs i | ODescribeNs i | ONsExists i | OListNs i _ _ | OCreateEmptyTable i | OCreateTable i
  | ODropTable i | OTableExists i | ODescribeTable i | OListTables i _ _ | ORegisterTable i _ | ODeregisterTable i => i
  end.

Inductive answer :=
| ADone
| ANames (l : list str)
| ALoc (loc : str) (has_version : bool)
| AFail (kind : N)
| APanic.

Definition E_NS : N := 1.       (* Error::Namespace *)
Definition E_IO : N := 2.       (* Error::IO *)
Definition E_INV : N := 3.      (* Error::InvalidInput *)
Definition E_NOSUP : N := 4.    (* Error::NotSupported *)

Definition answer_eqb (a b : answer) : bool :=
  match a, b with
  | ADone, ADone => true
  | ANames x, ANames y => list_eqb str_eqb x y
  | ALoc x v, ALoc y w => str_eqb x y && Bool.eqb v w
  | AFail j, AFail k => j =? k
  | APanic, APanic => true
  | _, _ => false
  end.

(* the error kind is an implementation detail: the abstract answer only says "failed" *)
Definition abs_answer (a : answer) : answer := match a with AFail _ => AFail 0 | _ => a end.

Section Skeleton.
  Variable K : Type.
  Variable P : prims K.

  (* [dead]: the catalog directory has been removed (drop_table with an empty location); every manifest
     access then fails *)
  Record state := mkS { rows : list (row K); dsk : disk; nonce : N; dead : bool }.

  Definition init : state := mkS [] [] 0 false.

  Definition q_contains (s : state) (i : option bool) (k : K) : outcome bool :=
    if dead s then Err else p_contains P i k (rows s).
  Definition q_find (s : state) (t : bool) (k : K) : outcome (option (row K)) :=
    if dead s then Err else p_find P t k (rows s).
  Definition q_children (s : state) (t : bool) (id : path) : outcome (list str) :=
    if dead s then Err else p_children P t id (rows s).
  Definition q_has_desc (s : state) (k : K) : outcome bool :=
    if dead s then Err else p_has_desc P k (rows s).
  Definition q_insert (s : state) (k : K) (t : bool) (l : option str) : outcome (list (row K)) :=
    if dead s then Err else p_insert P k t l (rows s).
  Definition q_delete (s : state) (k : K) : outcome (list (row K)) :=
    if dead s then Err else p_delete P k (rows s).

  (* failure of a query: IO error, or the panic travels up *)
  Definition qfail {A} (o : outcome A) : answer := match o with Panic => APanic | _ => AFail E_IO end.

  Definition set_rows (s : state) (rs : list (row K)) : state := mkS rs (dsk s) (nonce s) (dead s).
  Definition set_disk (s : state) (d : disk) : state := mkS (rows s) d (nonce s) (dead s).

  (* validate_namespace_levels_exist: Some answer = the error *)
  Fixpoint check_levels (s : state) (levels : list path) : option answer :=
    match levels with
    | [] => None
    | l :: r =>
        match q_contains s (Some false) (p_key_j P l) with
        | Ok true => check_levels s r
        | Ok false => Some (AFail E_NS)
        | o => Some (qfail o)
        end
    end.
  Definition levels_of (ns : path) : list path := map (fun i => firstn i ns) (seq 1 (length ns)).

  (* directory name of a new table; the nonce of a state is the number of operations run so far, so the
     random hash of a directory created by the k-th operation is the code point NONCE0 + k *)
  Definition dir_name (dl : bool) (id : path) (key : K) (s : state) : str :=
    if (length id =? 1)%nat && dl then last id [] ++ DOT_LANCE
    else (NONCE0 + nonce s) :: USCORE :: p_text P key.
  Definition bump (s : state) : state := mkS (rows s) (dsk s) (nonce s + 1) (dead s).

  (* ---------------- ManifestNamespace *)

  Definition m_list (tab : bool) (s : state) (id : path) : answer * state :=
    match q_children s tab id with
    | Ok names => (ANames (sort_names names), s)       (* scan order is unspecified: canonical order *)
    | o => (qfail o, s)
    end.

  Definition m_describe_table (s : state) (id : path) : answer * state :=
    match id with
    | [] => (AFail E_INV, s)
    | _ =>
        match q_find s true (p_key_j P id) with
        | Ok (Some r) =>
            let uk := resolve_url (loc_or_empty r) in
            (ALoc (render_key uk) (d_has_dataset uk (dsk s)), s)
        | Ok None => (AFail E_NS, s)
        | o => (qfail o, s)
        end
    end.

  Definition m_table_exists (s : state) (id : path) : answer * state :=
    match id with
    | [] => (AFail E_INV, s)
    | _ =>
        match q_contains s (Some true) (p_key_b P id) with
        | Ok true => (ADone, s)
        | Ok false => (AFail E_NS, s)
        | o => (qfail o, s)
        end
    end.

  Definition m_create_table (dl : bool) (s : state) (id : path) : answer * state :=
    match id with
    | [] => (AFail E_INV, s)
    | _ =>
        let key := p_key_b P id in
        match q_contains s None key with
        | Ok true => (AFail E_IO, s)
        | Ok false =>
            let dn := dir_name dl id key s in
            let uk := resolve_url dn in
            if d_has_dataset uk (dsk s) then (AFail E_IO, s)              (* Dataset::write: already exists *)
            else
              let s2 := set_disk s (d_write_dataset uk (dsk s)) in
              match q_insert s2 key true (Some dn) with
              | Ok rs => (ALoc (render_key uk) true, set_rows s2 rs)
              | o => (qfail o, s2)
              end
        | o => (qfail o, s)
        end
    end.

  Definition m_drop_table (s : state) (id : path) : answer * state :=
    match id with
    | [] => (AFail E_INV, s)
    | _ =>
        let key := p_key_b P id in
        match q_find s true key with
        | Ok (Some r) =>
            match q_delete s key with
            | Ok rs =>
                let s1 := set_rows s rs in
                let loc := loc_or_empty r in
                match loc with
                | [] =>
                    (* base_path.child("") is the root itself: remove_dir_all removes the whole catalog *)
                    (ALoc (render_key (resolve_url loc)) false, mkS [] [] (nonce s1) true)
                | _ =>
                    match d_remove_under (child_key loc) (dsk s1) with
                    | Some d => (ALoc (render_key (resolve_url loc)) false, set_disk s1 d)
                    | None => (AFail E_NS, s1)
                    end
                end
            | o => (qfail o, s)
            end
        | Ok None => (AFail E_NS, s)
        | o => (qfail o, s)
        end
    end.

  Definition m_describe_ns (s : state) (id : path) : answer * state :=
    match id with
    | [] => (ADone, s)
    | _ =>
        match q_find s false (p_key_j P id) with
        | Ok (Some _) => (ADone, s)
        | Ok None => (AFail E_NS, s)
        | o => (qfail o, s)
        end
    end.

  Definition m_create_ns (s : state) (id : path) : answer * state :=
    match id with
    | [] => (AFail E_NS, s)
    | _ =>
        match check_levels s (levels_of (removelast id)) with
        | Some e => (e, s)
        | None =>
            let key := p_key_j P id in
            match q_contains s None key with
            | Ok true => (AFail E_NS, s)
            | Ok false =>
                match q_insert s key false None with
                | Ok rs => (ADone, set_rows s rs)
                | o => (qfail o, s)
                end
            | o => (qfail o, s)
            end
        end
    end.

  Definition m_drop_ns (s : state) (id : path) : answer * state :=
    match id with
    | [] => (AFail E_NS, s)
    | _ =>
        let key := p_key_j P id in
        match q_contains s (Some false) key with
        | Ok true =>
            match q_has_desc s key with
            | Ok true => (AFail E_NS, s)
            | Ok false =>
                match q_delete s key with
                | Ok rs => (ADone, set_rows s rs)
                | o => (qfail o, s)
                end
            | o => (qfail o, s)
            end
        | Ok false => (AFail E_NS, s)
        | o => (qfail o, s)
        end
    end.

  Definition m_ns_exists (s : state) (id : path) : answer * state :=
    match id with
    | [] => (ADone, s)
    | _ =>
        match q_contains s (Some false) (p_key_j P id) with
        | Ok true => (ADone, s)
        | Ok false => (AFail E_NS, s)
        | o => (qfail o, s)
        end
    end.

  Definition m_create_empty_table (dl : bool) (s : state) (id : path) : answer * state :=
    match id with
    | [] => (AFail E_INV, s)
    | _ =>
        let key := p_key_b P id in
        match q_find s true key with
        | Ok (Some _) => (AFail E_NS, s)
        | Ok None =>
            let dn := dir_name dl id key s in
            let s2 := set_disk s (d_reserve (child_key dn) (dsk s)) in        (* .lance-reserved *)
            match q_insert s2 key true (Some dn) with
            | Ok rs => (ALoc (render_key (resolve_url dn)) false, set_rows s2 rs)
            | o => (qfail o, s2)
            end
        | o => (qfail o, s)
        end
    end.

  Definition REG_TAG : str := [114; 58].     (* "r:" marks the raw location echoed by register_table *)

  Definition m_register (s : state) (id : path) (loc : str) : answer * state :=
    match id with
    | [] => (AFail E_INV, s)
    | _ =>
        if contains_sub loc [58; 47; 47] then (AFail E_INV, s)            (* "://" *)
        else if starts_with loc [SLASH] then (AFail E_INV, s)
        else if contains_sub loc DOTDOT then (AFail E_INV, s)
        else
          let key := p_key_b P id in
          match check_levels s (levels_of (removelast id)) with
          | Some e => (e, s)
          | None =>
              match q_contains s None key with
              | Ok true => (AFail E_NS, s)
              | Ok false =>
                  match q_insert s key true (Some loc) with
                  | Ok rs => (ALoc (REG_TAG ++ show_nonce loc) false, set_rows s rs)
                  | o => (qfail o, s)
                  end
              | o => (qfail o, s)
              end
          end
    end.

  Definition m_deregister (s : state) (id : path) : answer * state :=
    match id with
    | [] => (AFail E_INV, s)
    | _ =>
        let key := p_key_b P id in
        match q_find s true key with
        | Ok (Some r) =>
            match q_delete s key with
            | Ok rs => (ALoc (render_key (resolve_url (loc_or_empty r))) false, set_rows s rs)
            | o => (qfail o, s)
            end
        | Ok None => (AFail E_NS, s)
        | o => (qfail o, s)
        end
    end.

  (* ---------------- DirectoryNamespace *)

  Definition is_ok (a : answer) : bool := match a with AFail _ | APanic => false | _ => true end.

  Definition table_dir (name : str) : str := name ++ DOT_LANCE.

  Definition dir_describe (s : state) (id : path) : answer * state :=
    match id with
    | [name] =>
        let uk := resolve_plain (table_dir name) in
        let ck := child_key (table_dir name) in
        if negb (d_exists_under ck (dsk s)) then (AFail E_NS, s)
        else if d_has_dataset uk (dsk s) then (ALoc (render_key uk) true, s)
        else if d_has_reserved ck (dsk s) then (ALoc (render_key uk) false, s)
        else (AFail E_NS, s)
    | _ => (AFail E_NS, s)                  (* table_name_from_id *)
    end.

  Definition dir_exists (s : state) (id : path) : answer * state :=
    match id with
    | [name] => if d_exists_under (child_key (table_dir name)) (dsk s) then (ADone, s) else (AFail E_NS, s)
    | _ => (AFail E_NS, s)
    end.

  Definition step (mode : N) (s : state) (o : op) : answer * state :=
    let man := negb (mode =? 0) in          (* manifest_ns is Some *)
    let dl := negb (mode =? 1) in           (* dir_listing_enabled *)
    match o with
    | OListNs id _ _ =>
        if man then m_list false s id
        else match id with [] => (ANames [], s) | _ => (AFail E_NS, s) end
    | ODescribeNs id =>
        if man then m_describe_ns s id
        else match id with [] => (ADone, s) | _ => (AFail E_NS, s) end
    | OCreateNs id =>
        if man then m_create_ns s id
        else match id with [] => (AFail E_NS, s) | _ => (AFail E_NOSUP, s) end
    | ODropNs id =>
        if man then m_drop_ns s id
        else match id with [] => (AFail E_NS, s) | _ => (AFail E_NOSUP, s) end
    | ONsExists id =>
        if man then m_ns_exists s id
        else match id with [] => (ADone, s) | _ => (AFail E_NS, s) end
    | OListTables id tok lim =>
        match id with
        | _ :: _ => if man then m_list true s id else (AFail E_NOSUP, s)
        | [] =>
            if man && negb dl then m_list true s id
            else if man then
              (* manifest tables plus directory tables whose location is not in the manifest *)
              if dead s then (AFail E_IO, s)
              else
                let locs := p_root_locs P (rows s) in
                match q_children s true [] with
                | Ok mt =>
                    let extra := filter (fun t => negb (existsb (str_eqb (table_dir t)) locs)) (dir_tables (dsk s)) in
                    (ANames (apply_pagination (mt ++ extra) tok lim), s)
                | o => (qfail o, s)
                end
            else (ANames (apply_pagination (dir_tables (dsk s)) tok lim), s)
        end
    | ODescribeTable id =>
        if man then
          let '(a, s') := m_describe_table s id in
          if is_ok a then (a, s')
          else if dl && (length id =? 1)%nat && negb (match a with APanic => true | _ => false end) then dir_describe s id
          else (a, s')
        else dir_describe s id
    | OTableExists id =>
        if man then
          let '(a, s') := m_table_exists s id in
          if is_ok a then (a, s')
          else if dl && negb (match a with APanic => true | _ => false end) then dir_exists s id
          else (a, s')
        else dir_exists s id
    | ODropTable id =>
        if man then m_drop_table s id
        else match id with
             | [name] =>
                 match d_remove_under (child_key (table_dir name)) (dsk s) with
                 | Some d => (ALoc (render_key (resolve_plain (table_dir name))) false, set_disk s d)
                 | None => (AFail E_NS, s)
                 end
             | _ => (AFail E_NS, s)
             end
    | OCreateTable id =>
        if man then m_create_table dl s id
        else match id with
             | [name] =>
                 let uk := resolve_plain (table_dir name) in
                 if d_has_dataset uk (dsk s) then (AFail E_NS, s)
                 else (ALoc (render_key uk) true, set_disk s (d_write_dataset uk (dsk s)))
             | _ => (AFail E_NS, s)
             end
    | OCreateEmptyTable id =>
        if man then m_create_empty_table dl s id
        else match id with
             | [name] =>
                 (ALoc (render_key (resolve_plain (table_dir name))) false,
                  set_disk s (d_reserve (child_key (table_dir name)) (dsk s)))
             | _ => (AFail E_NS, s)
             end
    | ORegisterTable id loc => if man then m_register s id loc else (AFail E_NOSUP, s)
    | ODeregisterTable id => if man then m_deregister s id else (AFail E_NOSUP, s)
    end.

  Fixpoint run (mode : N) (s : state) (ops : list op) : list answer * state :=
    match ops with
    | [] => ([], s)
    | o :: r =>
        let '(a, s1) := step mode s o in
        let '(as_, s2) := run mode (bump s1) r in
        (a :: as_, s2)
    end.
End Skeleton.

Arguments rows {K}. Arguments dsk {K}. Arguments nonce {K}. Arguments dead {K}. Arguments mkS {K}.
Arguments init {K}. Arguments step {K}. Arguments run {K}. Arguments bump {K}.

(* the implementation model, the abstract map, the typed map *)
Definition impl_run (mode : N) (ops : list op) : list answer := fst (run string_prims mode init ops).
Definition map_run (mode : N) (ops : list op) : list answer := fst (run path_prims mode init ops).
Definition typed_run (mode : N) (ops : list op) : list answer := fst (run typed_prims mode init ops).

(* ------------------------------------------------------------------ storable names and the classes *)

(* characters that survive every encoding on the way to the disk and the SQL text unchanged *)
Definition safe_char (c : N) : bool :=
  is_ascii_alpha c || is_digit c
  || (c =? 33) || (c =? 38) || (c =? 40) || (c =? 41) || (c =? 43) || (c =? 44) || (c =? 45) || (c =? DOT)
  || (c =? 59) || (c =? 61) || (c =? 64).
  (* ! & ( ) + , - . ; = @      (not `_`: it is a LIKE wildcard in the prefix filters) *)
Definition storable (n : str) : bool := forallb safe_char n.
Definition storable_path (p : path) : bool := forallb storable p.
Definition storable_op (o : op) : bool := storable_path (op_id o).

Definition dq_char (c : N) : bool := (c =? DOLLAR) || (c =? QUOTE).
Definition Known_C36_delimiter_or_quote_in_name (ops : list op) : bool :=
  existsb (fun o => existsb (existsb dq_char) (op_id o)) ops.
Definition Known_C36_path_unsafe_name (ops : list op) : bool :=
  existsb (fun o => existsb (existsb (fun c => negb (safe_char c) && negb (dq_char c))) (op_id o)) ops.

(* sub-class of path_unsafe_name: `_` in a name (LIKE wildcard of the prefix filters) *)
Definition Known_C36_like_wildcard_in_name (ops : list op) : bool :=
  existsb (fun o => existsb (has_char USCORE) (op_id o)) ops.

(* an operation that addresses, as one kind of object, a key that holds the other kind *)
Definition holds (tab : bool) (k : path) (rs : list (row path)) : bool :=
  existsb (fun r => path_eqb (r_key r) k && Bool.eqb (r_tab r) tab) rs.
Definition confused (mode : N) (s : state path) (o : op) : bool :=
  if mode =? 0 then false
  else
    let rs := rows s in
    match o with
    | OTableExists id | OCreateEmptyTable id => holds false id rs
    | ONsExists id | ODropNs id => holds true id rs
    | OCreateNs id | ORegisterTable id _ => existsb (fun l => holds true l rs) (levels_of (removelast id))
    | _ => false
    end.
Fixpoint confused_run (mode : N) (s : state path) (ops : list op) : bool :=
  match ops with
  | [] => false
  | o :: r => confused mode s o || confused_run mode (bump (snd (step typed_prims mode s o))) r
  end.
Definition Known_C36_kind_confusion (mode : N) (ops : list op) : bool := confused_run mode init ops.

(* dual mode: register_table of a root name whose directory `<name>.lance` exists, at another location:
   the listing then shows the name twice (manifest entry + directory, de-duplicated by location only) *)
Definition shadows (mode : N) (s : state path) (o : op) : bool :=
  (mode =? 2) &&
  match o with
  | ORegisterTable [n] loc =>
      d_exists_under (child_key (n ++ DOT_LANCE)) (dsk s) && negb (str_eqb loc (n ++ DOT_LANCE))
  | _ => false
  end.
Fixpoint shadows_run (mode : N) (s : state path) (ops : list op) : bool :=
  match ops with
  | [] => false
  | o :: r => shadows mode s o || shadows_run mode (bump (snd (step typed_prims mode s o))) r
  end.
Definition Known_C36_dual_listing_duplicate_name (mode : N) (ops : list op) : bool := shadows_run mode init ops.

(* register_table with an empty location: a later drop_table removes base_path.child("") = the whole catalog *)
Definition register_empty (o : op) : bool :=
  match o with ORegisterTable _ [] => true | _ => false end.
Definition Known_C36_register_empty_location (ops : list op) : bool := existsb register_empty ops.

(* listings served by the manifest ignore page_token and limit *)
Definition paging_ignored (mode : N) (o : op) : bool :=
  match o with
  | OListNs _ tok lim => negb (mode =? 0) && (match tok with Some _ => true | None => false end || match lim with Some _ => true | None => false end)
  | OListTables id tok lim =>
      negb (mode =? 0) && (match id with [] => mode =? 1 | _ => true end)
      && (match tok with Some _ => true | None => false end || match lim with Some _ => true | None => false end)
  | _ => false
  end.
Definition Known_C36_manifest_listing_ignores_paging (mode : N) (ops : list op) : bool := existsb (paging_ignored mode) ops.

(* ------------------------------------------------------------------ correspondence checkers *)

Definition chk_ops (i : N * list op) (o : list answer) : bool :=
  list_eqb answer_eqb (impl_run (fst i) (snd i)) o.

(* the filter templates on the table that holds every string of length <= 3 over the alphabet, once as a
   table row and once as a namespace row *)
Definition ALPHABET : str := [97; 98; 36; 39; 46; 47; 233].
Fixpoint strings_upto (n : nat) : list str :=
  match n with
  | O => [[]]
  | S m =>
      let prev := strings_upto m in
      [] :: flat_map (fun s => map (fun c => c :: s) ALPHABET) prev
  end.
Definition universe : list (row str) :=
  flat_map (fun s => [((s, true), None); ((s, false), None)]) (strings_upto 3).

Definition sel (f : row str -> bool) : list (str * bool) := map (fun r => (r_key r, r_tab r)) (filter f universe).

Definition filter_rows (t : N) (s : str) : outcome (list (str * bool)) :=
  match t with
  | 1 => match lex_splice s with
         | SLit l | SCut l => Ok (sel (fun r => str_eqb (r_key r) l))
         | SErr => Err | SPanic => Panic end
  | 2 | 5 => let tab := t =? 2 in
         match lex_splice s with
         | SLit l => Ok (sel (fun r => str_eqb (r_key r) l && Bool.eqb (r_tab r) tab))
         | SCut l => Ok (sel (fun r => str_eqb (r_key r) l))
         | SErr => Err | SPanic => Panic end
  | 3 => match lex_splice (s ++ [DOLLAR]) with
         | SLit l => Ok (sel (fun r => r_tab r && starts_with_like (r_key r) l
                                       && negb (has_char DOLLAR (sql_substring (r_key r) (byte_len s + 2)))))
         | _ => Err end
  | _ => match lex_splice (s ++ [DOLLAR]) with
         | SLit l => Ok (sel (fun r => starts_with_like (r_key r) l))
         | _ => Err end
  end.

Definition key_leb (a b : str * bool) : bool :=
  if str_eqb (fst a) (fst b) then implb (snd a) (snd b) else str_leb (fst a) (fst b).
Fixpoint kinsert (x : str * bool) (l : list (str * bool)) :=
  match l with [] => [x] | y :: r => if key_leb x y then x :: l else y :: kinsert x r end.
Definition ksort (l : list (str * bool)) := fold_right kinsert [] l.

(* the harness sorts the selected rows by (object_id bytes, is_table) *)
Definition chk_filter (i : N * str) (o : outcome (list (str * bool))) : bool :=
  outcome_eqb (list_eqb (pair_eqb str_eqb Bool.eqb))
    (match filter_rows (fst i) (snd i) with Ok l => Ok (ksort l) | Err => Err | Panic => Panic end) o.

Definition chk_paginate (i : (list str * option str) * option Z) (o : list str) : bool :=
  list_eqb str_eqb (apply_pagination (fst (fst i)) (snd (fst i)) (snd i)) o.
