(* C36 - string-level lemmas about Ns/Model_Namespace.v: object ids (join / split on `$`), the spliced SQL
   literal, prefix filters, on-disk locations of storable names, pagination. *)
From LanceV Require Import Common.Base Ns.Model_Namespace.
From Coq Require Import Sorting.Sorted Sorting.Permutation.
Local Open Scope N_scope.

(* ------------------------------------------------------------------ equality tests *)

Lemma str_eqb_eq : forall a b : str, str_eqb a b = true <-> a = b.
Proof. apply list_eqb_eq. intros x y. apply N.eqb_eq. Qed.

Lemma str_eqb_refl : forall a, str_eqb a a = true.
Proof. intro a. apply str_eqb_eq. reflexivity. Qed.

Lemma str_eqb_neq : forall a b : str, str_eqb a b = false <-> a <> b.
Proof.
  intros a b. split.
  - intros H E. apply str_eqb_eq in E. congruence.
  - intro H. destruct (str_eqb a b) eqn:E; [apply str_eqb_eq in E; contradiction | reflexivity].
Qed.

Lemma path_eqb_eq : forall a b : path, path_eqb a b = true <-> a = b.
Proof. apply list_eqb_eq. apply str_eqb_eq. Qed.

Lemma path_eqb_refl : forall a, path_eqb a a = true.
Proof. intro a. apply path_eqb_eq. reflexivity. Qed.

Lemma path_eqb_neq : forall a b : path, path_eqb a b = false <-> a <> b.
Proof.
  intros a b. split.
  - intros H E. apply path_eqb_eq in E. congruence.
  - intro H. destruct (path_eqb a b) eqn:E; [apply path_eqb_eq in E; contradiction | reflexivity].
Qed.

(* ------------------------------------------------------------------ characters of storable names *)

Definition nodollar (s : str) : Prop := has_char DOLLAR s = false.
Definition noquote (s : str) : Prop := has_char QUOTE s = false.

Lemma has_char_app : forall c a b, has_char c (a ++ b) = has_char c a || has_char c b.
Proof. intros. unfold has_char. apply existsb_app. Qed.

Lemma has_char_false_iff : forall c s, has_char c s = false <-> Forall (fun x => x <> c) s.
Proof.
  intros c s. unfold has_char. induction s as [|x s IH]; cbn [existsb].
  - split; [constructor | reflexivity].
  - rewrite orb_false_iff, IH. split.
    + intros [H1 H2]. constructor; [|exact H2]. intro E. subst. rewrite N.eqb_refl in H1. discriminate.
    + intro H. inversion H as [|? ? Hx Hs]; subst. split; [|exact Hs].
      destruct (N.eqb_spec c x); [subst; contradiction | reflexivity].
Qed.

Lemma safe_char_facts : forall c, safe_char c = true ->
  c <> DOLLAR /\ c <> QUOTE /\ c <> SLASH /\ c <> PCT /\ c < 128 /\ part_invalid c = false /\ c <> USCORE.
Proof.
  intros c H. unfold safe_char, is_ascii_alpha, is_digit, DOT, USCORE in H.
  unfold DOLLAR, QUOTE, SLASH, PCT, part_invalid, SLASH, PCT, HASHC, USCORE.
  repeat rewrite orb_true_iff in H. repeat rewrite andb_true_iff in H.
  repeat rewrite N.leb_le in H. repeat rewrite N.eqb_eq in H.
  assert (Hc : (65 <= c <= 90) \/ (97 <= c <= 122) \/ (48 <= c <= 57) \/ c = 33 \/ c = 38 \/ c = 40 \/ c = 41
               \/ c = 43 \/ c = 44 \/ c = 45 \/ c = 46 \/ c = 59 \/ c = 61 \/ c = 64) by tauto.
  clear H.
  repeat split; lia.
Qed.

Lemma storable_nodollar : forall s, storable s = true -> nodollar s.
Proof.
  intros s H. apply has_char_false_iff. unfold storable in H. rewrite forallb_forall in H.
  apply Forall_forall. intros x Hx E. subst. apply H in Hx. apply safe_char_facts in Hx. tauto.
Qed.

Lemma storable_noquote : forall s, storable s = true -> noquote s.
Proof.
  intros s H. apply has_char_false_iff. unfold storable in H. rewrite forallb_forall in H.
  apply Forall_forall. intros x Hx E. subst. apply H in Hx. apply safe_char_facts in Hx. tauto.
Qed.

Lemma storable_app : forall a b, storable (a ++ b) = storable a && storable b.
Proof. intros. unfold storable. apply forallb_app. Qed.

(* ------------------------------------------------------------------ split / join on `$` *)

Lemma split_on_nonempty : forall d s, split_on d s <> [].
Proof.
  intros d s. induction s as [|c r IH]; cbn [split_on]; [discriminate|].
  destruct (c =? d); [discriminate|]. destruct (split_on d r); discriminate.
Qed.

Lemma split_on_nochar : forall d s, has_char d s = false -> split_on d s = [s].
Proof.
  intros d s. induction s as [|c r IH]; intro H; cbn [split_on]; [reflexivity|].
  unfold has_char in H. cbn [existsb] in H. apply orb_false_iff in H as [H1 H2].
  rewrite N.eqb_sym in H1. rewrite H1. rewrite (IH H2). reflexivity.
Qed.

Lemma split_on_app_nochar : forall d a b, has_char d a = false ->
  split_on d (a ++ d :: b) = a :: split_on d b.
Proof.
  intros d a b. induction a as [|c r IH]; intro H; cbn [app split_on].
  - rewrite N.eqb_refl. reflexivity.
  - unfold has_char in H. cbn [existsb] in H. apply orb_false_iff in H as [H1 H2].
    rewrite N.eqb_sym in H1. rewrite H1. rewrite (IH H2). reflexivity.
Qed.

Lemma join_with_cons2 : forall d x y r, join_with d (x :: y :: r) = x ++ d :: join_with d (y :: r).
Proof. reflexivity. Qed.

Lemma split_join : forall l, l <> [] -> Forall nodollar l -> split_on DOLLAR (join_dollar l) = l.
Proof.
  induction l as [|x r IH]; intros Hne Hl; [contradiction|].
  inversion Hl as [|? ? Hx Hr]; subst.
  destruct r as [|y r'].
  - cbn. apply split_on_nochar. exact Hx.
  - unfold join_dollar in *. rewrite join_with_cons2.
    rewrite split_on_app_nochar by exact Hx. f_equal. apply IH; [discriminate | exact Hr].
Qed.

Lemma join_app : forall a b, a <> [] -> b <> [] ->
  join_dollar (a ++ b) = join_dollar a ++ DOLLAR :: join_dollar b.
Proof.
  induction a as [|x r IH]; intros b Ha Hb; [contradiction|].
  destruct r as [|y r'].
  - cbn [app]. destruct b as [|z b']; [contradiction|]. reflexivity.
  - change ((x :: y :: r') ++ b) with (x :: (y :: r') ++ b).
    unfold join_dollar in *. cbn [app]. rewrite !join_with_cons2.
    change (y :: r' ++ b) with ((y :: r') ++ b).
    rewrite (IH b) by (try discriminate; exact Hb). rewrite <- app_assoc. reflexivity.
Qed.

Lemma build_is_join : forall ns name, build_object_id ns name = join_dollar (ns ++ [name]).
Proof.
  intros ns name. unfold build_object_id. destruct ns as [|x r]; [reflexivity|].
  rewrite join_app by discriminate. reflexivity.
Qed.

(* build_object_id (split_object_id id) = str_object_id id *)
Lemma build_split : forall id, id <> [] ->
  (let '(ns, name) := split_object_id id in build_object_id ns name) = str_object_id id.
Proof.
  intros id H. unfold split_object_id, str_object_id. rewrite build_is_join.
  rewrite <- app_removelast_last by exact H. reflexivity.
Qed.

Lemma removelast_snoc : forall (A : Type) (l : list A) x, removelast (l ++ [x]) = l.
Proof. intros. apply removelast_last. Qed.

Lemma last_snoc : forall (A : Type) (l : list A) x d, last (l ++ [x]) d = x.
Proof. intros. apply last_last. Qed.

Lemma parse_build : forall ns name, Forall nodollar ns -> nodollar name ->
  parse_object_id (build_object_id ns name) = (ns, name).
Proof.
  intros ns name Hns Hn. unfold parse_object_id. rewrite build_is_join.
  rewrite split_join.
  - rewrite removelast_snoc, last_snoc. reflexivity.
  - destruct ns; discriminate.
  - apply Forall_app. split; [exact Hns | constructor; [exact Hn | constructor]].
Qed.

Lemma build_injective : forall ns name ns' name',
  Forall nodollar ns -> nodollar name -> Forall nodollar ns' -> nodollar name' ->
  build_object_id ns name = build_object_id ns' name' -> ns = ns' /\ name = name'.
Proof.
  intros ns name ns' name' H1 H2 H3 H4 E.
  pose proof (parse_build ns name H1 H2) as A. pose proof (parse_build ns' name' H3 H4) as B.
  rewrite E in A. rewrite A in B. inversion B. split; reflexivity.
Qed.

Lemma join_injective : forall p q, p <> [] -> q <> [] -> Forall nodollar p -> Forall nodollar q ->
  join_dollar p = join_dollar q -> p = q.
Proof.
  intros p q Hp Hq Fp Fq E. rewrite <- (split_join p Hp Fp), <- (split_join q Hq Fq), E. reflexivity.
Qed.

Lemma has_dollar_join : forall l, l <> [] -> Forall nodollar l ->
  has_char DOLLAR (join_dollar l) = (1 <? length l)%nat.
Proof.
  intros l Hne Hl. destruct l as [|x r]; [contradiction|]. inversion Hl as [|? ? Hx Hr]; subst.
  destruct r as [|y r'].
  - cbn. exact Hx.
  - unfold join_dollar. rewrite join_with_cons2, has_char_app. unfold has_char at 2. cbn [existsb].
    rewrite N.eqb_refl. rewrite orb_true_r. reflexivity.
Qed.

(* ------------------------------------------------------------------ prefixes *)

Lemma starts_with_nil : forall s, starts_with s [] = true.
Proof. destruct s; reflexivity. Qed.

Lemma starts_with_app : forall p r, starts_with (p ++ r) p = true.
Proof.
  induction p as [|c p IH]; intro r; cbn [app]; [apply starts_with_nil|].
  cbn [starts_with]. rewrite N.eqb_refl. apply IH.
Qed.

Lemma starts_with_iff : forall s p, starts_with s p = true <-> exists r, s = p ++ r.
Proof.
  intros s p. revert s. induction p as [|c p IH]; intro s.
  - rewrite starts_with_nil. split; [intros _; exists s; reflexivity | reflexivity].
  - destruct s as [|x s]; cbn [starts_with].
    + split; [discriminate | intros [r E]; discriminate].
    + rewrite andb_true_iff, N.eqb_eq, IH. split.
      * intros [E [r Er]]. subst. exists r. reflexivity.
      * intros [r E]. inversion E; subst. split; [reflexivity | exists r; reflexivity].
Qed.

Lemma starts_with_like_plain : forall s p, has_char USCORE p = false -> starts_with_like s p = starts_with s p.
Proof.
  intros s p. revert s. induction p as [|y p IH]; intros s H; [destruct s; reflexivity|].
  unfold has_char in H. cbn [existsb] in H. apply orb_false_iff in H as [H1 H2].
  destruct s as [|x s]; [reflexivity|]. cbn [starts_with_like starts_with].
  change (y =? 95) with (y =? USCORE). rewrite N.eqb_sym, H1. cbn [orb]. rewrite (IH s H2). reflexivity.
Qed.

Lemma storable_nouscore : forall s, storable s = true -> has_char USCORE s = false.
Proof.
  intros s H. apply has_char_false_iff. unfold storable in H. rewrite forallb_forall in H.
  apply Forall_forall. intros x Hx E. subst. apply H in Hx. apply safe_char_facts in Hx. tauto.
Qed.

Lemma is_prefix_iff : forall p q, is_prefix p q = true <-> exists t, q = p ++ t.
Proof.
  induction p as [|x p IH]; intro q.
  - cbn. split; [intros _; exists q; reflexivity | reflexivity].
  - destruct q as [|y q]; cbn [is_prefix].
    + split; [discriminate | intros [t E]; discriminate].
    + rewrite andb_true_iff, str_eqb_eq, IH. split.
      * intros [E [t Et]]. subst. exists t. reflexivity.
      * intros [t E]. inversion E; subst. split; [reflexivity | exists t; reflexivity].
Qed.

Lemma strict_prefix_iff : forall p q, strict_prefix p q = true <-> exists t, t <> [] /\ q = p ++ t.
Proof.
  intros p q. unfold strict_prefix. rewrite andb_true_iff, is_prefix_iff, Nat.ltb_lt. split.
  - intros [[t E] L]. subst. exists t. split; [|reflexivity]. intro; subst. rewrite app_nil_r in L. lia.
  - intros [t [Ht E]]. subst. split; [exists t; reflexivity|]. rewrite app_length.
    destruct t; [contradiction | cbn; lia].
Qed.

Lemma parent_is_iff : forall p q, parent_is p q = true <-> exists x, q = p ++ [x].
Proof.
  intros p q. unfold parent_is. destruct q as [|y q'].
  - split; [discriminate | intros [x E]; destruct p; discriminate].
  - rewrite path_eqb_eq. split.
    + intro E. exists (last (y :: q') []). rewrite <- E. apply app_removelast_last. discriminate.
    + intros [x E]. rewrite E. apply removelast_snoc.
Qed.

(* a joined path starts with `join p ++ "$"` exactly when p is a proper prefix of it *)
Lemma split_on_app_gen : forall d a b,
  split_on d (a ++ d :: b) = removelast (split_on d a) ++ [last (split_on d a) []] ++ split_on d b.
Proof.
  intros d a b. induction a as [|c r IH]; cbn [app split_on].
  - rewrite N.eqb_refl. reflexivity.
  - destruct (c =? d) eqn:E.
    + rewrite IH. pose proof (split_on_nonempty d r) as Hne.
      destruct (split_on d r) as [|x xs] eqn:Es; [contradiction|]. reflexivity.
    + rewrite IH. pose proof (split_on_nonempty d r) as Hne.
      destruct (split_on d r) as [|x xs] eqn:Es; [contradiction|].
      destruct xs as [|x2 xs']; reflexivity.
Qed.

Lemma split_on_app_full : forall d a b, split_on d (a ++ d :: b) = split_on d a ++ split_on d b.
Proof.
  intros d a b. rewrite split_on_app_gen. rewrite app_assoc.
  rewrite <- app_removelast_last by apply split_on_nonempty. reflexivity.
Qed.

Lemma starts_with_join : forall p q, p <> [] -> q <> [] -> Forall nodollar p -> Forall nodollar q ->
  starts_with (join_dollar q) (join_dollar p ++ [DOLLAR]) = strict_prefix p q.
Proof.
  intros p q Hp Hq Fp Fq.
  destruct (strict_prefix p q) eqn:E.
  - apply strict_prefix_iff in E as [t [Ht Eq]]. subst q.
    rewrite join_app by assumption.
    replace (join_dollar p ++ DOLLAR :: join_dollar t) with ((join_dollar p ++ [DOLLAR]) ++ join_dollar t)
      by (rewrite <- app_assoc; reflexivity).
    apply starts_with_app.
  - destruct (starts_with (join_dollar q) (join_dollar p ++ [DOLLAR])) eqn:S; [|reflexivity].
    apply starts_with_iff in S as [r Er]. rewrite <- app_assoc in Er. cbn [app] in Er.
    assert (Hs : q = p ++ split_on DOLLAR r).
    { rewrite <- (split_join q Hq Fq), Er, split_on_app_full, (split_join p Hp Fp). reflexivity. }
    assert (Hx : strict_prefix p q = true).
    { apply strict_prefix_iff. exists (split_on DOLLAR r). split; [apply split_on_nonempty | exact Hs]. }
    congruence.
Qed.

Lemma skipn_app_exact : forall (A : Type) (a b : list A), skipn (length a) (a ++ b) = b.
Proof. intros A a b. induction a as [|x a IH]; cbn; [reflexivity | exact IH]. Qed.

(* ------------------------------------------------------------------ the spliced literal *)

Lemma str_body_noquote : forall s acc, noquote s -> str_body s acc = BInside (rev acc ++ s).
Proof.
  induction s as [|c r IH]; intros acc H; cbn [str_body].
  - rewrite app_nil_r. reflexivity.
  - unfold noquote, has_char in H. cbn [existsb] in H. apply orb_false_iff in H as [H1 H2].
    rewrite N.eqb_sym in H1. rewrite H1. rewrite IH by exact H2. cbn [rev]. rewrite <- app_assoc. reflexivity.
Qed.

Lemma lex_splice_noquote : forall s, noquote s -> lex_splice s = SLit s.
Proof. intros s H. unfold lex_splice. rewrite str_body_noquote by exact H. reflexivity. Qed.

Lemma noquote_app : forall a b, noquote a -> noquote b -> noquote (a ++ b).
Proof. intros a b Ha Hb. unfold noquote in *. rewrite has_char_app, Ha, Hb. reflexivity. Qed.

Lemma noquote_join : forall l, Forall noquote l -> noquote (join_dollar l).
Proof.
  induction l as [|x r IH]; intro H; [reflexivity|]. inversion H as [|? ? Hx Hr]; subst.
  destruct r as [|y r'].
  - exact Hx.
  - unfold join_dollar. rewrite join_with_cons2. apply noquote_app; [exact Hx|].
    unfold noquote, has_char. cbn [existsb]. change (existsb (N.eqb QUOTE) (join_with DOLLAR (y :: r')))
      with (has_char QUOTE (join_dollar (y :: r'))). rewrite (IH Hr). reflexivity.
Qed.

(* a spliced quote changes the literal: the witness used by the refutation *)
Lemma lex_splice_quote_cut : lex_splice [97; 39; 36; 39; 98] = SCut [97].
Proof. vm_compute. reflexivity. Qed.

(* ------------------------------------------------------------------ byte length of ASCII text *)

Lemma byte_len_ascii : forall s, Forall (fun c => c < 128) s -> byte_len s = N.of_nat (length s).
Proof.
  induction s as [|c r IH]; intro H; [reflexivity|]. inversion H as [|? ? Hc Hr]; subst.
  cbn [byte_len fold_right length]. fold (byte_len r). rewrite (IH Hr). unfold utf8_len.
  apply N.ltb_lt in Hc. rewrite Hc. lia.
Qed.

(* ------------------------------------------------------------------ the order on names *)

Lemma str_leb_refl : forall a, str_leb a a = true.
Proof. induction a as [|x a IH]; cbn; [reflexivity|]. rewrite N.ltb_irrefl. exact IH. Qed.

Lemma str_leb_total : forall a b, str_leb a b = true \/ str_leb b a = true.
Proof.
  induction a as [|x a IH]; intros [|y b]; cbn [str_leb]; auto.
  destruct (N.ltb_spec x y) as [H|H]; [left; reflexivity|].
  destruct (N.ltb_spec y x) as [H'|H']; [right; reflexivity|].
  assert (x = y) by lia. subst. apply IH.
Qed.

Lemma str_leb_antisym : forall a b, str_leb a b = true -> str_leb b a = true -> a = b.
Proof.
  induction a as [|x a IH]; intros [|y b]; cbn [str_leb]; intros H1 H2; try reflexivity; try discriminate.
  destruct (N.ltb_spec x y) as [H|H].
  - destruct (N.ltb_spec y x) as [H'|H']; [lia|]. discriminate.
  - destruct (N.ltb_spec y x) as [H'|H']; [discriminate|].
    assert (x = y) by lia. subst. f_equal. apply IH; assumption.
Qed.

Lemma str_leb_trans : forall a b c, str_leb a b = true -> str_leb b c = true -> str_leb a c = true.
Proof.
  induction a as [|x a IH]; intros [|y b] [|z c]; cbn [str_leb]; intros H1 H2; try reflexivity; try discriminate.
  destruct (N.ltb_spec x y) as [Hxy|Hxy].
  - destruct (N.ltb_spec y z) as [Hyz|Hyz].
    + destruct (N.ltb_spec x z); [reflexivity | lia].
    + destruct (N.ltb_spec z y) as [Hzy|Hzy]; [discriminate|].
      assert (y = z) by lia. subst. destruct (N.ltb_spec x z); [reflexivity | lia].
  - destruct (N.ltb_spec y x) as [Hyx|Hyx]; [discriminate|].
    assert (x = y) by lia. subst.
    destruct (N.ltb_spec y z) as [Hyz|Hyz]; [reflexivity|].
    destruct (N.ltb_spec z y) as [Hzy|Hzy]; [discriminate|].
    apply (IH b c); assumption.
Qed.

Lemma str_ltb_true_iff : forall a b, str_ltb a b = true <-> str_leb a b = true /\ a <> b.
Proof.
  intros a b. unfold str_ltb. rewrite negb_true_iff. split.
  - intro H. split.
    + destruct (str_leb_total a b) as [T|T]; [exact T | congruence].
    + intro E. subst. rewrite str_leb_refl in H. discriminate.
  - intros [H N]. destruct (str_leb b a) eqn:E; [|reflexivity].
    exfalso. apply N. apply str_leb_antisym; assumption.
Qed.

(* ------------------------------------------------------------------ insertion sort *)

Lemma insert_sorted_perm : forall x l, Permutation (insert_sorted x l) (x :: l).
Proof.
  intros x l. induction l as [|y r IH]; cbn [insert_sorted]; [apply Permutation_refl|].
  destruct (str_leb x y); [apply Permutation_refl|].
  eapply Permutation_trans; [apply perm_skip; exact IH | apply perm_swap].
Qed.

Lemma sort_names_perm : forall l, Permutation (sort_names l) l.
Proof.
  induction l as [|x r IH]; [apply Permutation_refl|]. unfold sort_names in *. cbn [fold_right].
  eapply Permutation_trans; [apply insert_sorted_perm | apply perm_skip; exact IH].
Qed.

Definition sorted (l : list str) : Prop := StronglySorted (fun a b => str_leb a b = true) l.

Lemma insert_sorted_sorted : forall x l, sorted l -> sorted (insert_sorted x l).
Proof.
  intros x l H. induction H as [|y r Hr IH Hy]; cbn [insert_sorted].
  - constructor; [constructor | constructor].
  - destruct (str_leb x y) eqn:E.
    + constructor; [constructor; assumption|]. constructor; [exact E|].
      rewrite Forall_forall in *. intros z Hz. eapply str_leb_trans; [exact E | apply Hy; exact Hz].
    + constructor; [exact IH|].
      assert (Hyx : str_leb y x = true) by (destruct (str_leb_total x y); congruence).
      rewrite Forall_forall in *. intros z Hz.
      apply (Permutation_in _ (insert_sorted_perm x r)) in Hz. destruct Hz as [Hz|Hz]; [subst; exact Hyx | apply Hy; exact Hz].
Qed.

Lemma sort_names_sorted : forall l, sorted (sort_names l).
Proof.
  induction l as [|x r IH]; [constructor|]. unfold sort_names in *. cbn [fold_right].
  apply insert_sorted_sorted. exact IH.
Qed.

(* ------------------------------------------------------------------ pagination *)

Lemma drop_until_gt_split : forall t A R,
  (forall x, In x A -> str_ltb t x = false) ->
  match R with [] => True | y :: _ => str_ltb t y = true end ->
  drop_until_gt t (A ++ R) = R.
Proof.
  intros t A R HA HR. induction A as [|x A IH]; cbn [app].
  - destruct R as [|y R']; [reflexivity|]. cbn [drop_until_gt]. rewrite HR. reflexivity.
  - cbn [drop_until_gt]. rewrite (HA x (or_introl eq_refl)). apply IH. intros z Hz. apply HA. right. exact Hz.
Qed.

Lemma sorted_app_inv : forall A R, sorted (A ++ R) ->
  sorted A /\ sorted R /\ (forall x y, In x A -> In y R -> str_leb x y = true).
Proof.
  induction A as [|a A IH]; intros R H; cbn [app] in *.
  - split; [constructor|]. split; [exact H|]. intros x y [].
  - inversion H as [|? ? Hs Hf]; subst. destruct (IH R Hs) as [SA [SR Hxy]].
    rewrite Forall_forall in Hf. split; [|split; [exact SR|]].
    + constructor; [exact SA|]. apply Forall_forall. intros z Hz. apply Hf. apply in_or_app. left. exact Hz.
    + intros x y [Hx|Hx] Hy; [subst; apply Hf; apply in_or_app; right; exact Hy | apply Hxy; assumption].
Qed.

Lemma sorted_last_max : forall A, sorted A -> forall x, In x A -> str_leb x (last A []) = true.
Proof.
  induction A as [|a A IH]; intros H x Hx; [destruct Hx|].
  inversion H as [|? ? Hs Hf]; subst. rewrite Forall_forall in Hf.
  destruct A as [|b A'].
  - destruct Hx as [Hx|[]]. subst. cbn. apply str_leb_refl.
  - change (last (a :: b :: A') []) with (last (b :: A') []).
    destruct Hx as [Hx|Hx].
    + subst. eapply str_leb_trans; [apply Hf; left; reflexivity | apply IH; [exact Hs | left; reflexivity]].
    + apply IH; assumption.
Qed.

(* one page: the sorted listing after the token, cut at the limit *)
Lemma page_of_sorted : forall names A R n,
  NoDup names -> sort_names names = A ++ R ->
  forall tok, (A = [] /\ tok = None) \/ (A <> [] /\ tok = Some (last A [])) ->
  (0 <= n)%Z ->
  apply_pagination names tok (Some n) = firstn (Z.to_nat n) R.
Proof.
  intros names A R n Hnd HS tok Htok Hn. unfold apply_pagination. rewrite HS.
  apply Z.leb_le in Hn. rewrite Hn.
  destruct Htok as [[HA Ht]|[HA Ht]]; subst tok.
  - subst A. reflexivity.
  - f_equal.
    pose proof (sort_names_sorted names) as Hsorted. rewrite HS in Hsorted.
    destruct (sorted_app_inv A R Hsorted) as [SA [SR Hxy]].
    assert (NDS : NoDup (A ++ R)).
    { rewrite <- HS. eapply Permutation_NoDup; [apply Permutation_sym; apply sort_names_perm | exact Hnd]. }
    assert (Hlast : In (last A []) A).
    { destruct A as [|a A']; [contradiction|]. rewrite (app_removelast_last [] HA) at 2. apply in_or_app. right. left. reflexivity. }
    apply drop_until_gt_split.
    + intros x Hx. unfold str_ltb. rewrite (sorted_last_max A SA x Hx). reflexivity.
    + destruct R as [|y R']; [exact I|].
      apply str_ltb_true_iff. split; [apply Hxy; [exact Hlast | left; reflexivity]|].
      intro E. apply NoDup_remove_2 in NDS. apply NDS. apply in_or_app. left. rewrite <- E. exact Hlast.
Qed.

(* paging through a listing: the next page_token is the last name of the page, until a page is empty *)
Fixpoint pages (fuel : nat) (names : list str) (tok : option str) (n : Z) : list (list str) :=
  match fuel with
  | O => []
  | S f =>
      match apply_pagination names tok (Some n) with
      | [] => []
      | p => p :: pages f names (Some (last p [])) n
      end
  end.

Lemma last_app_nonempty : forall (A : Type) (a p : list A) d, p <> [] -> last (a ++ p) d = last p d.
Proof.
  intros A a p d Hp. induction a as [|x a IH]; [reflexivity|].
  cbn [app]. destruct (a ++ p) as [|y r] eqn:E; [apply app_eq_nil in E as [_ E]; contradiction|].
  exact IH.
Qed.

Lemma firstn_skipn_nonempty : forall (A : Type) k (l : list A), (0 < k)%nat -> l <> [] -> firstn k l <> [].
Proof. intros A k l Hk Hl. destruct k; [lia|]. destruct l; [contradiction | discriminate]. Qed.

Lemma pages_suffix : forall fuel names A R n,
  NoDup names -> (1 <= n)%Z -> sort_names names = A ++ R ->
  forall tok, (A = [] /\ tok = None) \/ (A <> [] /\ tok = Some (last A [])) ->
  (length R < fuel)%nat ->
  concat (pages fuel names tok n) = R /\ Forall (fun p => (length p <= Z.to_nat n)%nat /\ p <> []) (pages fuel names tok n).
Proof.
  induction fuel as [|f IH]; intros names A R n Hnd Hn HS tok Htok Hf; [lia|].
  cbn [pages]. rewrite (page_of_sorted names A R n Hnd HS tok Htok) by lia.
  destruct R as [|y R'].
  - rewrite firstn_nil. split; [reflexivity | constructor].
  - set (k := Z.to_nat n). assert (Hk : (0 < k)%nat) by (unfold k; lia).
    assert (Hsplit0 : firstn k (y :: R') ++ skipn k (y :: R') = y :: R') by apply firstn_skipn.
    assert (Hflen : (length (firstn k (y :: R')) <= k)%nat) by (rewrite firstn_length; lia).
    assert (Hslen : (length (skipn k (y :: R')) < f)%nat).
    { rewrite skipn_length. cbn [length] in *. lia. }
    destruct (firstn k (y :: R')) as [|a l] eqn:Ep.
    { exfalso. destruct k; [lia | discriminate]. }
    set (p := a :: l) in *. set (R2 := skipn k (y :: R')) in *.
    assert (Hp : p <> []) by discriminate.
    assert (HS2 : sort_names names = (A ++ p) ++ R2) by (rewrite <- app_assoc, Hsplit0; exact HS).
    destruct (IH names (A ++ p) R2 n Hnd Hn HS2 (Some (last p []))) as [C F].
    + right. split; [intro E; apply app_eq_nil in E as [_ E]; contradiction|].
      f_equal. symmetry. apply last_app_nonempty. exact Hp.
    + exact Hslen.
    + cbn [concat]. rewrite C. split; [exact Hsplit0|].
      constructor; [|exact F]. split; [exact Hflen | exact Hp].
Qed.

Theorem paging_complete : forall names n fuel,
  NoDup names -> (1 <= n)%Z -> (length names < fuel)%nat ->
  concat (pages fuel names None n) = sort_names names
  /\ Forall (fun p => (length p <= Z.to_nat n)%nat /\ p <> []) (pages fuel names None n)
  /\ NoDup (concat (pages fuel names None n))
  /\ (forall x, In x names <-> In x (concat (pages fuel names None n))).
Proof.
  intros names n fuel Hnd Hn Hf.
  assert (Hlen : length (sort_names names) = length names) by (apply Permutation_length, sort_names_perm).
  destruct (pages_suffix fuel names [] (sort_names names) n Hnd Hn eq_refl None (or_introl (conj eq_refl eq_refl))) as [C F];
    [lia|].
  split; [exact C|]. split; [exact F|]. rewrite C. split.
  - eapply Permutation_NoDup; [apply Permutation_sym, sort_names_perm | exact Hnd].
  - intro x. split; intro H.
    + eapply Permutation_in; [apply Permutation_sym, sort_names_perm | exact H].
    + eapply Permutation_in; [apply sort_names_perm | exact H].
Qed.

(* ------------------------------------------------------------------ the directory listing has no duplicates *)

Lemma in_dedup : forall x l, In x (dedup l) -> In x l.
Proof.
  intros x l. induction l as [|y r IH]; [intros []|]. cbn [dedup].
  destruct (existsb (str_eqb y) r); intro H; [right; apply IH; exact H|].
  destruct H as [H|H]; [left; exact H | right; apply IH; exact H].
Qed.

Lemma dedup_nodup : forall l, NoDup (dedup l).
Proof.
  induction l as [|y r IH]; [constructor|]. cbn [dedup].
  destruct (existsb (str_eqb y) r) eqn:E; [exact IH|]. constructor; [|exact IH].
  intro Hin. apply in_dedup in Hin.
  assert (existsb (str_eqb y) r = true) by (apply existsb_exists; exists y; split; [exact Hin | apply str_eqb_refl]).
  congruence.
Qed.

Lemma ends_with_split : forall s suf, ends_with s suf = true -> s = strip_suffix s suf ++ suf.
Proof.
  intros s suf H. unfold ends_with in H. apply starts_with_iff in H as [r Hr].
  assert (Hs : s = rev r ++ suf).
  { rewrite <- (rev_involutive s), Hr, rev_app_distr, rev_involutive. reflexivity. }
  rewrite Hs. f_equal. unfold strip_suffix. rewrite app_length.
  replace (length (rev r) + length suf - length suf)%nat with (length (rev r)) by lia.
  rewrite firstn_app, firstn_all, Nat.sub_diag. cbn [firstn]. rewrite app_nil_r. reflexivity.
Qed.

Lemma NoDup_map_inj_in : forall (A B : Type) (f : A -> B) l,
  (forall x y, In x l -> In y l -> f x = f y -> x = y) -> NoDup l -> NoDup (map f l).
Proof.
  intros A B f l Hinj Hnd. induction Hnd as [|x l Hx Hl IH]; [constructor|]. cbn [map]. constructor.
  - intro Hin. apply in_map_iff in Hin as [y [Ey Hy]].
    assert (y = x) by (apply Hinj; [right; exact Hy | left; reflexivity | exact Ey]). subst. contradiction.
  - apply IH. intros a b Ha Hb. apply Hinj; right; assumption.
Qed.

Lemma NoDup_filter : forall (A : Type) (f : A -> bool) l, NoDup l -> NoDup (filter f l).
Proof.
  intros A f l H. induction H as [|x l Hx Hl IH]; [constructor|]. cbn [filter].
  destruct (f x); [|exact IH]. constructor; [|exact IH]. intro Hin. apply filter_In in Hin as [Hin _]. contradiction.
Qed.

Theorem dir_tables_nodup : forall d, NoDup (dir_tables d).
Proof.
  intro d. unfold dir_tables. apply NoDup_map_inj_in.
  - intros x y Hx Hy E. apply filter_In in Hx as [_ Hx]. apply filter_In in Hy as [_ Hy].
    rewrite (ends_with_split x DOT_LANCE Hx), (ends_with_split y DOT_LANCE Hy), E. reflexivity.
  - apply NoDup_filter. apply dedup_nodup.
Qed.
