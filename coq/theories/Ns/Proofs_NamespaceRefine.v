(* C36 - the implementation model (object-id strings, SQL text) refines the path-keyed map on storable
   names: a forward simulation between [step string_prims] and [step path_prims]. *)
From LanceV Require Import Common.Base Ns.Model_Namespace Ns.Proofs_Namespace.
Local Open Scope N_scope.

Definition good_path (p : path) : Prop := p <> [] /\ storable_path p = true.
Definition enc (r : row path) : row str := ((join_dollar (r_key r), r_tab r), r_loc r).
Definition good_rows (rs : list (row path)) : Prop := Forall (fun r => good_path (r_key r)) rs.

Definition omap {A B} (f : A -> B) (o : outcome A) : outcome B :=
  match o with Ok a => Ok (f a) | Err => Err | Panic => Panic end.

Lemma storable_path_forall : forall p, storable_path p = true ->
  Forall nodollar p /\ Forall noquote p /\ Forall (fun s => Forall (fun c => c < 128) s) p.
Proof.
  intros p H. unfold storable_path in H. rewrite forallb_forall in H.
  repeat split; apply Forall_forall; intros s Hs; specialize (H s Hs).
  - apply storable_nodollar; exact H.
  - apply storable_noquote; exact H.
  - apply Forall_forall. intros c Hc. unfold storable in H. rewrite forallb_forall in H.
    apply H in Hc. apply safe_char_facts in Hc. tauto.
Qed.

Lemma good_nodollar : forall p, good_path p -> Forall nodollar p.
Proof. intros p [_ H]. apply storable_path_forall in H. tauto. Qed.

Lemma good_noquote_join : forall p, good_path p -> noquote (join_dollar p).
Proof. intros p [_ H]. apply noquote_join. apply storable_path_forall in H. tauto. Qed.

Lemma ascii_join : forall p, Forall (fun s => Forall (fun c => c < 128) s) p -> Forall (fun c => c < 128) (join_dollar p).
Proof.
  induction p as [|x r IH]; intro H; [constructor|]. inversion H as [|? ? Hx Hr]; subst.
  destruct r as [|y r'].
  - exact Hx.
  - unfold join_dollar. rewrite join_with_cons2. apply Forall_app. split; [exact Hx|].
    constructor; [unfold DOLLAR; lia | apply IH; exact Hr].
Qed.

Lemma nouscore_join : forall p, storable_path p = true -> has_char USCORE (join_dollar p ++ [DOLLAR]) = false.
Proof.
  intros p H. rewrite has_char_app. replace (has_char USCORE [DOLLAR]) with false by reflexivity. rewrite orb_false_r.
  unfold storable_path in H. induction p as [|x r IH]; [reflexivity|].
  cbn [forallb] in H. apply andb_true_iff in H as [Hx Hr].
  destruct r as [|y r'].
  - apply storable_nouscore. exact Hx.
  - unfold join_dollar. rewrite join_with_cons2, has_char_app, (storable_nouscore x Hx).
    unfold has_char at 1. cbn [existsb orb]. replace (USCORE =? DOLLAR) with false by reflexivity. cbn [orb].
    apply IH. exact Hr.
Qed.

Lemma join_eqb : forall p q, good_path p -> good_path q ->
  str_eqb (join_dollar q) (join_dollar p) = path_eqb q p.
Proof.
  intros p q Gp Gq. destruct (path_eqb q p) eqn:E.
  - apply path_eqb_eq in E. subst. apply str_eqb_refl.
  - apply str_eqb_neq. intro J. apply path_eqb_neq in E. apply E.
    apply join_injective; try assumption; try (apply good_nodollar; assumption).
    + destruct Gq; assumption.
    + destruct Gp; assumption.
Qed.

Lemma existsb_ext_in : forall (A : Type) (f g : A -> bool) l,
  (forall x, In x l -> f x = g x) -> existsb f l = existsb g l.
Proof.
  intros A f g l H. induction l as [|x r IH]; [reflexivity|]. cbn [existsb].
  rewrite (H x (or_introl eq_refl)), IH; [reflexivity|]. intros y Hy. apply H. right. exact Hy.
Qed.

Lemma filter_ext_in' : forall (A : Type) (f g : A -> bool) l,
  (forall x, In x l -> f x = g x) -> filter f l = filter g l.
Proof.
  intros A f g l H. induction l as [|x r IH]; [reflexivity|]. cbn [filter].
  rewrite (H x (or_introl eq_refl)), IH; [reflexivity|]. intros y Hy. apply H. right. exact Hy.
Qed.

Lemma filter_map_comm : forall (A B : Type) (f : A -> B) (p : B -> bool) l,
  filter p (map f l) = map f (filter (fun x => p (f x)) l).
Proof.
  intros A B f p l. induction l as [|x r IH]; [reflexivity|]. cbn [map filter].
  destruct (p (f x)); cbn [map]; rewrite IH; reflexivity.
Qed.

Lemma existsb_map : forall (A B : Type) (f : A -> B) (p : B -> bool) l,
  existsb p (map f l) = existsb (fun x => p (f x)) l.
Proof. intros A B f p l. induction l as [|x r IH]; [reflexivity|]. cbn [map existsb]. rewrite IH. reflexivity. Qed.

(* rewrite the filter predicate on the left-hand side of the goal *)
Ltac lhs_filter_to G :=
  match goal with |- ?lhs = _ => match lhs with context [filter ?F ?l] => rewrite (filter_ext_in' _ F G l) end end.

Lemma good_rows_in : forall rs r, good_rows rs -> In r rs -> good_path (r_key r).
Proof. intros rs r H Hin. unfold good_rows in H. rewrite Forall_forall in H. apply H. exact Hin. Qed.

(* ------------------------------------------------------------------ the queries correspond *)

Lemma contains_ref : forall i k rs, good_rows rs -> good_path k ->
  s_contains i (join_dollar k) (map enc rs) = a_contains i k rs.
Proof.
  intros i k rs Hrs Hk. unfold s_contains, a_contains.
  rewrite lex_splice_noquote by (apply good_noquote_join; exact Hk).
  f_equal. rewrite existsb_map. apply existsb_ext_in. intros r Hr. cbn.
  apply join_eqb; [exact Hk | eapply good_rows_in; eassumption].
Qed.

Lemma one_row_map : forall m : list (row path), one_row (map enc m) = omap (option_map enc) (one_row m).
Proof. intros [|r [|r2 m]]; reflexivity. Qed.

Lemma find_ref : forall t k rs, good_rows rs -> good_path k ->
  s_find t (join_dollar k) (map enc rs) = omap (option_map enc) (a_find t k rs).
Proof.
  intros t k rs Hrs Hk. unfold s_find, a_find.
  rewrite lex_splice_noquote by (apply good_noquote_join; exact Hk).
  rewrite filter_map_comm, one_row_map. do 2 f_equal. apply filter_ext_in'. intros r Hr. cbn.
  rewrite join_eqb; [reflexivity | exact Hk | eapply good_rows_in; eassumption].
Qed.

Lemma has_desc_ref : forall k rs, good_rows rs -> good_path k ->
  s_has_desc (join_dollar k) (map enc rs) = a_has_desc k rs.
Proof.
  intros k rs Hrs Hk. unfold s_has_desc, a_has_desc.
  assert (Hq : noquote (join_dollar k ++ [DOLLAR])).
  { apply noquote_app; [apply good_noquote_join; exact Hk | reflexivity]. }
  rewrite lex_splice_noquote by exact Hq. f_equal. rewrite existsb_map. apply existsb_ext_in.
  intros r Hr. cbn [enc r_key fst]. pose proof (good_rows_in rs r Hrs Hr) as Gr.
  rewrite starts_with_like_plain by (apply nouscore_join; destruct Hk; assumption).
  apply starts_with_join; try (apply good_nodollar; assumption).
  - destruct Hk; assumption.
  - destruct Gr; assumption.
Qed.

Lemma insert_ref : forall k t l rs, good_rows rs -> good_path k ->
  s_insert (join_dollar k) t l (map enc rs) = omap (map enc) (a_insert k t l rs).
Proof.
  intros k t l rs Hrs Hk. unfold s_insert, a_insert.
  rewrite existsb_map.
  rewrite (existsb_ext_in _ _ (fun r => path_eqb (r_key r) k)).
  - destruct (existsb _ rs); [reflexivity|]. cbn [omap]. rewrite map_app. reflexivity.
  - intros r Hr. cbn. apply join_eqb; [exact Hk | eapply good_rows_in; eassumption].
Qed.

Lemma delete_ref : forall k rs, good_rows rs -> good_path k ->
  s_delete (join_dollar k) (map enc rs) = omap (map enc) (a_delete k rs).
Proof.
  intros k rs Hrs Hk. unfold s_delete, a_delete.
  rewrite lex_splice_noquote by (apply good_noquote_join; exact Hk).
  cbn [omap]. f_equal. rewrite filter_map_comm. f_equal. apply filter_ext_in'. intros r Hr. cbn.
  rewrite join_eqb; [reflexivity | exact Hk | eapply good_rows_in; eassumption].
Qed.

Lemma root_locs_ref : forall rs, good_rows rs -> s_root_locs (map enc rs) = a_root_locs rs.
Proof.
  intros rs Hrs. unfold s_root_locs, a_root_locs. rewrite filter_map_comm, map_map.
  lhs_filter_to (fun r : row path => r_tab r && (length (r_key r) =? 1)%nat).
  - apply map_ext. intros [[k t] l]. reflexivity.
  - intros r Hr. unfold enc. cbn [r_key r_tab fst snd]. pose proof (good_rows_in rs r Hrs Hr) as [Hne Hst].
    rewrite has_dollar_join by (try exact Hne; apply good_nodollar; split; assumption).
    f_equal. destruct (r_key r) as [|x [|y r']]; [contradiction | reflexivity | reflexivity].
Qed.

Lemma parse_join_last : forall q, good_path q -> snd (parse_object_id (join_dollar q)) = last q [].
Proof.
  intros q Gq. unfold parse_object_id. rewrite split_join; [reflexivity | destruct Gq; assumption | apply good_nodollar; exact Gq].
Qed.

Lemma children_ref : forall t id rs, good_rows rs -> storable_path id = true ->
  s_children t id (map enc rs) = a_children t id rs.
Proof.
  intros t id rs Hrs Hid. unfold s_children, a_children.
  destruct id as [|i0 id'].
  - (* root *)
    f_equal. rewrite filter_map_comm, map_map.
    lhs_filter_to (fun r : row path => Bool.eqb (r_tab r) t && parent_is [] (r_key r)).
    + apply map_ext_in. intros r Hr. apply filter_In in Hr as [Hr _]. unfold enc. cbn [r_key fst snd].
      apply parse_join_last. eapply good_rows_in; eassumption.
    + intros r Hr. unfold enc. cbn [r_key r_tab fst snd]. pose proof (good_rows_in rs r Hrs Hr) as [Hne Hst].
      rewrite has_dollar_join by (try exact Hne; apply good_nodollar; split; assumption).
      f_equal. unfold parent_is. destruct (r_key r) as [|x [|y r']]; [contradiction | reflexivity | reflexivity].
  - set (id := i0 :: id') in *.
    assert (Gid : good_path id) by (split; [discriminate | exact Hid]).
    assert (Hq : noquote (join_dollar id ++ [DOLLAR])).
    { apply noquote_app; [apply good_noquote_join; exact Gid | reflexivity]. }
    change (match id with [] => _ | _ :: _ => ?X end) with X.
    rewrite lex_splice_noquote by exact Hq. f_equal.
    rewrite filter_map_comm, map_map.
    lhs_filter_to (fun r : row path => Bool.eqb (r_tab r) t && parent_is id (r_key r)).
    + apply map_ext_in. intros r Hr. apply filter_In in Hr as [Hr _]. unfold enc. cbn [r_key fst snd].
      apply parse_join_last. eapply good_rows_in; eassumption.
    + intros r Hr. unfold enc. cbn [r_key r_tab fst snd]. pose proof (good_rows_in rs r Hrs Hr) as Gr.
      rewrite <- andb_assoc. f_equal.
      rewrite starts_with_like_plain by (apply nouscore_join; exact Hid).
      rewrite starts_with_join; try (apply good_nodollar; assumption); try (destruct Gid; assumption); try (destruct Gr; assumption).
      destruct (strict_prefix id (r_key r)) eqn:SP.
      * apply strict_prefix_iff in SP as [tl [Htl Eq]].
        assert (Gtl : Forall nodollar tl).
        { pose proof (good_nodollar _ Gr) as F. rewrite Eq in F. apply Forall_app in F. tauto. }
        (* the substring after `id$` is the joined tail *)
        assert (Hsub : sql_substring (join_dollar (r_key r)) (byte_len (join_dollar id) + 2) = join_dollar tl).
        { rewrite Eq, join_app by (try exact Htl; destruct Gid; assumption).
          unfold sql_substring. rewrite byte_len_ascii.
          - replace (N.to_nat (N.of_nat (length (join_dollar id)) + 2 - 1)) with (length (join_dollar id ++ [DOLLAR])).
            + replace (join_dollar id ++ DOLLAR :: join_dollar tl) with ((join_dollar id ++ [DOLLAR]) ++ join_dollar tl)
                by (rewrite <- app_assoc; reflexivity).
              apply skipn_app_exact.
            + rewrite app_length. cbn [length]. lia.
          - apply ascii_join. destruct Gid as [_ S]. apply storable_path_forall in S. tauto. }
        rewrite Hsub, has_dollar_join by assumption.
        cbn [andb]. rewrite Eq.
        destruct tl as [|x [|y tl']]; [contradiction| |].
        -- symmetry. apply parent_is_iff. exists x. reflexivity.
        -- cbn [length Nat.ltb Nat.leb negb]. symmetry.
           destruct (parent_is id (id ++ x :: y :: tl')) eqn:P; [|reflexivity].
           apply parent_is_iff in P as [z Ez]. apply app_inv_head in Ez. discriminate.
      * cbn [andb]. symmetry. destruct (parent_is id (r_key r)) eqn:P; [|reflexivity].
        apply parent_is_iff in P as [z Ez].
        assert (strict_prefix id (r_key r) = true) by (apply strict_prefix_iff; exists [z]; split; [discriminate | exact Ez]).
        congruence.
Qed.

(* ------------------------------------------------------------------ states *)

Record RS (sm : state str) (sa : state path) : Prop := {
  rs_rows : rows sm = map enc (rows sa);
  rs_disk : dsk sm = dsk sa;
  rs_nonce : nonce sm = nonce sa;
  rs_dead : dead sm = dead sa;
  rs_good : good_rows (rows sa) }.

Definition rel (x : answer * state str) (y : answer * state path) : Prop :=
  fst x = fst y /\ RS (snd x) (snd y).

Lemma RS_init : RS init init.
Proof. constructor; try reflexivity. constructor. Qed.

Lemma key_b_string : forall id, id <> [] -> p_key_b string_prims id = join_dollar id.
Proof. intros id H. cbn [p_key_b string_prims]. apply build_split. exact H. Qed.

Section Sim.
  Variables (sm : state str) (sa : state path).
  Hypothesis H : RS sm sa.

  Lemma q_contains_ref : forall i k, good_path k ->
    q_contains str string_prims sm i (join_dollar k) = q_contains path path_prims sa i k.
  Proof.
    intros i k Gk. unfold q_contains. rewrite (rs_dead _ _ H). destruct (dead sa); [reflexivity|].
    cbn [p_contains string_prims path_prims]. rewrite (rs_rows _ _ H). apply contains_ref; [apply (rs_good _ _ H) | exact Gk].
  Qed.

  Lemma q_find_ref : forall t k, good_path k ->
    q_find str string_prims sm t (join_dollar k) = omap (option_map enc) (q_find path path_prims sa t k).
  Proof.
    intros t k Gk. unfold q_find. rewrite (rs_dead _ _ H). destruct (dead sa); [reflexivity|].
    cbn [p_find string_prims path_prims]. rewrite (rs_rows _ _ H). apply find_ref; [apply (rs_good _ _ H) | exact Gk].
  Qed.

  Lemma q_children_ref : forall t id, storable_path id = true ->
    q_children str string_prims sm t id = q_children path path_prims sa t id.
  Proof.
    intros t id Gid. unfold q_children. rewrite (rs_dead _ _ H). destruct (dead sa); [reflexivity|].
    cbn [p_children string_prims path_prims]. rewrite (rs_rows _ _ H). apply children_ref; [apply (rs_good _ _ H) | exact Gid].
  Qed.

  Lemma q_has_desc_ref : forall k, good_path k ->
    q_has_desc str string_prims sm (join_dollar k) = q_has_desc path path_prims sa k.
  Proof.
    intros k Gk. unfold q_has_desc. rewrite (rs_dead _ _ H). destruct (dead sa); [reflexivity|].
    cbn [p_has_desc string_prims path_prims]. rewrite (rs_rows _ _ H). apply has_desc_ref; [apply (rs_good _ _ H) | exact Gk].
  Qed.

  Lemma q_insert_ref : forall k t l, good_path k ->
    q_insert str string_prims sm (join_dollar k) t l = omap (map enc) (q_insert path path_prims sa k t l).
  Proof.
    intros k t l Gk. unfold q_insert. rewrite (rs_dead _ _ H). destruct (dead sa); [reflexivity|].
    cbn [p_insert string_prims path_prims]. rewrite (rs_rows _ _ H). apply insert_ref; [apply (rs_good _ _ H) | exact Gk].
  Qed.

  Lemma q_delete_ref : forall k, good_path k ->
    q_delete str string_prims sm (join_dollar k) = omap (map enc) (q_delete path path_prims sa k).
  Proof.
    intros k Gk. unfold q_delete. rewrite (rs_dead _ _ H). destruct (dead sa); [reflexivity|].
    cbn [p_delete string_prims path_prims]. rewrite (rs_rows _ _ H). apply delete_ref; [apply (rs_good _ _ H) | exact Gk].
  Qed.
End Sim.

(* results of the abstract update queries keep the rows good *)
Lemma a_insert_good : forall k t l rs rs', good_rows rs -> good_path k -> a_insert k t l rs = Ok rs' -> good_rows rs'.
Proof.
  intros k t l rs rs' Hrs Gk E. unfold a_insert in E. destruct (existsb _ rs); [discriminate|]. inversion E; subst.
  apply Forall_app. split; [exact Hrs | constructor; [exact Gk | constructor]].
Qed.

Lemma a_delete_good : forall k rs rs', good_rows rs -> a_delete k rs = Ok rs' -> good_rows rs'.
Proof.
  intros k rs rs' Hrs E. unfold a_delete in E. inversion E; subst. unfold good_rows in *.
  rewrite Forall_forall in *. intros r Hr. apply filter_In in Hr as [Hr _]. apply Hrs. exact Hr.
Qed.

Lemma q_insert_good : forall sa k t l rs', good_rows (rows sa) -> good_path k ->
  q_insert path path_prims sa k t l = Ok rs' -> good_rows rs'.
Proof.
  intros sa k t l rs' Hg Gk E. unfold q_insert in E. destruct (dead sa); [discriminate|].
  eapply a_insert_good; eassumption.
Qed.

Lemma q_delete_good : forall sa k rs', good_rows (rows sa) -> q_delete path path_prims sa k = Ok rs' -> good_rows rs'.
Proof.
  intros sa k rs' Hg E. unfold q_delete in E. destruct (dead sa); [discriminate|].
  eapply a_delete_good; eassumption.
Qed.

Lemma RS_set_rows : forall sm sa rs, RS sm sa -> good_rows rs ->
  RS (set_rows str sm (map enc rs)) (set_rows path sa rs).
Proof. intros sm sa rs [R D N X G] Hg. constructor; cbn; try assumption. reflexivity. Qed.

Lemma RS_set_disk : forall sm sa d, RS sm sa -> RS (set_disk str sm d) (set_disk path sa d).
Proof. intros sm sa d [R D N X G]. constructor; cbn; try assumption. reflexivity. Qed.

Lemma RS_bump : forall sm sa, RS sm sa -> RS (bump sm) (bump sa).
Proof. intros sm sa [R D N X G]. constructor; cbn; try assumption. rewrite N. reflexivity. Qed.

Lemma qfail_omap : forall (A B : Type) (f : A -> B) (o : outcome A),
  (forall a, o <> Ok a) -> qfail (omap f o) = qfail o.
Proof. intros A B f [a| |] Hn; [exfalso; apply (Hn a); reflexivity | reflexivity | reflexivity]. Qed.

Lemma good_of_storable : forall x r, storable_path (x :: r) = true -> good_path (x :: r).
Proof. intros x r Hs. split; [discriminate | exact Hs]. Qed.

Lemma in_firstn : forall (A : Type) n (l : list A) x, In x (firstn n l) -> In x l.
Proof. intros A n l x Hx. rewrite <- (firstn_skipn n l). apply in_or_app. left. exact Hx. Qed.

Lemma storable_path_firstn : forall n p, storable_path p = true -> storable_path (firstn n p) = true.
Proof.
  intros n p Hs. unfold storable_path in *. rewrite forallb_forall in *. intros s Hin. apply Hs.
  eapply in_firstn. exact Hin.
Qed.

(* ------------------------------------------------------------------ operations of ManifestNamespace *)

Ltac triv H := split; [reflexivity | exact H].

Lemma loc_enc : forall r : row path, loc_or_empty (enc r) = loc_or_empty r.
Proof. intros [[k t] l]. reflexivity. Qed.

Lemma m_list_ref : forall sm sa t id, RS sm sa -> storable_path id = true ->
  rel (m_list str string_prims t sm id) (m_list path path_prims t sa id).
Proof.
  intros sm sa t id H Hid. unfold m_list. rewrite (q_children_ref sm sa H t id Hid).
  destruct (q_children path path_prims sa t id); triv H.
Qed.

Lemma m_describe_table_ref : forall sm sa id, RS sm sa -> storable_path id = true ->
  rel (m_describe_table str string_prims sm id) (m_describe_table path path_prims sa id).
Proof.
  intros sm sa id H Hid. unfold m_describe_table. destruct id as [|x r]; [triv H|].
  pose proof (good_of_storable x r Hid) as G.
  change (p_key_j string_prims (x :: r)) with (join_dollar (x :: r)).
  change (p_key_j path_prims (x :: r)) with (x :: r).
  rewrite (q_find_ref sm sa H true (x :: r) G).
  destruct (q_find path path_prims sa true (x :: r)) as [[row|]| |]; cbn [omap option_map]; try (triv H).
  rewrite loc_enc, (rs_disk _ _ H). triv H.
Qed.

Lemma m_table_exists_ref : forall sm sa id, RS sm sa -> storable_path id = true ->
  rel (m_table_exists str string_prims sm id) (m_table_exists path path_prims sa id).
Proof.
  intros sm sa id H Hid. unfold m_table_exists. destruct id as [|x r]; [triv H|].
  pose proof (good_of_storable x r Hid) as G.
  rewrite key_b_string by discriminate. change (p_key_b path_prims (x :: r)) with (x :: r).
  rewrite (q_contains_ref sm sa H (Some true) (x :: r) G).
  destruct (q_contains path path_prims sa (Some true) (x :: r)) as [[|]| |]; triv H.
Qed.

Lemma m_ns_exists_ref : forall sm sa id, RS sm sa -> storable_path id = true ->
  rel (m_ns_exists str string_prims sm id) (m_ns_exists path path_prims sa id).
Proof.
  intros sm sa id H Hid. unfold m_ns_exists. destruct id as [|x r]; [triv H|].
  pose proof (good_of_storable x r Hid) as G.
  change (p_key_j string_prims (x :: r)) with (join_dollar (x :: r)).
  change (p_key_j path_prims (x :: r)) with (x :: r).
  rewrite (q_contains_ref sm sa H (Some false) (x :: r) G).
  destruct (q_contains path path_prims sa (Some false) (x :: r)) as [[|]| |]; triv H.
Qed.

Lemma m_describe_ns_ref : forall sm sa id, RS sm sa -> storable_path id = true ->
  rel (m_describe_ns str string_prims sm id) (m_describe_ns path path_prims sa id).
Proof.
  intros sm sa id H Hid. unfold m_describe_ns. destruct id as [|x r]; [triv H|].
  pose proof (good_of_storable x r Hid) as G.
  change (p_key_j string_prims (x :: r)) with (join_dollar (x :: r)).
  change (p_key_j path_prims (x :: r)) with (x :: r).
  rewrite (q_find_ref sm sa H false (x :: r) G).
  destruct (q_find path path_prims sa false (x :: r)) as [[row|]| |]; cbn [omap option_map]; triv H.
Qed.

Lemma check_levels_ref : forall sm sa levels, RS sm sa -> Forall good_path levels ->
  check_levels str string_prims sm levels = check_levels path path_prims sa levels.
Proof.
  intros sm sa levels H. induction levels as [|l r IH]; intro F; [reflexivity|].
  inversion F as [|? ? Gl Fr]; subst. cbn [check_levels].
  change (p_key_j string_prims l) with (join_dollar l). change (p_key_j path_prims l) with l.
  rewrite (q_contains_ref sm sa H (Some false) l Gl).
  destruct (q_contains path path_prims sa (Some false) l) as [[|]| |]; try reflexivity. apply IH. exact Fr.
Qed.

Lemma levels_good : forall ns, storable_path ns = true -> Forall good_path (levels_of ns).
Proof.
  intros ns Hs. unfold levels_of. apply Forall_forall. intros l Hl. apply in_map_iff in Hl as [i [E Hi]]. subst l.
  apply in_seq in Hi. split.
  - destruct ns as [|x r]; [cbn in Hi; lia|]. destruct i; [lia | discriminate].
  - apply storable_path_firstn. exact Hs.
Qed.

Lemma storable_path_removelast : forall p, storable_path p = true -> storable_path (removelast p) = true.
Proof.
  intros p Hs. unfold storable_path in *. rewrite forallb_forall in *. intros s Hin. apply Hs.
  destruct p as [|x r]; [destruct Hin|].
  rewrite (app_removelast_last [] (l := x :: r)) by discriminate. apply in_or_app. left. exact Hin.
Qed.

Lemma m_create_ns_ref : forall sm sa id, RS sm sa -> storable_path id = true ->
  rel (m_create_ns str string_prims sm id) (m_create_ns path path_prims sa id).
Proof.
  intros sm sa id H Hid. unfold m_create_ns. destruct id as [|x r]; [triv H|].
  pose proof (good_of_storable x r Hid) as G.
  rewrite (check_levels_ref sm sa _ H (levels_good _ (storable_path_removelast _ Hid))).
  destruct (check_levels path path_prims sa (levels_of (removelast (x :: r)))); [triv H|].
  change (p_key_j string_prims (x :: r)) with (join_dollar (x :: r)).
  change (p_key_j path_prims (x :: r)) with (x :: r).
  rewrite (q_contains_ref sm sa H None (x :: r) G).
  destruct (q_contains path path_prims sa None (x :: r)) as [[|]| |]; try (triv H).
  rewrite (q_insert_ref sm sa H (x :: r) false None G).
  destruct (q_insert path path_prims sa (x :: r) false None) as [rs| |] eqn:E; cbn [omap]; try (triv H).
  split; [reflexivity|]. apply RS_set_rows; [exact H|]. eapply q_insert_good; [apply (rs_good _ _ H) | exact G | exact E].
Qed.

Lemma m_drop_ns_ref : forall sm sa id, RS sm sa -> storable_path id = true ->
  rel (m_drop_ns str string_prims sm id) (m_drop_ns path path_prims sa id).
Proof.
  intros sm sa id H Hid. unfold m_drop_ns. destruct id as [|x r]; [triv H|].
  pose proof (good_of_storable x r Hid) as G.
  change (p_key_j string_prims (x :: r)) with (join_dollar (x :: r)).
  change (p_key_j path_prims (x :: r)) with (x :: r).
  rewrite (q_contains_ref sm sa H (Some false) (x :: r) G).
  destruct (q_contains path path_prims sa (Some false) (x :: r)) as [[|]| |]; try (triv H).
  rewrite (q_has_desc_ref sm sa H (x :: r) G).
  destruct (q_has_desc path path_prims sa (x :: r)) as [[|]| |]; try (triv H).
  rewrite (q_delete_ref sm sa H (x :: r) G).
  destruct (q_delete path path_prims sa (x :: r)) as [rs| |] eqn:E; cbn [omap]; try (triv H).
  split; [reflexivity|]. apply RS_set_rows; [exact H|]. eapply q_delete_good; [apply (rs_good _ _ H) | exact E].
Qed.

Lemma dir_name_ref : forall sm sa dl id, RS sm sa -> id <> [] ->
  dir_name str string_prims dl id (join_dollar id) sm = dir_name path path_prims dl id id sa.
Proof.
  intros sm sa dl id H Hne. unfold dir_name. cbn [p_text string_prims path_prims]. rewrite (rs_nonce _ _ H). reflexivity.
Qed.

Lemma m_create_table_ref : forall sm sa dl id, RS sm sa -> storable_path id = true ->
  rel (m_create_table str string_prims dl sm id) (m_create_table path path_prims dl sa id).
Proof.
  intros sm sa dl id H Hid. unfold m_create_table. destruct id as [|x r]; [triv H|].
  pose proof (good_of_storable x r Hid) as G.
  rewrite key_b_string by discriminate. change (p_key_b path_prims (x :: r)) with (x :: r).
  rewrite (q_contains_ref sm sa H None (x :: r) G).
  destruct (q_contains path path_prims sa None (x :: r)) as [[|]| |]; try (triv H).
  rewrite (dir_name_ref sm sa dl (x :: r) H) by discriminate.
  set (dn := dir_name path path_prims dl (x :: r) (x :: r) sa).
  rewrite (rs_disk _ _ H).
  destruct (d_has_dataset (resolve_url dn) (dsk sa)); [triv H|].
  set (d2 := d_write_dataset (resolve_url dn) (dsk sa)).
  pose proof (RS_set_disk sm sa d2 H) as H2.
  rewrite (q_insert_ref _ _ H2 (x :: r) true (Some dn) G).
  destruct (q_insert path path_prims (set_disk path sa d2) (x :: r) true (Some dn)) as [rs| |] eqn:E; cbn [omap]; try (triv H2).
  split; [reflexivity|]. apply RS_set_rows; [exact H2|].
  eapply q_insert_good; [apply (rs_good _ _ H2) | exact G | exact E].
Qed.

Lemma m_create_empty_table_ref : forall sm sa dl id, RS sm sa -> storable_path id = true ->
  rel (m_create_empty_table str string_prims dl sm id) (m_create_empty_table path path_prims dl sa id).
Proof.
  intros sm sa dl id H Hid. unfold m_create_empty_table. destruct id as [|x r]; [triv H|].
  pose proof (good_of_storable x r Hid) as G.
  rewrite key_b_string by discriminate. change (p_key_b path_prims (x :: r)) with (x :: r).
  rewrite (q_find_ref sm sa H true (x :: r) G).
  destruct (q_find path path_prims sa true (x :: r)) as [[row|]| |]; cbn [omap option_map]; try (triv H).
  rewrite (dir_name_ref sm sa dl (x :: r) H) by discriminate.
  set (dn := dir_name path path_prims dl (x :: r) (x :: r) sa).
  rewrite (rs_disk _ _ H).
  set (d2 := d_reserve (child_key dn) (dsk sa)).
  pose proof (RS_set_disk sm sa d2 H) as H2.
  rewrite (q_insert_ref _ _ H2 (x :: r) true (Some dn) G).
  destruct (q_insert path path_prims (set_disk path sa d2) (x :: r) true (Some dn)) as [rs| |] eqn:E; cbn [omap]; try (triv H2).
  split; [reflexivity|]. apply RS_set_rows; [exact H2|].
  eapply q_insert_good; [apply (rs_good _ _ H2) | exact G | exact E].
Qed.

Lemma RS_wiped : forall sm sa, RS sm sa -> RS (mkS [] [] (nonce sm) true) (mkS [] [] (nonce sa) true).
Proof. intros sm sa [R D N X G]. constructor; cbn; try reflexivity; [exact N | constructor]. Qed.

Lemma m_drop_table_ref : forall sm sa id, RS sm sa -> storable_path id = true ->
  rel (m_drop_table str string_prims sm id) (m_drop_table path path_prims sa id).
Proof.
  intros sm sa id H Hid. unfold m_drop_table. destruct id as [|x r]; [triv H|].
  pose proof (good_of_storable x r Hid) as G.
  rewrite key_b_string by discriminate. change (p_key_b path_prims (x :: r)) with (x :: r).
  rewrite (q_find_ref sm sa H true (x :: r) G).
  destruct (q_find path path_prims sa true (x :: r)) as [[row|]| |]; cbn [omap option_map]; try (triv H).
  rewrite (q_delete_ref sm sa H (x :: r) G).
  destruct (q_delete path path_prims sa (x :: r)) as [rs| |] eqn:E; cbn [omap]; try (triv H).
  assert (H1 : RS (set_rows str sm (map enc rs)) (set_rows path sa rs)).
  { apply RS_set_rows; [exact H|]. eapply q_delete_good; [apply (rs_good _ _ H) | exact E]. }
  rewrite loc_enc. destruct (loc_or_empty row) as [|c loc'].
  - split; [reflexivity|]. apply (RS_wiped _ _ H1).
  - cbn [dsk set_rows]. rewrite (rs_disk _ _ H).
    destruct (d_remove_under (child_key (c :: loc')) (dsk sa)) as [d|]; [|triv H1].
    split; [reflexivity|]. apply RS_set_disk. exact H1.
Qed.

Lemma m_register_ref : forall sm sa id loc, RS sm sa -> storable_path id = true ->
  rel (m_register str string_prims sm id loc) (m_register path path_prims sa id loc).
Proof.
  intros sm sa id loc H Hid. unfold m_register. destruct id as [|x r]; [triv H|].
  pose proof (good_of_storable x r Hid) as G.
  destruct (contains_sub loc [58; 47; 47]); [triv H|].
  destruct (starts_with loc [SLASH]); [triv H|].
  destruct (contains_sub loc DOTDOT); [triv H|].
  rewrite key_b_string by discriminate. change (p_key_b path_prims (x :: r)) with (x :: r).
  rewrite (check_levels_ref sm sa _ H (levels_good _ (storable_path_removelast _ Hid))).
  destruct (check_levels path path_prims sa (levels_of (removelast (x :: r)))); [triv H|].
  rewrite (q_contains_ref sm sa H None (x :: r) G).
  destruct (q_contains path path_prims sa None (x :: r)) as [[|]| |]; try (triv H).
  rewrite (q_insert_ref sm sa H (x :: r) true (Some loc) G).
  destruct (q_insert path path_prims sa (x :: r) true (Some loc)) as [rs| |] eqn:E; cbn [omap]; try (triv H).
  split; [reflexivity|]. apply RS_set_rows; [exact H|]. eapply q_insert_good; [apply (rs_good _ _ H) | exact G | exact E].
Qed.

Lemma m_deregister_ref : forall sm sa id, RS sm sa -> storable_path id = true ->
  rel (m_deregister str string_prims sm id) (m_deregister path path_prims sa id).
Proof.
  intros sm sa id H Hid. unfold m_deregister. destruct id as [|x r]; [triv H|].
  pose proof (good_of_storable x r Hid) as G.
  rewrite key_b_string by discriminate. change (p_key_b path_prims (x :: r)) with (x :: r).
  rewrite (q_find_ref sm sa H true (x :: r) G).
  destruct (q_find path path_prims sa true (x :: r)) as [[row|]| |]; cbn [omap option_map]; try (triv H).
  rewrite (q_delete_ref sm sa H (x :: r) G).
  destruct (q_delete path path_prims sa (x :: r)) as [rs| |] eqn:E; cbn [omap]; try (triv H).
  rewrite loc_enc. split; [reflexivity|]. apply RS_set_rows; [exact H|]. eapply q_delete_good; [apply (rs_good _ _ H) | exact E].
Qed.

(* ------------------------------------------------------------------ DirectoryNamespace *)

Lemma dir_describe_ref : forall sm sa id, RS sm sa -> rel (dir_describe str sm id) (dir_describe path sa id).
Proof.
  intros sm sa id H. unfold dir_describe. destruct id as [|n [|y r]]; try (triv H).
  rewrite (rs_disk _ _ H).
  destruct (d_exists_under _ (dsk sa)); cbn [negb]; [|triv H].
  destruct (d_has_dataset _ (dsk sa)); [triv H|].
  destruct (d_has_reserved _ (dsk sa)); triv H.
Qed.

Lemma dir_exists_ref : forall sm sa id, RS sm sa -> rel (dir_exists str sm id) (dir_exists path sa id).
Proof.
  intros sm sa id H. unfold dir_exists. destruct id as [|n [|y r]]; try (triv H).
  rewrite (rs_disk _ _ H). destruct (d_exists_under _ (dsk sa)); triv H.
Qed.

Lemma step_ref : forall mode sm sa o, RS sm sa -> storable_op o = true ->
  rel (step string_prims mode sm o) (step path_prims mode sa o).
Proof.
  intros mode sm sa o H Ho. unfold storable_op in Ho.
  destruct o as [id|id|id|id|id tok lim|id|id|id|id|id|id tok lim|id loc|id]; cbn [op_id] in Ho; cbn [step].
  - (* create_namespace *)
    destruct (negb (mode =? 0)); [apply m_create_ns_ref; assumption|]. destruct id; triv H.
  - destruct (negb (mode =? 0)); [apply m_drop_ns_ref; assumption|]. destruct id; triv H.
  - destruct (negb (mode =? 0)); [apply m_describe_ns_ref; assumption|]. destruct id; triv H.
  - destruct (negb (mode =? 0)); [apply m_ns_exists_ref; assumption|]. destruct id; triv H.
  - destruct (negb (mode =? 0)); [apply m_list_ref; assumption|]. destruct id; triv H.
  - (* create_empty_table *)
    destruct (negb (mode =? 0)); [apply m_create_empty_table_ref; assumption|].
    destruct id as [|n [|y r]]; try (triv H).
    rewrite (rs_disk _ _ H). split; [reflexivity|]. apply RS_set_disk. exact H.
  - (* create_table *)
    destruct (negb (mode =? 0)); [apply m_create_table_ref; assumption|].
    destruct id as [|n [|y r]]; try (triv H).
    rewrite (rs_disk _ _ H). destruct (d_has_dataset _ (dsk sa)); [triv H|].
    split; [reflexivity|]. apply RS_set_disk. exact H.
  - (* drop_table *)
    destruct (negb (mode =? 0)); [apply m_drop_table_ref; assumption|].
    destruct id as [|n [|y r]]; try (triv H).
    rewrite (rs_disk _ _ H). destruct (d_remove_under _ (dsk sa)); [|triv H].
    split; [reflexivity|]. apply RS_set_disk. exact H.
  - (* table_exists *)
    destruct (negb (mode =? 0)); [|apply dir_exists_ref; exact H].
    pose proof (m_table_exists_ref sm sa id H Ho) as [Ea Es].
    destruct (m_table_exists str string_prims sm id) as [a1 s1].
    destruct (m_table_exists path path_prims sa id) as [a2 s2]. cbn [fst snd] in Ea, Es. subst a2.
    destruct (is_ok a1); [split; [reflexivity | exact Es]|].
    destruct (negb (mode =? 1) && negb match a1 with APanic => true | _ => false end);
      [apply dir_exists_ref; exact H | split; [reflexivity | exact Es]].
  - (* describe_table *)
    destruct (negb (mode =? 0)); [|apply dir_describe_ref; exact H].
    pose proof (m_describe_table_ref sm sa id H Ho) as [Ea Es].
    destruct (m_describe_table str string_prims sm id) as [a1 s1].
    destruct (m_describe_table path path_prims sa id) as [a2 s2]. cbn [fst snd] in Ea, Es. subst a2.
    destruct (is_ok a1); [split; [reflexivity | exact Es]|].
    destruct (negb (mode =? 1) && (length id =? 1)%nat && negb match a1 with APanic => true | _ => false end);
      [apply dir_describe_ref; exact H | split; [reflexivity | exact Es]].
  - (* list_tables *)
    destruct id as [|x r].
    + destruct (negb (mode =? 0) && negb (negb (mode =? 1))); [apply m_list_ref; assumption|].
      destruct (negb (mode =? 0)).
      * rewrite (rs_dead _ _ H). destruct (dead sa); [triv H|].
        rewrite (q_children_ref sm sa H true [] eq_refl).
        destruct (q_children path path_prims sa true []) as [mt| |]; try (triv H).
        cbn [p_root_locs string_prims path_prims]. rewrite (rs_rows _ _ H), (root_locs_ref _ (rs_good _ _ H)), (rs_disk _ _ H).
        triv H.
      * rewrite (rs_disk _ _ H). triv H.
    + destruct (negb (mode =? 0)); [apply m_list_ref; assumption | triv H].
  - destruct (negb (mode =? 0)); [apply m_register_ref; assumption | triv H].
  - destruct (negb (mode =? 0)); [apply m_deregister_ref; assumption | triv H].
Qed.

(* ------------------------------------------------------------------ runs *)

Lemma run_ref : forall mode ops sm sa, RS sm sa -> forallb storable_op ops = true ->
  fst (run string_prims mode sm ops) = fst (run path_prims mode sa ops)
  /\ RS (snd (run string_prims mode sm ops)) (snd (run path_prims mode sa ops)).
Proof.
  intros mode ops. induction ops as [|o r IH]; intros sm sa H Hs; [split; [reflexivity | exact H]|].
  cbn [forallb] in Hs. apply andb_true_iff in Hs as [Ho Hr]. cbn [run].
  pose proof (step_ref mode sm sa o H Ho) as [Ea Es].
  destruct (step string_prims mode sm o) as [a1 s1]. destruct (step path_prims mode sa o) as [a2 s2].
  cbn [fst snd] in Ea, Es. subst a2.
  pose proof (IH (bump s1) (bump s2) (RS_bump _ _ Es) Hr) as [Er Esr].
  destruct (run string_prims mode (bump s1) r) as [as1 t1]. destruct (run path_prims mode (bump s2) r) as [as2 t2].
  cbn [fst snd] in *. subst as2. split; [reflexivity | exact Esr].
Qed.

(* Every answer of the implementation model, error kinds included, is the answer of the path-keyed map. *)
Theorem impl_refines_map : forall mode ops, forallb storable_op ops = true -> impl_run mode ops = map_run mode ops.
Proof. intros mode ops Hs. unfold impl_run, map_run. apply (run_ref mode ops init init RS_init Hs). Qed.
