(* C33 - Manifest naming and latest-version discovery are exact. Property theorems only. *)
From LanceV Require Import Common.Base Store.Model_Naming Store.Proofs_Naming.
Local Open Scope N_scope.

Theorem C33_scheme_eqb : forall a b, scheme_eqb a b = true <-> a = b.
Proof. exact scheme_eqb_eq. Qed.
Print Assumptions C33_scheme_eqb.
