(* C33 - Manifest naming and latest-version discovery are exact. Property theorems only.
   Model: Store/Model_Naming.v (file names are byte lists); proofs: Store/Proofs_Naming.v.
   attached v := v < 2^63;  detached v := 2^63 <= v <= 2^64-1;
   junk f := valid_entry f = None  (the scheme of f is not detected, or its version does not parse:
   detached manifests, staging copies, temporary files, anything else). *)
From Coq Require Import Permutation Sorting.Sorted.
From LanceV Require Import Common.Base Store.Model_Naming Store.Proofs_Naming.
Local Open Scope N_scope.

(* ---- decimal printing / parsing (every u64) ---- *)
Theorem C33_decimal_roundtrip : forall v, v <= u64max ->
  parse_u64 (to_dec v) = Some v /\ parse_u64 (pad20 v) = Some v /\ length (pad20 v) = 20%nat /\
  parse_u64 (c_plus :: to_dec v) = Some v.
Proof.
  intros v Hv. split; [apply parse_u64_to_dec; exact Hv|]. split; [apply parse_u64_pad20; exact Hv|].
  split; [apply pad20_length|].
  apply parse_u64_spec. exists (to_dec v). split; [right; reflexivity|]. split; [apply to_dec_nonempty|].
  split; [apply to_dec_digit|]. split; [apply dval_to_dec; assumption | assumption].
Qed.
Print Assumptions C33_decimal_roundtrip.

(* what u64::from_str accepts, exactly: an optional '+', then a non-empty digit string whose value fits *)
Theorem C33_parse_u64_exact : forall s v,
  parse_u64 s = Some v <->
  exists ds, (s = ds \/ s = c_plus :: ds) /\ ds <> [] /\ Forall digit ds /\ dval 0 ds = v /\ v <= u64max.
Proof. exact parse_u64_spec. Qed.
Print Assumptions C33_parse_u64_exact.

Theorem C33_parse_u64_overflow_rejected : forall ds, Forall digit ds -> u64max < dval 0 ds ->
  parse_u64 ds = None /\ parse_u64 (c_plus :: ds) = None.
Proof. exact parse_u64_overflow. Qed.
Print Assumptions C33_parse_u64_overflow_rejected.

(* ---- name <-> version round trip, both schemes, every attached version ---- *)
Theorem C33_roundtrip : forall (s : scheme) (v : N), v < 2 ^ 63 ->
  parse_version s (manifest_name s v) = Some v /\
  detect_scheme (manifest_name s v) = Some s /\
  valid_entry (manifest_name s v) = Some (s, manifest_name s v).
Proof.
  intros s v Hv. change (2 ^ 63) with two63 in Hv.
  split; [apply parse_version_attached; exact Hv|].
  split; [apply detect_scheme_attached; exact Hv | apply valid_entry_attached; exact Hv].
Qed.
Print Assumptions C33_roundtrip.

Theorem C33_names_injective : forall s v1 v2, v1 <= u64max -> v2 <= u64max ->
  manifest_name s v1 = manifest_name s v2 -> v1 = v2.
Proof. exact manifest_name_inj. Qed.
Print Assumptions C33_names_injective.

(* ---- detached and attached names never confuse each other ---- *)
Theorem C33_detached_separate : forall (s s' : scheme) (d : N), 2 ^ 63 <= d <= u64max ->
  parse_version s' (manifest_name s d) = None /\          (* never parses as an attached version *)
  valid_entry (manifest_name s d) = None /\               (* never a candidate for "latest" *)
  detect_scheme (manifest_name s d) = Some V2 /\
  manifest_name V1 d = manifest_name V2 d /\
  (exists digits, manifest_name s d = c_d :: digits ++ DOT_EXT /\ parse_u64 digits = Some d) /\
  (forall v, v < 2 ^ 63 ->
     manifest_name s' v <> manifest_name s d /\ starts_with [c_d] (manifest_name s' v) = false).
Proof.
  intros s s' d Hd. change (2 ^ 63) with two63 in *. assert (D : detached d) by exact Hd.
  split; [apply parse_version_detached; exact D|].
  split; [apply valid_entry_detached; exact D|].
  split; [apply detect_scheme_detached; exact D|].
  split; [apply detached_name_scheme_free; exact D|].
  split; [apply detached_name_carries_version; exact D|].
  intros v Hv. split; [apply attached_detached_names_differ; assumption | apply attached_name_no_d; exact Hv].
Qed.
Print Assumptions C33_detached_separate.

(* ---- V2 names sort in reverse version order ---- *)
Theorem C33_v2_order : forall v1 v2, v1 < 2 ^ 63 -> v2 < 2 ^ 63 ->
  (v1 < v2 <-> lex_ltb (manifest_name V2 v2) (manifest_name V2 v1) = true).
Proof.
  intros v1 v2 H1 H2. change (2 ^ 63) with two63 in *. rewrite v2_name_order by assumption.
  symmetry. apply N.ltb_lt.
Qed.
Print Assumptions C33_v2_order.

(* ---- staging copies and temporary files ---- *)
(* any name whose last byte is not 't' (uuid suffixes end in a hex digit) is junk; staging copies keep their scheme *)
Theorem C33_staging : forall v suffix,
  (forall x b, b <> 116 -> valid_entry (x ++ [b]) = None) /\
  (v <= u64max -> detect_scheme_staging (pad20 v ++ DOT_EXT ++ suffix) = V2) /\
  (v < 2 ^ 63 -> Forall (fun c => c <> c_dot) suffix -> detect_scheme_staging (to_dec v ++ DOT_EXT ++ suffix) = V1).
Proof.
  intros v suffix. split; [exact valid_entry_none_by_last|]. split.
  - apply detect_scheme_staging_v2.
  - intro Hv. change (2 ^ 63) with two63 in Hv. apply detect_scheme_staging_v1. exact Hv.
Qed.
Print Assumptions C33_staging.

(* ---- latest-version discovery ----
   For EVERY directory made of the manifests of attached versions [vs] under one scheme [s] plus arbitrary junk
   (the junk seen by read_dir and by the store listing may differ), EVERY order in which read_dir and the store
   list it, both values of is_local, and both values of the lexical-order flag (when set, the listing is sorted):
   the answer is the highest attached version under its canonical name, NotFound iff there is none.
   Never an error, never a panic. *)
Theorem C33_latest : forall (s : scheme) (vs : list N) (junk_rd junk_ls : list name)
                            (is_local lexical : bool) (read_dir listing : list name),
  Forall (fun v => v < 2 ^ 63) vs ->
  Forall junk junk_rd -> Forall junk junk_ls ->
  Permutation read_dir (map (manifest_name s) vs ++ junk_rd) ->
  Permutation listing (map (manifest_name s) vs ++ junk_ls) ->
  (lexical = true -> StronglySorted (fun a b => lex_ltb b a = false) listing) ->
  current_manifest_path is_local lexical read_dir listing =
  match vs with
  | [] => NotFound
  | _ => Found (fold_right N.max 0 vs) (manifest_name s (fold_right N.max 0 vs)) s
  end.
Proof. exact latest_exact. Qed.
Print Assumptions C33_latest.

(* ---- listing all versions ---- *)
Theorem C33_list : forall (s : scheme) (vs : list N) (jk listing : list name) (sorted lexical : bool),
  Forall (fun v => v < 2 ^ 63) vs -> Forall junk jk ->
  Permutation listing (map (manifest_name s) vs ++ jk) ->
  (lexical = true -> StronglySorted (fun a b => lex_ltb b a = false) listing) ->
  Permutation (list_manifest_locations sorted lexical listing) (map (fun v => (v, manifest_name s v, s)) vs) /\
  (sorted = true ->
     StronglySorted (fun a b => loc_version b <= loc_version a) (list_manifest_locations sorted lexical listing)) /\
  (sorted = true -> NoDup vs ->
     StronglySorted (fun a b => loc_version b < loc_version a) (list_manifest_locations sorted lexical listing)).
Proof.
  intros s vs jk listing sorted lexical Hvs Hjk P Hs.
  destruct (list_exact s vs jk listing sorted lexical Hvs Hjk P Hs) as [H1 H2].
  split; [exact H1|]. split; [exact H2|].
  intros -> ND. eapply list_sorted_strict; eassumption.
Qed.
Print Assumptions C33_list.

(* ---- migration to V2 names ----
   general form: every file moves to [target] of its name, contents untouched, provided no two files end up under
   the same name and every V1-detected name parses; the result is a fixed point of the migration. *)
Theorem C33_migrate_exact : forall d : dir,
  NoDup (map target (map fst d)) ->
  (forall f, In f (map fst d) -> is_v1_name f = true -> parse_version V1 f <> None) ->
  exists d', migrate_scheme_to_v2 d = Ok d' /\
             Permutation d' (map (fun e => (target (fst e), snd e)) d) /\
             migrate_scheme_to_v2 d' = Ok d'.
Proof. exact migrate_exact. Qed.
Print Assumptions C33_migrate_exact.

(* the version a file denotes does not change with its name *)
Theorem C33_migrate_keeps_versions : forall f,
  (forall v, ver_of f = Some v -> v < 2 ^ 63) -> ver_of (target f) = ver_of f.
Proof. exact target_keeps_version. Qed.
Print Assumptions C33_migrate_keeps_versions.

(* a V1 directory: versions [map fst vc] (distinct, attached) with contents [map snd vc], plus files not detected as V1
   (V2 manifests of other versions, detached manifests, staging/temporary files): the set of (version, content)
   pairs is preserved, every manifest ends up under its V2 name, nothing else is touched, and a second run is a no-op *)
Theorem C33_migrate : forall (vc : list (N * N)) (others d : dir),
  NoDup (map fst vc) -> Forall (fun v => v < 2 ^ 63) (map fst vc) ->
  Forall (fun e => is_v1_name (fst e) = false) others -> NoDup (map fst others) ->
  (forall v, In v (map fst vc) -> ~ In (manifest_name V2 v) (map fst others)) ->
  Permutation d (map (fun p => (manifest_name V1 (fst p), snd p)) vc ++ others) ->
  exists d', migrate_scheme_to_v2 d = Ok d' /\
             Permutation d' (map (fun p => (manifest_name V2 (fst p), snd p)) vc ++ others) /\
             migrate_scheme_to_v2 d' = Ok d'.
Proof. exact migrate_uniform. Qed.
Print Assumptions C33_migrate.

(* ---- non-vacuity and regression inputs (tests, not the theorems) ---- *)
(* DESIGN §6 F3: lexically ordered store, V2 names of versions 1-2 plus one detached manifest *)
Example C33_F3_input :
  let dir := sort_lex [manifest_name V2 1; manifest_name V2 2; manifest_name V2 9223372036854775809] in
  current_manifest_path false true [] dir = Found 2 (bs "18446744073709551613.manifest") V2.
Proof. vm_compute. reflexivity. Qed.

(* 68164c9: store not flagged lexically ordered, not local, V2 names, two versions, any order *)
Example C33_unordered_v2_input :
  current_manifest_path false false [] [manifest_name V2 1; manifest_name V2 2] = Found 2 (manifest_name V2 2) V2 /\
  current_manifest_path false false [] [manifest_name V2 2; manifest_name V2 1] = Found 2 (manifest_name V2 2) V2.
Proof. split; vm_compute; reflexivity. Qed.

(* the hypotheses of C33_latest are satisfiable by a non-trivial directory: V1 names straddling a power of ten
   (9 sorts after 10 and 100 lexically), a detached manifest, a staging copy and a temp file, local store *)
Example C33_latest_nonvacuous :
  let vs := [9; 100; 10] in
  let jk := [manifest_name V1 9223372036854775810; bs "7.manifest-cee4fbbb-eb19-4ea3-8ca7-54f5ec33dedc";
             bs ".tmp_7.manifest_9c100374-3298-4537-afc6-f5ee7913666d"] in
  Forall (fun v => v < 2 ^ 63) vs /\ forallb (fun f => match valid_entry f with None => true | _ => false end) jk = true /\
  current_manifest_path true false (jk ++ map (manifest_name V1) vs) (sort_lex (map (manifest_name V1) vs ++ jk))
  = Found 100 (bs "100.manifest") V1.
Proof. split; [repeat constructor|]. split; vm_compute; reflexivity. Qed.

(* sweep of the round trip and of the order over boundary values, both schemes (a test) *)
Example C33_boundary_sweep :
  let vs := [0; 1; 9; 10; 11; 99; 100; 999999999; 1000000000; 9999999999999999999 / 10; 9223372036854775806; 9223372036854775807] in
  forallb (fun v => match parse_version V1 (manifest_name V1 v), parse_version V2 (manifest_name V2 v) with
                    | Some a, Some b => (a =? v) && (b =? v) | _, _ => false end) vs = true /\
  forallb (fun a => forallb (fun b => Bool.eqb (a <? b) (lex_ltb (manifest_name V2 b) (manifest_name V2 a))) vs) vs = true /\
  forallb (fun d => match parse_version V1 (manifest_name V1 d), parse_version V2 (manifest_name V2 d) with
                    | None, None => true | _, _ => false end) [9223372036854775808; 9223372036854775809; 18446744073709551615] = true.
Proof. repeat split; vm_compute; reflexivity. Qed.

(* migration of a small V1 directory with a detached manifest and a V2 manifest of another version *)
Example C33_migrate_nonvacuous :
  migrate_scheme_to_v2 [(manifest_name V1 1, 11); (manifest_name V1 10, 12); (manifest_name V2 3, 13);
                        (manifest_name V1 9223372036854775809, 14); (bs "irrelevant", 15)]
  = Ok [(manifest_name V2 10, 12); (manifest_name V2 1, 11); (manifest_name V2 3, 13);
        (manifest_name V1 9223372036854775809, 14); (bs "irrelevant", 15)].
Proof. vm_compute. reflexivity. Qed.
