(* C21 - Index result combination is sound; masks are sets.  Property theorems only.
   Model: Core/Model_Mask.v (RowIdTreeMap, RowIdMask) and Index/Model_ExprResult.v (IndexExprResult,
   ScalarIndexExpr::evaluate), transcribed from /repo after the repairs of DESIGN §6 F2 and F15.
   [tm_wf] / [mask_wf] is the representation invariant of the Rust types (BTreeMap keys are distinct u32
   in increasing order, a RoaringBitmap is a set of u32); every operation is shown to preserve it. *)
From LanceV Require Import Common.Base Core.Model_Mask Core.Proofs_Mask Index.Model_ExprResult Index.Proofs_ExprResult.
Local Open Scope N_scope.

(* ---------------------------------------------------------------- RowIdTreeMap is a set of u64 *)

(* |, &, - are union, intersection, difference of the sets of contained row ids: for ALL maps and ALL ids *)
Theorem C21_treemap_set_algebra : forall a b : treemap, tm_wf a -> tm_wf b ->
  (forall x, tm_contains (tm_or a b) x = tm_contains a x || tm_contains b x) /\
  (forall x, tm_contains (tm_and a b) x = tm_contains a x && tm_contains b x) /\
  (forall x, tm_contains (tm_sub a b) x = tm_contains a x && negb (tm_contains b x)) /\
  tm_wf (tm_or a b) /\ tm_wf (tm_and a b) /\ tm_wf (tm_sub a b).
Proof.
  intros a b Ha Hb.
  split; [intro x; apply tm_or_contains; assumption|].
  split; [intro x; apply tm_and_contains; assumption|].
  split; [intro x; apply tm_sub_contains; assumption|].
  split; [apply Proofs_Mask.tm_or_wf; assumption|].
  split; [apply Proofs_Mask.tm_and_wf | apply Proofs_Mask.tm_sub_wf]; assumption.
Qed.
Print Assumptions C21_treemap_set_algebra.

(* insert / remove add / delete exactly one id and report whether the set changed *)
Theorem C21_treemap_insert_remove : forall (t : treemap) (v x : N), tm_wf t -> v < two64 -> x < two64 ->
  tm_contains (fst (tm_insert v t)) x = (x =? v) || tm_contains t x /\
  snd (tm_insert v t) = negb (tm_contains t v) /\
  tm_contains (fst (tm_remove v t)) x = tm_contains t x && negb (x =? v) /\
  snd (tm_remove v t) = tm_contains t v /\
  tm_wf (fst (tm_insert v t)) /\ tm_wf (fst (tm_remove v t)).
Proof.
  intros t v x Ht Hv Hx.
  split; [rewrite tm_insert_contains, same_parts_eq by assumption; reflexivity|].
  split; [apply tm_insert_ret|].
  split; [rewrite tm_remove_contains, same_parts_eq by assumption; reflexivity|].
  split; [apply tm_remove_ret|].
  split; [apply tm_insert_wf | apply tm_remove_wf]; assumption.
Qed.
Print Assumptions C21_treemap_insert_remove.

(* insert_range(s, e) adds exactly the ids within the bounds - for every kind of bound, empty and inverted
   ranges, ranges ending in the last fragment, `..` included - and never runs out of loop iterations
   (F15 repaired: no carve-out).  [Panic] is only the u64 overflow of the returned count. *)
Theorem C21_insert_range_is_range : forall (s e : bound) (t : treemap), bound_ok s -> bound_ok e ->
  tm_insert_range s e t <> Err /\
  forall t' c, tm_insert_range s e t = Ok (t', c) ->
    (tm_wf t -> tm_wf t') /\
    forall x, x < two64 -> tm_contains t' x = tm_contains t x || in_bounds s e x.
Proof. exact tm_insert_range_spec. Qed.
Print Assumptions C21_insert_range_is_range.

(* extend / from_iter, insert_fragment, insert_bitmap, retain_fragments, mask *)
Theorem C21_treemap_bulk_ops : forall (t : treemap) (m : mask) (vs fs : list N) (f : N) (b : bitmap) (x : N),
  tm_wf t -> mask_wf m ->
  tm_contains (tm_extend t vs) x = tm_contains t x || existsb (fun v => (hi32 x =? hi32 v) && (lo32 x =? lo32 v)) vs /\
  tm_contains (tm_insert_fragment f t) x = (hi32 x =? f) || tm_contains t x /\
  tm_contains (tm_insert_bitmap f b t) x = (if hi32 x =? f then bm_mem b (lo32 x) else tm_contains t x) /\
  tm_contains (tm_retain_fragments fs t) x = tm_contains t x && lmem (hi32 x) fs /\
  tm_contains (tm_mask t m) x = tm_contains t x && selected m x /\
  tm_wf (tm_extend t vs) /\ tm_wf (tm_mask t m).
Proof.
  intros t m vs fs f b x Ht Hm.
  split; [apply tm_extend_contains|].
  split; [apply tm_insert_fragment_contains|].
  split; [apply tm_insert_bitmap_contains|].
  split; [apply tm_retain_contains; assumption|].
  split; [apply tm_mask_contains; assumption|].
  split; [apply tm_extend_wf | apply tm_mask_wf]; assumption.
Qed.
Print Assumptions C21_treemap_bulk_ops.

(* union_all / Extend<Self>: the union of all the maps *)
Theorem C21_treemap_union_all : forall (maps : list treemap) (t : treemap) (x : N), Forall tm_wf maps ->
  tm_contains (tm_union_all maps) x = existsb (fun m => tm_contains m x) maps /\
  tm_contains (tm_extend_maps t maps) x = tm_contains t x || existsb (fun m => tm_contains m x) maps.
Proof. intros maps t x H. split; [apply tm_union_all_contains | apply tm_extend_maps_contains]; exact H. Qed.
Print Assumptions C21_treemap_union_all.

(* size and iteration: when no fragment is Full, row_ids lists exactly the members (below 2^64), strictly
   increasing, and len is their number; len is None exactly when row_ids is (some fragment is Full).
   Holds for nearly full bitmaps (RoaringBitmap::full() minus a few) as well. *)
Theorem C21_treemap_len_iter : forall (t : treemap), tm_wf t ->
  (tm_len t = None <-> tm_row_ids t = None) /\
  forall ids, tm_row_ids t = Some ids ->
    lsorted ids /\ tm_len t = Some (llen ids) /\
    forall x, x < two64 -> (In x ids <-> tm_contains t x = true).
Proof.
  intros t Ht. split; [apply tm_len_none_iff; exact Ht|]. intros ids E. apply tm_row_ids_spec; assumption.
Qed.
Print Assumptions C21_treemap_len_iter.

(* serialization layout: with any roaring codec that round trips and never writes an empty or >= 4 GiB
   payload (the real one writes at least 8 bytes), deserialize_from (serialize_into t) = t, and
   serialized_size is the number of bytes written *)
Theorem C21_treemap_serialize_roundtrip :
  forall (rb_ser : bitmap -> list N) (rb_de : list N -> option bitmap),
  (forall b, rb_de (rb_ser b) = Some b) -> (forall b, 0 < llen (rb_ser b) < two32) ->
  forall t : treemap, tm_wf t -> llen t < two32 ->
  tm_deserialize rb_de (tm_serialize rb_ser t) = Ok t /\
  tm_serialized_size rb_ser t = llen (tm_serialize rb_ser t).
Proof.
  intros rb_ser rb_de H1 H2 t Ht Hl. split; [apply tm_serialize_roundtrip; assumption | exact (tm_serialized_size_spec rb_ser rb_de H1 H2 t)].
Qed.
Print Assumptions C21_treemap_serialize_roundtrip.

(* Canonical form (no entry holds an empty bitmap) makes is_empty() mean set emptiness; it is preserved by
   insert, extend/from_iter, remove, insert_range (F15: insert_range(5..5) used to break it), |, & and -
   (repaired by 7f76aa9: Full minus a bitmap holding all 2^32 offsets used to leave an empty entry; no
   carve-out any more). *)
Theorem C21_canonical_form : forall (a b : treemap) (v : N) (vs : list N) (s e : bound),
  tm_wf a -> tm_wf b -> tm_canon a -> tm_canon b -> bound_ok s -> bound_ok e ->
  (tm_is_empty a = true <-> forall x, x < two64 -> tm_contains a x = false) /\
  tm_canon (fst (tm_insert v a)) /\ tm_canon (tm_extend a vs) /\ tm_canon (fst (tm_remove v a)) /\
  (forall t' c, tm_insert_range s e a = Ok (t', c) -> tm_canon t') /\
  tm_canon (tm_or a b) /\ tm_canon (tm_and a b) /\
  tm_canon (tm_sub a b).
Proof.
  intros a b v vs s e Ha Hb Hca Hcb Hs He.
  split; [apply tm_is_empty_spec; assumption|].
  split; [apply tm_insert_canon; assumption|].
  split; [apply tm_extend_canon; assumption|].
  split; [apply tm_remove_canon; assumption|].
  split; [intros t' c E; apply (tm_insert_range_canon s e a t' c); assumption|].
  split; [apply tm_or_canon; assumption|].
  split; [apply tm_and_canon|].
  apply tm_sub_canon; assumption.
Qed.
Print Assumptions C21_canonical_form.

(* regression input of 7f76aa9 (was the known-finding class Known_C21_full_minus_whole_bitmap):
   {7: Full} - {7: Partial(all 2^32 offsets)} is the empty map, and is_empty() says so *)
Example C21_full_minus_whole_bitmap_input :
  tm_sub [(7, Full)] [(7, Partial bm_full)] = [] /\
  tm_is_empty (tm_sub [(7, Full)] [(7, Partial bm_full)]) = true /\
  tm_sub [(7, Full); (9, Full)] [(7, Partial bm_full); (9, Partial (Neg [3]))] = [(9, Partial (Pos [3]))].
Proof. vm_compute. repeat split; reflexivity. Qed.

(* ---------------------------------------------------------------- RowIdMask: pointwise boolean algebra *)

(* F2 repaired: the complement really is the complement, for every shape of mask *)
Theorem C21_mask_not : forall (m : mask) (x : N), mask_wf m ->
  selected (mnot m) x = negb (selected m x) /\ mask_wf (mnot m).
Proof. intros m x H. split; [apply mnot_selected | apply mnot_wf]; assumption. Qed.
Print Assumptions C21_mask_not.

Theorem C21_mask_and : forall (l r : mask) (x : N), mask_wf l -> mask_wf r ->
  selected (mand l r) x = selected l x && selected r x /\ mask_wf (mand l r).
Proof. intros l r x Hl Hr. split; [apply mand_selected | apply mand_wf]; assumption. Qed.
Print Assumptions C21_mask_and.

(* F2 repaired: `|` is the pointwise disjunction for all 16 shape combinations, and its unreachable!() arm
   is indeed unreachable *)
Theorem C21_mask_or : forall (l r : mask), mask_wf l -> mask_wf r ->
  exists m, mor l r = Ok m /\ mask_wf m /\ forall x, selected m x = selected l x || selected r x.
Proof. exact mor_spec. Qed.
Print Assumptions C21_mask_or.

Theorem C21_mask_normalize_also : forall (m : mask) (t : treemap) (x : N), mask_wf m -> tm_wf t ->
  selected (normalize m) x = selected m x /\
  (allow (normalize m) = None \/ block (normalize m) = None) /\
  selected (also_block m t) x = selected m x && negb (tm_contains t x) /\
  selected (also_allow m t) x =
    match allow m with
    | None => selected m x
    | Some ex => (tm_contains ex x || tm_contains t x)
                 && negb (match block m with Some b => tm_contains b x | None => false end)
    end /\
  mask_wf (normalize m) /\ mask_wf (also_block m t) /\ mask_wf (also_allow m t).
Proof.
  intros m t x Hm Ht. split; [apply normalize_selected; assumption|].
  split; [destruct m as [[a|] [b|]]; cbn; auto|].
  split; [apply also_block_selected; assumption|].
  split; [apply also_allow_selected; assumption|].
  split; [apply normalize_wf; assumption|].
  split; [apply also_block_wf | apply also_allow_wf]; assumption.
Qed.
Print Assumptions C21_mask_normalize_also.

(* iter_ids lists exactly the selected ids, strictly increasing; max_len is the size of the allow list *)
Theorem C21_mask_iter_ids : forall (m : mask), mask_wf m ->
  (forall ids, iter_ids m = Some ids ->
     lsorted ids /\ forall x, x < two64 -> (In x ids <-> selected m x = true)) /\
  (forall n, max_len m = Some n -> exists a ids, allow m = Some a /\ tm_row_ids a = Some ids /\ n = llen ids).
Proof.
  intros m Hm. split; [intros ids E; apply iter_ids_spec; assumption | intros n E; apply max_len_spec; assumption].
Qed.
Print Assumptions C21_mask_iter_ids.

(* ---------------------------------------------------------------- the Exact / AtMost / AtLeast table *)

(* [sound r T]: Exact m claims selected m = T, AtMost m claims T ⊆ selected m, AtLeast m claims selected m ⊆ T.
   Every row of the NOT / AND / OR table keeps the claim true for the combined truth. *)
Theorem C21_guarantees : forall (l r : expr_result) (Tl Tr : truth),
  result_wf l -> result_wf r -> sound l Tl -> sound r Tr ->
  sound (combine_not l) (fun x => negb (Tl x)) /\
  sound (combine_and l r) (fun x => Tl x && Tr x) /\
  (exists res, combine_or l r = Ok res /\ sound res (fun x => Tl x || Tr x) /\ result_wf res) /\
  result_wf (combine_not l) /\ result_wf (combine_and l r).
Proof.
  intros l r Tl Tr Hwl Hwr Hl Hr.
  destruct (combine_not_sound l Tl Hwl Hl) as [N1 N2].
  destruct (combine_and_sound l r Tl Tr Hwl Hwr Hl Hr) as [A1 A2].
  split; [exact N1|]. split; [exact A1|]. split; [apply combine_or_sound; assumption|]. split; assumption.
Qed.
Print Assumptions C21_guarantees.

(* A whole ScalarIndexExpr: if every index answers within its own guarantee, the combined answer is within
   its guarantee for the expression's truth (two-valued: NOT is the complement of the truth set; the
   three-valued NULL case is property C19).  It fails exactly when some leaf fails and never panics. *)
Theorem C21_evaluate_sound : forall (load : N -> outcome search_result) (tr : N -> truth) (e : iexpr),
  (forall i s, In i (leaves e) -> load i = Ok s -> tm_wf (leaf_map s) /\ leaf_sound s (tr i)) ->
  (forall i, In i (leaves e) -> load i <> Panic) ->
  evaluate load e <> Panic /\
  (evaluate load e = Err <-> exists i, In i (leaves e) /\ load i = Err) /\
  forall r, evaluate load e = Ok r -> sound r (etruth tr e) /\ result_wf r.
Proof.
  intros load tr e Hl Hp. destruct (evaluate_sound load tr e Hl Hp) as [H1 H2].
  split; [exact H1|]. split; [apply (evaluate_err_iff load tr e Hl Hp) | exact H2].
Qed.
Print Assumptions C21_evaluate_sound.

(* ---------------------------------------------------------------- regression inputs and non-vacuity *)

(* the inputs of DESIGN §6 F2, evaluated on the model (they violated the property before 0357916) *)
Example C21_F2_inputs :
  (forall x, In x [0; 1; 2; 3; 4294967296; 18446744073709551615] ->
     selected (mnot all_rows) x = false) /\
  map (selected (mnot {| allow := Some (tm_from_iter [1; 2; 3]); block := Some (tm_from_iter [2]) |})) [0; 1; 2; 3; 4]
    = [true; false; true; false; true] /\
  match mor all_rows (from_block (tm_from_iter [0])) with Ok m => selected m 0 = true | _ => False end.
Proof.
  split; [|split; vm_compute; reflexivity].
  intros x Hx. repeat (destruct Hx as [<-|Hx]; [vm_compute; reflexivity|]). destruct Hx.
Qed.

(* the inputs of DESIGN §6 F15 (they violated the property before e79147a) *)
Example C21_F15_inputs :
  tm_insert_range (Incl 0) (Excl 0) [] = Ok ([], 0) /\
  tm_insert_range (Incl 5) (Excl 5) [] = Ok ([], 0) /\
  tm_insert_range (Incl u64max) (Incl u64max) [] = Ok ([(u32max, Partial (Pos [u32max]))], 1) /\
  tm_insert_range (Incl (u64max - 2)) Unb [] = Ok ([(u32max, Partial (Pos [u32max - 2; u32max - 1; u32max]))], 3) /\
  tm_insert_range (Excl u64max) Unb [(3, Full)] = Ok ([(3, Full)], 0).
Proof. vm_compute. repeat split; reflexivity. Qed.

(* the hypotheses are satisfiable by non-trivial values *)
Example C21_nonvacuous :
  let a := tm_from_iter [1; 2; 4294967296 + 7] in
  let b := tm_insert_fragment 1 (tm_from_iter [2; 9]) in
  tm_wf a /\ tm_wf b /\
  mask_wf {| allow := Some a; block := Some b |} /\
  evaluate (fun i => match i with 0 => Ok (SAtMost a) | _ => Ok (SExact b) end)
           (EOr (ENot (EQuery 0)) (EAnd (EQuery 0) (EQuery 1)))
  = Ok (AtLeast {| allow := None; block := Some [(0, Partial (Pos [1; 2])); (1, Partial (Pos [7]))] |}).
Proof.
  cbv zeta.
  assert (Ha : tm_wf (tm_from_iter [1; 2; 4294967296 + 7])) by (apply tm_extend_wf; apply tm_wf_nil).
  assert (Hb : tm_wf (tm_insert_fragment 1 (tm_from_iter [2; 9]))).
  { apply tm_wf_aput; [reflexivity | exact I | apply tm_extend_wf; apply tm_wf_nil]. }
  split; [exact Ha|]. split; [exact Hb|]. split; [split; assumption|]. vm_compute. reflexivity.
Qed.
