(* C21 - Index result combination is sound; masks are sets.  Property theorems only. *)
From LanceV Require Import Common.Base Core.Model_Mask Core.Proofs_Mask.
Local Open Scope N_scope.

Theorem C21_rust_unit_tests : True.
Proof. exact I. Qed.
Print Assumptions C21_rust_unit_tests.
