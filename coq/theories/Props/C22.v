(* C22 - Vector search returns the true nearest neighbours when it claims exactness.  Property theorems only.

   Model: Index/Model_TopK.v (a row type R with row id, exact distance d, sub-index distance da, deleted flag,
   filter predicate; the partitions of every delta index in probe order; the rows of the unindexed fragments).
   `is_topk ord f k l s`: s is a sub-multiset of l with min(k,|l|) elements, none farther (order `ord` on
   the distance f) than an element of l left out - ties arbitrary.  `spec_leb`: the order the property
   means (numbers ascending, then an undefined distance NaN, then NULL); `key_leb`: the implementation's
   (a NaN produced by 1 - 0/0 has its sign bit set and sorts BELOW every number).  The two coincide on
   NaN-free inputs; inputs with a NaN distance are the known-finding class cosine_zero_vector.

   Partial (numeric / runtime, covered by the e2e oracle, not by a theorem): that the float kernels compute d
   (C35), that IVF_FLAT reports da = d, the IVF partition assignment and centroid ranking, the late search
   (minimum_nprobes < maximum_nprobes), range queries, multivector columns, PQ/SQ/HNSW sub-indices. *)
From LanceV Require Import Common.Base Index.Model_TopK Index.Proofs_TopK Index.Proofs_TopKPost.
From Coq Require Import Permutation Sorted.
Local Open Scope N_scope.

(* known-finding class predicates *)
Definition Known_C22_cosine_zero_vector (dists : list key) : bool := existsb key_is_nan dists.
Definition Known_C22_ivf_flat_non_f32 (elem_f32 use_index : bool) : bool := use_index && negb elem_f32.

(* For EVERY partitioning of the row set: re-ranking the concatenated per-partition top-k lists gives exactly the
   distances of the global top-k (as lists: both are sorted, so this is equality of the distance multisets). *)
Theorem C22_merge_topk : forall (R : Type) (rid : R -> N) (f : R -> key) (k : nat) (parts : list (list R)),
  map f (topk_by R rid f k (concat (map (topk_by R rid f k) parts))) = map f (topk_by R rid f k (concat parts)).
Proof. exact merge_topk_keys. Qed.
Print Assumptions C22_merge_topk.

(* The same for ANY per-partition selections that are top-k' selections (k <= k': refine_factor), whatever their
   tie-breaking - in particular the heap of FlatIndex::search with any std BinaryHeap behaviour. *)
Theorem C22_merge_topk_any : forall (R : Type) (rid : R -> N) (f : R -> key) (k k' : nat) (parts sels : list (list R)),
  (k <= k')%nat -> Forall2 (fun p s => is_topk key_leb f k' p s) parts sels ->
  map f (topk_by R rid f k (concat sels)) = map f (topk_by R rid f k (concat parts)).
Proof. exact merge_any_keys. Qed.
Print Assumptions C22_merge_topk_any.

(* FlatIndex::search (the heap loop, for every heap implementation meeting heap_ok): a top-k_eff selection of the
   rows the prefilter mask lets through; it panics only for k_eff = 0 or a non-f32 column. *)
Theorem C22_partition_search : forall (R : Type) (rid : R -> N) (da : R -> key) (peek : list R -> option R) (pop : list R -> list R),
  heap_ok da peek pop ->
  forall (elem_f32 : bool) (keff : nat) (mask_empty : bool) (sl : R -> bool) (part out : list R),
    (part_search R da peek pop elem_f32 keff mask_empty sl part = Ok out ->
       elem_f32 = true /\ is_topk key_leb da keff (if mask_empty then part else filter sl part) out) /\
    (elem_f32 = true -> (0 < keff)%nat -> exists out', part_search R da peek pop elem_f32 keff mask_empty sl part = Ok out').
Proof.
  intros R rid da peek pop hok ef keff me sl part out. split.
  - exact (part_search_is_topk R rid da peek pop hok ef keff me sl part out).
  - intros -> Hk. unfold part_search. cbn [negb]. destruct me; apply (heap_loop_total R rid da peek pop hok); exact Hk.
Qed.
Print Assumptions C22_partition_search.

(* the evaluation instance of the heap meets heap_ok *)
Theorem C22_heap_instance : forall (R : Type) (rid : R -> N) (da : R -> key), heap_ok da (peek_max R da) (pop_max R rid da).
Proof. exact peek_pop_max_ok. Qed.
Print Assumptions C22_heap_instance.

(* Results are sorted ascending by the reported distance, in every mode. *)
Theorem C22_sorted : forall (R : Type) (rid : R -> N) (d da : R -> key) (deleted flt : R -> bool)
    (peek : list R -> option R) (pop : list R -> list R)
    (ef : bool) (k : nat) (refine : option nat) (np : nat) (me hf pre fast ui : bool)
    (deltas : list (list (list R))) (fresh rows : list R) (recomputed : bool),
  search R rid d da deleted flt peek pop ef k refine np me hf pre fast ui deltas fresh = Ok (rows, recomputed) ->
  let reported := if recomputed then d else da in
  StronglySorted (fun x y => key_leb (reported x) (reported y) = true) rows /\
  ((forall x, In x rows -> key_is_nan (reported x) = false) ->
   StronglySorted (fun x y => spec_leb (reported x) (reported y) = true) rows).
Proof.
  intros R rid d da deleted flt peek pop ef k refine np me hf pre fast ui deltas fresh rows b H reported.
  pose proof (search_sorted R rid d da deleted flt peek pop _ _ _ _ _ _ _ _ _ _ _ _ _ H) as S.
  split; [exact S|]. intros Hn. apply sorted_spec; assumption.
Qed.
Print Assumptions C22_sorted.

(* No deleted row and no row failing the filter is ever returned - every mode: flat, any number of probes, refine,
   fast_search, prefilter or postfilter.  (mask_empty = DatasetPreFilter::is_empty(): only when the indexed
   fragments have no deletions and no prefilter is in place.) *)
Theorem C22_filter_respected : forall (R : Type) (rid : R -> N) (d da : R -> key) (deleted flt : R -> bool)
    (peek : list R -> option R) (pop : list R -> list R), heap_ok da peek pop ->
  forall (ef : bool) (k : nat) (refine : option nat) (np : nat) (me hf pre fast ui : bool)
    (deltas : list (list (list R))) (fresh rows : list R) (b : bool),
  (me = true -> forall x, In x (concat (concat deltas)) -> sel R deleted flt (hf && pre) x = true) ->
  search R rid d da deleted flt peek pop ef k refine np me hf pre fast ui deltas fresh = Ok (rows, b) ->
  forall r, In r rows -> deleted r = false /\ (hf = true -> flt r = true) /\ In r (concat (concat deltas) ++ fresh).
Proof. exact search_filter_respected. Qed.
Print Assumptions C22_filter_respected.

(* EXACTNESS, index arm: every partition of every delta probed, prefilter (or no filter), a sub-index that reports
   the exact distance (IVF_FLAT), refine or not, fast_search or not: outside the class cosine_zero_vector the
   result is a top-k selection, in the order the property means, of the eligible rows = visible index rows
   + (unless fast_search) live, filtered, non-null rows of the unindexed fragments.
   PARTIAL: d is an abstract distance; missing (numeric/runtime, e2e oracle only) are: the float kernels compute d,
   IVF_FLAT reports da = d (hypothesis here), every row sits in exactly one partition, late search. *)
Theorem C22_exact_index_partial : forall (R : Type) (rid : R -> N) (d da : R -> key) (deleted flt : R -> bool)
    (peek : list R -> option R) (pop : list R -> list R), heap_ok da peek pop ->
  forall (ef : bool) (k : nat) (refine : option nat) (np : nat) (me hf fast : bool)
    (deltas : list (list (list R))) (fresh rows : list R) (b : bool),
  refine <> Some 0%nat ->
  (forall dl, In dl deltas -> (length dl <= np)%nat) ->
  (forall r, In r (concat (concat deltas)) -> da r = d r /\ nonnull R d r = true) ->
  search R rid d da deleted flt peek pop ef k refine np me hf true fast true deltas fresh = Ok (rows, b) ->
  let E := eligible R d deleted flt me hf fast deltas fresh in
  is_topk key_leb d k E rows /\
  (Known_C22_cosine_zero_vector (map d E) = false -> is_topk spec_leb d k E rows).
Proof.
  intros R rid d da deleted flt peek pop hok ef k refine np me hf fast deltas fresh rows b Hrf Hfull Hidx H E.
  pose proof (search_exact_index R rid d da deleted flt peek pop hok _ _ _ _ _ _ _ _ _ _ _ Hrf Hfull Hidx H) as T.
  split; [exact T|]. intros Hk. apply is_topk_spec; [|exact T].
  intros x Hx. unfold Known_C22_cosine_zero_vector in Hk.
  destruct (key_is_nan (d x)) eqn:En; [|reflexivity].
  assert (existsb key_is_nan (map d E) = true) by (apply existsb_exists; exists (d x); split; [apply in_map, Hx | exact En]).
  congruence.
Qed.
Print Assumptions C22_exact_index_partial.

(* EXACTNESS, flat arm (no index / use_index(false)): top-k of the live, filtered, non-null rows; the reported
   distance is the recomputed one.  PARTIAL: d is abstract (that the kernels compute it is C35 + the e2e oracle). *)
Theorem C22_exact_flat_partial : forall (R : Type) (rid : R -> N) (d da : R -> key) (deleted flt : R -> bool)
    (peek : list R -> option R) (pop : list R -> list R)
    (ef : bool) (k : nat) (refine : option nat) (np : nat) (me hf fast : bool)
    (deltas : list (list (list R))) (fresh rows : list R) (b : bool),
  search R rid d da deleted flt peek pop ef k refine np me hf true fast false deltas fresh = Ok (rows, b) ->
  let E := flat_rows R d deleted flt hf fresh in
  b = true /\ is_topk key_leb d k E rows /\
  (Known_C22_cosine_zero_vector (map d E) = false -> is_topk spec_leb d k E rows).
Proof.
  intros R rid d da deleted flt peek pop ef k refine np me hf fast deltas fresh rows b H E.
  destruct (search_exact_flat R rid d da deleted flt peek pop _ _ _ _ _ _ _ _ _ _ _ H) as [Hb T].
  split; [exact Hb|split; [exact T|]]. intros Hk. apply is_topk_spec; [|exact T].
  intros x Hx. unfold Known_C22_cosine_zero_vector in Hk.
  destruct (key_is_nan (d x)) eqn:En; [|reflexivity].
  assert (existsb key_is_nan (map d E) = true) by (apply existsb_exists; exists (d x); split; [apply in_map, Hx | exact En]).
  congruence.
Qed.
Print Assumptions C22_exact_flat_partial.

(* count = min(k, eligible) in the exact modes with a prefilter *)
Theorem C22_count : forall (R : Type) (rid : R -> N) (d da : R -> key) (deleted flt : R -> bool)
    (peek : list R -> option R) (pop : list R -> list R), heap_ok da peek pop ->
  forall (ef : bool) (k : nat) (refine : option nat) (np : nat) (me hf fast ui : bool)
    (deltas : list (list (list R))) (fresh rows : list R) (b : bool),
  refine <> Some 0%nat ->
  (forall dl, In dl deltas -> (length dl <= np)%nat) ->
  (forall r, In r (concat (concat deltas)) -> da r = d r /\ nonnull R d r = true) ->
  search R rid d da deleted flt peek pop ef k refine np me hf true fast ui deltas fresh = Ok (rows, b) ->
  length rows = Nat.min k (length (if ui then eligible R d deleted flt me hf fast deltas fresh
                                   else flat_rows R d deleted flt hf fresh)).
Proof.
  intros R rid d da deleted flt peek pop hok ef k refine np me hf fast ui deltas fresh rows b Hrf Hfull Hidx H.
  destruct ui.
  - eapply is_topk_length. eapply search_exact_index; eassumption.
  - eapply is_topk_length. eapply search_exact_flat. exact H.
Qed.
Print Assumptions C22_count.

(* refine: re-ranking by the exact distance a candidate multiset C (inside the eligible rows E, every candidate
   with a non-null vector) that CONTAINS some true top-k T of E returns a true top-k of E - whatever distances
   the sub-index used to pick C. *)
Theorem C22_refine_exact : forall (R : Type) (rid : R -> N) (d : R -> key) (k : nat) (E C others T c2 : list R),
  Permutation E (C ++ others) -> Permutation C (T ++ c2) ->
  (forall x, In x C -> nonnull R d x = true) ->
  is_topk key_leb d k E T ->
  is_topk key_leb d k E (flat_knn R rid d k C).
Proof.
  intros R rid d k E C others T c2 PE PC Hnn HT.
  apply (refine_is_topk key_leb key_leb_total key_leb_trans d k E C others T c2 _ PE PC HT).
  pose proof (flat_knn_is_topk R rid d k C) as F. rewrite (filter_all _ C Hnn) in F. exact F.
Qed.
Print Assumptions C22_refine_exact.

(* rows appended after indexing are searched unless fast_search was requested: without fast_search a live,
   filtered, non-null fresh row is returned or is no nearer than every returned row; with fast_search only
   index rows are returned. *)
Theorem C22_fresh_rows_searched : forall (R : Type) (rid : R -> N) (d da : R -> key) (deleted flt : R -> bool)
    (peek : list R -> option R) (pop : list R -> list R), heap_ok da peek pop ->
  forall (ef : bool) (k : nat) (refine : option nat) (np : nat) (me hf : bool)
    (deltas : list (list (list R))) (fresh rows : list R) (b : bool),
  refine <> Some 0%nat ->
  (forall dl, In dl deltas -> (length dl <= np)%nat) ->
  (forall r, In r (concat (concat deltas)) -> da r = d r /\ nonnull R d r = true) ->
  (search R rid d da deleted flt peek pop ef k refine np me hf true false true deltas fresh = Ok (rows, b) ->
   forall r, In r fresh -> sel R deleted flt hf r = true -> nonnull R d r = true ->
     In r rows \/ forall x, In x rows -> key_leb (d x) (d r) = true) /\
  (me = false ->
   search R rid d da deleted flt peek pop ef k refine np me hf true true true deltas fresh = Ok (rows, b) ->
   forall r, In r rows -> In r (concat (concat deltas))).
Proof.
  intros R rid d da deleted flt peek pop hok ef k refine np me hf deltas fresh rows b Hrf Hfull Hidx. split.
  - intros H r Hin Hs Hn.
    destruct (search_exact_index R rid d da deleted flt peek pop hok _ _ _ _ _ _ _ _ _ _ _ Hrf Hfull Hidx H) as (rest & HP & _ & HC).
    assert (HE : In r (eligible R d deleted flt me hf false deltas fresh)).
    { unfold eligible, fresh_rows. apply in_or_app. right. apply filter_In. split; [apply filter_In; split; assumption | exact Hn]. }
    apply (Permutation_in _ HP) in HE. apply in_app_or in HE. destruct HE as [HE|HE]; [left; exact HE|right].
    intros x Hx. apply HC; assumption.
  - intros -> H r Hr.
    assert (Hme : false = true -> forall x, In x (concat (concat deltas)) -> sel R deleted flt (hf && true) x = true) by discriminate.
    unfold search in H. destruct k as [|k']; [discriminate|].
    destruct (vsearch_members R rid d da deleted flt peek pop hok _ _ _ _ _ _ _ _ _ _ _ _ H r Hr) as [[_ Hi]|(Hf & _)]; [|discriminate].
    apply (idx_member_sel R deleted flt false hf np deltas r (fun e => match Bool.diff_false_true e with end) Hi).
Qed.
Print Assumptions C22_fresh_rows_searched.

(* The only failures: k = 0, refine_factor = 0, and (class ivf_flat_non_f32) an IVF_FLAT index over a column that
   is not Float32. *)
Theorem C22_total_outside_class : forall (R : Type) (rid : R -> N) (d da : R -> key) (deleted flt : R -> bool)
    (peek : list R -> option R) (pop : list R -> list R), heap_ok da peek pop ->
  forall (ef : bool) (k : nat) (refine : option nat) (np : nat) (me hf pre fast ui : bool)
    (deltas : list (list (list R))) (fresh : list R),
  (0 < k)%nat -> refine <> Some 0%nat -> Known_C22_ivf_flat_non_f32 ef ui = false ->
  exists res, search R rid d da deleted flt peek pop ef k refine np me hf pre fast ui deltas fresh = Ok res.
Proof.
  intros R rid d da deleted flt peek pop hok ef k refine np me hf pre fast ui deltas fresh Hk Hrf Hc.
  apply search_total; try assumption. intros ->. unfold Known_C22_ivf_flat_non_f32 in Hc. destruct ef; [reflexivity | discriminate].
Qed.
Print Assumptions C22_total_outside_class.

(* ---- post-filtered searches (prefilter = false with a filter; every mode, partial probing included).
   Which of several rows TIED at the k-th distance survive the top-k cut is the heap's / the row-id order's business,
   so the distance list after the filter is not a function of the input.  adm_post is its envelope: it accepts the
   post-filter of EVERY sorted top-k selection of the ranked rows ... *)
Theorem C22_postfilter_any_ties : forall (R : Type) (d : R -> key) (flt : R -> bool) (k : nat) (U S : list R),
  is_topk key_leb d k U S -> StronglySorted (fun x y => key_leb (d x) (d y) = true) S ->
  adm_post R d flt k U (map d (filter flt S)) = true.
Proof. exact adm_post_sound. Qed.
Print Assumptions C22_postfilter_any_ties.

(* ... hence the output of Scanner::nearest for every heap implementation meeting the BinaryHeap contract, and every
   returned row is a ranked row that passes the filter (the acceptance rule of the `search` correspondence stream). *)
Theorem C22_postfilter_search : forall (R : Type) (rid : R -> N) (d da : R -> key) (deleted flt : R -> bool)
    (peek : list R -> option R) (pop : list R -> list R), heap_ok da peek pop ->
  forall (ef : bool) (k : nat) (refine : option nat) (np : nat) (me fast ui : bool)
    (deltas : list (list (list R))) (fresh rows : list R) (b : bool),
  refine <> Some 0%nat ->
  (ui = true -> forall r, In r (idx_rows R deleted flt me false np deltas) -> da r = d r /\ nonnull R d r = true) ->
  search R rid d da deleted flt peek pop ef k refine np me true false fast ui deltas fresh = Ok (rows, b) ->
  adm_post R d flt k (universe R d deleted flt np me false fast ui deltas fresh) (map d rows) = true /\
  (forall r, In r rows -> In r (universe R d deleted flt np me false fast ui deltas fresh) /\ flt r = true).
Proof. exact search_post_admissible. Qed.
Print Assumptions C22_postfilter_search.

(* ---- refutations on the faithful model (both reproduced on the real code, see KNOWN_FINDINGS.txt) *)
Definition wrow : Type := (N * key)%type.
Definition wsearch := search wrow fst snd snd (fun _ => false) (fun _ => true) (peek_max wrow snd) (pop_max wrow fst snd).

(* a zero vector under cosine (distance NaN) is returned as THE nearest neighbour, ahead of a row at distance 0 *)
Theorem C22_cosine_zero_vector_refuted :
  exists (fresh : list wrow) (rows : list wrow),
    Known_C22_cosine_zero_vector (map snd fresh) = true /\
    wsearch true 1%nat None 0%nat true false true false false [] fresh = Ok (rows, true) /\
    ~ is_topk spec_leb snd 1%nat (flat_rows wrow snd (fun _ => false) (fun _ => true) false fresh) rows.
Proof.
  exists [(1, KNaN); (2, KNum 0%Z)], [(1, KNaN)]. split; [reflexivity|split; [reflexivity|]].
  intros (rest & HP & HL & HC). cbn in HP.
  apply Permutation_cons_inv in HP. apply Permutation_length_1_inv in HP. subst rest.
  specialize (HC (1, KNaN) (2, KNum 0%Z) (or_introl eq_refl) (or_introl eq_refl)). cbn in HC. discriminate.
Qed.
Print Assumptions C22_cosine_zero_vector_refuted.

(* an IVF_FLAT index over a Float16/Float64 column: every query through the index panics *)
Theorem C22_ivf_flat_non_f32_refuted :
  exists (deltas : list (list (list wrow))),
    Known_C22_ivf_flat_non_f32 false true = true /\
    wsearch false 1%nat None 1%nat true false true false true deltas [] = Panic.
Proof. exists [[[(1, KNum 0%Z)]]]. split; reflexivity. Qed.
Print Assumptions C22_ivf_flat_non_f32_refuted.

(* ---- non-vacuity *)
Example C22_nonvacuous_exact :
  let rows := [(1, KNum 5%Z); (2, KNum 3%Z); (3, KNum 9%Z); (4, KNum 3%Z); (5, KNull); (6, KNum 1%Z)] in
  wsearch true 3%nat (Some 2%nat) 2%nat true false true false true [[[(1, KNum 5%Z); (2, KNum 3%Z)]; [(3, KNum 9%Z)]]; [[(4, KNum 3%Z)]]] [(5, KNull); (6, KNum 1%Z)]
    = Ok ([(6, KNum 1%Z); (2, KNum 3%Z); (4, KNum 3%Z)], true)
  /\ wsearch true 2%nat None 1%nat true false true true true [[[(1, KNum 5%Z); (2, KNum 3%Z)]; [(3, KNum 9%Z)]]; [[(4, KNum 3%Z)]]] [(6, KNum 1%Z)]
    = Ok ([(2, KNum 3%Z); (4, KNum 3%Z)], false)
  /\ wsearch true 0%nat None 1%nat true false true false true [] rows = Err
  /\ wsearch true 2%nat (Some 0%nat) 1%nat true false true false true [] rows = Err
  /\ wsearch true 4%nat None 0%nat true false true false false [] rows = Ok ([(6, KNum 1%Z); (2, KNum 3%Z); (4, KNum 3%Z); (1, KNum 5%Z)], true).
Proof. repeat split; vm_compute; reflexivity. Qed.

(* post-filter envelope: rows 1,2 at distance 0, rows 3..6 TIED at distance 1 (3 and 5 pass the filter), k = 3: one
   tied row survives the cut.  Accepted: [0] (tied survivor fails the filter) and [0;1]; rejected: two tied
   survivors, a missing row below the cut, an unsorted list, a distance beyond the cut. *)
Example C22_nonvacuous_postfilter :
  let U := [(1, (KNum 0%Z, true)); (2, (KNum 0%Z, false)); (3, (KNum 1%Z, true)); (4, (KNum 1%Z, false));
            (5, (KNum 1%Z, true)); (6, (KNum 1%Z, false)); (7, (KNum 2%Z, true))] in
  let adm := adm_post (N * (key * bool)) (fun r => fst (snd r)) (fun r => snd (snd r)) 3%nat U in
  adm [KNum 0%Z] = true /\ adm [KNum 0%Z; KNum 1%Z] = true /\
  adm [KNum 0%Z; KNum 1%Z; KNum 1%Z] = false /\ adm [KNum 1%Z] = false /\ adm [] = false /\
  adm [KNum 1%Z; KNum 0%Z] = false /\ adm [KNum 0%Z; KNum 2%Z] = false /\
  adm_post (N * (key * bool)) (fun r => fst (snd r)) (fun r => snd (snd r)) 7%nat U [KNum 0%Z; KNum 1%Z; KNum 1%Z; KNum 2%Z] = true /\
  adm_post (N * (key * bool)) (fun r => fst (snd r)) (fun r => snd (snd r)) 7%nat U [KNum 0%Z; KNum 1%Z; KNum 2%Z] = false.
Proof. repeat split; vm_compute; reflexivity. Qed.

(* exhaustive small-universe sweep of the merge statement (a test, not the theorem): all partitionings into two
   parts of all distance lists of length <= 4 over {0,1,NaN}, k = 0..3 *)
Example C22_merge_sweep :
  let keys := [KNum 0%Z; KNum 1%Z; KNaN] in
  let lists := fix go (n : nat) : list (list wrow) :=
    match n with O => [[]] | S m => go m ++ flat_map (fun l => map (fun kx => (N.of_nat (length l), kx) :: l) keys) (go m) end in
  forallb (fun a => forallb (fun b => forallb (fun k =>
     list_eqb key_eqb (map snd (topk_by wrow fst snd k (topk_by wrow fst snd k a ++ topk_by wrow fst snd k b)))
                      (map snd (topk_by wrow fst snd k (a ++ b)))) [0%nat; 1%nat; 2%nat; 3%nat]) (lists 2%nat)) (lists 2%nat) = true.
Proof. vm_compute. reflexivity. Qed.
