(* C40 - Arrow helper transformations preserve values. Property theorems only.
   [parr] = physical arrays as arrow-rs holds them (validity bitmap views with bit offsets, list offset
   windows over unsliced children, recursively sliced struct / fixed-size-list children);
   [logical p] = the value of every row (null | leaf | struct of named values | list of values). *)
From LanceV Require Import Common.Base File.Model_ArrowHelpers File.Proofs_ArrowHelpers.
Local Open Scope nat_scope.

(* The bridging lemma: the logical rows of a slice are the window of the logical rows, for every nested
   array and every (offset, length) inside it. *)
Theorem C40_slice_bridge : forall p o n,
  wfb p = true -> o + n <= plen p ->
  logical (pslice o n p) = firstn n (skipn o (logical p)).
Proof. exact pslice_logical. Qed.
Print Assumptions C40_slice_bridge.

(* RecordBatchExt::take: row k of the result is row indices[k] of the input, the type is unchanged.
   (A null or out-of-range index makes the implementation panic: batch_take = Panic, not Ok.) *)
Theorem C40_take : forall p idx q,
  wfb p = true -> batch_take p idx = Ok q ->
  exists ids, idx = map Some ids /\ Forall (fun i => i < plen p) ids /\
              logical q = map (fun i => nth i (logical p) VNull) ids /\ ptype q = ptype p.
Proof. exact batch_take_ok. Qed.
Print Assumptions C40_take.

(* The reference gather used for arrow's take / filter / MutableArrayData, for null indices too. *)
Theorem C40_gather : forall p idx,
  wfb p = true -> (forall i, In (Some i) idx -> i < plen p) ->
  logical (ptake idx p) = take_rows idx (logical p) /\ offset_free (ptake idx p) = true.
Proof. intros p idx W B. split; [apply ptake_logical; assumption | apply ptake_offset_free]. Qed.
Print Assumptions C40_gather.

(* project_by_schema: every row is projected on the schema's fields (first field of each name),
   recursively through nested structs; struct validity is kept; the length is kept. *)
Theorem C40_project : forall p sch q,
  wfb p = true -> project p sch = Ok q ->
  logical q = map (project_val (DStruct sch)) (logical p) /\ plen q = plen p.
Proof. exact project_ok. Qed.
Print Assumptions C40_project.

(* deep_copy_array: same rows, same type (all view offsets are kept). *)
Theorem C40_deep_copy : forall p, logical (deep_copy p) = logical p /\ ptype (deep_copy p) = ptype p.
Proof. intro p. split; [apply deep_copy_logical | apply deep_copy_type]. Qed.
Print Assumptions C40_deep_copy.

(* deep_copy_array_sliced / shrink_to_fit: same rows and no offset left anywhere (validity bit offsets 0,
   list offsets from 0 covering exactly the copied child), for every array except a sliced top-level
   Boolean array (class deep_copy_sliced_bool_offset, refuted below). *)
Theorem C40_deep_copy_sliced : forall p,
  wfb p = true -> Known_C40_bool_offset p = false ->
  logical (deep_copy_sliced p) = logical p /\ offset_free (deep_copy_sliced p) = true.
Proof.
  intros p W K. apply deep_copy_sliced_ok; [exact W|].
  unfold Known_C40_bool_offset in K. apply negb_false_iff, Nat.eqb_eq in K. exact K.
Qed.
Print Assumptions C40_deep_copy_sliced.

Theorem C40_deep_copy_sliced_bool_offset_refuted :
  exists p, wfb p = true /\ Known_C40_bool_offset p = true /\
            nth 0 (logical (deep_copy_sliced p)) VNull <> nth 0 (logical p) VNull.
Proof. exact bool_offset_refuted. Qed.
Print Assumptions C40_deep_copy_sliced_bool_offset_refuted.

(* filter_garbage_nulls: the rows are unchanged, every null entry has length 0, and (when there is a
   validity bitmap and at least one row) the offsets start at 0 and cover exactly the new child. *)
Theorem C40_filter_garbage_nulls : forall lg offs v nl q,
  wfb (PList lg offs v nl) = true ->
  filter_garbage_nulls (PList lg offs v nl) = Ok q ->
  logical q = logical (PList lg offs v nl) /\ no_garbage q = true /\
  (nl <> None -> 0 < length offs - 1 -> list_tight q = true /\ offset_free (pvalues q) = true).
Proof. exact filter_garbage_nulls_ok. Qed.
Print Assumptions C40_filter_garbage_nulls.

(* ... and it never fails on a well-formed list *)
Theorem C40_filter_garbage_nulls_total : forall lg offs v nl,
  wfb (PList lg offs v nl) = true -> exists q, filter_garbage_nulls (PList lg offs v nl) = Ok q.
Proof.
  intros lg offs v nl W.
  destruct (Nat.eq_dec (length offs - 1) 0) as [Hz|Hz].
  - eexists. unfold filter_garbage_nulls. cbn [plen]. rewrite Hz. reflexivity.
  - destruct nl as [bv|].
    + eexists. apply fgn_as_take; [exact W | lia].
    + eexists. unfold filter_garbage_nulls. cbn [plen]. destruct (Nat.eqb (length offs - 1) 0); reflexivity.
Qed.
Print Assumptions C40_filter_garbage_nulls_total.

(* trimmed_values: the window of the child between the first and the last offset; with the offsets
   re-based on it the list is the same list. *)
Theorem C40_trimmed_values : forall lg offs v nl,
  wfb (PList lg offs v nl) = true ->
  logical (trimmed_values (PList lg offs v nl)) =
    firstn (off_at offs (length offs - 1) - off_at offs 0) (skipn (off_at offs 0) (logical v)) /\
  logical (PList lg (map (fun z => (z - nth 0 offs 0)%Z) offs) (trimmed_values (PList lg offs v nl)) nl) =
    logical (PList lg offs v nl).
Proof. intros lg offs v nl W. split; [apply trimmed_values_logical | apply trimmed_values_rebase]; exact W. Qed.
Print Assumptions C40_trimmed_values.

(* pushdown_nulls: the rows of the struct are unchanged; every child keeps its name, is null wherever the
   struct is null and unchanged elsewhere. *)
Theorem C40_pushdown_nulls : forall len fs nl q,
  wfb (PStruct len fs nl) = true ->
  pushdown_nulls (PStruct len fs nl) = Ok q ->
  logical q = logical (PStruct len fs nl) /\
  Forall2 (fun (f g : field) =>
             fname g = fname f /\
             forall i, i < len ->
               nth i (logical (fcol g)) VNull = if valid nl i then nth i (logical (fcol f)) VNull else VNull)
          fs (pfields q).
Proof. exact pushdown_nulls_ok. Qed.
Print Assumptions C40_pushdown_nulls.

(* RecordBatchExt::merge, for ALL nested batches outside the known classes (merge_clean: none of
   one_sided_nulls / both_all_null / validity_offset_dropped / masked_values_leak anywhere in the recursion,
   and no List<Struct> column present on both sides - that arm of merge has no row-wise specification):
   every output row is merge_val of the two input rows, i.e. a merged struct is null iff both are null, the
   left columns come first (a column on both sides: two structs are merged recursively, anything else is the
   left one), then the right-only columns, and the columns of a null side read as null.
   (Panics - class nonnullable_child_panics - are excluded by the premise "= Ok m".) *)
Theorem C40_merge : forall l r m,
  wfb l = true -> wfb r = true -> merge_clean l r = true -> batch_merge l r = Ok m ->
  plen m = plen l /\
  logical m = map2 (merge_val (ptype l) (ptype r)) (logical l) (logical r).
Proof.
  intros l r m Wl Wr Hc H. unfold batch_merge in H.
  destruct (negb (Nat.eqb (plen l) (plen r))); [discriminate|].
  exact (merge_ok l r m Wl Wr Hc H).
Qed.
Print Assumptions C40_merge.

(* batches of different length are refused with an error *)
Theorem C40_merge_length_mismatch : forall l r, plen l <> plen r -> batch_merge l r = Err.
Proof.
  intros l r H. unfold batch_merge. apply Nat.eqb_neq in H. rewrite H. reflexivity.
Qed.
Print Assumptions C40_merge_length_mismatch.

(* merge_with_schema.  PARTIAL: there is NO whole-function theorem for merge_with_schema (schema-ordered
   struct merge with list / large-list / fixed-size-list columns merged item-wise); what is proved are the
   two functions that decide validity in both merges, outside the classes:
   (1) merge_struct_validity: a merged struct/list row is null iff both rows are null;
   (2) adjust_child_validity: a column taken from one side reads as null exactly in the rows where that
       side's struct is null and is unchanged elsewhere (same length, same type).
   The whole function is covered by the correspondence stream merge_schema (model = implementation on every
   case) and by the direct row-wise oracle on the real arrays only. *)
Theorem C40_merge_with_schema_partial :
  (forall l r n,
     one_sided_nulls l r n = false -> both_all_null l r n = false ->
     exists mv, merge_struct_validity l n r n = Ok mv /\
                forall i, i < n -> valid mv i = valid l i || valid r i) /\
  (forall child parent n a,
     plen child = n ->
     validity_offset_dropped child parent n = false ->
     adjust_child_validity child parent n = Ok a ->
     plen a = n /\ ptype a = ptype child /\
     forall i, i < n -> nth i (logical a) VNull = if valid parent i then nth i (logical child) VNull else VNull).
Proof. split; [exact merge_struct_validity_ok | exact adjust_child_validity_ok]. Qed.
Print Assumptions C40_merge_with_schema_partial.

(* The known classes: in each of them the faithful model (and the real code: corpus cases of the harness)
   violates the row-wise merge property or panics. *)
Theorem C40_one_sided_nulls_refuted :
  exists l r, wfb l = true /\ wfb r = true /\ Known_C40_one_sided_nulls l r = true /\ ~ merge_correct l r.
Proof. exact one_sided_nulls_refuted. Qed.
Print Assumptions C40_one_sided_nulls_refuted.
Theorem C40_both_all_null_refuted :
  exists l r, wfb l = true /\ wfb r = true /\ Known_C40_both_all_null l r = true /\ ~ merge_correct l r.
Proof. exact both_all_null_refuted. Qed.
Print Assumptions C40_both_all_null_refuted.
Theorem C40_validity_offset_dropped_refuted :
  exists l r, wfb l = true /\ wfb r = true /\ Known_C40_validity_offset_dropped l r = true /\ ~ merge_correct l r.
Proof. exact validity_offset_dropped_refuted. Qed.
Print Assumptions C40_validity_offset_dropped_refuted.
Theorem C40_masked_values_leak_refuted :
  exists l r, wfb l = true /\ wfb r = true /\ Known_C40_masked_values_leak l r = true /\ ~ merge_correct l r.
Proof. exact masked_values_leak_refuted. Qed.
Print Assumptions C40_masked_values_leak_refuted.
Theorem C40_list_struct_duplicate_column_refuted :
  exists l r, wfb l = true /\ wfb r = true /\ Known_C40_list_struct_duplicate_column l r = true /\
              exists m, batch_merge l r = Ok m /\ length (pfields m) = 2 /\ length (pfields l) = 1 /\ ptype l = ptype r.
Proof. exact list_struct_duplicate_column_refuted. Qed.
Print Assumptions C40_list_struct_duplicate_column_refuted.
Theorem C40_nonnullable_child_panics_refuted :
  exists l r, wfb l = true /\ wfb r = true /\ Known_C40_nonnullable_child_panics l r = true /\ batch_merge l r = Panic.
Proof. exact nonnullable_child_panics_refuted. Qed.
Print Assumptions C40_nonnullable_child_panics_refuted.
Theorem C40_list_offsets_not_rebased_refuted :
  exists l r sch, wfb l = true /\ wfb r = true /\ Known_C40_list_offsets_not_rebased l r = true /\
                  batch_merge_with_schema l r sch = Panic.
Proof. exact list_offsets_not_rebased_refuted. Qed.
Print Assumptions C40_list_offsets_not_rebased_refuted.
Theorem C40_list_validity_differs_refuted :
  exists l r sch, wfb l = true /\ wfb r = true /\ Known_C40_list_validity_differs l r = true /\
                  batch_merge_with_schema l r sch = Panic.
Proof. exact list_validity_differs_refuted. Qed.
Print Assumptions C40_list_validity_differs_refuted.

(* JSON <-> JSONB columns, for ANY codec (enc, dec) whose round trip is the canonical text:
   nulls are kept, every document comes back as its canonical text, the length is kept. *)
Theorem C40_json_roundtrip :
  forall (enc : list N -> option (list N)) (dec canon : list N -> list N),
  (forall s b, enc s = Some b -> dec b = canon s) ->
  forall col col', json_to_jsonb enc col = Ok col' ->
  jsonb_to_json dec col' = map (option_map canon) col /\ length col' = length col.
Proof. exact json_roundtrip. Qed.
Print Assumptions C40_json_roundtrip.

(* the conversion fails (Err, never a panic) exactly when some document does not parse *)
Theorem C40_json_to_jsonb_total : forall (enc : list N -> option (list N)) col,
  json_to_jsonb enc col <> Panic /\
  (json_to_jsonb enc col = Err <-> exists s, In (Some s) col /\ enc s = None).
Proof. exact json_to_jsonb_total. Qed.
Print Assumptions C40_json_to_jsonb_total.

(* json_extract over columns: row i is the selector on (document i, path i); a one-row path column is
   broadcast; a null document or null path gives null. *)
Theorem C40_json_extract_rows :
  forall (select : list N -> list N -> outcome (option (list N))) col paths out,
  json_extract_udf select col paths = Ok out ->
  length out = length col /\
  forall i, i < length col ->
    match nth i col None, path_at paths i with
    | Some b, Some p => select b p = Ok (nth i out None)
    | _, _ => nth i out None = None
    end.
Proof. exact json_extract_rows. Qed.
Print Assumptions C40_json_extract_rows.

(* non-vacuity: a clean nested merge with different validity on both sides (lib.rs unit test), a
   merge_with_schema of two list-of-struct columns, and the JSON hypotheses with a concrete codec *)
Example C40_merge_nonvacuous :
  wfb w_clean_l = true /\ wfb w_clean_r = true /\ merge_clean w_clean_l w_clean_r = true /\
  merge_correct w_clean_l w_clean_r.
Proof. destruct merge_clean_nonvacuous as (A & B & C & _ & D). auto. Qed.
Example C40_slice_nonvacuous :
  logical (pslice 1 2 (PList false [1; 2; 4; 4]%Z (PLeaf 0 0 [VI 9; VI 1; VI 2; VI 3]%Z None)
                             (Some ([false; true; false; true; true; false; false; false], 1))))
  = [VNull; VList []].
Proof. reflexivity. Qed.
