(* C30 - The I/O scheduler returns exactly the requested bytes and always completes.
   Property theorems only. *)
From LanceV Require Import Common.Base Io.Model_Sched Io.Proofs_Sched.
Local Open Scope N_scope.

(* F8 (DESIGN.md §6): the full statement "for every range list the response is one buffer per
   range with the file's bytes" is false for the faithful model, as it is for the code. *)
Theorem C30_request_shape_refuted :
  exists f bs mx rs, in_file f rs = true /\ Known_C30_request_shape bs mx rs = true /\
                     exact_result f rs (submit_request f bs mx rs) = false.
Proof.
  exists f16, 4, 100, [(5,5)]. destruct request_shape_refuted_empty as (H1 & H2 & H3).
  rewrite H3. repeat split; assumption || reflexivity.
Qed.
Print Assumptions C30_request_shape_refuted.
