(* C30 - The I/O scheduler returns exactly the requested bytes and always completes.
   Property theorems only.  Model: Io/Model_Sched.v (transcription of FileScheduler::submit_request,
   ScanScheduler batches, IoQueueState, LanceEncodingsIo::submit_request); proofs: Io/Proofs_Sched.v. *)
From LanceV Require Import Common.Base Io.Model_Sched Io.Proofs_Sched.
Local Open Scope N_scope.

(* ---- bytes ---------------------------------------------------------------------------- *)

(* For EVERY file, block size, max iop size and range list inside the file: outside the class of
   finding F8 the response is one buffer per requested range, in request order, each holding the
   file's bytes for that range (no panic, no error). *)
Theorem C30_bytes_exact : forall (f : bytes) (bs mx : N) (rs : list range),
  in_file f rs = true -> Known_C30_request_shape bs mx rs = false ->
  submit_request f bs mx rs = Ok (map (slice f) rs).
Proof.
  intros f bs mx rs Hf Hk. apply bytes_exact; [exact Hf|].
  unfold Known_C30_request_shape in Hk. now apply negb_false_iff in Hk.
Qed.
Print Assumptions C30_bytes_exact.

(* F8 (DESIGN.md §6): the unrestricted statement is false for the faithful model, as for the code:
   an empty range yields no buffer, an unsorted list loses a buffer, an overlapping pair that is
   split panics on usize underflow. *)
Theorem C30_request_shape_refuted :
  (exists f bs mx rs, in_file f rs = true /\ Known_C30_request_shape bs mx rs = true /\
                      submit_request f bs mx rs = Ok []  /\ rs = [(5, 5)]) /\
  (exists f bs mx rs, in_file f rs = true /\ Known_C30_request_shape bs mx rs = true /\
                      length rs = 2%nat /\ exists b, submit_request f bs mx rs = Ok [b]) /\
  (exists f bs mx rs, in_file f rs = true /\ Known_C30_request_shape bs mx rs = true /\
                      submit_request f bs mx rs = Panic) /\
  (exists f bs mx rs, in_file f rs = true /\ Known_C30_request_shape bs mx rs = true /\
                      exact_result f rs (submit_request f bs mx rs) = false).
Proof.
  destruct request_shape_refuted_empty as (A1 & A2 & A3).
  destruct request_shape_refuted_unsorted as (B1 & B2 & B3).
  destruct request_shape_refuted_overlap_split as (C1 & C2 & C3).
  split; [|split; [|split]].
  - exists f16, 4, 100, [(5,5)]. repeat split; assumption.
  - exists f16, 2, 100, [(10,12);(0,5)]. repeat split; try assumption. eexists; exact B3.
  - exists f16, 0, 3, [(0,3);(0,4)]. repeat split; assumption.
  - exists f16, 0, 3, [(0,3);(0,4)]. split; [exact C1 | split; [exact C2 | rewrite C3; reflexivity]].
Qed.
Print Assumptions C30_request_shape_refuted.

(* The domain contains the condition stated in DESIGN.md: ranges sorted by start, non-empty, and
   either pairwise disjoint (any splitting) or nothing split (any overlap / containment / adjacency). *)
Theorem C30_bytes_exact_sorted_disjoint_or_unsplit : forall (f : bytes) (bs mx : N) (rs : list range),
  in_file f rs = true -> Dom_C30_simple bs mx rs = true ->
  Known_C30_request_shape bs mx rs = false /\ submit_request f bs mx rs = Ok (map (slice f) rs).
Proof.
  intros f bs mx rs Hf Hd. pose proof (Dom_simple_in_Dom bs mx rs Hd) as HD. split.
  - unfold Known_C30_request_shape. now rewrite HD.
  - apply bytes_exact; assumption.
Qed.
Print Assumptions C30_bytes_exact_sorted_disjoint_or_unsplit.

(* Whatever reads the store fails ([fail] arbitrary), the request resolves to the exact bytes or to
   an error - never to wrong bytes. *)
Theorem C30_bytes_exact_or_error : forall (f : bytes) (fail : range -> bool) (bs mx : N) (rs : list range),
  in_file f rs = true -> Known_C30_request_shape bs mx rs = false ->
  submit_request_f f fail bs mx rs = Ok (map (slice f) rs) \/ submit_request_f f fail bs mx rs = Err.
Proof.
  intros f fail bs mx rs Hf Hk. apply bytes_exact_or_err; [exact Hf|].
  unfold Known_C30_request_shape in Hk. now apply negb_false_iff in Hk.
Qed.
Print Assumptions C30_bytes_exact_or_error.

(* LanceEncodingsIo: chunking by read_chunk_size and reassembly returns the exact bytes whenever
   the chunked list handed to the FileScheduler is outside the class. *)
Theorem C30_encodings_io_exact : forall (f : bytes) (bs mx chunk : N) (rs : list range) tagged,
  in_file f rs = true -> chunk_all chunk 0 rs = Ok tagged ->
  Known_C30_request_shape bs mx (map fst tagged) = false ->
  encodings_io_submit f bs mx chunk rs = Ok (map (slice f) rs).
Proof.
  intros f bs mx chunk rs tagged Hf Hc Hk. eapply encodings_io_exact; [exact Hf | exact Hc |].
  unfold Known_C30_request_shape in Hk. now apply negb_false_iff in Hk.
Qed.
Print Assumptions C30_encodings_io_exact.

(* ---- queue ---------------------------------------------------------------------------- *)
(* All queue theorems hold for EVERY heap tie-breaking [pick] satisfying [heap_spec], every
   capacity > 0, every byte budget (also 0 or "negative"), every priority assignment and every
   interleaving of submissions, deliveries, completions (any order), consumptions and close. *)

(* In every reachable state: iops_avail + running = capacity, every task belongs to a live batch,
   per batch num_reqs = pending + running + finished, and the in-flight priority multiset is exactly
   the delivered tasks of the batches not yet consumed ([Open]); after close nothing is pending and
   iops_avail + running = capacity + cancelled ([Closed]). *)
Theorem C30_accounting : forall pick cap buf s,
  heap_spec pick -> 0 < cap -> reachable pick cap buf s ->
  (q_done (s_q s) = false -> Open cap s) /\ (q_done (s_q s) = true -> Closed cap s).
Proof. exact accounting. Qed.
Print Assumptions C30_accounting.

(* No deadlock: while any submitted request has not been consumed, some internal transition
   (deliver the head task / a running read completes / a completed batch is consumed) is enabled. *)
Theorem C30_no_deadlock : forall pick cap buf s,
  heap_spec pick -> 0 < cap -> reachable pick cap buf s ->
  s_batches s <> [] -> exists e, internal e /\ enabled pick s e.
Proof. exact no_deadlock. Qed.
Print Assumptions C30_no_deadlock.

(* Priority bypass: with an iop slot free, the head task is delivered whenever its priority is at
   or below everything in flight - in particular when nothing is in flight - whatever bytes_avail is. *)
Theorem C30_priority_bypass : forall pick (q : qstate) (t : task) rest,
  pick (q_pending q) = Some (t, rest) -> 1 <= q_iops q -> t_prio t <= min_in_flight (q_inflight q) ->
  exists q', next_task pick q = Some (t, q').
Proof. exact priority_bypass. Qed.
Print Assumptions C30_priority_bypass.

(* Every request completes: from any reachable state, without new submissions, every run of
   internal transitions is finite (bounded by [measure]) and can only stop when every batch has
   been answered and consumed.  _partial: the transitions are those of the model; that tokio's
   Notify actually wakes the I/O loop for each enabled transition is runtime behaviour, bounded
   by the timeouts of the end-to-end arm only. *)
Theorem C30_all_complete_partial : forall pick cap buf s,
  heap_spec pick -> 0 < cap -> reachable pick cap buf s ->
  (forall es s', Forall internal es -> run pick s es = Some s' -> (length es <= measure s)%nat) /\
  (forall es s', Forall internal es -> run pick s es = Some s' ->
     (forall e, internal e -> ~ enabled pick s' e) -> s_batches s' = []).
Proof. exact all_complete. Qed.
Print Assumptions C30_all_complete_partial.

(* Dropping the scheduler: nothing stays pending; every task still pending is answered (counted as
   finished) and its batch reports an error, so only already-running reads remain outstanding.
   _partial: drop-time ordering against a concurrently running I/O loop is runtime behaviour. *)
Theorem C30_close_cancels_partial : forall pick cap buf s s',
  heap_spec pick -> 0 < cap -> reachable pick cap buf s ->
  step pick s EvClose = Some s' ->
  q_pending (s_q s') = [] /\
  (forall b', In b' (s_batches s') ->
     exists b, In b (s_batches s) /\ b_id b' = b_id b /\ b_fin b' = (b_fin b + pend_of (b_id b) s)%nat
               /\ ((0 < pend_of (b_id b) s)%nat -> b_err b' = true)).
Proof. exact close_cancels. Qed.
Print Assumptions C30_close_cancels_partial.

(* ---- non-vacuity ---------------------------------------------------------------------- *)
(* the heap used by the correspondence satisfies heap_spec *)
Example C30_heap_spec_inhabited : heap_spec pick_leftmost.
Proof. exact heap_spec_leftmost. Qed.

(* a coalesced, split, overlapping-where-unsplit request list inside the domain *)
Example C30_domain_nonvacuous :
  let f := N_seq 0 64 in
  Known_C30_request_shape 10 7 [(10,30);(40,52);(60,61)] = false /\
  updated_requests 10 7 [(10,30);(40,52);(60,61)]
    = Ok [(10,16);(16,22);(22,28);(28,34);(34,40);(40,46);(46,52);(52,61)] /\
  Known_C30_request_shape 4 100 [(0,10);(2,3);(5,20);(20,21)] = false /\
  Dom_C30_simple 4 100 [(0,10);(2,3);(5,20);(20,21)] = true /\
  (* inside Dom_C30 but outside the simple condition: overlap in an unsplit piece next to a split *)
  Known_C30_request_shape 0 4 [(0,3);(1,2);(3,9)] = false /\ Dom_C30_simple 0 4 [(0,3);(1,2);(3,9)] = false /\
  exact_result f [(0,3);(1,2);(3,9)] (submit_request f 0 4 [(0,3);(1,2);(3,9)]) = true.
Proof. vm_compute. repeat split. Qed.

(* a reachable queue state with a blocked head: budget 5, two 4-byte reads of different priority *)
Example C30_queue_nonvacuous :
  exists s, run pick_leftmost (sys_new 2 5) [EvSubmit 7 [4]; EvSubmit 9 [4]; EvDeliver] = Some s /\
            step pick_leftmost s EvDeliver = None /\ s_batches s <> [] /\
            step pick_leftmost s (EvComplete 0) <> None.
Proof. eexists. split; [vm_compute; reflexivity|]. vm_compute. repeat split; discriminate. Qed.
