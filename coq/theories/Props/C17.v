(* C17 - Change data feed and version columns are correct. Property theorems only.
   Implementation model: Table/Model_Restore.v (build_manifest arms incl. the Update arm's `row_id >> 32`
   lookup transcribed as written, build_version_meta, refresh_row_latest_update_meta_*, compaction
   carry-over, restore); scan and DatasetDelta filters: Table/Model_Versions.v; specification: the
   reference ledger Model_Versions.spec_step (row id -> version of first insertion, last version that
   changed the row), run side by side with the implementation model by spec_run. *)
From LanceV Require Import Common.Base Table.Model_Restore Table.Proofs_Restore Table.Model_Versions Table.Proofs_Versions.
Local Open Scope N_scope.

(* For EVERY history (spec_run) of create / append / overwrite / delete / update / merge-style update with
   inserted rows / in-place column rewrite / compaction / restore on a table with stable row ids, and every
   visible row (r, created, updated) of the latest version:
     - its last_updated_at is the ledger's (the last version in which an update, upsert or column rewrite
       changed the row; its creation version if none did);
     - its created_at is the ledger's (the version that first inserted row id r) unless r is in the taint
       set T = the ids an Update carried whose id is not their address, and the ids an Update inserted.
   Hypotheses (checked on every real operation by the harness): run_ok17 = writers carry only stored ids,
   deletion vectors only grow, rewritten rows leave the fragments that stay, every live row with a
   rewritten id sits at a rewritten position; frag_ids_unique = fragment ids distinct within a manifest. *)
Theorem C17_versions_correct : forall (ops : list op) (h : history) (L : ledger) (lh : list (N * ledger)) (T : list N),
  spec_run true ops = Ok (h, L, lh, T) -> run_ok17 true [] ops = true -> frag_ids_unique h = true ->
  forall latest tl rows, h = latest :: tl -> view latest = Ok rows ->
  forall r c u, In (r, (c, u)) rows ->
    exists c0, lget L r = Some (c0, u) /\ (~ In r T -> c = c0).
Proof. exact versions_correct. Qed.
Print Assumptions C17_versions_correct.

(* Outside the two known classes nothing is tainted: both columns of every visible row are the ledger's. *)
Theorem C17_versions_correct_outside_classes : forall ops h L lh T,
  spec_run true ops = Ok (h, L, lh, T) -> run_ok17 true [] ops = true -> frag_ids_unique h = true ->
  Known_C17_update_created_at_nonaddress_rowid true ops = false ->
  Known_C17_update_inserted_row_created_at true ops = false ->
  forall latest tl rows, h = latest :: tl -> view latest = Ok rows ->
  forall r c u, In (r, (c, u)) rows -> lget L r = Some (c, u).
Proof. exact versions_correct_outside. Qed.
Print Assumptions C17_versions_correct_outside_classes.

(* and every version of such a history can be scanned with its version columns *)
Theorem C17_view_defined : forall ops h L lh T,
  spec_run true ops = Ok (h, L, lh, T) -> run_ok17 true [] ops = true -> frag_ids_unique h = true ->
  forall m, In m h -> exists rows, view m = Ok rows.
Proof. exact view_defined. Qed.
Print Assumptions C17_view_defined.

(* DatasetDelta between any two versions b < e, evaluated on the latest version: the inserted rows are
   exactly the visible rows whose row id was first inserted in (b, e], the updated rows exactly those
   inserted at or before b and last changed in (b, e] - outside the two classes. *)
Theorem C17_delta_exact : forall ops h L lh T,
  spec_run true ops = Ok (h, L, lh, T) -> run_ok17 true [] ops = true -> frag_ids_unique h = true ->
  Known_C17_update_created_at_nonaddress_rowid true ops = false ->
  Known_C17_update_inserted_row_created_at true ops = false ->
  forall latest tl rows b e, h = latest :: tl -> view latest = Ok rows ->
    delta_inserted latest b e = Ok (filter (ledger_inserted L b e) rows) /\
    delta_updated latest b e = Ok (filter (ledger_updated L b e) rows).
Proof. exact delta_exact. Qed.
Print Assumptions C17_delta_exact.

(* Inside the classes the last_updated_at column (hence the "last changed in (b, e]" half of the feed) is
   still right for every row. *)
Theorem C17_last_updated_always_correct : forall ops h L lh T,
  spec_run true ops = Ok (h, L, lh, T) -> run_ok17 true [] ops = true -> frag_ids_unique h = true ->
  forall latest tl rows, h = latest :: tl -> view latest = Ok rows ->
  forall r c u, In (r, (c, u)) rows -> exists c0, lget L r = Some (c0, u).
Proof. exact delta_updated_sound. Qed.
Print Assumptions C17_last_updated_always_correct.

(* ---- the finding (DESIGN section 6 F5), reproduced on the real code ----
   stable ids; create 2 rows; append 2; append 2 (three fragments); UPDATE of row id 5 (created in version 3)
   and of row id 0: the Update arm decodes id 5 as fragment 0 / offset 5, misses and defaults to 1. *)
Definition C17_F5_ops : list op :=
  [OOverwrite [2]; OAppend [2]; OAppend [2]; OUpdate [] [(0, [0]); (2, [1])] [(2, [0; 5])]].

Theorem C17_update_created_at_nonaddress_rowid_refuted :
  exists h L lh T latest tl rows,
    spec_run true C17_F5_ops = Ok (h, L, lh, T) /\ run_ok17 true [] C17_F5_ops = true /\ frag_ids_unique h = true /\
    Known_C17_update_created_at_nonaddress_rowid true C17_F5_ops = true /\
    h = latest :: tl /\ view latest = Ok rows /\
    In (5, (1, 4)) rows /\ lget L 5 = Some (3, 4) /\ In (0, (1, 4)) rows /\ lget L 0 = Some (1, 4) /\
    delta_inserted latest 2 4 <> Ok (filter (ledger_inserted L 2 4) rows).
Proof.
  destruct (spec_run true C17_F5_ops) as [[[[h L] lh] T]| |] eqn:E; try (vm_compute in E; discriminate).
  vm_compute in E. inversion E; subst h L lh T; clear E.
  do 7 eexists. split; [reflexivity|]. split; [vm_compute; reflexivity|]. split; [vm_compute; reflexivity|].
  split; [vm_compute; reflexivity|]. split; [reflexivity|]. split; [vm_compute; reflexivity|].
  split; [cbn; tauto|]. split; [reflexivity|]. split; [cbn; tauto|]. split; [reflexivity|].
  vm_compute. discriminate.
Qed.
Print Assumptions C17_update_created_at_nonaddress_rowid_refuted.

(* merge_insert: one matched row of each of two fragments and two inserted rows: the inserted rows (ids 7, 8,
   first inserted in version 3) read created_at = 1, so they never show up as inserted in the feed. *)
Definition C17_merge_ops : list op :=
  [OOverwrite [4]; OAppend [3]; OUpdate [] [(0, [1]); (1, [1])] [(4, [1; 5])]].

Theorem C17_update_inserted_row_created_at_refuted :
  exists h L lh T latest tl rows,
    spec_run true C17_merge_ops = Ok (h, L, lh, T) /\ run_ok17 true [] C17_merge_ops = true /\ frag_ids_unique h = true /\
    Known_C17_update_inserted_row_created_at true C17_merge_ops = true /\
    h = latest :: tl /\ view latest = Ok rows /\
    In (7, (1, 3)) rows /\ lget L 7 = Some (3, 3) /\
    delta_inserted latest 2 3 = Ok [] /\ filter (ledger_inserted L 2 3) rows <> [].
Proof.
  destruct (spec_run true C17_merge_ops) as [[[[h L] lh] T]| |] eqn:E; try (vm_compute in E; discriminate).
  vm_compute in E. inversion E; subst h L lh T; clear E.
  do 7 eexists. split; [reflexivity|]. split; [vm_compute; reflexivity|]. split; [vm_compute; reflexivity|].
  split; [vm_compute; reflexivity|]. split; [reflexivity|]. split; [vm_compute; reflexivity|].
  split; [cbn; tauto|]. split; [reflexivity|]. split; [vm_compute; reflexivity|]. vm_compute. discriminate.
Qed.
Print Assumptions C17_update_inserted_row_created_at_refuted.

(* ---- non-vacuity: a history outside both classes with every kind of operation satisfies the hypotheses ---- *)
Definition C17_sample_ops : list op :=
  [OOverwrite [6]; OUpdate [] [(0, [1; 4])] [(2, [1; 4])]; ODelete [(0, [1; 2; 4])] [];
   OUpdateCols [(0, [3; 5])]; OAppend [2; 1]; OReserve 1; OCompact [([0; 1], [(5, 5)])];
   ORestore 4; OAppend [2]; OUpdateCols [(1, [0; 1])]; OReserve 1; OCompact [([0; 1; 6], [(7, 7)])]].
Example C17_nonvacuous :
  run_ok17 true [] C17_sample_ops = true /\
  Known_C17_update_created_at_nonaddress_rowid true C17_sample_ops = false /\
  Known_C17_update_inserted_row_created_at true C17_sample_ops = false /\
  match spec_run true C17_sample_ops with
  | Ok (latest :: tl, L, _, T) =>
      frag_ids_unique (latest :: tl) = true /\ T = [] /\ length tl = 11%nat /\
      view latest = Ok [(0, (1, 1)); (3, (1, 4)); (5, (1, 4)); (1, (1, 10)); (4, (1, 10)); (9, (9, 9)); (10, (9, 9))] /\
      delta_inserted latest 5 9 = Ok [(9, (9, 9)); (10, (9, 9))] /\
      delta_updated latest 3 10 = Ok [(3, (1, 4)); (5, (1, 4)); (1, (1, 10)); (4, (1, 10))]
  | _ => False
  end.
Proof. vm_compute. repeat split; reflexivity. Qed.
