(* C07 - Restore reproduces the old version and keeps row identities unique. Property theorems only.
   Model: Table/Model_Restore.v (build_manifest arms, assign_row_ids, the Restore arm of commit_transaction
   as repaired by 97111ae: next_row_id := max restored latest). *)
From LanceV Require Import Common.Base Table.Model_Restore Table.Proofs_Restore.
Local Open Scope N_scope.

(* Restoring version v publishes, as version latest+1, exactly v's fragments - rows, row id sequences,
   created/updated version sequences, deletion vectors - and v's schema/index token and feature flag.
   (Restoring a version that is not in the history fails.) *)
Theorem C07_restore_content : forall (st : bool) (latest : manifest) (tl : history) (v : N) (old : manifest),
  find_version (latest :: tl) v = Some old ->
  exists m', step st (latest :: tl) (ORestore v) = Ok m' /\
    m_frags m' = m_frags old /\ m_aux m' = m_aux old /\ m_stable m' = m_stable old /\
    m_version m' = m_version latest + 1 /\ m_version old = v /\ In old (latest :: tl) /\
    m_next m' = N.max (m_next old) (m_next latest).
Proof. exact restore_content. Qed.
Print Assumptions C07_restore_content.

Theorem C07_restore_unknown_version : forall st h v, find_version h v = None -> step st h (ORestore v) = Err.
Proof. exact restore_unknown_version. Qed.
Print Assumptions C07_restore_unknown_version.

(* For EVERY history of creates/appends/overwrites/deletes/updates/merge-style updates/column rewrites/
   compactions/restores (any interleaving, any restore targets; writers carry only row ids that the
   manifest they read stores: run_ok / op_ok), and every further step:
   each row id the step hands out (the interval the next_row_id mark moves over) is really used by the
   new version and was used by NO earlier version of the history - including the versions that a
   restore "abandoned". *)
Theorem C07_ids_never_reused : forall (st : bool) (ops : list op) (h : history) (o : op) (m' : manifest),
  run st ops = Ok h -> run_ok st [] ops = true ->
  step st h o = Ok m' -> (match h with l :: _ => op_ok l o = true | [] => True end) ->
  forall r, In r (handed_out h m') ->
    In r (all_ids m') /\ forall m, In m h -> ~ In r (all_ids m).
Proof. exact ids_never_reused. Qed.
Print Assumptions C07_ids_never_reused.

(* ... and every row id of the new version that no earlier version had is one of those handed out. *)
Theorem C07_new_ids_are_handed_out : forall st ops h o m',
  run st ops = Ok h -> run_ok st [] ops = true ->
  step st h o = Ok m' -> (match h with l :: _ => op_ok l o = true | [] => True end) ->
  forall r, In r (all_ids m') -> (forall m, In m h -> ~ In r (all_ids m)) -> In r (handed_out h m').
Proof. exact new_ids_are_handed_out. Qed.
Print Assumptions C07_new_ids_are_handed_out.

(* The invariant behind it: next_row_id never decreases along a history and bounds every id of every version. *)
Theorem C07_high_water_mark : forall st ops h,
  run st ops = Ok h -> run_ok st [] ops = true ->
  forall m, In m h -> m_next m <= next_of h /\ forall r, In r (all_ids m) -> r < next_of h.
Proof. exact high_water_mark. Qed.
Print Assumptions C07_high_water_mark.

(* Fragment ids are never reused across a history unless an Overwrite intervenes: for every history
   with no Overwrite after the table's creation (restores to any version included - the Restore arm keeps
   the max_fragment_id high-water mark, 6961b14), a fragment id denotes the same row id sequence in every
   version where it occurs.  Hypotheses: compactions use reserved fragment ids that no version used
   (frag_ok, checked on every real compaction) and fragment ids are distinct within each manifest
   (frag_ids_unique, checked on every real manifest; that is C05's concern). *)
Theorem C07_fragment_ids_never_reused : forall (st : bool) (ops : list op) (h : history),
  run st ops = Ok h -> run_frag_ok st [] ops = true -> frag_ids_unique h = true ->
  Known_C07_fragment_id_cache_after_overwrite h = false.
Proof. exact fragment_ids_never_reused. Qed.
Print Assumptions C07_fragment_ids_never_reused.

(* Reads go through a session cache keyed by fragment id alone.  Outside the class
   Known_C07_fragment_id_cache_after_overwrite the _rowid column scanned for any version of the history
   (the restored one included) is the one its manifest stores, whatever was read before in the session. *)
Theorem C07_cached_scan_exact : forall (h : history) (m : manifest) (c : cache),
  Known_C07_fragment_id_cache_after_overwrite h = false -> In m h -> coherent c h ->
  fst (scan_ids c (m_frags m)) = map frag_ids (m_frags m) /\ coherent (snd (scan_ids c (m_frags m))) h.
Proof. intros h m c Hk Hm Hc. apply (scan_ids_exact h m Hk Hm); [apply incl_refl | exact Hc]. Qed.
Print Assumptions C07_cached_scan_exact.

(* Inside the class it fails (reproduced on the real code, KNOWN_FINDINGS.txt): create 4 rows in two
   fragments; overwrite with 2 rows (Overwrite restarts fragment ids at 0: the new fragment 0 has row ids
   [4;5]); restore v1.  A session that has read version 2 scans the restored version's fragment 0 with
   row ids [4;5] instead of [0;1]. *)
Definition C07_witness_ops : list op := [OOverwrite [2; 2]; OOverwrite [2]; ORestore 1].

Theorem C07_fragment_id_cache_after_overwrite_refuted :
  exists h v2 v3, run true C07_witness_ops = Ok h /\ run_ok true [] C07_witness_ops = true /\
    Known_C07_fragment_id_cache_after_overwrite h = true /\
    find_version h 2 = Some v2 /\ find_version h 3 = Some v3 /\
    let c := snd (scan_ids [] (m_frags v2)) in
    coherent c h /\ fst (scan_ids c (m_frags v3)) <> map frag_ids (m_frags v3).
Proof.
  destruct (run true C07_witness_ops) as [h| |] eqn:E; try (vm_compute in E; discriminate).
  destruct (find_version h 2) as [v2|] eqn:E2; [|vm_compute in E; inversion E; subst; vm_compute in E2; discriminate].
  destruct (find_version h 3) as [v3|] eqn:E3; [|vm_compute in E; inversion E; subst; vm_compute in E3; discriminate].
  exists h, v2, v3. vm_compute in E. inversion E; subst h; clear E.
  vm_compute in E2; inversion E2; subst v2; clear E2. vm_compute in E3; inversion E3; subst v3; clear E3.
  repeat split; try reflexivity.
  - eapply scan_ids_coherent; [right; left; reflexivity | apply incl_refl | apply coherent_nil].
  - vm_compute. discriminate.
Qed.
Print Assumptions C07_fragment_id_cache_after_overwrite_refuted.

(* ---- non-vacuity / regression examples ---- *)
(* The history of DESIGN section 6 F4: after the repair the last append gets ids 4,5 and the mark stays at 4
   across the restore. *)
Example C07_F4_history_fixed :
  match run true [OOverwrite [2]; OAppend [2]; ORestore 1; OAppend [2]] with
  | Ok (m4 :: m3 :: m2 :: m1 :: nil) =>
      run_ok true [] [OOverwrite [2]; OAppend [2]; ORestore 1; OAppend [2]] = true /\
      m_next m3 = 4 /\ all_ids m3 = [0; 1] /\ all_ids m2 = [0; 1; 2; 3] /\
      all_ids m4 = [0; 1; 4; 5] /\ handed_out [m3; m2; m1] m4 = [4; 5] /\ m_next m4 = 6
  | _ => False
  end.
Proof. vm_compute. repeat split; reflexivity. Qed.

(* The rule before 97111ae (the restored manifest keeps its own next_row_id) hands out ids 2,3 a second
   time on the same history: the regression this check must catch. *)
Definition restore_unfixed (latest old : manifest) : manifest :=
  mkMan (m_version latest + 1) (m_next old) (m_maxfrag old) (m_stable old) (m_frags old) (m_aux old).
Example C07_unfixed_restore_reuses_ids :
  match run true [OOverwrite [2]; OAppend [2]] with
  | Ok (m2 :: m1 :: nil) =>
      let m3 := restore_unfixed m2 m1 in
      match step true [m3; m2; m1] (OAppend [2]) with
      | Ok m4 => handed_out [m3; m2; m1] m4 = [2; 3] /\ In 2 (all_ids m4) /\ In 2 (all_ids m2)
      | _ => False
      end
  | _ => False
  end.
Proof. vm_compute. repeat split; auto. Qed.

(* a longer reachable history with update, delete, compaction, overwrite and two restores satisfies the
   hypotheses of the theorems *)
Definition C07_sample_ops : list op :=
  [OOverwrite [3; 3; 1]; OUpdate [2] [(0, [0; 2]); (1, [1])] [(4, [0; 2; 4; 6])]; ODelete [(3, [2])] [1];
   OReserve 1; OCompact [([0; 3], [(4, 4)])]; ORestore 2; OAppend [2; 1]; OOverwrite [3]; ORestore 3;
   OUpdate [] [(0, [0; 2])] [(2, [1]) ]; OUpdateCols [(3, [0; 1])]].
Example C07_nonvacuous :
  run_ok true [] C07_sample_ops = true /\
  match run true C07_sample_ops with
  | Ok h => length h = 11%nat /\ next_of h = 14 /\ Known_C07_fragment_id_cache_after_overwrite h = true
  | _ => False
  end.
Proof. vm_compute. repeat split; reflexivity. Qed.

(* the history that reused fragment id 1 before 6961b14 (create 2; append 2; restore v1; update row 0) now
   puts the updated row into fragment 2; it satisfies every hypothesis of C07_fragment_ids_never_reused *)
Definition C07_R1_ops : list op := [OOverwrite [2]; OAppend [2]; ORestore 1; OUpdate [] [(0, [0])] [(1, [0])]; OReserve 1; OCompact [([0; 2], [(3, 2)])]].
Example C07_R1_history_fixed :
  run_ok true [] C07_R1_ops = true /\ run_frag_ok true [] C07_R1_ops = true /\
  match run true C07_R1_ops with
  | Ok (m6 :: m5 :: m4 :: m3 :: rest) =>
      frag_ids_unique (m6 :: m5 :: m4 :: m3 :: rest) = true /\
      m_maxfrag m3 = Some 1 /\ map f_id (m_frags m4) = [0; 2] /\ map f_id (m_frags m6) = [3] /\
      Known_C07_fragment_id_cache_after_overwrite (m6 :: m5 :: m4 :: m3 :: rest) = false
  | _ => False
  end.
Proof. vm_compute. repeat split; reflexivity. Qed.
