(* C39 - MemWAL index follows its state machine under concurrency. Property theorems only.
   Model: Table/Model_MemWal.v (index details, the eight operations computing their transaction against a read
   version, the conflict check of commit_transaction against every transaction committed since, the apply step).
   A schedule is any list of steps (read version index, operation): every interleaving of any number of writers,
   each holding a dataset handle of any age, is such a list. *)
From LanceV Require Import Common.Base Table.Model_MemWal Table.Proofs_MemWal.
Local Open Scope N_scope.

(* For EVERY schedule outside the five known-finding classes, every committed version satisfies: each
   (region, generation) appears once, the generations of a region are consecutive, only the latest generation
   of a region may be Open; along the history the state of a (region, generation) only moves forward
   Open -> Sealed -> Flushed -> Merged, a removed (trimmed) generation never reappears, and a new generation is
   always the successor of the region's latest one.  Induction over the commit history (HInv), not a sweep. *)
Theorem C39_invariant : forall (ks : list okind) (steps : list step),
  Known_C39 ks steps = false -> Hist_ok (run ks steps).
Proof. exact invariant_outside_known_classes. Qed.
Print Assumptions C39_invariant.

(* Two committed transactions of which the later was computed before the earlier committed never write the
   same (region, generation) entry (state, entries or owner), outside the two merge_insert classes. *)
Theorem C39_same_wal_conflict : forall (ks : list okind) (steps : list step),
  Known_C39_update_over_merge_insert ks steps = false ->
  Known_C39_double_merge_insert ks steps = false ->
  Same_wal_ok (run ks steps).
Proof. exact same_wal_conflict. Qed.
Print Assumptions C39_same_wal_conflict.

(* For EVERY schedule, no exclusion: when the earlier transaction is an UpdateMemWalState (advance, append,
   seal, flush, merged, owner change), no concurrent later transaction that writes one of its ids commits. *)
Theorem C39_same_wal_conflict_update_mem_wal_state : forall (ks : list okind) (steps : list step),
  Same_wal_upd_ok (run ks steps).
Proof. exact same_wal_conflict_upd. Qed.
Print Assumptions C39_same_wal_conflict_update_mem_wal_state.

(* The five classes are genuine: each witness lies in exactly one class and breaks the property. *)
Theorem C39_trim_hole_refuted : exists steps,
  Known_C39_trim_hole ks1 steps = true /\ ~ Hist_ok (run ks1 steps).
Proof.
  exists w_trim_hole. destruct trim_hole_witness as [F H]. split; [|exact H].
  unfold class_flags in F. inversion F. reflexivity.
Qed.
Print Assumptions C39_trim_hole_refuted.

Theorem C39_trim_latest_refuted : exists steps,
  Known_C39_trim_latest ks1 steps = true /\ ~ Hist_ok (run ks1 steps).
Proof.
  exists w_trim_latest. destruct trim_latest_witness as [F H]. split; [|exact H].
  unfold class_flags in F. inversion F. reflexivity.
Qed.
Print Assumptions C39_trim_latest_refuted.

Theorem C39_update_over_trim_refuted : exists steps,
  Known_C39_update_over_trim ks1 steps = true /\ ~ Hist_ok (run ks1 steps).
Proof.
  exists w_over_trim. destruct over_trim_witness as [F H]. split; [|exact H].
  unfold class_flags in F. inversion F. reflexivity.
Qed.
Print Assumptions C39_update_over_trim_refuted.

Theorem C39_update_over_merge_insert_refuted : exists steps,
  Known_C39_update_over_merge_insert ks1 steps = true /\
  ~ Hist_ok (run ks1 steps) /\ ~ Same_wal_ok (run ks1 steps).
Proof.
  exists w_over_merge_insert. destruct over_merge_insert_witness as [F H].
  split; [|split; [exact H | exact over_merge_insert_witness_same_wal]].
  unfold class_flags in F. inversion F. reflexivity.
Qed.
Print Assumptions C39_update_over_merge_insert_refuted.

Theorem C39_double_merge_insert_refuted : exists steps,
  Known_C39_double_merge_insert ks1 steps = true /\ ~ Same_wal_ok (run ks1 steps).
Proof.
  exists w_double_merge_insert. destruct double_merge_insert_witness as [F H]. split; [|exact H].
  unfold class_flags in F. inversion F. reflexivity.
Qed.
Print Assumptions C39_double_merge_insert_refuted.

(* each witness is in no other class: the classes are independent *)
Theorem C39_classes_independent :
  map class_flags [w_trim_hole; w_trim_latest; w_over_trim; w_over_merge_insert; w_double_merge_insert] =
  [[true; false; false; false; false]; [false; true; false; false; false]; [false; false; true; false; false];
   [false; false; false; true; false]; [false; false; false; false; true]].
Proof. vm_compute. reflexivity. Qed.
Print Assumptions C39_classes_independent.

(* non-vacuity: a 14-step history of three stale writers on two regions (3 conflicts, 11 commits, among them a
   merge_insert next to a concurrent advance and an append committed over a concurrent trim) lies outside every
   class, so C39_invariant and C39_same_wal_conflict apply to it *)
Example C39_nonvacuous :
  Known_C39 ks1 w_clean = false /\
  map (fun o => fst (fst o)) (observe (init_hist ks1) w_clean) = [0; 0; 0; 2; 0; 2; 0; 2; 0; 0; 0; 0; 0; 0] /\
  Hist_ok (run ks1 w_clean) /\ Same_wal_ok (run ks1 w_clean).
Proof.
  destruct clean_history_nonvacuous as [K [O _]]. split; [exact K|]. split; [exact O|]. split.
  - apply C39_invariant. exact K.
  - unfold Known_C39 in K. repeat (apply orb_false_iff in K; destruct K as [K ?]).
    apply C39_same_wal_conflict; assumption.
Qed.
