(* C37 - Feature flags and version strings gate compatibility correctly. Property theorems only. *)
From LanceV Require Import Common.Base Meta.Model_Flags Meta.Proofs_Flags.
Local Open Scope N_scope.

(* Readers/writers refuse any flag word with a bit they do not know (bit >= 6), and accept all others:
   for EVERY natural number w, not a sweep. *)
Theorem C37_unknown_bits_refused : forall w : N,
  (can_read_dataset w = true <-> forall k, 6 <= k -> N.testbit w k = false) /\
  (can_write_dataset w = true <-> forall k, 6 <= k -> N.testbit w k = false).
Proof. intro w; split; [exact (can_read_iff_no_unknown_bit w) | exact (can_write_iff_no_unknown_bit w)]. Qed.
Print Assumptions C37_unknown_bits_refused.

Theorem C37_unknown_bits_refused_mask : forall w : N, w < two64 ->
  (can_read_dataset w = true <-> N.land w (two64 - 64) = 0).
Proof. exact can_read_iff_mask. Qed.
Print Assumptions C37_unknown_bits_refused_mask.

(* The flags written are a function of the table contents, for every manifest shape. *)
Theorem C37_flags_reflect_contents : forall (i : flag_input) r w,
  apply_feature_flags i = Ok (r, w) ->
  r = b2n (existsb fst (fi_frags i)) 1 + b2n (stable_flag i) 2 + b2n (fi_base_paths_nonempty i) 16 /\
  w = b2n (existsb fst (fi_frags i)) 1 + b2n (stable_flag i) 2 + b2n (fi_config_nonempty i) 8
      + b2n (fi_base_paths_nonempty i) 16 + b2n (fi_disable_transaction_file i) 32 /\
  (stable_flag i = true -> forallb snd (fi_frags i) = true).
Proof. exact apply_flags_ok. Qed.
Print Assumptions C37_flags_reflect_contents.

Theorem C37_flags_error_iff_partial_row_ids : forall i : flag_input,
  (apply_feature_flags i = Err <-> (stable_flag i = true /\ forallb snd (fi_frags i) = false))
  /\ apply_feature_flags i <> Panic.
Proof. intro i; split; [exact (apply_flags_err_iff i) | exact (apply_flags_never_panics i)]. Qed.
Print Assumptions C37_flags_error_iff_partial_row_ids.

(* Whatever the writer produces, this build can read and write it back. *)
Theorem C37_written_flags_are_known : forall (i : flag_input) r w,
  apply_feature_flags i = Ok (r, w) -> can_read_dataset r = true /\ can_write_dataset w = true.
Proof. exact apply_flags_readable. Qed.
Print Assumptions C37_written_flags_are_known.

Theorem C37_versions : forall v : fver,
  from_str (display v) = Some v /\
  try_from_major_minor (fst (to_numbers v)) (snd (to_numbers v)) = Some (resolve v) /\
  resolve (resolve v) = resolve v /\ resolve v <> Stable /\ resolve v <> Next.
Proof.
  intro v. pose proof (resolve_concrete v) as [H1 H2].
  repeat split; [exact (from_str_display v) | exact (numbers_roundtrip v) | exact (resolve_idempotent v) | exact H1 | exact H2].
Qed.
Print Assumptions C37_versions.

Theorem C37_aliases :
  resolve Stable = V2_0 /\ resolve Next = V2_1 /\ from_str S_0_3 = Some V2_0 /\
  from_str S_legacy = Some Legacy /\ from_str S_0_1 = Some Legacy.
Proof. exact aliases. Qed.
Print Assumptions C37_aliases.

(* non-vacuity: a manifest shape with deletion files, stable ids, config, base paths *)
Example C37_nonvacuous :
  apply_feature_flags {| fi_frags := [(true, true); (false, true)]; fi_config_nonempty := true;
                         fi_base_paths_nonempty := true; fi_enable_stable_row_id := false;
                         fi_disable_transaction_file := true |} = Ok (19, 59)
  /\ apply_feature_flags {| fi_frags := [(true, true); (false, false)]; fi_config_nonempty := false;
                         fi_base_paths_nonempty := false; fi_enable_stable_row_id := false;
                         fi_disable_transaction_file := false |} = Err.
Proof. split; reflexivity. Qed.
