(* C05 - Every committed version is internally well formed.  Property theorems only.
   Model: Table/Model_Manifest.v (transcription of Transaction::build_manifest, validate_operation, the commit
   post-processing and Dataset::validate); proofs: Table/Proofs_Manifest.v. *)
From LanceV Require Import Common.Base Meta.Model_Flags Table.Model_Manifest Table.Proofs_ManifestBase Table.Proofs_Manifest.
Local Open Scope N_scope.

(* wf_manifest (Model_Manifest.v) is the statement of the property on one manifest: schema field ids unique
   (and >= 0); per fragment: physical_rows known, every data file holds that many rows and still has a live
   field, no live field id in two places of the fragment, deletion vector a set of positions < physical_rows
   whose size matches num_deleted_rows, with stable row ids exactly one row id per physical row (without: none),
   version sequences one entry per row; fragment ids strictly increasing and <= max_fragment_id < 2^32; every
   non-system index names only schema fields.

   For EVERY current manifest (or none: creation), operation and write configuration: if the current manifest is
   well formed and the fragments / schema / indices carried by the operation are internally consistent (op_ok:
   what a writer guarantees; new fragments use the `id = 0 = unassigned` sentinel, Rewrite may also use reserved
   ids), then whatever build_manifest returns is well formed.  validate_operation is not even needed. *)
Theorem C05_build_preserves_wf : forall (cur : option Manifest) (op : Operation) (cfg : config) (m' : Manifest),
  wf_opt cur -> op_ok (table_stable cur cfg) cur op = true ->
  build_manifest cur op cfg = Ok m' -> wf_manifest m' = true.
Proof. exact build_manifest_wf. Qed.
Print Assumptions C05_build_preserves_wf.

(* the same through the whole commit path (validation, build, fix_schema, check_storage_version), for both
   settings of use_stable_row_ids that callers pass *)
Theorem C05_commit_preserves_wf : forall latest op us sf m',
  wf_manifest latest = true -> op_ok (uses_stable latest) (Some latest) op = true ->
  commit_step latest op us sf = Ok m' -> wf_manifest m' = true.
Proof. exact commit_step_wf. Qed.
Print Assumptions C05_commit_preserves_wf.

Theorem C05_restore_preserves_wf : forall latest old,
  wf_manifest latest = true -> wf_manifest old = true -> wf_manifest (restore_step latest old) = true.
Proof. exact restore_step_wf. Qed.
Print Assumptions C05_restore_preserves_wf.

(* fix_schema never changes a well formed manifest *)
Theorem C05_fix_schema_identity : forall m, wf_manifest m = true -> fix_schema m = Ok m.
Proof. exact fix_schema_id. Qed.
Print Assumptions C05_fix_schema_identity.

(* Every version of every history: any number of commits (each against the latest version, i.e. after the
   rebase), restores of any earlier version, starting from a creation. *)
Theorem C05_reachable_wf : forall h : list Manifest, history h -> Forall (fun m => wf_manifest m = true) h.
Proof. exact history_wf. Qed.
Print Assumptions C05_reachable_wf.

(* "opening and fully validating any such version succeeds": Dataset::validate (transcribed: validate_dataset)
   accepts a well formed manifest outside the known-finding class.  _partial: see Proofs_Manifest.v - five
   side conditions of validate are hypotheses, not proved invariants. *)
Theorem C05_validate_ok_partial : forall m,
  wf_manifest m = true ->
  Known_C05_validate_rejects_tombstone_in_legacy_file m = false ->
  forallb (fun f => negb (match fr_files f with [] => true | _ => false end)
                    && forallb (fun d => existsb (fun x => z_mem x (m_schema m)) (df_fields d)) (fr_files f)
                    && Bool.eqb (existsb is_legacy_file (fr_files f)) (forallb is_legacy_file (fr_files f))
                    && forallb (fun d => negb (is_legacy_file d) || strict_sorted_z (filter (fun x => negb (x =? TOMBSTONE)%Z) (df_fields d))) (fr_files f)) (m_fragments m) = true ->
  nodup_n (map ix_uuid (m_indices m)) && indices_disjoint (m_indices m) = true ->
  validate_dataset m = true.
Proof. exact validate_dataset_ok_partial. Qed.
Print Assumptions C05_validate_ok_partial.

(* Known finding validate_rejects_tombstone_in_legacy_file: a well formed manifest with a tombstoned field in a
   legacy data file that Dataset::validate rejects *)
Theorem C05_validate_rejects_tombstone_in_legacy_file_refuted :
  exists m, wf_manifest m = true /\ Known_C05_validate_rejects_tombstone_in_legacy_file m = true /\ validate_dataset m = false.
Proof. exact validate_rejects_tombstone_in_legacy_file_refuted. Qed.
Print Assumptions C05_validate_rejects_tombstone_in_legacy_file_refuted.

(* regression of the repaired finding validate_rejects_tombstoned_field (repo commit 77d5a8a): a well formed
   manifest with a tombstoned field is accepted by validate *)
Theorem C05_tombstoned_field_validates :
  wf_manifest tombstone_witness = true /\ existsb has_tombstone (m_fragments tombstone_witness) = true /\ validate_dataset tombstone_witness = true.
Proof. exact tombstone_witness_validates. Qed.
Print Assumptions C05_tombstoned_field_validates.

(* Known finding stable_rowids_deferred_remap_unassigned_fragment_ids: the Rewrite arm computes index bitmaps
   from the unassigned id 0 (the result has the single fragment 4, both bitmaps say {0}) *)
Theorem C05_stable_rowids_deferred_remap_unassigned_fragment_ids_refuted :
  wf_manifest deferred_remap_cur = true
  /\ op_ok true (Some deferred_remap_cur) deferred_remap_op = true
  /\ Known_C05_stable_rowids_deferred_remap_unassigned_fragment_ids deferred_remap_cur deferred_remap_op = true
  /\ exists m', build_manifest (Some deferred_remap_cur) deferred_remap_op (mkConfig false None) = Ok m'
       /\ frag_ids (m_fragments m') = [4]
       /\ map ix_bitmap (m_indices m') = [Some [0]; Some [0]].
Proof. exact deferred_remap_refuted. Qed.
Print Assumptions C05_stable_rowids_deferred_remap_unassigned_fragment_ids_refuted.

(* ---------------------------------------------------------------- non-vacuity and unit tests of the Rust suite *)
(* a four-version history with stable row ids: create 3 rows, append 2, delete one row of fragment 0 and drop
   fragment 1, then update one row (partial row ids: the moved row keeps id 1, the inserted one gets a new id) *)
Example C05_history_nonvacuous :
  exists v1 v2 v3 v4, history [v4; v3; v2; v1] /\ m_next_row_id v4 = Some 6
    /\ map fr_row_ids (m_fragments v4) = [Some [0; 1; 2]; Some [1; 5]].
Proof.
  pose (file3 := fun path rows : N => mkDataFile path [0%Z; 1%Z; 2%Z] (2, 0) rows).
  pose (frag_new := fun path rows : N => mkFragment 0 (Some rows) [file3 path rows] None None None None).
  eexists. eexists. eexists. eexists. split.
  - eapply h_commit with (us := true) (sf := None)
      (op := Update [] [mkFragment 0 (Some 3) [file3 1 3] (Some (mkDeletionFile 2 (Some 2) [0; 1])) (Some [0; 1; 2]) (Some [1; 1; 1]) (Some [1; 1; 1])]
                    [mkFragment 0 (Some 2) [file3 4 2] None (Some [1]) None None] [] [] (Some RewriteRows)).
    + eapply h_commit with (us := true) (sf := None)
        (op := Delete [mkFragment 0 (Some 3) [file3 1 3] (Some (mkDeletionFile 1 (Some 1) [0])) (Some [0; 1; 2]) (Some [1; 1; 1]) (Some [1; 1; 1])] [1]).
      * eapply h_commit with (us := true) (sf := None) (op := Append [frag_new 2 2]).
        -- eapply h_create with (op := Overwrite [frag_new 1 3] [0%Z; 1%Z; 2%Z] false) (cfg := mkConfig true (Some V2_0)); vm_compute; reflexivity.
        -- vm_compute; reflexivity.
        -- left; reflexivity.
        -- vm_compute; reflexivity.
      * vm_compute; reflexivity.
      * left; reflexivity.
      * vm_compute; reflexivity.
    + vm_compute; reflexivity.
    + left; reflexivity.
    + vm_compute; reflexivity.
  - vm_compute. split; reflexivity.
Qed.

(* rust/lance/src/dataset/transaction.rs tests: test_assign_row_ids_{new_fragment, existing_complete,
   partial_existing, excess_row_ids, missing_physical_rows} *)
Example ut_assign_row_ids :
  map_assign 100 [mkFragment 1 (Some 50) [] None None None None] = Ok (150, [Some (n_range 100 50)])
  /\ map_assign 100 [mkFragment 1 (Some 50) [] None (Some (n_range 10 50)) None None] = Ok (100, [Some (n_range 10 50)])
  /\ map_assign 200 [mkFragment 1 (Some 100) [] None (Some (n_range 50 30)) None None] = Ok (270, [Some (n_range 50 30 ++ n_range 200 70)])
  /\ map_assign 100 [mkFragment 1 (Some 50) [] None (Some (n_range 0 60)) None None] = Err
  /\ map_assign 100 [mkFragment 1 None [] None None None None] = Err.
Proof. vm_compute. repeat split; reflexivity. Qed.

(* test_remove_tombstoned_data_files *)
Example ut_remove_tombstoned :
  map (fun f => map df_fields (fr_files f))
      (remove_tombstoned_data_files
         [mkFragment 1 None [mkDataFile 1 [1%Z; 2%Z; 3%Z] (2, 0) 0; mkDataFile 2 [(-2)%Z; (-2)%Z] (2, 0) 0; mkDataFile 3 [4%Z; (-2)%Z; 5%Z] (2, 0) 0; mkDataFile 4 [(-2)%Z] (2, 0) 0] None None None None;
          mkFragment 3 None [mkDataFile 5 [(-2)%Z; (-2)%Z] (2, 0) 0; mkDataFile 6 [(-2)%Z] (2, 0) 0] None None None None])
  = [[[1%Z; 2%Z; 3%Z]; [4%Z; (-2)%Z; 5%Z]]; []].
Proof. reflexivity. Qed.

(* test_rewrite_fragments: existing 0..9; group (1,2 -> reserved 15,16) is spliced in place, group (5,8 -> one
   unassigned fragment) is not contiguous: removed and appended; the counter goes from 20 to 21 *)
Example ut_rewrite_fragments :
  let ex := map (fun i => mkFragment i None [] None None None None) [0; 1; 2; 3; 4; 5; 6; 7; 8; 9] in
  let nf := fun i => mkFragment i None [] None None None None in
  match handle_rewrite_fragments ex [mkRewriteGroup [1; 2] [nf 15; nf 16]; mkRewriteGroup [5; 8] [nf 0]] 20 with
  | Ok (l, fid) => (frag_ids l, fid) = ([0; 15; 16; 3; 4; 6; 7; 9; 20], 21)
  | _ => False
  end.
Proof. vm_compute. reflexivity. Qed.
