(* C03 - Concurrent transactions serialize: the committed state equals a serial replay.
   Property theorems only; model in Table/Model_Txn.v, proofs in Table/Proofs_Txn*.v.

   Quantifiers: any data-file store (frows, fcontent), any well-formed initial manifest, any finite list of writers
   (`step`s), each computing its transaction at ANY existing read version (s_rv) from its intent and committing on the
   latest version through the transcribed commit loop (try_new, check_txn against every transaction committed since
   the read version, finish_delete_update, build_manifest / restore); the list order is the commit order, so "every
   commit order" is the quantification over lists.

   PARTIAL: the writers covered by the proof are Append, Delete (row level, with the rebase of deletion vectors and
   whole-fragment promotion), Update in RewriteRows mode (update / full-schema merge_insert), Overwrite, Restore,
   ReserveFragments, UpdateConfig (config map, per key) and CreateIndex (index list opaque).  NOT covered by the
   history theorem (their verdicts, build arms and effects are modelled and tied to the code by the correspondence
   streams, the per-pair frame lemmas chain_untouched / step_du hold for them as committed "others", but the
   one-commit lemma is not proved for them as the committing writer): Rewrite (compaction), Update in RewriteColumns
   mode, Merge (add_columns), Project (drop_columns), DataReplacement, delete-everything (`IDeleteAll`; its effect lemma
   eff_delete_all is proved).  Stable row id sequences, index contents, schema/field metadata are not modelled. *)
From LanceV Require Import Common.Base Table.Model_Txn Table.Proofs_TxnBase Table.Proofs_TxnFrame Table.Proofs_TxnChain
  Table.Proofs_TxnDU Table.Proofs_TxnAbs Table.Proofs_TxnDel Table.Proofs_Txn.
Local Open Scope N_scope.

(* the table after any schedule equals the serial replay, in commit order, of the effects of the committed writers;
   writers that fail contribute nothing (they are absent from the log) *)
Theorem C03_serializable_partial : forall frows fcontent m0 o0 sts h log,
  wf_manifest frows m0 ->
  valid_run frows [{| v_man := m0; v_op := o0 |}] sts ->
  run frows [{| v_man := m0; v_op := o0 |}] sts = (h, log) ->
  exists final t, latest h = Some final
    /\ replay frows fcontent (abs frows fcontent m0) log = Some t
    /\ table_eq (abs frows fcontent final) t.
Proof. exact serializable. Qed.
Print Assumptions C03_serializable_partial.

(* one writer: either it commits exactly one version whose row-level reading is its effect applied to the version
   it committed on, or the history is unchanged; the history stays well formed (every version a well-formed manifest) *)
Theorem C03_commit_is_effect : forall frows fcontent h st h' oe,
  HistOk frows h -> valid_intent frows h (s_rv st) (s_int st) -> step_in_F14 frows h st = false ->
  run_step frows h st = (h', oe) ->
  HistOk frows h' /\
  match oe with
  | None => h' = h
  | Some e => exists cur new t', latest h = Some cur /\ latest h' = Some new
       /\ apply_effect frows fcontent e (abs frows fcontent cur) = Some t' /\ table_eq (abs frows fcontent new) t'
  end.
Proof. intros frows fcontent h st h' oe H1 H2 H3 H4. exact (run_step_ok frows fcontent h st h' oe H1 H2 H3 H4). Qed.
Print Assumptions C03_commit_is_effect.

(* the rebase: whatever the transactions committed since the read version did, the fragment list a rebased
   Delete / Update leaves shows exactly the current rows minus the rows selected at the read version *)
Theorem C03_rebase_keeps_concurrent_deletions : forall frows fcontent h rv mr cur rows nd0 nd upd gone rb' o',
  HistOk frows h -> nth_man h rv = Some mr -> latest h = Some cur ->
  (forall a, In a rows -> live_at frows (m_frags mr) (fst a) (snd a) = true) ->
  mk_deletions frows (m_frags mr) rows nd0 = (upd, gone) ->
  check_all (try_new (m_frags mr) (Delete upd gone) (Some rows)) (ops_since h rv) = (VOk, rb') ->
  finish_delete_update frows rb' (m_frags cur) nd = FOk o' ->
  du_result frows fcontent cur rows upd gone o' (fun u g => Delete u g).
Proof.
  intros frows fcontent h rv mr cur rows nd0 nd upd gone rb' o' H1 H2 H3 H4 H5 H6 H7.
  exact (du_core frows fcontent h rv mr cur rows nd0 nd upd gone (Delete upd gone) rb' o' (fun u g => Delete u g)
           H1 H2 H3 H4 H5 (or_introl (conj eq_refl eq_refl)) H6 H7).
Qed.
Print Assumptions C03_rebase_keeps_concurrent_deletions.

(* F14 (KNOWN FINDING append_over_concurrent_merge_nonnull): check_append_txn accepts a Merge committed since the
   read version; when that Merge added a non-nullable field the appended fragment does not store, the commit
   succeeds although the append effect is not applicable to the current table (no serial order produces the state) *)
Definition f14_rows : N -> N := fun _ => 2.
Definition f14_cells : N -> Z -> N -> option N := fun _ _ _ => Some 7.
Definition f14_m0 : manifest :=
  {| m_frags := [mkf 0 [mkd 1 [0%Z; 1%Z]] None]; m_schema := [(0%Z, false); (1%Z, true)]; m_maxfid := Some 0;
     m_config := []; m_indices := [] |}.
Definition f14_h1 : history :=
  fst (run_step f14_rows [{| v_man := f14_m0; v_op := Overwrite [] [] None |}]
         {| s_rv := 1; s_int := IAddColumns [(2%Z, false)] [(0, mkd 2 [2%Z])]; s_newdel := 50 |}).
Definition f14_append : step := {| s_rv := 1; s_int := IAppend [mkf 0 [mkd 3 [0%Z; 1%Z]] None]; s_newdel := 51 |}.

Theorem C03_append_over_concurrent_merge_nonnull_refuted :
  version_of f14_h1 = 2
  /\ step_in_F14 f14_rows f14_h1 f14_append = true
  /\ exists h' e cur, run_step f14_rows f14_h1 f14_append = (h', Some e) /\ version_of h' = 3
       /\ latest f14_h1 = Some cur
       /\ apply_effect f14_rows f14_cells e (abs f14_rows f14_cells cur) = None.
Proof.
  split; [vm_compute; reflexivity | split; [vm_compute; reflexivity|]].
  eexists. eexists. eexists. split; [vm_compute; reflexivity|]. split; [vm_compute; reflexivity|].
  split; [vm_compute; reflexivity|]. vm_compute. reflexivity.
Qed.
Print Assumptions C03_append_over_concurrent_merge_nonnull_refuted.

(* non-vacuity: two stale writers delete different rows of the same fragment (the second is rebased: its deletion
   vector is merged with the first one's), a third stale writer deletes a row the first one deleted (retryable
   conflict, no effect), then a stale update moves a row; the hypotheses of C03_serializable_partial hold *)
Definition nv_rows : N -> N := fun _ => 4.
Definition nv_cells : N -> Z -> N -> option N := fun f x o => Some (100 * f + o).
Definition nv_m0 : manifest :=
  {| m_frags := [mkf 0 [mkd 1 [0%Z; 1%Z]] None; mkf 1 [mkd 2 [0%Z; 1%Z]] (Some (9, [3]))];
     m_schema := [(0%Z, false); (1%Z, true)]; m_maxfid := Some 1; m_config := []; m_indices := [] |}.
Definition nv_steps : list step :=
  [ {| s_rv := 1; s_int := IDelete [(0, 0)]; s_newdel := 10 |};
    {| s_rv := 1; s_int := IDelete [(0, 2); (1, 0)]; s_newdel := 11 |};
    {| s_rv := 1; s_int := IDelete [(0, 0); (0, 1)]; s_newdel := 12 |};
    {| s_rv := 2; s_int := IUpdateRows [(1, 1)] [mkf 0 [mkd 7 [0%Z; 1%Z]] None]; s_newdel := 13 |} ].
Ltac eval_hist :=
  match goal with
  | |- context [fst (run_step ?a ?b ?c)] =>
      let v := eval vm_compute in (fst (run_step a b c)) in change (fst (run_step a b c)) with v
  end.
Ltac rows_ok := unfold valid_intent, rows_live; cbn [s_rv s_int]; intros a Ha; cbn in Ha; intuition (subst; vm_compute; reflexivity).

Example C03_nonvacuous :
  let h0 := [{| v_man := nv_m0; v_op := Overwrite [] [] None |}] in
  wf_manifest nv_rows nv_m0 /\ valid_run nv_rows h0 (firstn 3 nv_steps)
  /\ length (snd (run nv_rows h0 nv_steps)) = 3%nat
  /\ version_of (fst (run nv_rows h0 nv_steps)) = 4
  /\ (exists m, latest (fst (run nv_rows h0 nv_steps)) = Some m
        /\ map (fun f => (f_id f, dels_of f)) (m_frags m) = [(0, [0; 2]); (1, [3; 0; 1]); (2, [])]).
Proof.
  cbv zeta. split; [|split; [|split; [vm_compute; reflexivity | split; [vm_compute; reflexivity|]]]].
  - split; [repeat constructor; cbn; intuition congruence | split; [|split]].
    + intros f [E | [E | []]]; subst; split; cbn; intros; intuition (subst; vm_compute; try reflexivity; try lia).
    + intros x [E | [E | []]]; subst; discriminate.
    + cbn. intros f [E | [E | []]]; subst; vm_compute; discriminate.
  - cbn [firstn nv_steps valid_run].
    split; [rows_ok | split; [vm_compute; reflexivity|]]. eval_hist.
    split; [rows_ok | split; [vm_compute; reflexivity|]]. eval_hist.
    split; [rows_ok | split; [vm_compute; reflexivity|]]. exact I.
  - eexists. split; vm_compute; reflexivity.
Qed.
