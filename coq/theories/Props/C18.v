(* C18 - Stable row ids are stable and resolvable.  Property theorems only.
   Model: Table/Model_Manifest.v (build_manifest: assign_row_ids in its three cases, next_row_id threading) and
   Table/Model_StableIds.v (the invariant, what writers guarantee about carried ids, the row id index);
   proofs: Table/Proofs_StableIds.v. *)
From LanceV Require Import Common.Base Meta.Model_Flags Table.Model_Manifest Table.Proofs_ManifestBase Table.Proofs_Manifest
  Table.Model_StableIds Table.Proofs_StableIds.
Local Open Scope N_scope.

(* THE INVARIANT ids_inv: every row id ever written is < next_row_id and no two live rows share a row id.
   It holds in every version of every history: creation, any number of commits (against the latest version,
   with either use_stable_row_ids setting callers pass) and restores of any earlier version (restore never
   lowers next_row_id: repo commit 97111ae).  Hypotheses on the operations: op_ok (C05) and op_ids_ok - the
   ids a writer carries into new fragments are ids of rows it retires, deletion vectors only grow,
   compaction writes exactly the live ids of the fragments it replaces. *)
Theorem C18_unique : forall h : list Manifest, id_history h ->
  Forall (fun m => wf_manifest m = true /\ ids_inv m = true) h.
Proof. exact id_history_inv. Qed.
Print Assumptions C18_unique.

(* unfolding the invariant: uniqueness of the live row ids, and the bound *)
Theorem C18_unique_live_ids : forall m n, m_next_row_id m = Some n -> ids_inv m = true ->
  NoDup (live_ids m) /\ (forall x, In x (all_ids_l (m_fragments m)) -> x < n).
Proof.
  intros m n EN II. unfold ids_inv in II. rewrite EN in II. apply ids_inv_l_iff in II as [A B]. rewrite live_ids_eq. split; assumption.
Qed.
Print Assumptions C18_unique_live_ids.

(* One commit on a table with stable row ids: the invariant is kept; next_row_id never decreases; and
   (C18_stable) every row id live afterwards either was live before or is fresh (>= the old next_row_id):
   no id is ever re-issued, so a live id < n still names the row it named before.  The flag can only be lost
   in the known-finding class (last line). *)
Theorem C18_next_row_id_monotone : forall latest op us sf m' n,
  wf_manifest latest = true -> m_next_row_id latest = Some n -> ids_inv latest = true ->
  op_ok true (Some latest) op = true -> op_ids_ok latest op = true ->
  commit_step latest op us sf = Ok m' ->
  ids_inv m' = true
  /\ match m_next_row_id m' with
     | Some n' => n <= n' /\ (forall x, In x (live_ids m') -> In x (live_ids latest) \/ n <= x)
     | None => m_fragments m' = [] /\ us = false
     end.
Proof. exact commit_ids. Qed.
Print Assumptions C18_next_row_id_monotone.

Theorem C18_stable : forall latest op us sf m' n n',
  wf_manifest latest = true -> m_next_row_id latest = Some n -> ids_inv latest = true ->
  op_ok true (Some latest) op = true -> op_ids_ok latest op = true ->
  commit_step latest op us sf = Ok m' -> m_next_row_id m' = Some n' ->
  forall x, In x (live_ids m') -> In x (live_ids latest) \/ (n <= x /\ x < n').
Proof.
  intros latest op us sf m' n n' W EN II OK OI H EN' x I.
  destruct (commit_ids latest op us sf m' n W EN II OK OI H) as [II' B]. rewrite EN' in B. destruct B as [_ B].
  destruct (B x I) as [J|J]; [left; exact J | right; split; [exact J|]].
  destruct (C18_unique_live_ids m' n' EN' II') as [_ LT]. apply LT. apply live_In_all. rewrite <- live_ids_eq. exact I.
Qed.
Print Assumptions C18_stable.

(* compaction (Rewrite) loses no row id either: the set of live row ids is unchanged *)
Theorem C18_stable_compaction : forall latest groups ri fri us sf m' n,
  wf_manifest latest = true -> m_next_row_id latest = Some n ->
  op_ok true (Some latest) (Rewrite groups ri fri) = true -> op_ids_ok latest (Rewrite groups ri fri) = true ->
  commit_step latest (Rewrite groups ri fri) us sf = Ok m' ->
  forall x, In x (live_ids latest) -> In x (live_ids m').
Proof. exact commit_rewrite_keeps. Qed.
Print Assumptions C18_stable_compaction.

(* restore: next_row_id is the maximum of both versions, the invariant holds *)
Theorem C18_restore : forall latest old, wf_manifest old = true -> ids_inv old = true ->
  ids_inv (restore_step latest old) = true.
Proof. exact restore_ids. Qed.
Print Assumptions C18_restore.

(* Resolvable, specification level: in every manifest satisfying the invariant, looking a live row id up gives
   the address of that row (the only live row with this id); a dead id gives nothing. *)
Theorem C18_resolvable : forall m n,
  m_next_row_id m = Some n -> ids_inv m = true ->
  (forall rid addr, In (rid, addr) (live_rows m) -> resolve m rid = Some addr)
  /\ (forall rid, ~ In rid (live_ids m) -> resolve m rid = None).
Proof. intros m n EN II. split; [intros rid addr; exact (resolve_live m n rid addr EN II) | exact (resolve_dead m)]. Qed.
Print Assumptions C18_resolvable.

(* Resolvable, the row id index (chunks keyed by [min id, max id], looked up by range): with monotone live ids it
   agrees with the specification FOR EVERY segmentation of the stored sequences.  When an update has carried an
   id into a later fragment the ranges overlap and RowIdIndex::new merges the chunks first (C34's model); the
   over-strict assertion there (F18) was repaired by repo commit ac0e2db. *)
Theorem C18_resolvable_index : forall m chunks,
  ids_non_monotone m = false -> is_segmentation chunks (live_rows m) = true ->
  (forall rid addr, In (rid, addr) (live_rows m) -> index_get chunks rid = Some addr)
  /\ (forall rid, ~ In rid (live_ids m) -> index_get chunks rid = None).
Proof. exact index_resolves. Qed.
Print Assumptions C18_resolvable_index.

(* regression for F18: on the delete+update shape every live id resolves (specification and merged chunk) *)
Theorem C18_f18_regression :
  map (resolve f18_manifest) [0; 1; 2; 3; 4] = [Some 0; Some (row_address 1 0); Some 2; Some 3; None]
  /\ map (index_get [[(0, 0); (1, row_address 1 0); (2, 2); (3, 3)]]) [0; 1; 2; 3; 4]
     = [Some 0; Some (row_address 1 0); Some 2; Some 3; None].
Proof. exact f18_regression. Qed.
Print Assumptions C18_f18_regression.

(* The table keeps having stable row ids, except in the known-finding class: a commit made with
   use_stable_row_ids = false (every Dataset::apply_commit caller) that leaves the table without fragments *)
Theorem C18_stable_flag_sticky : forall latest op us sf m' n,
  wf_manifest latest = true -> m_next_row_id latest = Some n -> ids_inv latest = true ->
  op_ok true (Some latest) op = true -> op_ids_ok latest op = true ->
  commit_step latest op us sf = Ok m' ->
  Known_C18_stable_flag_dropped_on_empty_table us m' = false -> uses_stable m' = true.
Proof. exact stable_flag_sticky. Qed.
Print Assumptions C18_stable_flag_sticky.

Theorem C18_stable_flag_dropped_on_empty_table_refuted :
  wf_manifest flag_drop_latest = true /\ ids_inv flag_drop_latest = true
  /\ exists m', commit_step flag_drop_latest UpdateConfig false None = Ok m'
       /\ Known_C18_stable_flag_dropped_on_empty_table false m' = true /\ uses_stable m' = false.
Proof. exact stable_flag_dropped_refuted. Qed.
Print Assumptions C18_stable_flag_dropped_on_empty_table_refuted.

(* Known finding rowid_sequence_cache_keyed_by_fragment_id.  _partial: the positive half only says that a cache
   warmed by a version that shares no fragment id with different row ids is harmless; that histories without
   Overwrite never create such a clash (fragment ids are then never reused) is not proved here. *)
Theorem C18_cached_row_ids_partial : forall warm m,
  Known_C18_rowid_sequence_cache_keyed_by_fragment_id warm m = false ->
  forall f, In f (m_fragments m) -> cached_ids (cache_of warm) f = ids_of f.
Proof. exact cached_ids_ok. Qed.
Print Assumptions C18_cached_row_ids_partial.

Theorem C18_rowid_sequence_cache_keyed_by_fragment_id_refuted :
  exists v1 v2, id_history [v2; v1]
    /\ Known_C18_rowid_sequence_cache_keyed_by_fragment_id v2 v1 = true
    /\ map (cached_ids (cache_of v2)) (m_fragments v1) = [[3; 4]] /\ map ids_of (m_fragments v1) = [[0; 1; 2]].
Proof. exact cache_clash_refuted. Qed.
Print Assumptions C18_rowid_sequence_cache_keyed_by_fragment_id_refuted.

(* ---------------------------------------------------------------- non-vacuity *)
(* create 3 rows (ids 0,1,2), append 2 (3,4), delete row 0 of fragment 0 and drop fragment 1, update row 1:
   its id 1 is carried into the new fragment, the inserted row gets the fresh id 5 *)
Example C18_history_nonvacuous :
  exists v1 v2 v3 v4, id_history [v4; v3; v2; v1] /\ m_next_row_id v4 = Some 6 /\ live_ids v4 = [2; 1; 5]
    /\ ids_non_monotone v4 = true /\ resolve v4 1 = Some (row_address 2 0).
Proof.
  pose (file3 := fun path rows : N => mkDataFile path [0%Z; 1%Z; 2%Z] (2, 0) rows).
  eexists. eexists. eexists. eexists. split.
  - eapply ih_commit with (us := true) (sf := None)
      (op := Update [] [mkFragment 0 (Some 3) [file3 1 3] (Some (mkDeletionFile 2 (Some 2) [0; 1])) (Some [0; 1; 2]) (Some [1; 1; 1]) (Some [1; 1; 1])]
                    [mkFragment 0 (Some 2) [file3 4 2] None (Some [1]) None None] [] [] (Some RewriteRows)).
    + eapply ih_commit with (us := true) (sf := None)
        (op := Delete [mkFragment 0 (Some 3) [file3 1 3] (Some (mkDeletionFile 1 (Some 1) [0])) (Some [0; 1; 2]) (Some [1; 1; 1]) (Some [1; 1; 1])] [1]).
      * eapply ih_commit with (us := true) (sf := None) (op := Append [mkFragment 0 (Some 2) [file3 2 2] None None None None]).
        -- eapply ih_create with (op := Overwrite [mkFragment 0 (Some 3) [file3 1 3] None None None None] [0%Z; 1%Z; 2%Z] false) (cfg := mkConfig true (Some V2_0)); vm_compute; reflexivity.
        -- vm_compute; reflexivity.
        -- intros _; vm_compute; reflexivity.
        -- left; reflexivity.
        -- vm_compute; reflexivity.
      * vm_compute; reflexivity.
      * intros _; vm_compute; reflexivity.
      * left; reflexivity.
      * vm_compute; reflexivity.
    + vm_compute; reflexivity.
    + intros _; vm_compute; reflexivity.
    + left; reflexivity.
    + vm_compute; reflexivity.
  - vm_compute. repeat split; reflexivity.
Qed.
