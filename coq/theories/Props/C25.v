(* C25 - File format round trip.  Property theorems only.
   Model: File/Model_File.v (writer paging, ranges -> per-page sub-ranges, indices -> ranges, page
   shards -> batches, projection, struct scheduling job, footer / offset tables); proofs:
   File/Proofs_File.v.  A page's payload is opaque: decode (encode p) = p is the Section hypothesis
   (codecs: C26, rep/def: C27). *)
From LanceV Require Import Common.Base File.Model_File File.Proofs_File.
Local Open Scope N_scope.

(* ---- ranges -> per-page sub-ranges ---------------------------------------------------------- *)

(* For EVERY page layout [ps] of the data [l] (page k holds rows [off_k, off_k + ps_k)), and EVERY
   request in the domain [chain] (non-empty ranges, each starting no earlier than the last row of
   the one before: sorted disjoint or adjacent ranges, and the runs of a sorted index list with
   repeats) inside the file: the scheduling job returns, without panic, page-local ranges whose
   rows, page after page, are exactly the requested rows in request order. *)
Theorem C25_schedule_exact : forall (X : Type) (content : nat -> list X) (l : list X) (ps : list N) (rs : list range),
  pages_at content l 0 0 ps -> chain rs -> ends_le (nsum ps) rs ->
  exists lines, schedule_ranges ps rs = Ok lines /\
    concat (map (line_rows content) lines) = concat (map (slice l) rs).
Proof. exact @schedule_ranges_exact. Qed.
Print Assumptions C25_schedule_exact.

(* ---- sorted indices -> ranges ---------------------------------------------------------------- *)

(* take: EVERY sorted (non-strict: a row may be asked for repeatedly) in-bounds index list is
   turned into a request that lies in the domain of C25_schedule_exact and whose rows are the
   indexed rows in request order; together with C25_schedule_exact: the pages deliver exactly
   [rows_at l idx].  (_partial as a statement about the file: the repeated rows reach a page as
   overlapping page-local ranges, and that the page decoder serves those is an assumption on the
   page layer - false for 2.0 variable-width pages, class Known_C25_v20_take_repeats_first_row_of_page.) *)
Theorem C25_take_indices_partial : forall (X : Type) (content : nat -> list X) (l : list X) (ps : list N) (i0 : N) (rest : list N),
  pages_at content l 0 0 ps -> nsum ps = nlen l ->
  sorted_from i0 rest -> Forall (fun i => i < nlen l) (i0 :: rest) ->
  exists rs lines, indices_to_ranges (i0 :: rest) = Ok rs /\ schedule_ranges ps rs = Ok lines /\
    concat (map (line_rows content) lines) = rows_at l (i0 :: rest).
Proof.
  intros X content l ps i0 rest Hp Hsum Hs Hb.
  destruct (indices_to_ranges_exact l i0 rest Hs Hb) as (rs & H1 & H2 & H3 & H4).
  rewrite <- Hsum in H3.
  destruct (schedule_ranges_exact content l ps rs Hp H2 H3) as (lines & H5 & H6).
  exists rs, lines. split; [exact H1|]. split; [exact H5|]. now rewrite H6.
Qed.
Print Assumptions C25_take_indices_partial.

(* full read = the data: the request [0, n) over any page layout delivers l *)
Theorem C25_full_read : forall (X : Type) (content : nat -> list X) (l : list X) (ps : list N),
  pages_at content l 0 0 ps -> nsum ps = nlen l -> 0 < nlen l ->
  exists lines, schedule_ranges ps [(0, nlen l)] = Ok lines /\
    concat (map (line_rows content) lines) = l.
Proof.
  intros X content l ps Hp Hsum Hpos.
  destruct (schedule_ranges_exact content l ps [(0, nlen l)] Hp) as (lines & H1 & H2).
  - cbn [chain]. split; [exact Hpos | split; exact I].
  - constructor; [cbn [snd]; lia | constructor].
  - exists lines. split; [exact H1|]. rewrite H2. cbn [map concat]. rewrite app_nil_r. apply slice_all.
Qed.
Print Assumptions C25_full_read.

(* ---- footer --------------------------------------------------------------------------------- *)

(* parse (serialize f) = f for all field values in range (u64 / u32 / u16), whatever precedes the
   footer in the file; the legacy version pair (0, 2) is the documented exception (refused). *)
Theorem C25_footer_roundtrip : forall (pre : bytes) (f : footer),
  footer_in_range f -> (ft_major f =? 0) && (ft_minor f =? 2) = false ->
  decode_footer (pre ++ footer_bytes f) = Ok f.
Proof. exact footer_roundtrip. Qed.
Print Assumptions C25_footer_roundtrip.

(* fewer than 40 bytes, or last four bytes other than "LANC": refused *)
Theorem C25_footer_rejects : forall (t : bytes),
  ((length t < 40)%nat -> decode_footer t = Err) /\
  (list_eqb N.eqb (take_at t (length t - 4) 4) MAGIC = false -> decode_footer t = Err).
Proof. intros t. split; [apply footer_truncated | apply footer_bad_magic]. Qed.
Print Assumptions C25_footer_rejects.

(* ---- non-vacuity ---------------------------------------------------------------------------- *)
Example C25_schedule_nonvacuous :
  schedule_ranges [4; 4; 2] [(1, 3); (3, 5); (7, 10)]
    = Ok [{| sl_page := 0; sl_ranges := [(1, 3); (3, 4)]; sl_priority := 1 |};
          {| sl_page := 1; sl_ranges := [(0, 1); (3, 4)]; sl_priority := 3 |};
          {| sl_page := 2; sl_ranges := [(0, 2)]; sl_priority := 7 |}] /\
  (* the runs of the sorted index list [3; 3; 4]: a row taken twice across a page boundary *)
  indices_to_ranges [3; 3; 4] = Ok [(3, 4); (3, 5)] /\
  schedule_ranges [4; 4] [(3, 4); (3, 5)]
    = Ok [{| sl_page := 0; sl_ranges := [(3, 4); (3, 4)]; sl_priority := 3 |};
          {| sl_page := 1; sl_ranges := [(0, 1)]; sl_priority := 3 |}] /\
  (* outside the domain (overlap reaching back to an earlier page): the real code panics too *)
  schedule_ranges [4; 4] [(0, 6); (2, 3)] = Panic.
Proof. vm_compute. repeat split. Qed.

Example C25_footer_nonvacuous :
  let f := {| ft_col_meta_start := 1000; ft_cmo_start := 1070; ft_gbo_start := 1102; ft_num_gbuf := 1;
              ft_num_cols := 2; ft_major := 2; ft_minor := 1 |} in
  decode_footer ([7; 7; 7] ++ footer_bytes f) = Ok f /\ length (footer_bytes f) = 40%nat /\
  decode_footer (firstn 39 (footer_bytes f)) = Err.
Proof. vm_compute. repeat split. Qed.
