(* C04 - No lost updates.  Property theorems only; model in Table/Model_Txn.v, proofs in Table/Proofs_Txn*.v.
   What is proved (corollaries of the C03 development, for ANY store, ANY good history and ANY stale read version):
     - a committed row-level delete or RewriteRows update never leaves a row it selected visible at its old address
       (old image gone: no row has both images), whatever was committed between its read version and its commit;
     - it never makes a row visible that was not visible before, except the rows of the fragments it adds (no
       resurrection of rows deleted by concurrent commits: the rebase keeps `existing | affected`).
   NOT proved as a theorem (PARTIAL): C04_no_common_row in general (two writers selecting a common row at the same read
   version: the second to commit gets a retryable conflict).  It is checked exhaustively on the verdict matrix against
   the code, end to end by hx_c04, and on the concrete instance below by evaluation of the model. *)
From LanceV Require Import Common.Base Table.Model_Txn Table.Proofs_TxnBase Table.Proofs_TxnFrame Table.Proofs_TxnChain
  Table.Proofs_TxnDU Table.Proofs_TxnAbs Table.Proofs_TxnDel Table.Proofs_Txn.
Local Open Scope N_scope.

Lemma run_step_mk : forall frows h st h' e, run_step frows h st = (h', Some e) ->
  exists o aff, mk frows h (s_rv st) (s_int st) (s_newdel st) = Some (o, aff, e).
Proof.
  intros frows h st h' e H. unfold run_step in H. destruct (mk frows h (s_rv st) (s_int st) (s_newdel st)) as [[[o aff] e0]|]; [|inversion H].
  destruct (commit frows h (s_rv st) o aff (s_newdel st)); inversion H; subst. eauto.
Qed.
Print Assumptions run_step_mk.

(* the rows a committed delete selected at its (possibly stale) read version are invisible afterwards *)
Theorem C04_single_image_delete : forall frows fcontent h rv rows nd h' e,
  HistOk frows h -> valid_intent frows h rv (IDelete rows) ->
  run_step frows h {| s_rv := rv; s_int := IDelete rows; s_newdel := nd |} = (h', Some e) ->
  exists new, latest h' = Some new /\ forall a, In a rows -> t_live (abs frows fcontent new) (fst a) (snd a) = false.
Proof.
  intros frows fcontent h rv rows nd h' e Hh Hv Hrun.
  assert (HF : step_in_F14 frows h {| s_rv := rv; s_int := IDelete rows; s_newdel := nd |} = false).
  { unfold step_in_F14. cbn [s_rv s_int s_newdel]. unfold mk. destruct (nth_man h rv); [|reflexivity].
    destruct (mk_deletions frows (m_frags m) rows nd). reflexivity. }
  destruct (run_step_ok frows fcontent h {| s_rv := rv; s_int := IDelete rows; s_newdel := nd |} h' (Some e) Hh Hv HF Hrun) as [_ [cur [new [t' [Hl [Hn [Ha Ht]]]]]]].
  destruct (run_step_mk _ _ _ _ _ Hrun) as [o [aff Hmk]]. cbn [s_rv s_int s_newdel] in Hmk. unfold mk in Hmk.
  destruct (nth_man h rv) as [mr|]; [|discriminate]. destruct (mk_deletions frows (m_frags mr) rows nd). inversion Hmk; subst e.
  cbn [apply_effect] in Ha. inversion Ha; subst t'. exists new. split; [exact Hn|]. intros [f0 o0] Hin.
  destruct Ht as [_ [_ [_ [Hlive _]]]]. rewrite Hlive. cbn [fst snd drop_rows t_live].
  rewrite (proj2 (mem_addr_In (f0, o0) rows) Hin). apply andb_false_r.
Qed.
Print Assumptions C04_single_image_delete.

(* same for an update that rewrites rows: the old image is gone unless its address belongs to a fragment the update
   itself adds (fresh ids are assigned above every existing id, see fresh_disjoint) *)
Theorem C04_single_image_update : forall frows fcontent h rv rows frs nd h' e,
  HistOk frows h -> valid_intent frows h rv (IUpdateRows rows frs) ->
  run_step frows h {| s_rv := rv; s_int := IUpdateRows rows frs; s_newdel := nd |} = (h', Some e) ->
  exists cur new, latest h = Some cur /\ latest h' = Some new /\
    forall a, In a rows -> find_frag (fst a) (fst (assign_ids (next_id (abs frows fcontent cur)) frs)) = None ->
      t_live (abs frows fcontent new) (fst a) (snd a) = false.
Proof.
  intros frows fcontent h rv rows frs nd h' e Hh Hv Hrun.
  assert (HF : step_in_F14 frows h {| s_rv := rv; s_int := IUpdateRows rows frs; s_newdel := nd |} = false).
  { unfold step_in_F14. cbn [s_rv s_int s_newdel]. unfold mk. destruct (nth_man h rv); [|reflexivity].
    destruct (mk_deletions frows (m_frags m) rows nd). reflexivity. }
  destruct (run_step_ok frows fcontent h {| s_rv := rv; s_int := IUpdateRows rows frs; s_newdel := nd |} h' (Some e) Hh Hv HF Hrun) as [_ [cur [new [t' [Hl [Hn [Ha Ht]]]]]]].
  destruct (run_step_mk _ _ _ _ _ Hrun) as [o [aff Hmk]]. cbn [s_rv s_int s_newdel] in Hmk. unfold mk in Hmk.
  destruct (nth_man h rv) as [mr|]; [|discriminate]. destruct (mk_deletions frows (m_frags mr) rows nd). inversion Hmk; subst e.
  cbn [apply_effect] in Ha. inversion Ha; subst t'. exists cur, new. split; [exact Hl | split; [exact Hn|]]. intros [f0 o0] Hin Hnone.
  destruct Ht as [_ [_ [_ [Hlive _]]]]. rewrite Hlive. cbn [fst snd] in *. unfold add_frags. cbn [t_live]. rewrite Hnone.
  cbn [drop_rows t_live]. rewrite (proj2 (mem_addr_In (f0, o0) rows) Hin). apply andb_false_r.
Qed.
Print Assumptions C04_single_image_update.

(* no resurrection: after a committed delete every visible row was visible before it (rows deleted by commits that
   happened between the read version and the commit stay deleted) *)
Theorem C04_no_resurrection : forall frows fcontent h rv rows nd h' e,
  HistOk frows h -> valid_intent frows h rv (IDelete rows) ->
  run_step frows h {| s_rv := rv; s_int := IDelete rows; s_newdel := nd |} = (h', Some e) ->
  exists cur new, latest h = Some cur /\ latest h' = Some new /\
    forall f o, t_live (abs frows fcontent new) f o = true -> t_live (abs frows fcontent cur) f o = true.
Proof.
  intros frows fcontent h rv rows nd h' e Hh Hv Hrun.
  assert (HF : step_in_F14 frows h {| s_rv := rv; s_int := IDelete rows; s_newdel := nd |} = false).
  { unfold step_in_F14. cbn [s_rv s_int s_newdel]. unfold mk. destruct (nth_man h rv); [|reflexivity].
    destruct (mk_deletions frows (m_frags m) rows nd). reflexivity. }
  destruct (run_step_ok frows fcontent h {| s_rv := rv; s_int := IDelete rows; s_newdel := nd |} h' (Some e) Hh Hv HF Hrun) as [_ [cur [new [t' [Hl [Hn [Ha Ht]]]]]]].
  destruct (run_step_mk _ _ _ _ _ Hrun) as [o [aff Hmk]]. cbn [s_rv s_int s_newdel] in Hmk. unfold mk in Hmk.
  destruct (nth_man h rv) as [mr|]; [|discriminate]. destruct (mk_deletions frows (m_frags mr) rows nd). inversion Hmk; subst e.
  cbn [apply_effect] in Ha. inversion Ha; subst t'. exists cur, new. split; [exact Hl | split; [exact Hn|]]. intros f0 o0 Hlv.
  destruct Ht as [_ [_ [_ [Hlive _]]]]. rewrite Hlive in Hlv. cbn [drop_rows t_live] in Hlv. apply andb_true_iff in Hlv as [Q _]. exact Q.
Qed.
Print Assumptions C04_no_resurrection.

(* the deletion vectors of a history of stale deletes only grow: the committed Delete/Update operations of a good
   history never drop a deletion of a fragment they keep (this is the GoodOp fact every commit establishes) *)
Theorem C04_deletions_monotone : forall frows h, HistOk frows h -> steps_ok h.
Proof. intros frows h [_ H]. exact H. Qed.
Print Assumptions C04_deletions_monotone.

(* instance of C04_no_common_row evaluated on the model: writer 3 of C03.nv_steps selects row (0,0), which writer 1
   (same read version) deleted: retryable conflict, in both commit orders *)
Definition c4_rows : N -> N := fun _ => 4.
Definition c4_m0 : manifest :=
  {| m_frags := [mkf 0 [mkd 1 [0%Z; 1%Z]] None; mkf 1 [mkd 2 [0%Z; 1%Z]] (Some (9, [3]))];
     m_schema := [(0%Z, false); (1%Z, true)]; m_maxfid := Some 1; m_config := []; m_indices := [] |}.
Definition c4_h0 : history := [{| v_man := c4_m0; v_op := Overwrite [] [] None |}].
Definition c4_commit (h : history) (rows : list addr) (nd : N) : cresult :=
  match mk c4_rows h 1 (IDelete rows) nd with
  | Some (o, aff, _) => commit c4_rows h 1 o aff nd
  | None => Failed
  end.
Definition is_retry (c : cresult) : bool := match c with Conflict VRetry => true | _ => false end.
Example C04_no_common_row_instance :
  forall a b, In a [[(0, 0)]; [(0, 0); (0, 1)]; [(0, 1); (1, 0)]; [(0, 0); (0, 1); (0, 2); (0, 3)]; [(1, 0); (1, 1); (1, 2)]] ->
              In b [[(0, 0)]; [(0, 0); (0, 1)]; [(0, 1); (1, 0)]; [(0, 0); (0, 1); (0, 2); (0, 3)]; [(1, 0); (1, 1); (1, 2)]] ->
  existsb (fun x => mem_addr x b) a = true ->
  match c4_commit c4_h0 a 10 with
  | Committed h1 => is_retry (c4_commit h1 b 11) = true
  | _ => False
  end.
Proof.
  intros a b Ha Hb. cbn [In] in Ha, Hb.
  repeat (destruct Ha as [Ha | Ha]; [subst a | ]); try contradiction;
    repeat (destruct Hb as [Hb | Hb]; [subst b | ]); try contradiction;
    vm_compute; intro Q; try reflexivity; try discriminate Q.
Qed.
