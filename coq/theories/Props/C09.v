(* C09 - Branches, tags and shallow clones are isolated references. Property theorems only.
   Models: Table/Model_Refs.v; specifications Grammar_branch / Grammar_tag (the rule lists of
   docs/src/format/table/branch_tag.md) and all proofs: Table/Proofs_Refs.v. *)
From LanceV Require Import Common.Base Table.Model_Refs Table.Proofs_Refs.
Local Open Scope N_scope.

(* Names are accepted exactly by the documented grammar: for EVERY string of Unicode scalar values and every
   classification [ext] of the non-ASCII code points as alphanumeric or not. *)
Theorem C09_grammar : forall (ext : N -> bool) (s : list N),
  (check_valid_branch ext s = None <-> Grammar_branch ext s) /\
  (check_valid_tag ext s = None <-> Grammar_tag ext s).
Proof. intros ext s. split; [exact (check_valid_branch_grammar ext s) | exact (check_valid_tag_grammar ext s)]. Qed.
Print Assumptions C09_grammar.

(* Deleting a branch removes only that branch's own storage.  For every valid name b and ANY list R of remaining
   names, get_cleanup_path (segment-wise, after the repair of F6) never panics; it fails only for a name with a "."
   segment (which the object store rejects, so no such branch exists); it returns no directory only if a remaining
   branch lives at or under tree/b; otherwise the directory d it returns is tree/<first k+1 segments of b>, a
   directory on the way to tree/b, such that no remaining branch's root lies at or below d, d contains no file of a
   remaining branch's own storage (tree/<r>/<_versions|data|_transactions|_deletions|_indices>/...) provided b has
   no segment named like one of those directories (class reserved_dir_segment, refuted below), and d is the largest
   such directory (nothing unused is left behind). *)
Theorem C09_delete_own_storage : forall (ext : N -> bool) (b : list N) (R : list (list N)),
  valid_branch ext b = true ->
  let segs := split c_slash b in
  match get_cleanup_path hook_base b R with
  | Panic => False
  | Err => In dot_seg segs
  | Ok None => exists r, In r R /\ seg_prefix segs (split c_slash r) = true
  | Ok (Some d) =>
    exists k, (k < length segs)%nat /\
      split c_slash d = s_root :: s_tree :: firstn (S k) segs /\
      d = join c_slash (s_root :: s_tree :: firstn (S k) segs) /\
      (forall r, In r R -> seg_prefix segs (split c_slash r) = false) /\
      (forall r, In r R -> seg_prefix (split c_slash d) (s_root :: s_tree :: split c_slash r) = false) /\
      (has_reserved_segment b = false ->
       forall r p, In r R -> owns (s_root :: s_tree :: split c_slash r) p = true -> seg_prefix (split c_slash d) p = false) /\
      (k = O \/ exists r, In r R /\ seg_prefix (firstn k segs) (split c_slash r) = true)
  end.
Proof. exact get_cleanup_path_safe. Qed.
Print Assumptions C09_delete_own_storage.

(* ... and it is `None` exactly when some remaining branch lives at or under b's directory (any strings). *)
Theorem C09_delete_none_iff : forall (b : list N) (R : list (list N)),
  get_cleanup_path hook_base b R = Ok None <-> exists r, In r R /\ seg_prefix (split c_slash b) (split c_slash r) = true.
Proof.
  intros b R. rewrite <- (cleanup_segs_none_iff (split c_slash b) R (split_nonempty c_slash b)). unfold get_cleanup_path.
  destruct (cleanup_segs (split c_slash b) R) as [[rel|]| |]; split; intro H; try discriminate; try reflexivity.
  destruct (find_branch hook_base (Some (join c_slash rel))); discriminate.
Qed.
Print Assumptions C09_delete_none_iff.

(* The old failing inputs of F6 (char-wise prefix) now give the branch's own directory. *)
Theorem C09_F6_regression :
  get_cleanup_path hook_base [97;98;99] [[97;98]; [97;98;47;99]] = Ok (Some (s_root ++ [47] ++ s_tree ++ [47;97;98;99])) /\
  get_cleanup_path hook_base ([97] ++ s_versions) [[97]] = Ok (Some (s_root ++ [47] ++ s_tree ++ [47;97] ++ s_versions)).
Proof. split; [exact (proj1 unit_test_vectors) | exact (proj1 (proj2 unit_test_vectors))]. Qed.
Print Assumptions C09_F6_regression.

(* Known class reserved_dir_segment: with a segment named like a dataset directory the removed directory lies INSIDE a
   remaining branch's own storage (delete "a/data" next to "a" removes tree/a/data). *)
Theorem C09_reserved_dir_segment_refuted :
  exists (b r d : list N) (p : list (list N)),
    valid_branch no_ext b = true /\ valid_branch no_ext r = true /\ has_reserved_segment b = true /\
    get_cleanup_path hook_base b [r] = Ok (Some d) /\
    owns (s_root :: s_tree :: split c_slash r) p = true /\ seg_prefix (split c_slash d) p = true.
Proof.
  exists w_a_data, w_a, (s_root ++ [47] ++ s_tree ++ [47] ++ w_a_data), [s_root; s_tree; w_a; s_data; w_g].
  vm_compute. repeat split.
Qed.
Print Assumptions C09_reserved_dir_segment_refuted.

(* The tag map is a function and behaves as a finite map: after ANY history of Tags/Branches calls the stored map
   answers every lookup like the abstract map [tf_run] (create needs a valid, absent name and an existing version;
   update a present name and an existing version; delete a present name; every other call, and every failing call,
   changes nothing), it never holds two entries for one name, and one call changes exactly the named tag. *)
Theorem C09_tag_resolution : forall (ops : list rop),
  (forall t, rm_get (rs_tags (snd (rrun rs_empty ops))) t = tf_run (fun _ => None) ops t) /\
  NoDup (rm_keys (rs_tags (snd (rrun rs_empty ops)))) /\
  (forall st op t',
     rm_get (rs_tags (snd (rstep st op))) t' =
     match op with
     | TCreate t br v _ | TUpdate t br v _ => if rop_ok st op && str_eqb t' t then Some (br, v) else rm_get (rs_tags st) t'
     | TDelete t => if rop_ok st op && str_eqb t' t then None else rm_get (rs_tags st) t'
     | BCreate _ _ _ _ | BDelete _ _ => rm_get (rs_tags st) t'
     end).
Proof.
  intro ops. split; [|split].
  - apply tags_refine. reflexivity.
  - apply rrun_tags_nodup. constructor.
  - exact rstep_tags.
Qed.
Print Assumptions C09_tag_resolution.

(* In the store: a tag set to (branch, version) resolves to exactly that pair and reads that version. *)
Theorem C09_tag_reads_its_version : forall s t br v,
  absent s (manifest_path (loc_of br) v) = false ->
  (match lookup s (tag_path t) with None | Some (OTag _ _) => True | _ => False end) ->
  tag_get (sstep s (STagSet t br v)) t = Some (br, v) /\
  open_tag (sstep s (STagSet t br v)) t = open (sstep s (STagSet t br v)) (loc_of br) v.
Proof. exact tag_set_resolves. Qed.
Print Assumptions C09_tag_reads_its_version.

(* Isolation over the store model.  For EVERY store s, every history ops of writes (append / overwrite: new files
   only under the writer's own root), branch creations from arbitrary (location, version), shallow clones, tag
   set / delete, branch deletions and clean-ups, and every reference (L, v) readable in s: if no step of the history
   lies in a known-finding class (step_known: a branch deletion with a reserved segment or with dependents, a
   clean-up that removes a file a surviving manifest reads) and no step is asked to remove (L, v) itself
   (step_spares), then (L, v) reads exactly the same rows at the end.  In particular histories without clean-up of
   a parent after branching and without deletion of a parent branch. *)
Theorem C09_isolation : forall (ops : list sop) s (L : list (list N)) (v : N) (r : list N),
  open s L v = Some r -> safe_run s ops L v = true -> open (srun s ops) L v = Some r.
Proof. exact run_isolation. Qed.
Print Assumptions C09_isolation.

(* F7: clean-up of main after branching from an old version of main breaks the branch. *)
Theorem C09_cleanup_ignores_branch_refs_refuted :
  exists s L0 keep L v r,
    Known_C09_cleanup_ignores_branch_refs s L0 keep = true /\ step_spares s (SCleanup L0 keep) L v = true /\
    open s L v = Some r /\ open (sstep s (SCleanup L0 keep)) L v <> Some r.
Proof.
  exists w_cleanup_before, droot, [2], (loc_of (Some w_dev)), 1, [7].
  destruct cleanup_ignores_branch_refs_witness as [A [B [C [D _]]]]. repeat split; try assumption. rewrite D. discriminate.
Qed.
Print Assumptions C09_cleanup_ignores_branch_refs_refuted.

(* Deleting a branch that another branch was created from breaks the child. *)
Theorem C09_delete_ignores_dependent_refs_refuted :
  exists s b L v r,
    Known_C09_delete_ignores_dependent_refs s b = true /\ has_reserved_segment b = false /\
    step_spares s (SDeleteBranch b) L v = true /\ open s L v = Some r /\ open (sstep s (SDeleteBranch b)) L v <> Some r.
Proof.
  exists w_dependents_before, w_x, (loc_of (Some w_c)), 2, [7; 9].
  destruct delete_ignores_dependent_refs_witness as [A [B [C [D E]]]]. repeat split; try assumption. rewrite E. discriminate.
Qed.
Print Assumptions C09_delete_ignores_dependent_refs_refuted.

(* A branch nested in a directory name of the outer branch's dataset: deleting it (or cleaning the outer one) breaks the other. *)
Theorem C09_reserved_dir_segment_store_refuted :
  exists s b L v r L' v' r',
    has_reserved_segment b = true /\ valid_branch no_ext b = true /\
    step_spares s (SDeleteBranch b) L v = true /\ open s L v = Some r /\ open (sstep s (SDeleteBranch b)) L v <> Some r /\
    open s L' v' = Some r' /\ open (sstep s (SCleanup L [v])) L' v' <> Some r'.
Proof.
  exists w_reserved_before, w_a_data, (loc_of (Some w_a)), 2, [7; 9], (loc_of (Some w_a_data)), 2, [7; 5].
  destruct reserved_dir_segment_witness as [A [B [C [D [E [F G]]]]]]. repeat split; try assumption; [rewrite E | rewrite G]; discriminate.
Qed.
Print Assumptions C09_reserved_dir_segment_store_refuted.

(* A shallow clone references the source's files through base paths: with the id chosen by the commit
   (max key + 1, which is fresh and fits u32, or a panic), every data file of the clone resolves to the place it
   resolved to for the source, and every file of the clone carries a base id. *)
Theorem C09_shallow_clone_resolves : forall m src_root clone_root id,
  new_base_id m = Ok id ->
  id < two32 /\
  (forall d loc, resolve_file src_root (mn_bases m) d = Some loc ->
     resolve_file clone_root (mn_bases (shallow_clone m src_root id)) (clone_file id d) = Some loc) /\
  map mf_id (mn_frags (shallow_clone m src_root id)) = map mf_id (mn_frags m) /\
  (forall f, In f (mn_frags (shallow_clone m src_root id)) ->
     (forall d, In d (mf_files f) -> df_base d <> None) /\ mf_del f <> Some None).
Proof.
  intros m src_root clone_root id H. destruct (new_base_id_fresh m id H) as [FR LT]. split; [exact LT|]. split.
  - intros d loc R. exact (shallow_clone_resolves m src_root clone_root id d FR loc R).
  - exact (shallow_clone_shape m src_root id).
Qed.
Print Assumptions C09_shallow_clone_resolves.

(* non-vacuity: a ten-step history (two branches, writes, a tag, a clone, a branch deletion, an overwrite, a clean-up,
   a tag deletion) satisfies the hypothesis of C09_isolation for main@1 and for branch c@1, which stay readable;
   the deleted branch is gone; the model agrees with the Rust unit-test table. *)
Example C09_nonvacuous :
  safe_run w_init w_hist droot 1 = true /\ open (srun w_init w_hist) droot 1 = Some [7] /\
  open (srun w_init w_hist) (loc_of (Some w_c)) 1 = Some [7] /\ open (srun w_init w_hist) (loc_of (Some w_x)) 2 = None /\
  valid_branch no_ext [97;47;98] = true /\ has_reserved_segment [97;47;98] = false /\
  get_cleanup_path hook_base [97;47;98;47;99] [[97;47;98;47;100]; [97;47;101]] = Ok (Some (s_root ++ [47] ++ s_tree ++ [47;97;47;98;47;99])).
Proof. vm_compute. repeat split. Qed.
