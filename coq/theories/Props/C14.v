(* C14 - Schema evolution preserves untouched data.  Property theorems only.
   Model: Table/Model_Evolve.v (add_columns / drop_columns / alter_columns as Merge / Project commits, field ids from
   Manifest::max_field_id + 1, remove_tombstoned_data_files); proofs: Table/Proofs_Evolve.v.
   The stored VALUES are an arbitrary function [cell path field_id] (one value per physical row, deleted positions
   included); a column of a fragment is read from the first data file that lists its field id, and is all NULL
   when no file does.  Flat schemas (declared domain); data operations (append / delete / compact) are not part of
   the model's histories: C14_history_partial covers every sequence of schema operations, the interleaving with
   data operations is checked end to end only. *)
From LanceV Require Import Common.Base Table.Model_Evolve Table.Proofs_Evolve.
Local Open Scope Z_scope.

(* For every well formed table, every operation (add columns with or without data files, drop, rename, cast) that
   commits, and every field that is in the schema before and after: in every fragment the column is read from the
   same data file as before - identical cells, including those of deleted rows, identical order. *)
Theorem C14_other_columns_fixed : forall (V : Type) (null : V) (cell : N -> Z -> list V) t o t' fid,
  wf_table t = true -> apply_op t o = Ok t' ->
  In fid (schema_ids t) -> In fid (schema_ids t') ->
  read_table V null cell t' fid = read_table V null cell t fid.
Proof. exact other_columns_fixed. Qed.
Print Assumptions C14_other_columns_fixed.

(* no operation changes the fragments, their physical row counts or their order *)
Theorem C14_rows_fixed : forall t o t', apply_op t o = Ok t' ->
  map (fun g => (eg_id g, eg_rows g)) (t_frags t') = map (fun g => (eg_id g, eg_rows g)) (t_frags t).
Proof. exact rows_fixed. Qed.
Print Assumptions C14_rows_fixed.

(* add_columns: the new fields are appended to the schema under the requested names with ids max_field_id + 1 ...,
   and in every fragment every new column reads exactly the values written into that fragment's new data file
   (all NULL when the operation wrote no file) *)
Theorem C14_added_values : forall (V : Type) (null : V) (cell : N -> Z -> list V) t names paths t',
  add_columns t names paths = Ok t' ->
  let new := fresh_ids (max_field_id t + 1) names in
  t_schema t' = t_schema t ++ new
  /\ map snd new = names
  /\ (forall nid, In nid (map fst new) -> max_field_id t < nid /\ ~ In nid (schema_ids t) /\ ~ In nid (file_ids t))
  /\ forall j g nid, nth_error (t_frags t) j = Some g -> In nid (map fst new) ->
       exists g', nth_error (t_frags t') j = Some g' /\ eg_id g' = eg_id g /\ eg_rows g' = eg_rows g /\
         match nth_error paths j with
         | Some (Some p) => read_col V null cell g' nid = cell p nid
         | _ => read_col V null cell g' nid = repeat null (N.to_nat (eg_rows g))
         end.
Proof. exact added_values. Qed.
Print Assumptions C14_added_values.

(* no zombie: whatever was dropped before, a column added now - under ANY name, a dropped one included - gets a
   field id that no data file of the table lists, so it reads only the new values (C14_added_values) *)
Theorem C14_no_zombie : forall t names paths t' nid g f,
  add_columns t names paths = Ok t' ->
  In nid (map fst (fresh_ids (max_field_id t + 1) names)) ->
  In g (t_frags t) -> In f (eg_files g) -> ~ In nid (ef_fields f).
Proof.
  intros t names paths t' nid g f H I Ig If J. apply fresh_ids_spec in I.
  pose proof (file_le_max t g f nid Ig If J). lia.
Qed.
Print Assumptions C14_no_zombie.

(* field ids of the schema stay pairwise distinct (and non-negative) under every operation *)
Theorem C14_ids_unique : forall t o t', wf_table t = true -> apply_op t o = Ok t' -> wf_table t' = true.
Proof. exact ids_unique. Qed.
Print Assumptions C14_ids_unique.

(* every history of schema operations: a field that stays in the schema keeps its cells in every version.
   _partial: appends, deletes and compactions between the schema operations are not in the model (e2e only). *)
Theorem C14_history_partial : forall (V : Type) (null : V) (cell : N -> Z -> list V) ops t l fid,
  wf_table t = true -> run t ops = Ok l ->
  (forall u, In u l -> In fid (schema_ids u)) ->
  forall u, In u l -> wf_table u = true /\ read_table V null cell u fid = read_table V null cell t fid
                      /\ map (fun g => (eg_id g, eg_rows g)) (t_frags u) = map (fun g => (eg_id g, eg_rows g)) (t_frags t).
Proof. exact history_columns_fixed. Qed.
Print Assumptions C14_history_partial.

(* ---- examples --------------------------------------------------------------------------------------------- *)
Definition e_t0 : etable := mkEtable [(0, 10%N); (1, 11%N)] [mkEfrag 0 3 [mkEfile 100 [0; 1]]; mkEfrag 1 2 [mkEfile 101 [0; 1]]].

(* add z (name 12) with data files, drop it, add a column under the SAME name without data: the re-added column is
   all NULL although the old values are still in storage (file 200 / 201 are gone from the manifest) *)
Example C14_nonvacuous :
  wf_table e_t0 = true /\
  match run e_t0 [OAdd [12%N] [Some 200%N; Some 201%N]; ORename 11%N 13%N; ODrop [12%N]; OAdd [12%N] [None; None]; OCast 10%N [300%N; 301%N]] with
  | Ok [_; t1; _; t3; t4; t5] =>
      t_schema t1 = [(0, 10%N); (1, 11%N); (2, 12%N)]
      /\ map eg_files (t_frags t1) = [[mkEfile 100 [0; 1]; mkEfile 200 [2]]; [mkEfile 101 [0; 1]; mkEfile 201 [2]]]
      /\ t_schema t3 = [(0, 10%N); (1, 13%N)] /\ map eg_files (t_frags t3) = [[mkEfile 100 [0; 1]]; [mkEfile 101 [0; 1]]]
      /\ t_schema t4 = [(0, 10%N); (1, 13%N); (2, 12%N)]
      /\ map (fun g => file_of g 2) (t_frags t4) = [None; None]
      /\ t_schema t5 = [(3, 10%N); (1, 13%N); (2, 12%N)]
      /\ map eg_files (t_frags t5) = [[mkEfile 100 [0; 1]; mkEfile 300 [3]]; [mkEfile 101 [0; 1]; mkEfile 301 [3]]]
  | _ => False
  end.
Proof. vm_compute. repeat split; reflexivity. Qed.

(* Observation (not a defect): max_field_id is NOT monotone.  Dropping a column whose data file holds nothing else
   removes the file from the manifest, so the id (2 above) is handed out again by the next add_columns.  What the
   theorems give instead is freshness against everything the current version can read (C14_no_zombie). *)
Example C14_id_handed_out_again :
  match run e_t0 [OAdd [12%N] [Some 200%N; Some 201%N]; ODrop [12%N]; OAdd [14%N] [None; None]] with
  | Ok [t0; t1; t2; t3] => max_field_id t1 = 2 /\ max_field_id t2 = 1 /\ t_schema t3 = [(0, 10%N); (1, 11%N); (2, 14%N)]
  | _ => False
  end.
Proof. vm_compute. repeat split; reflexivity. Qed.
