(* C32 - Metadata serialisation round trips. Property theorems only.
   Shape of every theorem: for EVERY value x of the type that satisfies the struct invariants of the
   type and lies outside the (named, refuted) lossy classes, decoding the encoding of x gives back x.
   The wire codecs (prost, roaring, Arrow IPC, serde_json) are universally quantified functions with a
   round-trip hypothesis - nothing about them is assumed beyond decode (encode m) = Some m. *)
From LanceV Require Import Common.Base Meta.Model_Flags Meta.Model_Serde Meta.Proofs_Serde.
Local Open Scope N_scope.

(* ---- row id sequences / version sequences: write_row_ids / read_row_ids, write/read_dataset_versions ---- *)
Theorem C32_row_id_sequence_roundtrip :
  forall (encode : list pb_segment -> bytes) (decode : bytes -> option (list pb_segment)),
    (forall m, decode (encode m) = Some m) ->
    forall l : list segment, forallb wf_seg l = true ->
      wire_read rowids_of_pb decode (wire_write rowids_to_pb encode l) = Ok l.
Proof. intros e d H l Hl. apply wire_roundtrip; [exact H | exact (rowids_roundtrip l Hl)]. Qed.
Print Assumptions C32_row_id_sequence_roundtrip.

Theorem C32_version_sequence_roundtrip :
  forall (encode : pb_vseq -> bytes) (decode : bytes -> option pb_vseq),
    (forall m, decode (encode m) = Some m) ->
    forall l : vseq, wf_vseq l = true ->
      wire_read vseq_of_pb decode (wire_write vseq_to_pb encode l) = Ok l.
Proof. intros e d H l Hl. apply wire_roundtrip; [exact H | exact (vseq_roundtrip l Hl)]. Qed.
Print Assumptions C32_version_sequence_roundtrip.

(* every U64Segment variant and every EncodedU64Array width, at the message level *)
Theorem C32_segment_roundtrip : forall x : segment, wf_seg x = true -> seg_of_pb (seg_to_pb x) = Ok x.
Proof. exact seg_roundtrip. Qed.
Print Assumptions C32_segment_roundtrip.

(* ---- DataFile / DeletionFile / Fragment ---- *)
Theorem C32_data_file_roundtrip : forall d : data_file, df_of_pb (df_to_pb d) = Ok d.
Proof. exact df_roundtrip. Qed.
Print Assumptions C32_data_file_roundtrip.

Theorem C32_fragment_roundtrip : forall f : fragment, dc_frag f = false -> frag_of_pb (frag_to_pb f) = Ok f.
Proof. intros f H. apply frag_roundtrip. unfold wf_frag. rewrite H. reflexivity. Qed.
Print Assumptions C32_fragment_roundtrip.

(* the fragment-level lossy class is exact: the round trip holds precisely outside it *)
Theorem C32_fragment_roundtrip_iff : forall f : fragment, frag_of_pb (frag_to_pb f) = Ok f <-> dc_frag f = false.
Proof.
  intro f; split; [exact (frag_roundtrip_only_if f)|].
  intro H. apply frag_roundtrip. unfold wf_frag. rewrite H. reflexivity.
Qed.
Print Assumptions C32_fragment_roundtrip_iff.

(* ---- IndexMetadata (roaring codec quantified) ---- *)
Theorem C32_index_metadata_roundtrip :
  forall (bm_ser : list N -> bytes) (bm_de : bytes -> option (list N)),
    (forall s, bm_de (bm_ser s) = Some s) -> (forall s, bm_ser s <> []) ->
    forall i : index_meta, idx_typed i = true -> Known_C32_index_created_at_submilli i = false ->
      idx_of_pb bm_de (idx_to_pb bm_ser i) = Ok i.
Proof. intros s d H1 H2 i Ht Hk. apply (idx_roundtrip s d H1 H2). exact (wf_idx_outside_classes i Ht Hk). Qed.
Print Assumptions C32_index_metadata_roundtrip.

(* ---- MemWAL details ---- *)
Theorem C32_mem_wal_roundtrip :
  forall (encode : list pb_mem_wal -> bytes) (decode : bytes -> option (list pb_mem_wal)),
    (forall m, decode (encode m) = Some m) ->
    forall l : list mem_wal, wire_read mwd_of_pb decode (wire_write mwd_to_pb encode l) = Ok l.
Proof. intros e d H l. apply wire_roundtrip; [exact H | exact (mwd_roundtrip l)]. Qed.
Print Assumptions C32_mem_wal_roundtrip.

(* ---- Manifest ---- *)
Theorem C32_manifest_roundtrip :
  forall (encode : pb_manifest -> bytes) (decode : bytes -> option pb_manifest),
    (forall m, decode (encode m) = Some m) ->
    forall m : manifest, manifest_invariants m = true -> Known_C32_default_conflated_manifest m = false ->
      wire_read mf_of_pb decode (wire_write mf_to_pb encode m) = Ok m.
Proof.
  intros e d H m Hi Hk. apply wire_roundtrip; [exact H|].
  apply mf_roundtrip. exact (wf_manifest_outside_classes m Hi Hk).
Qed.
Print Assumptions C32_manifest_roundtrip.

(* ---- Transaction: all 15 operations ---- *)
Theorem C32_transaction_roundtrip :
  forall (bm_ser : list N -> bytes) (bm_de : bytes -> option (list N))
         (encode : pb_transaction -> bytes) (decode : bytes -> option pb_transaction),
    (forall s, bm_de (bm_ser s) = Some s) -> (forall s, bm_ser s <> []) ->
    (forall m, decode (encode m) = Some m) ->
    forall t : transaction, txn_typed t = true -> txn_classes t = 0 ->
      wire_read (txn_of_pb bm_de) decode (wire_write (txn_to_pb bm_ser) encode t) = Ok t.
Proof.
  intros s d e dc H1 H2 H3 t Ht Hc. apply wire_roundtrip; [exact H3|].
  apply (txn_roundtrip s d H1 H2). exact (wf_txn_outside_classes t Ht Hc).
Qed.
Print Assumptions C32_transaction_roundtrip.

(* ---- deletion vector files, both formats: read (write dv) == dv as sets ---- *)
Theorem C32_deletion_vector_roundtrip :
  forall (ipc_write : list N -> bytes) (ipc_read : bytes -> option (list N))
         (bm_ser : list N -> bytes) (bm_de : bytes -> option (list N)),
    (forall l, ipc_read (ipc_write l) = Some l) -> (forall s, bm_de (bm_ser s) = Some s) ->
    forall (d : dvec),
      (dv_write ipc_write bm_ser d = None <-> d = DvNone) /\
      (forall w, dv_write ipc_write bm_ser d = Some w ->
         exists d', dv_read ipc_read bm_de (dvw_type w) (dvw_bytes w) = Ok d'
                    /\ (forall x, In x (dv_elems d') <-> In x (dv_elems d))
                    /\ dvw_num_deleted w = Some (N.of_nat (length (dv_elems d)))
                    /\ (forall l, d = DvBitmap l -> d' = d)).
Proof.
  intros iw ir s d H1 H2 dv. split; [apply dv_none_writes_nothing|].
  intros w Hw. exact (dv_roundtrip iw ir s d H1 H2 dv w Hw).
Qed.
Print Assumptions C32_deletion_vector_roundtrip.

(* ---- tag and branch files ---- *)
Theorem C32_tag_branch_roundtrip :
  forall (encode : jobj -> bytes) (decode : bytes -> option jobj),
    (forall m, decode (encode m) = Some m) ->
    (forall t : tag_contents, wf_tag t = true -> wire_read tag_of_json decode (wire_write tag_to_json encode t) = Ok t) /\
    (forall b : branch_contents, wf_branch b = true -> wire_read branch_of_json decode (wire_write branch_to_json encode b) = Ok b).
Proof.
  intros e d H. split; intros x Hx; apply wire_roundtrip; try exact H;
    [exact (tag_roundtrip x Hx) | exact (branch_roundtrip x Hx)].
Qed.
Print Assumptions C32_tag_branch_roundtrip.

(* ---- the known lossy classes are non-empty and really lose information, whatever the codecs ---- *)
(* former class overwrite_config_upsert_dropped (inverted emptiness test, repaired in /repo cb06601):
   positive regression - Overwrite with config_upsert_values = Some {k: v} and with None both round trip *)
Example C32_overwrite_config_upsert_regression :
  forall (bm_ser : list N -> bytes) (bm_de : bytes -> option (list N)),
    txn_of_pb bm_de (txn_to_pb bm_ser w_config) = Ok w_config
    /\ txn_classes w_config = 0
    /\ (let t := txn_of (OpOverwrite [] (mk_schema [] []) None None) in
        txn_of_pb bm_de (txn_to_pb bm_ser t) = Ok t /\ txn_classes t = 0).
Proof. intros s d. split; [exact (config_regression s d)|]. repeat split. Qed.

Theorem C32_rewrite_frag_reuse_index_dropped_refuted :
  forall (bm_ser : list N -> bytes) (bm_de : bytes -> option (list N)),
    exists t, Known_C32_rewrite_frag_reuse_index_dropped t = true /\ txn_of_pb bm_de (txn_to_pb bm_ser t) <> Ok t.
Proof. intros s d. exists w_fri. exact (fri_witness s d). Qed.
Print Assumptions C32_rewrite_frag_reuse_index_dropped_refuted.

Theorem C32_txn_schema_metadata_dropped_refuted :
  forall (bm_ser : list N -> bytes) (bm_de : bytes -> option (list N)),
    exists t, Known_C32_txn_schema_metadata_dropped t = true /\ txn_of_pb bm_de (txn_to_pb bm_ser t) <> Ok t.
Proof. intros s d. exists w_schema_md. exact (schema_md_witness s d). Qed.
Print Assumptions C32_txn_schema_metadata_dropped_refuted.

Theorem C32_index_created_at_submilli_refuted :
  forall (bm_ser : list N -> bytes) (bm_de : bytes -> option (list N)),
    exists i, Known_C32_index_created_at_submilli i = true /\ idx_of_pb bm_de (idx_to_pb bm_ser i) <> Ok i.
Proof. intros s d. exists w_idx. exact (submilli_witness s d). Qed.
Print Assumptions C32_index_created_at_submilli_refuted.

Theorem C32_default_conflated_refuted :
  (exists f, dc_frag f = true /\ frag_of_pb (frag_to_pb f) <> Ok f) /\
  (forall (bm_ser : list N -> bytes) (bm_de : bytes -> option (list N)),
     exists t, Known_C32_default_conflated_txn t = true /\ txn_of_pb bm_de (txn_to_pb bm_ser t) <> Ok t).
Proof.
  split; [exists (empty_frag 1 (Some 0)); exact default_conflated_fragment_witness|].
  intros s d. exists w_default. exact (default_txn_witness s d).
Qed.
Print Assumptions C32_default_conflated_refuted.

(* ---- non-vacuity: concrete non-trivial values satisfy the hypotheses (toy codecs satisfy the codec hypotheses) ---- *)
Example C32_codec_hypotheses_satisfiable :
  (forall s, toy_de (toy_ser s) = Some s) /\ (forall s, toy_ser s <> []).
Proof. split; intro s; [reflexivity | discriminate]. Qed.

Definition ex_frag : fragment :=
  mk_frag 18446744073709551615 [mk_df [100; 46; 108] [0%Z; (-1)%Z] [0%Z; 1%Z] 2 1 4096 (Some 7)]
          (Some (mk_del 9223372036854775809 3 DtBitmap (Some 5) None)) (Some (Inline [1; 2; 3])) (Some 10)
          (Some (External (mk_ext [118] 0 12))) None.
Definition ex_txn : transaction :=
  mk_txn 9223372036854775813 [117]
         (OpCreateIndex [mk_idx (repeat 7 16) [0%Z] [105] 3 (Some [0; 4294967295]) (Some ([116], [1])) (-1)%Z
                                (Some (-1500000000)%Z) (Some 2)] [])
         (Some [116]) (Some [([107], [118])]).
Definition ex_manifest : manifest :=
  mk_mf (mk_schema [[8; 1]] [([107], [118])]) 9223372036854775813 (Some [98]) None [ex_frag] 0 (Some 77)
        1700000000123456789 (Some [116]) 3 0 (Some 4294967295) None None [0; 5] 11 (s_lance, [50; 46; 49])
        [] [] [(4, mk_bp 4 None true [112])].

Example C32_nonvacuous :
  dc_frag ex_frag = false
  /\ txn_typed ex_txn = true /\ txn_classes ex_txn = 0
  /\ txn_of_pb toy_de (txn_to_pb toy_ser ex_txn) = Ok ex_txn
  /\ manifest_invariants ex_manifest = true /\ Known_C32_default_conflated_manifest ex_manifest = false
  /\ mf_of_pb (mf_to_pb ex_manifest) = Ok ex_manifest
  /\ wf_seg (SHoles 10 300 (EU16 10 [1; 65535])) = true /\ wf_seg (SBitmap 5 13 [255] 8) = true.
Proof. vm_compute. repeat split. Qed.
