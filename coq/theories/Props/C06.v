(* C06 - Time travel is immutable.
   Property theorems only; model in Store/Model_History.v, proofs in Store/Proofs_History.v.
   Quantifiers are real: ANY store s in which version v is published (in particular every state reached by a
   history), ANY later sequence h' of appends, deletes, updates / merge_inserts, compactions, column additions and
   removals, index creations, overwrites, restores, config changes, tag creations / updates / deletions and
   cleanups whose selection does not contain v, with ANY payloads.
   The names of new files come from an oracle; the FRESHNESS HYPOTHESIS `forall s, unused (oracle s) s`
   (a drawn name is mentioned by no path and by no manifest of the store) is what the real code gets from
   Uuid::new_v4() (data files, index directories, transaction files) and rand::rng().random::<u64>() (the id in
   `_deletions/<fragment>-<read_version>-<id>`, lance-table/src/io/deletion.rs write_deletion_file).  It is
   necessary: see C06_name_collision_refuted. *)
From LanceV Require Import Common.Base Store.Model_History Store.Proofs_History Store.Model_Cache Store.Proofs_Cache.
Local Open Scope N_scope.

Definition published (here : root) (v : N) (s : store) : Prop := exists m, get s (here, RManifest v) = Some (CMan m).

Theorem C06_old_versions_frozen : forall (oracle : store -> N), (forall s, unused (oracle s) s) ->
  forall here s0 h h' v,
  let s := run oracle here h s0 in
  published here v s -> never_selects v h' ->
  snapshot here v (run oracle here h' s) = snapshot here v s.
Proof.
  intros oracle Hf here s0 h h' v s [m G] NS. eapply old_versions_frozen; eassumption.
Qed.
Print Assumptions C06_old_versions_frozen.

(* the version stays published, so the statement composes along the history *)
Theorem C06_published_stays : forall (oracle : store -> N), (forall s, unused (oracle s) s) ->
  forall here s h' v, published here v s -> never_selects v h' -> published here v (run oracle here h' s).
Proof.
  intros oracle Hf here s h' v [m G] NS. exists m. destruct (run_frame oracle Hf here h' s v m G NS) as [A _]. exact A.
Qed.
Print Assumptions C06_published_stays.

(* the monotone-store invariant itself: without tag operations and cleanup no object is ever changed or removed *)
Theorem C06_store_monotone : forall (oracle : store -> N), (forall s, unused (oracle s) s) ->
  forall here h s k c, Forall (fun o => is_commit_op o = true) h ->
  get s k = Some c -> get (run oracle here h s) k = Some c.
Proof. intros oracle Hf here h s k c F G. eapply run_monotone; eassumption. Qed.
Print Assumptions C06_store_monotone.

(* the hypothesis is satisfiable: a concrete oracle that is fresh in every store *)
Theorem C06_fresh_oracle_exists : forall s, unused (oracle_max s) s.
Proof. exact oracle_max_fresh. Qed.
Print Assumptions C06_fresh_oracle_exists.

(* "as long as v itself has not been removed": a cleanup that selects v does remove it *)
Theorem C06_cleanup_of_v_refuted :
  exists s h', published 1 1 s /\ ~ never_selects 1 h' /\ snapshot 1 1 (run oracle_max 1 h' s) <> snapshot 1 1 s.
Proof.
  exists (run oracle_max 1 [OAppend [21]] (create oracle_max 1 [10; 11] 5 [])), [OCleanup [1] []].
  split; [eexists; vm_compute; reflexivity|]. split.
  - intro H. inversion H as [|? ? A _]; subst. apply A. left. reflexivity.
  - vm_compute. discriminate.
Qed.
Print Assumptions C06_cleanup_of_v_refuted.

(* the freshness hypothesis is necessary: an oracle that repeats a name lets an append overwrite a data file of
   version 1 (the model's put is unconditional, as object_store.put is) *)
Theorem C06_name_collision_refuted :
  exists (oracle : store -> N) s h', published 1 1 s /\ never_selects 1 h' /\
    snapshot 1 1 (run oracle 1 h' s) <> snapshot 1 1 s.
Proof.
  exists (fun _ => 7), (create (fun _ => 7) 1 [10] 5 []), [OAppend [99]].
  split; [eexists; vm_compute; reflexivity|]. split.
  - repeat constructor.
  - vm_compute. discriminate.
Qed.
Print Assumptions C06_name_collision_refuted.

(* ---------- old versions read THROUGH A SESSION (the e2e arm "shared session") ----------
   The store-level theorem above is what a fresh session sees.  A session answers some reads from its caches
   (Store/Model_Cache.v); that is the store's answer for every eviction behaviour outside the two key-collision
   classes of C38, and not inside: B2. *)
Definition Known_C06_shared_session_fragment_keyed_cache := Known_C38_fragment_keyed_cache_across_overwrite.

Theorem C06_through_session_cache : forall (oracle : store -> N), (forall s, unused (oracle s) s) ->
  forall (etag : manifest -> N) tr s outs,
  no_cleanup tr = true -> Known_C38_version_keyed_cache_across_recreate tr = false ->
  Known_C06_shared_session_fragment_keyed_cache oracle etag s tr = false ->
  exec ckey_eqb [] (requests oracle etag s tr) outs ->
  outs = map (fun r => snd (snd r)) (requests oracle etag s tr).
Proof. intros oracle Hf etag tr s outs NC ND NO E. eapply session_transparent; eassumption. Qed.
Print Assumptions C06_through_session_cache.

(* B2: create (fragment 0 = sequence 10); overwrite (fragment 0 = sequence 20); the session reads the new version's
   fragment 0, then checks out version 1 and reads ITS fragment 0: answered 20, the store holds 10 *)
Theorem C06_shared_session_fragment_keyed_cache_refuted :
  let tr := [(1, ECreate [10; 11] 5); (1, EOp (OOverwrite [20] 6)); (1, ERead false (QRowIdSeq 2 0)); (1, ERead false (QRowIdSeq 1 0))] in
  no_cleanup tr = true /\ Known_C38_version_keyed_cache_across_recreate tr = false /\
  Known_C06_shared_session_fragment_keyed_cache oracle_max etag0 [] tr = true /\
  exists outs, exec ckey_eqb [] (requests oracle_max etag0 [] tr) outs /\
    outs = [VSeq 20; VSeq 20] /\ map (fun r => snd (snd r)) (requests oracle_max etag0 [] tr) = [VSeq 20; VSeq 10].
Proof.
  cbv zeta. split; [reflexivity|]. split; [reflexivity|]. split; [vm_compute; reflexivity|].
  eexists. split; [apply run_cache_exec|]. split; vm_compute; reflexivity.
Qed.
Print Assumptions C06_shared_session_fragment_keyed_cache_refuted.

(* non-vacuity: a concrete history under the fresh oracle; version 1 (two fragments, later deleted from, compacted,
   indexed, overwritten, restored, tagged, and surviving a cleanup of versions 2, 3 and 4 that removes the deletion
   file only they referenced) reads the same at the end *)
Example C06_nonvacuous :
  let s1 := create oracle_max 1 [10; 11] 5 [] in
  let h' := [ODelete 0 77; OAppend [12]; OUpdate 1 78 [13]; ORewrite [0; 1] [14]; OCreateIndex 60 61; OMerge 15 6;
             OOverwrite [16] 7; ORestore 1; OTagSet 1 1; OTagSet 2 5; OTagSet 1 6; OTagDel 2;
             OCleanup [2; 3; 4] [RDel 0 1 4; RTxn 1 7; RData 1; RManifest 1]; OConfig 9] in
  published 1 1 s1 /\ never_selects 1 h' /\
  snapshot 1 1 (run oracle_max 1 h' s1) = snapshot 1 1 s1 /\ snapshot 1 1 s1 <> None /\
  snapshot 1 2 (run oracle_max 1 h' s1) = None /\ latest 1 (run oracle_max 1 h' s1) = 10 /\
  get (run oracle_max 1 h' s1) (1, RDel 0 1 4) = None /\ get (run oracle_max 1 h' s1) (1, RData 1) = Some (CBlob 10).
Proof.
  cbv zeta. split; [eexists; vm_compute; reflexivity|]. split.
  - repeat constructor; cbn; intuition discriminate.
  - vm_compute. repeat split; try reflexivity. discriminate.
Qed.
