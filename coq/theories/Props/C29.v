(* C29 - Statistics-based pruning is conservative.
   Property theorems only.  Model: Index/Model_Prune.v (zone map statistics and
   ZoneMapIndex::evaluate_zone_against_query; legacy page statistics: float min/max, string bound
   truncation; the interval tests of the legacy push-down scan); proofs: Index/Proofs_Prune.v.
   Values are their keys under the total order the code compares with (NULL = None). *)
From LanceV Require Import Common.Base Index.Model_Prune Index.Proofs_Prune.
Local Open Scope Z_scope.

(* Zone maps: for EVERY list of cells (NULLs, NaN for float columns, any values) and EVERY query
   (IS NULL, = incl. NULL and NaN targets, ranges with included/excluded/unbounded and NaN bounds, IN
   lists): if evaluate_zone_against_query on the collected statistics (min, max, null_count, nan_count)
   says the zone cannot match, no cell of the zone satisfies the query. *)
Theorem C29_prune_sound : forall (nan : option Z) (vs : list cellv) (q : query) (c : cellv),
  nan_top nan vs -> In c vs ->
  evaluate_zone nan (zone_stats nan vs) q = false -> matches q c = false.
Proof. intros nan vs q c H1 H2 H3. exact (prune_sound nan vs q c H1 H2 H3). Qed.
Print Assumptions C29_prune_sound.

(* Legacy pages: whenever the recorded [min, max] / null information is a true guarantee for the page,
   a comparison the interval test rewrites to FALSE (page skipped) holds for no row of the page, and one
   it rewrites to TRUE (page returned without evaluation) holds for every row. *)
Theorem C29_page_prune_sound : forall (p : page_stat) (vs : list cellv) (op : cmpop) (lit : Z) (c : cellv),
  page_stat_ok p vs -> In c vs ->
  (page_pruned p op lit = true -> match c with Some v => cmp_true op v lit | None => false end = false)
  /\ (page_all_true p op lit = true -> match c with Some v => cmp_true op v lit | None => false end = true).
Proof.
  intros p vs op lit c H1 H2. split; intros H3.
  - exact (page_prune_sound p vs op lit c H1 H2 H3).
  - exact (page_all_true_sound p vs op lit c H1 H2 H3).
Qed.
Print Assumptions C29_page_prune_sound.

(* Legacy float statistics ARE such a guarantee when the page holds neither NaN nor NULL ... *)
Theorem C29_legacy_float_stats_sound : forall (nan : Z) (vs : list cellv) (p : page_stat),
  Known_C29_legacy_pushdown_float_nan_null nan vs = false ->
  legacy_float_page nan vs = Some p -> page_stat_ok p vs.
Proof. intros nan vs p H1 H2. exact (legacy_float_page_ok nan vs p H1 H2). Qed.
Print Assumptions C29_legacy_float_stats_sound.

(* ... and are not otherwise (F23, DESIGN section 6; not repaired): min/max skip NaN (partial_cmp), the
   guarantee then claims every value lies in [min, max]: `f < 0` is answered TRUE for the page {NaN, -3}. *)
Theorem C29_legacy_pushdown_float_nan_null_refuted :
  exists (nan : Z) (vs : list cellv) (p : page_stat),
    Known_C29_legacy_pushdown_float_nan_null nan vs = true
    /\ legacy_float_page nan vs = Some p
    /\ page_all_true p OLt 0 = true
    /\ exists v, In (Some v) vs /\ cmp_true OLt v 0 = false.
Proof.
  destruct legacy_float_refuted as (K & p & E & T & F). exists 1000, [Some 1000; Some (-3)], p.
  repeat split; try assumption. exists 1000. split; [left; reflexivity | exact F].
Qed.
Print Assumptions C29_legacy_pushdown_float_nan_null_refuted.

(* String/binary bounds: for EVERY byte string and prefix length, the truncated min bound is <= the
   value and the truncated-and-incremented max bound is >= the value (lexicographically); the
   increment fails (no max bound recorded) only for an all-0xFF prefix. *)
Theorem C29_truncation_sound : forall (n : nat) (s : bytes),
  lex_le (trunc_min n s) s = true
  /\ (forall m, trunc_max n s = Some m -> lex_le s m = true)
  /\ ((forall b, In b s -> (b <= 255)%N) -> trunc_max n s = None -> forall b, In b (firstn n s) -> b = 255%N).
Proof.
  intros n s. split; [exact (trunc_min_le n s)|]. split; [intros m H; exact (trunc_max_ge n s m H)|].
  intros Hb H b Hin. unfold trunc_max in H. destruct (n <? length s)%nat; [|discriminate].
  apply (increment_none (firstn n s)); [|exact H|exact Hin].
  intros x Hx. apply Hb. rewrite <- (firstn_skipn n s). apply in_or_app. left. exact Hx.
Qed.
Print Assumptions C29_truncation_sound.

(* PARTIAL.  Missing: (1) the mapping from zones to row addresses (ZoneMapIndexBuilder::train /
   search: zone_start = number of rows in earlier zones) is transcribed (zone_search) and tied to the code
   by the differential stream, but that every matching row's ADDRESS lies in a reported range is not
   proved here; (2) utf8 truncation at a character boundary (truncate_utf8 / increment_utf8) is modelled
   by the byte version; (3) that DataFusion's ExprSimplifier with guarantees performs exactly the interval
   tests page_pruned / page_all_true is assumed (tested end to end). *)
Theorem C29_zone_search_small_partial :
  forall q, In q [QIsNull; QEquals (Some 5); QRange (Included 2) (Excluded 9); QIsIn [Some 7; None]] ->
  forall rows, In rows [ [(0%N, Some 1); (1%N, None); (2%N, Some 5); (3%N, Some 9)];
                         [(0%N, Some 7); (1%N, Some 7)]; [] ] ->
  forall rpz, In rpz [1%nat; 2%nat; 3%nat] ->
  forallb (fun r : N * cellv => implb (matches q (snd r))
                                  (existsb (fun z : N * N => (fst z <=? fst r)%N && (fst r <? snd z)%N)
                                           (zone_search None rpz rows q))) rows = true.
Proof.
  intros q Hq rows Hr rpz Hz. cbn [In] in Hq, Hr, Hz.
  repeat match goal with H : _ \/ _ |- _ => destruct H as [H|H] end; subst; try contradiction; vm_compute; reflexivity.
Qed.
Print Assumptions C29_zone_search_small_partial.

(* ---- non-vacuity ---- *)
Example C29_ex_zone :
  let vs := [Some 3; None; Some 1000; Some (-2)] in   (* 1000 = NaN key *)
  zone_stats (Some 1000) vs = {| z_min := Some (-2); z_max := Some 1000; z_nulls := 1; z_nans := 1 |}
  /\ evaluate_zone (Some 1000) (zone_stats (Some 1000) vs) (QEquals (Some 50)) = true    (* max is NaN: kept *)
  /\ evaluate_zone (Some 1000) (zone_stats (Some 1000) vs) (QEquals (Some (-5))) = false
  /\ evaluate_zone (Some 1000) (zone_stats (Some 1000) vs) (QRange (Excluded 1000) Unbounded) = false
  /\ evaluate_zone (Some 1000) (zone_stats (Some 1000) [None; None]) (QRange Unbounded (Included 3)) = true.
Proof. vm_compute. repeat split. Qed.
Example C29_ex_trunc :
  trunc_max 2 [97; 255; 255; 1]%N = Some [98; 0]%N /\ trunc_max 2 [255; 255; 7]%N = None
  /\ trunc_min 2 [97; 255; 255]%N = [97; 255]%N /\ trunc_max 5 [1; 2]%N = Some [1; 2]%N.
Proof. vm_compute. repeat split. Qed.
Example C29_ex_page :
  page_pruned {| p_min := 3; p_max := 9; p_null := MaybeNull |} OGt 9 = true
  /\ page_pruned {| p_min := 3; p_max := 9; p_null := MaybeNull |} OGe 9 = false
  /\ page_all_true {| p_min := 3; p_max := 9; p_null := NotNull |} OLe 9 = true
  /\ page_stat_ok {| p_min := 3; p_max := 9; p_null := MaybeNull |} [Some 3; None; Some 9].
Proof.
  split; [reflexivity|]. split; [reflexivity|]. split; [reflexivity|]. unfold page_stat_ok. cbn [p_min p_max p_null].
  split; [|split; discriminate].
  intros w [H|[H|[H|[]]]]; inversion H; subst; lia.
Qed.
