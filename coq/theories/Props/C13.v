(* C13 - Compaction and other rewrites never change table contents.  Property theorems only.
   Model: Table/Model_Compact.v (plan_compaction, the task as metadata, transpose_row_addrs / MissingAddrs) on top
   of Table/Model_Manifest.v (Transaction::build_manifest: handle_rewrite_fragments, fragments_with_ids,
   recalculate_fragment_bitmap, the final sort by id and remove_tombstoned_data_files).  Proofs: Table/Proofs_Compact.v.

   Quantifiers are real.  The VALUES stored in data files are an arbitrary function [cell] (any type V of row
   values); "the files a task wrote hold what its scan returned" is the hypothesis [cells_ok] - finding B1 is a
   violation of exactly that hypothesis by the blob read path and is handled as a known-finding class below.
   A plan is ANY list of groups of existing fragments with pairwise disjoint old fragments (contiguous or not, in
   any order: stronger than the plans plan_compaction produces, see C13_plan_sound); the committed set is ANY
   sub-selection in ANY order (C13_any_subset_any_order). *)
From LanceV Require Import Common.Base Meta.Model_Flags Table.Model_Manifest Table.Proofs_ManifestBase Table.Proofs_Manifest
  Table.Model_Compact Table.Proofs_Compact.
From Coq Require Import Permutation.
Local Open Scope N_scope.

(* For every well formed manifest, every list of groups (old fragments of the manifest, pairwise disjoint, new
   fragments = what a task computes for SOME file sizes, fresh or unassigned ids), every index section, every
   frag-reuse index, every write configuration: if the Rewrite commits, then
     - the multiset of rows shown by a scan (row id with stable row ids, created / last-updated versions, user
       columns) is unchanged;
     - the new fragments of each group hold the live rows of its old fragments IN ORDER;
     - the fragments outside the groups are the same records in the same order;
     - schema unchanged, version + 1, row-id high-water mark unchanged. *)
Theorem C13_content_invariant : forall (V : Type) (cell : list DataFile -> N -> V)
    (m : Manifest) (groups : list RewriteGroup) (rewritten_indices : list (N * N)) (frag_reuse_index : option Index)
    (cfg : config) (m' : Manifest),
  wf_manifest m = true -> versions_shape (uses_stable m) (m_fragments m) = true ->
  groups_ok m groups = true ->
  (forall g, In g groups -> cells_ok V cell (m_fragments m) g) ->
  build_manifest (Some m) (Rewrite groups rewritten_indices frag_reuse_index) cfg = Ok m' ->
  Permutation (table_vrows V cell (m_fragments m')) (table_vrows V cell (m_fragments m))
  /\ (forall g, In g groups -> table_vrows V cell (rg_new g) = table_vrows V cell (lookup_old (m_fragments m) (rg_old g)))
  /\ filter (fun f => n_mem (fr_id f) (frag_ids (m_fragments m))) (m_fragments m')
     = filter (not_in (flat_map rg_old groups)) (m_fragments m)
  /\ m_schema m' = m_schema m /\ m_version m' = m_version m + 1
  /\ (uses_stable m' = true -> m_next_row_id m' = m_next_row_id m).
Proof. exact content_invariant. Qed.
Print Assumptions C13_content_invariant.

(* any subset of the executed tasks, committed in any order, satisfies the hypotheses again *)
Theorem C13_any_subset_any_order : forall m tasks committed,
  groups_ok m tasks = true -> NoDup committed -> incl committed tasks -> groups_ok m committed = true.
Proof. exact groups_ok_subset. Qed.
Print Assumptions C13_any_subset_any_order.

(* The metadata a task hands back (row ids and version sequences: masked, concatenated, re-chunked at the new file
   sizes - whatever the sizes are) shows, row for row, what the live rows of its input showed. *)
Theorem C13_task_rows : forall stable olds sizes ids files news,
  exec_task stable olds sizes ids files = Ok news ->
  (forall f, In f olds -> frag_consistent stable f = true /\ shape_ok stable f = true) ->
  sum_n sizes = total_live olds ->
  flat_map live_meta news = flat_map live_meta olds.
Proof. exact exec_task_meta. Qed.
Print Assumptions C13_task_rows.

(* transpose_row_addrs (with the MissingAddrs iterator) on the fragments of a task inside the declared domain E3:
   the k-th live old address maps to the k-th new address - a bijection between two duplicate-free lists of equal
   length -, every deleted old address maps to None, there is no other key. *)
Theorem C13_remap_bijection : forall olds news,
  remap_dom olds news = true ->
  exists mp, task_remap olds news = Ok mp
    /\ length (live_addrs olds) = length (live_addrs news)
    /\ NoDup (live_addrs olds) /\ NoDup (live_addrs news)
    /\ (forall a b, In (a, b) (combine (live_addrs olds) (live_addrs news)) -> map_get mp a = Some (Some b))
    /\ (forall d, In d (deleted_addrs olds) -> map_get mp d = Some None)
    /\ (forall a, map_get mp a <> None -> In a (all_addrs olds)).
Proof. exact remap_bijection. Qed.
Print Assumptions C13_remap_bijection.

(* hence: for ANY set of rows (any predicate on what a row shows), remapping the old addresses an index holds for
   the rows of the set yields exactly the addresses of those rows in the new fragments *)
Theorem C13_remap_answer : forall (V : Type) (cell : list DataFile -> N -> V) olds news mp (P : vrow V -> bool),
  remap_dom olds news = true -> task_remap olds news = Ok mp ->
  table_vrows V cell news = table_vrows V cell olds ->
  remap_set mp (map fst (filter (fun ar => P (snd ar)) (table_arows V cell olds)))
  = map fst (filter (fun ar => P (snd ar)) (table_arows V cell news)).
Proof. exact remap_answer. Qed.
Print Assumptions C13_remap_answer.

(* recalculate_fragment_bitmap: it fails exactly when a group is split by the index; otherwise the bitmap loses the
   old fragments of the groups it covered, gains their new fragments, and nothing else changes *)
Theorem C13_bitmap : forall old groups nb b',
  recalculate_fragment_bitmap old nb groups = Ok b' ->
  (forall g, In g groups -> touched old g = true -> covered old g = true)
  /\ ((forall x, In x (cov_news old groups) -> ~ In x (flat_map old_ids32 groups)) ->
      forall x, In x b' <-> (In x nb /\ ~ In x (cov_olds old groups)) \/ In x (cov_news old groups)).
Proof. exact bitmap_spec. Qed.
Print Assumptions C13_bitmap.

(* an index covers a new fragment iff it covered all the old fragments of its group (ids assigned and fresh) *)
Theorem C13_bitmap_new_fragment : forall old groups b' g f,
  recalculate_fragment_bitmap old old groups = Ok b' ->
  NoDup (flat_map new_ids32 groups) ->
  (forall x, In x (flat_map new_ids32 groups) -> ~ In x old /\ ~ In x (flat_map old_ids32 groups)) ->
  In g groups -> rg_old g <> [] -> In f (rg_new g) ->
  (In (wrap32 (fr_id f)) b' <-> covered old g = true).
Proof. exact bitmap_new_fragment. Qed.
Print Assumptions C13_bitmap_new_fragment.

(* Tasks executed against one version and committed onto a LATER one (other writers in between; the rebase of the
   commit loop or a refreshed handle): outside the class below - no old fragment of a committed task changed -
   the hypotheses of C13_content_invariant hold for the later manifest, so the invariant holds relative to it. *)
Theorem C13_commit_on_later_version : forall m_read m_commit groups,
  tasks_ok m_read m_commit groups = true ->
  Known_C13_commit_ignores_task_read_version m_read m_commit groups = false ->
  groups_ok m_commit groups = true
  /\ forall V cell g, In g groups -> cells_ok V cell (m_fragments m_read) g -> cells_ok V cell (m_fragments m_commit) g.
Proof.
  intros mr mc groups T K. split; [apply (tasks_commit_later mr mc); assumption|].
  intros V cell g I C. unfold Known_C13_commit_ignores_task_read_version in K. apply negb_false_iff in K.
  eapply cells_ok_unchanged; eassumption.
Qed.
Print Assumptions C13_commit_on_later_version.

(* ---- witnesses -------------------------------------------------------------------------------------------- *)
Definition w_file (p rows : N) : DataFile := mkDataFile p [0%Z; 1%Z] (2, 0) rows.
Definition w_f0 : Fragment := mkFragment 0 (Some 3) [w_file 0 3] (Some (mkDeletionFile 0 (Some 1) [1])) (Some [0; 1; 2]) (Some [1; 1; 1]) (Some [1; 1; 2]).
Definition w_f1 : Fragment := mkFragment 1 (Some 2) [w_file 1 2] None (Some [3; 4]) (Some [2; 2]) (Some [2; 2]).
Definition w_f2 : Fragment := mkFragment 2 (Some 2) [w_file 2 2] None (Some [5; 6]) (Some [3; 3]) (Some [3; 3]).
Definition w_index : Index := mkIndex 9 2 [0%Z] 1 (Some [0; 1]) false.
(* two fragment ids (3, 4) were reserved for the task *)
Definition w_m : Manifest := mkManifest 5 [0%Z; 1%Z] [w_f0; w_f1; w_f2] (Some 4) (Some 7) V2_0 [w_index].
Definition w_n3 : Fragment := mkFragment 3 (Some 3) [w_file 3 3] None (Some [0; 2; 3]) (Some [1; 1; 2]) (Some [1; 2; 2]).
Definition w_n4 : Fragment := mkFragment 4 (Some 1) [w_file 4 1] None (Some [4]) (Some [2]) (Some [2]).
Definition w_groups : list RewriteGroup := [mkRewriteGroup [0; 1] [w_n3; w_n4]].

(* non-vacuity: the hypotheses are satisfiable and the commit succeeds - fragments 0 (one row deleted) and 1 are
   compacted at 3 rows per file into 3 and 4; the index that covered both now covers 3 and 4 *)
Example C13_nonvacuous :
  wf_manifest w_m = true /\ versions_shape true (m_fragments w_m) = true /\ groups_ok w_m w_groups = true
  /\ exec_task true [w_f0; w_f1] (chunk_sizes 3 4) [3; 4] [[w_file 3 3]; [w_file 4 1]] = Ok [w_n3; w_n4]
  /\ remap_dom [w_f0; w_f1] [w_n3; w_n4] = true
  /\ match build_manifest (Some w_m) (Rewrite w_groups [] None) (mkConfig false None) with
     | Ok m' => frag_ids (m_fragments m') = [2; 3; 4] /\ map ix_bitmap (m_indices m') = [Some [3; 4]]
                /\ live_ids m' = [5; 6; 0; 2; 3; 4]
     | _ => False
     end.
Proof. vm_compute. repeat split; reflexivity. Qed.

(* Finding (reproduced on the real code, KNOWN_FINDINGS.txt): commit_compaction stamps the Rewrite with the version
   of the handle it is given, not with the read version of the tasks.  Row id 3 (fragment 1, offset 0) is deleted by
   another writer after the task ran; the Rewrite is then applied to the later manifest: it commits, and the
   deleted row is back (6 live rows instead of 5). *)
Definition w_f1_deleted : Fragment := mkFragment 1 (Some 2) [w_file 1 2] (Some (mkDeletionFile 1 (Some 1) [0])) (Some [3; 4]) (Some [2; 2]) (Some [2; 2]).
Definition w_m_later : Manifest := mkManifest 6 [0%Z; 1%Z] [w_f0; w_f1_deleted; w_f2] (Some 4) (Some 7) V2_0 [w_index].

Theorem C13_commit_ignores_task_read_version_refuted :
  exists m_read m_commit groups m',
    tasks_ok m_read m_commit groups = true
    /\ Known_C13_commit_ignores_task_read_version m_read m_commit groups = true
    /\ wf_manifest m_commit = true
    /\ build_manifest (Some m_commit) (Rewrite groups [] None) (mkConfig false None) = Ok m'
    /\ ~ Permutation (table_vrows unit (fun _ _ => tt) (m_fragments m')) (table_vrows unit (fun _ _ => tt) (m_fragments m_commit)).
Proof.
  destruct (build_manifest (Some w_m_later) (Rewrite w_groups [] None) (mkConfig false None)) as [m'| |] eqn:E; try (vm_compute in E; discriminate).
  exists w_m, w_m_later, w_groups, m'. repeat split; try (vm_compute; reflexivity); [exact E|].
  intro P. apply Permutation_length in P. vm_compute in E. inversion E; subst m'. vm_compute in P. discriminate.
Qed.
Print Assumptions C13_commit_ignores_task_read_version_refuted.
