(* C35 - Distance kernels agree with the scalar definitions. Property theorems only.
   Floating-point rounding is NOT modelled: the statements are exact-arithmetic identities (any
   commutative ring, instantiated at Z).  The tie to the float code is the exact-mode correspondence. *)
From LanceV Require Import Common.Base Linalg.Model_Dist Linalg.Proofs_Dist.
From Coq Require Import Ring.
Local Open Scope Z_scope.

(* Lane-wise accumulation (remainder first, LANES partial sums, final reduce) equals the scalar
   definition: for EVERY lane count > 0, every pair of equally long vectors, in ANY commutative ring. *)
Theorem C35_lanes_eq_scalar :
  forall (R : Type) (r0 r1 : R) (radd rmul rsub : R -> R -> R) (ropp : R -> R),
    ring_theory r0 r1 radd rmul rsub ropp (@eq R) ->
    forall (LANES : nat) (x y : list R), (0 < LANES)%nat -> length x = length y ->
      l2_scalar r0 radd rsub rmul LANES x y = l2_spec r0 radd rsub rmul x y /\
      dot_scalar r0 radd rmul LANES x y = dot_spec r0 radd rmul x y /\
      norm_sq_impl r0 radd rmul LANES x = normsq_spec r0 radd rmul x.
Proof.
  intros R r0 r1 radd rmul rsub ropp Rth LANES x y HL Hlen. repeat split.
  - exact (l2_scalar_eq R r0 r1 radd rmul rsub ropp Rth LANES x y HL Hlen).
  - exact (dot_scalar_eq R r0 r1 radd rmul rsub ropp Rth LANES x y HL Hlen).
  - exact (norm_sq_impl_eq R r0 r1 radd rmul rsub ropp Rth LANES x HL).
Qed.
Print Assumptions C35_lanes_eq_scalar.

(* Every element type's l2 / dot / squared norm is the scalar definition over Z; the u8 paths
   (u32 arithmetic) panic on u32 overflow and otherwise return the sum rounded by `as f32`. *)
Theorem C35_kernels_eq_scalar : forall (t : ety) (x y : list Z), length x = length y ->
  l2 t x y = match t with
             | U8 => if l2_spec_Z x y <? 2 ^ 32 then Ok (xint (round_f32 (l2_spec_Z x y))) else Panic
             | _ => Ok (xint (l2_spec_Z x y))
             end /\
  dot t x y = match t with
              | U8 => if dot_spec_Z x y <? 2 ^ 32 then Ok (xint (round_f32 (dot_spec_Z x y))) else Panic
              | _ => Ok (xint (dot_spec_Z x y))
              end /\
  norm_sq t x = normsq_spec_Z x.
Proof.
  intros t x y H. split; [exact (l2_correct t x y H) | split; [exact (dot_correct t x y H) | exact (norm_sq_correct t x)]].
Qed.
Print Assumptions C35_kernels_eq_scalar.

(* `u32 as f32`: exact below 2^24; above, the result is a multiple of the unit 2^k (k = log2 n - 23)
   within half a unit of n, i.e. relative error <= 2^-24. *)
Theorem C35_u32_to_f32 : forall n : Z,
  (n < 2 ^ 24 -> round_f32 n = n) /\
  (2 ^ 24 <= n ->
   let k := Z.log2 n - 23 in
   Z.abs (round_f32 n - n) * 2 <= 2 ^ k /\ 2 ^ k * 2 ^ 23 <= n /\ round_f32 n mod 2 ^ k = 0).
Proof. intro n. split; [exact (round_f32_exact n) | exact (round_f32_error n)]. Qed.
Print Assumptions C35_u32_to_f32.

(* argmin family: Some (i, v) = the FIRST index holding the minimum of all comparable items, which
   is strictly below the initial sentinel; nulls and NaNs are never selected; None iff nothing is
   below the sentinel.  For every list shorter than 2^32 (the index is a u32). *)
Theorem C35_argmin_minimal : forall (top : Z) (l : list fv), (N.of_nat (length l) <= two32)%N ->
  match argmin_value_opt top l with
  | Some (i, v) =>
      exists j, i = N.of_nat j /\ nth_error l j = Some (FV v) /\ v < top /\
                (forall j' w, nth_error l j' = Some (FV w) -> v <= w) /\
                (forall j' w, (j' < j)%nat -> nth_error l j' = Some (FV w) -> v < w)
  | None => forall j w, nth_error l j = Some (FV w) -> top <= w
  end.
Proof. exact argmin_value_opt_spec. Qed.
Print Assumptions C35_argmin_minimal.

(* hamming (64-byte chunks, remainder first) and hamming_scalar = sum over positions of
   popcount(x_i xor y_i) (u32; `as f32` at the end), and that sum counts the differing bits. *)
Theorem C35_hamming : forall x y : list Z, length x = length y ->
  hamming x y = (if hamming_spec x y <? 2 ^ 32 then Ok (xint (round_f32 (hamming_spec x y))) else Panic) /\
  hamming_scalar x y = hamming x y /\
  (Forall (fun a => 0 <= a < 256) x -> Forall (fun a => 0 <= a < 256) y ->
   hamming_spec x y = zs (map (fun p => bitdiff8 (fst p) (snd p)) (combine x y))).
Proof.
  intros x y H. split; [exact (hamming_correct x y H)|]. split.
  - rewrite hamming_scalar_correct, (hamming_correct x y H). reflexivity.
  - exact (hamming_spec_bits x y).
Qed.
Print Assumptions C35_hamming.

(* Batch variants: Ok exactly when the (debug) assertions hold -- |from| = dimension, dimension > 0,
   |to| a multiple of it -- and then output j is the single-pair kernel on row j = to[j*dim..(j+1)*dim]. *)
Theorem C35_batch_is_map_over_rows :
  forall (f : list Z -> outcome xval) (from to : list Z) (dim : nat),
    (forall ds, checked_batch f from to dim = Ok ds ->
       length from = dim /\ (0 < dim)%nat /\ (length to mod dim = 0)%nat /\
       length ds = (length to / dim)%nat /\
       forall j d, nth_error ds j = Some d -> f (firstn dim (skipn (j * dim) to)) = Ok d) /\
    (length from <> dim \/ dim = 0%nat \/ (length to mod dim <> 0)%nat -> checked_batch f from to dim = Panic).
Proof.
  intros f from to dim. split; [intros ds; exact (checked_batch_spec f from to dim ds) | exact (checked_batch_panics f from to dim)].
Qed.
Print Assumptions C35_batch_is_map_over_rows.

Theorem C35_l2_batch : forall (t : ety) (from to : list Z) (dim : nat) (ds : list xval),
  l2_distance_batch t from to dim = Ok ds ->
  length ds = (length to / dim)%nat /\
  forall j d, nth_error ds j = Some d ->
    let row := firstn dim (skipn (j * dim) to) in
    match t with
    | U8 => l2_spec_Z from row < 2 ^ 32 /\ d = xint (round_f32 (l2_spec_Z from row))
    | _ => d = xint (l2_spec_Z from row)
    end.
Proof. exact l2_distance_batch_correct. Qed.
Print Assumptions C35_l2_batch.

Theorem C35_dot_batch : forall (t : ety) (from to : list Z) (dim : nat) (ds : list xval),
  dot_distance_batch t from to dim = Ok ds ->
  length ds = (length to / dim)%nat /\
  forall j d, nth_error ds j = Some d ->
    let row := firstn dim (skipn (j * dim) to) in
    match t with
    | U8 => dot_spec_Z from row < 2 ^ 32 /\ d = one_minus (xint (round_f32 (dot_spec_Z from row)))
    | _ => d = XRat (1 - dot_spec_Z from row) 1
    end.
Proof. exact dot_distance_batch_correct. Qed.
Print Assumptions C35_dot_batch.

Theorem C35_hamming_batch : forall (from to : list Z) (dim : nat) (ds : list xval),
  hamming_distance_batch from to dim = Ok ds ->
  length ds = (length to / dim)%nat /\
  forall j d, nth_error ds j = Some d ->
    let row := firstn dim (skipn (j * dim) to) in
    hamming_spec from row < 2 ^ 32 /\ d = xint (round_f32 (hamming_spec from row)).
Proof. exact hamming_distance_batch_correct. Qed.
Print Assumptions C35_hamming_batch.

(* Cosine distance, every float type (scalar path for f16/bf16/f64; for f32 the 16-lane fma loop +
   8-lane fma loop + scalar tail): whenever the model yields a value (i.e. the norms are exact
   integers) it is 1 - <x,y>/(|x||y|), NaN when a norm is zero. *)
Theorem C35_cosine : forall (t : ety) (x y : list Z) (r : xval),
  t <> U8 -> length x = length y -> cosine t x y = Some r ->
  exists xn yn, 0 <= xn /\ 0 <= yn /\ xn * xn = normsq_spec_Z x /\ yn * yn = normsq_spec_Z y /\
                r = (if xn * yn =? 0 then XNaN else XRat (xn * yn - dot_spec_Z x y) (xn * yn)).
Proof. exact cosine_correct. Qed.
Print Assumptions C35_cosine.

(* cosine_with_norms (norms supplied by the caller) and cosine_distance_batch (incl. the f32
   specialisations cosine_once for dimension 8 and 16). *)
Theorem C35_cosine_with_norms : forall (t : ety) (x y : list Z) (xn yn : Z),
  t <> U8 -> length x = length y ->
  cosine_with_norms t x xn yn y = Some (one_minus_div (dot_spec_Z x y) (xn * yn)).
Proof. exact cosine_with_norms_correct. Qed.
Print Assumptions C35_cosine_with_norms.

Theorem C35_cosine_batch : forall (t : ety) (from to : list Z) (dim : nat) (ds : list xval),
  t <> U8 -> length from = dim -> (length to mod dim = 0)%nat ->
  cosine_distance_batch t from to dim = Ok (Some ds) ->
  (0 < dim)%nat /\ length ds = (length to / dim)%nat /\
  exists xn, 0 <= xn /\ xn * xn = normsq_spec_Z from /\
    forall j d, nth_error ds j = Some d ->
      let row := firstn dim (skipn (j * dim) to) in
      exists yn, 0 <= yn /\ yn * yn = normsq_spec_Z row /\
                 d = (if xn * yn =? 0 then XNaN else XRat (xn * yn - dot_spec_Z from row) (xn * yn)).
Proof. exact cosine_distance_batch_correct. Qed.
Print Assumptions C35_cosine_batch.

(* Nearest-centroid assignment (compute_membership_and_dist / compute_partitions*, float types,
   L2 or Dot, no balance bias): vector i (= chunk i of the data) gets the FIRST centroid whose exact
   distance is minimal among the centroids with a non-NaN distance; None iff no centroid has a
   distance below +inf (empty centroid set, NaN in the vector, or NaN in every centroid). *)
Theorem C35_assignment_minimal :
  forall (t : ety) (m : metric) (centroids data : list (option Z)) (dim : nat) (res : list (option (N * Z))),
  t <> U8 -> (m = ML2 \/ m = MDot) -> (N.of_nat (length centroids / dim) <= two32)%N ->
  membership_float t m centroids data dim None = Ok res ->
  (0 < dim)%nat /\ length res = length (chunks dim data) /\
  forall i r, nth_error res i = Some r ->
    let vec := firstn dim (skipn (i * dim) data) in
    let k := (length centroids / dim)%nat in
    length vec = dim /\ (length centroids mod dim = 0)%nat /\
    match r with
    | Some (c, d) =>
        exists j, c = N.of_nat j /\ (j < k)%nat /\ cdist (metric_dist m) centroids vec dim j = Some d /\ d < INF /\
                  (forall j' w, (j' < k)%nat -> cdist (metric_dist m) centroids vec dim j' = Some w -> d <= w) /\
                  (forall j' w, (j' < j)%nat -> cdist (metric_dist m) centroids vec dim j' = Some w -> d < w)
    | None => forall j w, (j < k)%nat -> cdist (metric_dist m) centroids vec dim j = Some w -> INF <= w
    end.
Proof. exact membership_float_minimal. Qed.
Print Assumptions C35_assignment_minimal.

(* argmax / argmax_opt: mirror image (first index of the maximum, strictly above T::min_value()). *)
Theorem C35_argmax : forall (bot : Z) (l : list fv), (N.of_nat (length l) <= two32)%N ->
  match argmax_opt bot l with
  | Some i =>
      exists j v, i = N.of_nat j /\ nth_error l j = Some (FV v) /\ bot < v /\
                  (forall j' w, nth_error l j' = Some (FV w) -> w <= v) /\
                  (forall j' w, (j' < j)%nat -> nth_error l j' = Some (FV w) -> w < v)
  | None => forall j w, nth_error l j = Some (FV w) -> w <= bot
  end.
Proof. exact argmax_opt_spec. Qed.
Print Assumptions C35_argmax.

(* argmin_value_float_with_bias (balanced k-means): first index minimising value + bias; returns the
   original value. *)
Theorem C35_argmin_with_bias : forall (inf : Z) (l : list fv) (b : list Z),
  (N.of_nat (length (combine l b)) <= two32)%N ->
  match argmin_value_float_with_bias inf l (Some b) with
  | Some (i, v) =>
      exists j bj, i = N.of_nat j /\ nth_error (combine l b) j = Some (FV v, bj) /\ v + bj < inf /\
        (forall j' w b', nth_error (combine l b) j' = Some (FV w, b') -> v + bj <= w + b') /\
        (forall j' w b', (j' < j)%nat -> nth_error (combine l b) j' = Some (FV w, b') -> v + bj < w + b')
  | None => forall j w b', nth_error (combine l b) j = Some (FV w, b') -> inf <= w + b'
  end.
Proof. exact argmin_with_bias_spec. Qed.
Print Assumptions C35_argmin_with_bias.

(* The same for u8 vectors under hamming distance (KModeAlgo behind compute_partitions_arrow_array):
   the first centroid whose reported distance (bit count, `as f32`) is minimal. *)
Theorem C35_assignment_hamming :
  forall (centroids data : list Z) (dim : nat) (res : list (option (N * Z))),
  (N.of_nat (length centroids / dim) <= two32)%N ->
  membership_kmode MHamming centroids data dim = Ok res ->
  (0 < dim)%nat /\ length res = length (chunks dim data) /\
  forall i r, nth_error res i = Some r ->
    let vec := firstn dim (skipn (i * dim) data) in
    let k := (length centroids / dim)%nat in
    length vec = dim ->
    match r with
    | Some (c, d) =>
        exists j, c = N.of_nat j /\ (j < k)%nat /\ d = hdist centroids vec dim j /\ d < F32MAX /\
                  (forall j', (j' < k)%nat -> d <= hdist centroids vec dim j') /\
                  (forall j', (j' < j)%nat -> d < hdist centroids vec dim j')
    | None => forall j, (j < k)%nat -> F32MAX <= hdist centroids vec dim j
    end.
Proof. exact membership_kmode_minimal. Qed.
Print Assumptions C35_assignment_hamming.

(* Arrow-batch helpers (and DistanceType::arrow_batch_func): on success the kernel ran at the element
   type selected by the dispatch (same float type; Int8 `from` -> f32 with Int8/Int32/Float32 `to`),
   |from| = value_length, and row j of the output is null iff row j of `to` is null, otherwise the
   batch kernel's value for that row (characterised by C35_l2_batch / C35_dot_batch / C35_hamming_batch). *)
Theorem C35_arrow_batch :
  forall (fty : aty) (from : list Z) (tty : aty) (to : list Z) (dim : nat) (valid : list bool) (out : list (option xval)),
  (l2_arrow_batch fty from tty to dim valid = Ok (Some out) ->
   exists t ds, arrow_elem_ty fty tty = Some t /\ length from = dim /\
                l2_distance_batch t from to dim = Ok ds /\ length out = length ds /\
                forall j dj, nth_error ds j = Some dj -> nth_error out j = Some (if nth j valid true then Some dj else None)) /\
  (dot_arrow_batch fty from tty to dim valid = Ok (Some out) ->
   exists t ds, arrow_elem_ty fty tty = Some t /\ length from = dim /\ (0 < dim)%nat /\
                sequence_outcome (map (dot_distance t from) (fst (chunks_exact dim to))) = Ok ds /\ length out = length ds /\
                forall j dj, nth_error ds j = Some dj -> nth_error out j = Some (if nth j valid true then Some dj else None)) /\
  (hamming_arrow_batch fty from tty to valid = Ok (Some out) ->
   fty = AU8 /\ tty = AU8 /\
   exists ds, hamming_distance_batch from to (length from) = Ok ds /\ length out = length ds /\
              forall j dj, nth_error ds j = Some dj -> nth_error out j = Some (if nth j valid true then Some dj else None)).
Proof.
  intros fty from tty to dim valid out. split; [|split].
  - exact (l2_arrow_batch_correct fty from tty to dim valid out).
  - exact (dot_arrow_batch_correct fty from tty to dim valid out).
  - exact (hamming_arrow_batch_correct fty from tty to valid out).
Qed.
Print Assumptions C35_arrow_batch.

(* non-vacuity: Rust unit tests of the anchored files, evaluated by the model *)
Example C35_nonvacuous_l2 :
  l2_distance_batch F32 [2;3;4;5;6;7;8;9]
    ([0;1;2;3;4;5;6;7] ++ [1;2;3;4;5;6;7;8] ++ [2;3;4;5;6;7;8;9] ++ [3;4;5;6;7;8;9;10]) 8
  = Ok [xint 32; xint 8; xint 0; xint 8].
Proof. reflexivity. Qed.

Example C35_nonvacuous_argmin :
  argmin_value_opt 100 [FV 5; FV 3; FNan; FV 2; FNull; FV 2; FV 20] = Some (3%N, 2)
  /\ argmin_value_opt 100 [FV 100; FNan] = None.
Proof. split; reflexivity. Qed.

Example C35_nonvacuous_u8 :
  l2 U8 (repeat 0 2048) (repeat 255 2048) = Ok (xint 133171200) /\ hamming [218; 170; 170] [218; 170; 169] = Ok (xint 2).
Proof. split; vm_compute; reflexivity. Qed.

Example C35_nonvacuous_cosine :
  cosine F32 [3; 4] [6; 8] = Some (XRat 0 50) /\ cosine F16 [3; 4] [-4; 3] = Some (XRat 25 25)
  /\ cosine F32 ([4;0;0;0;0;0;0;0;0;0;0;0;0;0;0;0] ++ [0;0;0;0;0;0;0;0] ++ [3]) ([2;1;0;0;0;0;0;0;0;0;0;0;0;0;0;0] ++ [1;1;1;1;0;0;0;0] ++ [4])
     = Some (XRat 5 25)
  /\ cosine F64 [0; 0] [1; 0] = Some XNaN.
Proof. repeat split; vm_compute; reflexivity. Qed.

Example C35_nonvacuous_assignment :
  membership_float F32 ML2 [Some 0; Some 0; Some 3; Some 4; None; Some 1] [Some 3; Some 3; None; Some 1; Some 0; Some 0] 2 None
  = Ok [Some (1%N, 1); None; Some (0%N, 0)]
  /\ membership_float F16 MDot [Some 1; Some 0; Some 0; Some 2] [Some 1; Some 1] 2 None = Ok [Some (1%N, -1)].
Proof. split; vm_compute; reflexivity. Qed.
