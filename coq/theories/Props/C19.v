(* C19 - Exact scalar indices answer filters exactly like a full scan.  Property theorems only.
   Model: Index/Model_ScalarExpr.v - the filter translator of rust/lance-index/src/scalar/expression.rs
   (apply_scalar_indices / visit_node / visit_and + maybe_range / visit_or / visit_not / IndexedExpression),
   ScalarIndexExpr::evaluate (C21's model, Index/Model_ExprResult.v), the answers of B-tree / bitmap indices
   to a SargableQuery, and the rows FilteredReadExec returns for an Exact / AtMost / AtLeast answer.
   Reference: SQL three-valued logic; a row is returned iff the predicate is TRUE.

   The property is FALSE for the faithful model and for the real code on two classes of inputs (both reproduced
   through Scanner::use_scalar_index, see KNOWN_FINDINGS.txt):
     not_over_nullable     NOT / <> / NOT IN / NOT BETWEEN (and `b = false`, planned as NOT b) above a leaf on an
                           indexed column that holds a NULL: the complement of an Exact answer contains the NULL rows
     bitmap_inverted_range BitmapIndex::search panics (BTreeMap::range) on a range whose bounds are inverted
                           (`x >= 7 AND x <= 1`, `x BETWEEN 7 AND 1`, `x > 5 AND x < 5`): no rows instead of the empty set
   It is proved for everything outside the two classes.  (A third class found by this development, range_bounds_swapped -
   maybe_range exchanging the inclusivity of `x <= a AND x > b` - was repaired in /repo by c446062; its input is the
   regression Example ex_range_bounds_regression and a fixed corpus case of the harness.) *)
From LanceV Require Import Common.Base Core.Model_Mask Core.Proofs_Mask Index.Model_ExprResult Index.Proofs_ExprResult
  Index.Model_ScalarExpr Index.Proofs_ScalarExpr.
Local Open Scope N_scope.

(* the translator never panics (maybe_not's "Empty node should not occur" is unreachable), every node it
   returns has an index part, and it fails only on predicates nested 500 deep *)
Theorem C19_translator_total : forall (info : index_info) (p : sexpr),
  apply_scalar_indices info p <> Panic /\
  (sdepth p < MAX_DEPTH -> apply_scalar_indices info p <> Err) /\
  (forall depth ie, visit_node info p depth = Ok (Some ie) -> scalar_query ie <> None).
Proof.
  intros info p. unfold apply_scalar_indices. destruct (visit_node_sq info p 0) as [Hp _].
  pose proof (visit_node_no_err info p 0) as He.
  split; [destruct (visit_node info p 0) as [[ie|]| |]; congruence|].
  split; [intro Hd; destruct (visit_node info p 0) as [[ie|]| |]; try discriminate; exfalso; apply He; [exact Hd | reflexivity]|].
  intros depth ie E. exact (proj2 (visit_node_sq info p depth) ie E).
Qed.
Print Assumptions C19_translator_total.

(* row by row, the index part AND the refine part of the translation mean what the SQL predicate means:
   for ALL predicate trees, index configurations and rows outside class not_over_nullable *)
Theorem C19_translation_preserves_meaning : forall (en : env) (info : index_info) (r : rowT) (p : sexpr) (ie : iexp),
  parsers_ok info -> fn_definite en -> row_ok info r = true ->
  apply_scalar_indices info p = Ok ie ->
  neg_over_null info r p = false ->
  is_true (eval en r p) =
    match scalar_query ie with Some sq => struth en r sq | None => true end && opt_true en r (refine_expr ie).
Proof.
  intros en info r p ie Hpar Hfn Hok Ea Hn. unfold apply_scalar_indices in Ea.
  destruct (visit_node info p 0) as [[ie0|]| |] eqn:Ev; try discriminate; injection Ea as <-.
  - destruct (visit_node_sound en info Hpar Hfn r Hok p 0 ie0 Ev Hn) as [sq [Esq [HA _]]]. rewrite Esq. exact HA.
  - reflexivity.
Qed.
Print Assumptions C19_translation_preserves_meaning.

(* a B-tree / bitmap index in step with the live rows of the fragments it covers answers every query the
   SargableQueryParser builds exactly *)
Theorem C19_sargable_search_exact : forall (en : env) (tbl : list rowT) (c : N) (ix : sindex) (q : query),
  index_ok tbl c ix -> sarg_query_ok q = true -> not_bitmap_inverted ix q = true ->
  exists t, sarg_search q ix = Ok (SExact t) /\ tm_wf t /\
    forall r, In r tbl -> rid r < two64 -> lmem (rfrag r) (ix_frags ix) = true ->
      tm_contains t (rid r) = qmatch en q (val r c).
Proof. exact sarg_search_sound. Qed.
Print Assumptions C19_sargable_search_exact.

(* THE property: for all tables, all predicate trees, all B-tree/bitmap index configurations and all
   coverage splits (fragments covered by every index of the query: index answer, then refine; the others:
   scan with the full filter), the indexed scan returns exactly the rows for which the predicate is TRUE -
   outside the two finding classes *)
Theorem C19_index_eq_scan : forall (en : env) (info : index_info) (ixs : N -> option sindex) (tbl : list rowT) (p : sexpr),
  exact_info info -> fn_definite en -> table_ok info tbl -> indices_ok info ixs tbl ->
  Known_C19_not_over_nullable info tbl p = false ->
  Known_C19_bitmap_inverted_range info ixs p = false ->
  sdepth p < MAX_DEPTH ->
  index_scan en info (exact_search ixs) (exact_cov ixs) tbl p = Ok (full_scan en tbl p).
Proof. exact exact_index_scan_eq_scan. Qed.
Print Assumptions C19_index_eq_scan.

(* sub-domain 1: no indexed column the predicate looks at holds a NULL - negations included *)
Theorem C19_index_eq_scan_null_free : forall (en : env) (info : index_info) (ixs : N -> option sindex) (tbl : list rowT) (p : sexpr),
  exact_info info -> fn_definite en -> table_ok info tbl -> indices_ok info ixs tbl ->
  null_free info tbl p = true ->
  Known_C19_bitmap_inverted_range info ixs p = false ->
  sdepth p < MAX_DEPTH ->
  index_scan en info (exact_search ixs) (exact_cov ixs) tbl p = Ok (full_scan en tbl p).
Proof.
  intros en info ixs tbl p H1 H2 H3 H4 Hnf H6 H7.
  apply exact_index_scan_eq_scan; try assumption. apply null_free_not_known. exact Hnf.
Qed.
Print Assumptions C19_index_eq_scan_null_free.

(* sub-domain 2: negation-free predicates - NULLs anywhere *)
Theorem C19_index_eq_scan_negation_free : forall (en : env) (info : index_info) (ixs : N -> option sindex) (tbl : list rowT) (p : sexpr),
  exact_info info -> fn_definite en -> table_ok info tbl -> indices_ok info ixs tbl ->
  negation_free p = true ->
  Known_C19_bitmap_inverted_range info ixs p = false ->
  sdepth p < MAX_DEPTH ->
  index_scan en info (exact_search ixs) (exact_cov ixs) tbl p = Ok (full_scan en tbl p).
Proof.
  intros en info ixs tbl p H1 H2 H3 H4 Hnf H6 H7.
  apply exact_index_scan_eq_scan; try assumption. apply negation_free_not_known. exact Hnf.
Qed.
Print Assumptions C19_index_eq_scan_negation_free.

(* the same for ANY index kinds (exact or inexact: zone map, bloom filter, n-gram, label list), given only that
   every leaf search answers truthfully in its own kind (Exact / AtMost / AtLeast) - the glue used by C20 *)
Theorem C19_any_truthful_index_eq_scan : forall (en : env) (info : index_info)
    (search : leaf -> outcome search_result) (cov : leaf -> list N) (ltruth : leaf -> N -> bool)
    (tbl : list rowT) (p : sexpr),
  parsers_ok info -> fn_definite en ->
  (forall r, In r tbl -> row_ok info r = true) ->
  (forall ie sq, apply_scalar_indices info p = Ok ie -> scalar_query ie = Some sq ->
     forall l, In l (s_leaves sq) -> leaf_ok en search cov ltruth tbl l) ->
  Known_C19_not_over_nullable info tbl p = false ->
  apply_scalar_indices info p <> Err ->
  index_scan en info search cov tbl p = Ok (full_scan en tbl p).
Proof. exact index_scan_eq_scan. Qed.
Print Assumptions C19_any_truthful_index_eq_scan.

(* an index built over the rows of any set of fragments satisfies the hypothesis [index_ok] *)
Theorem C19_built_index_ok : forall (bitmap : bool) (tbl : list rowT) (c : N) (frags : list N),
  NoDup (map rid tbl) -> (forall r, In r tbl -> rid r < two64) -> index_ok tbl c (build_index bitmap c frags tbl).
Proof. exact build_index_ok. Qed.
Print Assumptions C19_built_index_ok.

(* ---------------------------------------------------------------- the findings: witnesses *)
Definition int_col0 : list (N * (bool * list (N * parser))) := [(0, (false, [(0, PSargable false)]))].
Definition bool_col0 : list (N * (bool * list (N * parser))) := [(0, (true, [(0, PSargable false)]))].
Definition rows_of (vs : list (option Z)) : list rowT :=
  map (fun iv => mk_row (fst iv) 0 [snd iv]) (combine (map N.of_nat (seq 0 (length vs))) vs).
Definition run (info_l : list (N * (bool * list (N * parser)))) (tbl : list rowT) (p : sexpr) : outcome (list N) :=
  let ixs := ixs_of tbl [(0, (0, [0], true))] in
  index_scan plain_env (info_of info_l) (exact_search ixs) (exact_cov ixs) tbl p.

(* F1: x = [1, 5, NULL], B-tree on x, `x <> 5`: the index path returns rows 0 and 2 (the NULL), a scan row 0 *)
Theorem C19_not_over_nullable_refuted : exists info tbl p,
  Known_C19_not_over_nullable info tbl p = true /\
  Known_C19_bitmap_inverted_range info (ixs_of tbl [(0, (0, [0], false))]) p = false /\
  (let ixs := ixs_of tbl [(0, (0, [0], false))] in
   index_scan plain_env info (exact_search ixs) (exact_cov ixs) tbl p = Ok [0; 2]) /\
  full_scan plain_env tbl p = [0].
Proof.
  exists (info_of int_col0), (rows_of [Some 1%Z; Some 5%Z; None]), (XCmp ONotEq (TCol 0) (TLit (LVal 5%Z))).
  vm_compute. repeat split.
Qed.
Print Assumptions C19_not_over_nullable_refuted.

(* regression (c446062): x = [1, 5, NULL, 7], B-tree on x: `x <= 5 AND x > 1` is searched as (1, 5] and
   `x < 5 AND x >= 1` as [1, 5); both paths return the same rows *)
Example ex_range_bounds_regression :
  let info := info_of int_col0 in
  let tbl := rows_of [Some 1%Z; Some 5%Z; None; Some 7%Z] in
  let ixs := ixs_of tbl [(0, (0, [0], false))] in
  let p1 := XAnd (XCmp OLtEq (TCol 0) (TLit (LVal 5%Z))) (XCmp OGt (TCol 0) (TLit (LVal 1%Z))) in
  let p2 := XAnd (XCmp OLt (TCol 0) (TLit (LVal 5%Z))) (XCmp OGtEq (TCol 0) (TLit (LVal 1%Z))) in
  apply_scalar_indices info p1 = Ok (mk_iexp (Some (SQuery (mk_leaf 0 0 (QRange (BExcl (LVal 1%Z)) (BIncl (LVal 5%Z))) false))) None) /\
  apply_scalar_indices info p2 = Ok (mk_iexp (Some (SQuery (mk_leaf 0 0 (QRange (BIncl (LVal 1%Z)) (BExcl (LVal 5%Z))) false))) None) /\
  index_scan plain_env info (exact_search ixs) (exact_cov ixs) tbl p1 = Ok [1] /\ full_scan plain_env tbl p1 = [1] /\
  index_scan plain_env info (exact_search ixs) (exact_cov ixs) tbl p2 = Ok [0] /\ full_scan plain_env tbl p2 = [0].
Proof. vm_compute. repeat split. Qed.

(* x = [1, 5, NULL, 7], BITMAP index on x, `x >= 7 AND x <= 1`: the index path panics, a scan returns no row *)
Theorem C19_bitmap_inverted_range_refuted : exists info tbl p,
  Known_C19_bitmap_inverted_range info (ixs_of tbl [(0, (0, [0], true))]) p = true /\
  Known_C19_not_over_nullable info tbl p = false /\
  (let ixs := ixs_of tbl [(0, (0, [0], true))] in
   index_scan plain_env info (exact_search ixs) (exact_cov ixs) tbl p = Panic) /\
  full_scan plain_env tbl p = [].
Proof.
  exists (info_of int_col0), (rows_of [Some 1%Z; Some 5%Z; None; Some 7%Z]),
    (XAnd (XCmp OGtEq (TCol 0) (TLit (LVal 7%Z))) (XCmp OLtEq (TCol 0) (TLit (LVal 1%Z)))).
  vm_compute. repeat split.
Qed.
Print Assumptions C19_bitmap_inverted_range_refuted.

(* ---------------------------------------------------------------- tests of the model (not theorems) *)
(* nullable boolean b = [true, false, NULL]: `b = false` is planned as NOT b *)
Example ex_bool_eq_false :
  run bool_col0 (rows_of [Some 1%Z; Some 0%Z; None]) (XNot (XCol 0)) = Ok [1; 2] /\
  full_scan plain_env (rows_of [Some 1%Z; Some 0%Z; None]) (XNot (XCol 0)) = [1] /\
  (* IS FALSE and NOT (b IS TRUE) are two-valued leaves: correct *)
  run bool_col0 (rows_of [Some 1%Z; Some 0%Z; None]) (XIsFalse (XCol 0)) = Ok [1] /\
  run bool_col0 (rows_of [Some 1%Z; Some 0%Z; None]) (XNot (XIsTrue (XCol 0))) = Ok [1; 2] /\
  full_scan plain_env (rows_of [Some 1%Z; Some 0%Z; None]) (XNot (XIsTrue (XCol 0))) = [1; 2].
Proof. vm_compute. repeat split. Qed.

(* plan shapes printed by the real planner (probe of the build phase) *)
Example ex_plans :
  let info := info_of [(0, (false, [(0, PSargable false)])); (1, (false, [(1, PSargable false)]))] in
  let x := TCol 0 in let u := TCol 1 in let v z := TLit (LVal z) in
  (* x >= 1 AND x < 7  ->  [x >= 1 && x < 7] *)
  apply_scalar_indices info (XAnd (XCmp OGtEq x (v 1%Z)) (XCmp OLt x (v 7%Z)))
    = Ok (mk_iexp (Some (SQuery (mk_leaf 0 0 (QRange (BIncl (LVal 1%Z)) (BExcl (LVal 7%Z))) false))) None) /\
  (* x = 1 AND u = 0  ->  AND([x = 1],[u = 0]) *)
  apply_scalar_indices info (XAnd (XCmp OEq x (v 1%Z)) (XCmp OEq u (v 0%Z)))
    = Ok (mk_iexp (Some (SAnd (SQuery (mk_leaf 0 0 (QEquals (LVal 1%Z)) false)) (SQuery (mk_leaf 1 1 (QEquals (LVal 0%Z)) false)))) None) /\
  (* x = 1 OR <other>  ->  refine only *)
  apply_scalar_indices info (XOr (XCmp OEq x (v 1%Z)) (XOther 7))
    = Ok (refine_only (XOr (XCmp OEq x (v 1%Z)) (XOther 7))) /\
  (* x = 1 AND <other>  ->  index x = 1, refine <other> *)
  apply_scalar_indices info (XAnd (XCmp OEq x (v 1%Z)) (XOther 7))
    = Ok (mk_iexp (Some (SQuery (mk_leaf 0 0 (QEquals (LVal 1%Z)) false))) (Some (XOther 7))) /\
  (* NOT (x = 1 AND <other>) cannot be negated  ->  refine only *)
  apply_scalar_indices info (XNot (XAnd (XCmp OEq x (v 1%Z)) (XOther 7)))
    = Ok (refine_only (XNot (XAnd (XCmp OEq x (v 1%Z)) (XOther 7)))) /\
  (* x IS NOT NULL  ->  NOT([x IS NULL]) *)
  apply_scalar_indices info (XIsNotNull x)
    = Ok (mk_iexp (Some (SNot (SQuery (mk_leaf 0 0 QIsNull false)))) None) /\
  (* x = NULL: refused by the parser *)
  apply_scalar_indices info (XCmp OEq x (TLit LNull)) = Ok (refine_only (XCmp OEq x (TLit LNull))).
Proof. vm_compute. repeat split. Qed.

(* exhaustive small-universe sweep of the theorem's statement: every predicate of depth <= 2 over 17 leaves and
   NOT / AND / OR on a table holding NULL, 0, 1, 2, 3 - two fragments, the second one not covered *)
Definition sweep_leaves : list sexpr :=
  let x := TCol 0 in let v z := TLit (LVal z) in
  [XCmp OEq x (v 1%Z); XCmp ONotEq x (v 1%Z); XCmp OLt x (v 2%Z); XCmp OLtEq x (v 2%Z); XCmp OGt x (v 1%Z); XCmp OGtEq x (v 1%Z);
   XIsNull x; XIsNotNull x; XBetween false x (v 1%Z) (v 2%Z); XBetween true x (v 1%Z) (v 2%Z);
   XInList false x [v 0%Z; v 2%Z]; XInList true x [v 0%Z; v 2%Z]; XCmp OEq x (TLit LNull); XOther 3; XCmp OLt (TOther 1) (v 1%Z);
   XBetween false x (v 2%Z) (v 1%Z); XCmp OLt x (v 0%Z)].
Definition sweep_preds : list sexpr :=
  sweep_leaves ++ map XNot sweep_leaves
  ++ flat_map (fun a => flat_map (fun b => [XAnd a b; XOr a b; XNot (XAnd a b); XNot (XOr a b)]) sweep_leaves) sweep_leaves.
Definition sweep_tbl : list rowT :=
  [mk_row 0 0 [None]; mk_row 1 0 [Some 0%Z]; mk_row 2 0 [Some 1%Z]; mk_row 3 0 [Some 2%Z]; mk_row 4 0 [Some 3%Z];
   mk_row 4294967296 1 [Some 1%Z]; mk_row 4294967297 1 [None]; mk_row 4294967298 1 [Some 2%Z]].
Definition sweep_env : env :=
  {| other_term := fun k r => match val r 0 with Some z => Some (z - 1)%Z | None => None end;
     other_pred := fun k r => match val r 0 with Some z => Some (z =? 1)%Z | None => None end;
     fn_sem := fun _ _ _ => Some false |}.
Definition sweep_ok (bm : bool) (p : sexpr) : bool :=
  let info := info_of int_col0 in
  let ixs := ixs_of sweep_tbl [(0, (0, [0], bm))] in
  Known_C19_not_over_nullable info sweep_tbl p ||
  Known_C19_bitmap_inverted_range info ixs p ||
  match index_scan sweep_env info (exact_search ixs) (exact_cov ixs) sweep_tbl p with
  | Ok rows => list_eqb N.eqb rows (full_scan sweep_env sweep_tbl p)
  | _ => false
  end.
Example ex_sweep : forallb (sweep_ok false) sweep_preds = true /\ forallb (sweep_ok true) sweep_preds = true /\ length sweep_preds = 1190%nat.
Proof. vm_compute. repeat split. Qed.

(* the hypotheses of C19_index_eq_scan are satisfiable by a non-trivial input (and the conclusion computes) *)
Example ex_nonvacuous :
  let info := info_of int_col0 in
  let p := XAnd (XOr (XCmp OLt (TCol 0) (TLit (LVal 2%Z))) (XIsNull (TCol 0))) (XOther 3) in
  Known_C19_not_over_nullable info sweep_tbl p = false /\
  Known_C19_bitmap_inverted_range info (ixs_of sweep_tbl [(0, (0, [0], true))]) p = false /\
  forallb (row_ok info) sweep_tbl = true /\
  (let ixs := ixs_of sweep_tbl [(0, (0, [0], true))] in
   index_scan sweep_env info (exact_search ixs) (exact_cov ixs) sweep_tbl p) = Ok (full_scan sweep_env sweep_tbl p) /\
  full_scan sweep_env sweep_tbl p = [2; 4294967296].
Proof. vm_compute. repeat split. Qed.
