(* C36 - Namespace catalog behaves as a hierarchical map.  Property theorems only.
   Model: Ns/Model_Namespace.v, a transcription of rust/lance-namespace-impls/src/dir.rs and dir/manifest.rs.
     impl_run mode ops   answers of the implementation model: keys are object-id STRINGS (`a$b$c`), every
                         query is the SQL text of manifest.rs with the name spliced between quotes and run
                         through a model of the tokenizer/parser; table directories are computed from names
                         the three ways the code does (PathPart, Url::join, plain path)
     map_run mode ops    the same operations over the finite map keyed by PATHS (lists of names)
     typed_run mode ops  the path-keyed map in which an existence check honours the kind it asks for
   mode: 0 directory only, 1 manifest only, 2 dual.  Operation lists are arbitrary (any length, any
   interleaving of create / drop / describe / exists / list / register / deregister, ids of any depth).
   Proofs: Ns/Proofs_Namespace.v (strings, paging), Ns/Proofs_NamespaceRefine.v (simulation),
   Ns/Proofs_NamespaceMap.v (typed map, frame, directories). *)
From LanceV Require Import Common.Base Ns.Model_Namespace Ns.Proofs_Namespace Ns.Proofs_NamespaceRefine
  Ns.Proofs_NamespaceMap.
From Coq Require Import Sorting.Permutation.
Local Open Scope N_scope.

(* ---------------------------------------------------------------- object ids *)

(* On names without `$` (empty names included) build_object_id is injective and parse_object_id inverts it. *)
Theorem C36_injective : forall ns name ns' name',
  Forall (fun s => has_char DOLLAR s = false) ns -> has_char DOLLAR name = false ->
  Forall (fun s => has_char DOLLAR s = false) ns' -> has_char DOLLAR name' = false ->
  parse_object_id (build_object_id ns name) = (ns, name)
  /\ (build_object_id ns name = build_object_id ns' name' -> ns = ns' /\ name = name').
Proof.
  intros ns name ns' name' H1 H2 H3 H4. split.
  - exact (parse_build ns name H1 H2).
  - exact (build_injective ns name ns' name' H1 H2 H3 H4).
Qed.
Print Assumptions C36_injective.

(* The predicate: a name is stored faithfully when every character is a letter, a digit or one of
   ! & ( ) + , - . ; = @   (the empty name is allowed; `_` is excluded: LIKE wildcard, see below).  Such a name has no `$` and no `'`, and spliced
   between quotes it denotes itself. *)
Theorem C36_storable_literal : forall n, storable n = true ->
  has_char DOLLAR n = false /\ has_char QUOTE n = false /\ lex_splice n = SLit n.
Proof.
  intros n H. split; [exact (storable_nodollar n H)|]. split; [exact (storable_noquote n H)|].
  exact (lex_splice_noquote n (storable_noquote n H)).
Qed.
Print Assumptions C36_storable_literal.

(* ---------------------------------------------------------------- refinement *)

(* For EVERY operation sequence over storable names, in every mode, every answer of the implementation
   model - Ok values and error kinds alike - is the answer of the path-keyed map. *)
Theorem C36_refines_map : forall mode ops,
  Known_C36_delimiter_or_quote_in_name ops = false -> Known_C36_path_unsafe_name ops = false ->
  impl_run mode ops = map_run mode ops.
Proof. intros mode ops H1 H2. apply impl_refines_map. apply storable_of_classes; assumption. Qed.
Print Assumptions C36_refines_map.

(* ... and, when no step addresses a key that holds the other kind of object, of the typed map. *)
Theorem C36_refines_typed_map : forall mode ops,
  Known_C36_delimiter_or_quote_in_name ops = false -> Known_C36_path_unsafe_name ops = false ->
  Known_C36_kind_confusion mode ops = false ->
  impl_run mode ops = typed_run mode ops.
Proof. intros mode ops H1 H2 H3. rewrite (C36_refines_map mode ops H1 H2). apply map_is_typed. exact H3. Qed.
Print Assumptions C36_refines_typed_map.

(* Operations on one key leave every other key untouched: after any history (without an empty
   register_table location) the rows of every key other than the operation's own id are unchanged. *)
Theorem C36_frame : forall mode ops o q,
  Known_C36_register_empty_location ops = false -> q <> op_id o ->
  let s := snd (run path_prims mode init ops) in
  lookup q (rows (snd (step path_prims mode s o))) = lookup q (rows s).
Proof. exact frame_run. Qed.
Print Assumptions C36_frame.

(* What the typed map answers in manifest mode: existence is membership with the right kind, a listing is
   the sorted last components of the keys whose parent is the listed namespace. *)
Theorem C36_typed_map_answers : forall s id tok lim, dead s = false ->
  (id <> [] -> fst (step typed_prims 1 s (OTableExists id)) = if holds true id (rows s) then ADone else AFail E_NS)
  /\ (id <> [] -> fst (step typed_prims 1 s (ONsExists id)) = if holds false id (rows s) then ADone else AFail E_NS)
  /\ fst (step typed_prims 1 s (OListTables id tok lim)) =
     ANames (sort_names (map (fun r => last (r_key r) [])
                             (filter (fun r => Bool.eqb (r_tab r) true && parent_is id (r_key r)) (rows s)))).
Proof.
  intros s id tok lim Hd. split; [|split].
  - intro Hid. apply typed_table_exists; assumption.
  - intro Hid. apply typed_ns_exists; assumption.
  - apply typed_list_tables. exact Hd.
Qed.
Print Assumptions C36_typed_map_answers.

(* map laws: a table that has just been created exists, a table that has just been dropped does not *)
Theorem C36_create_drop_laws : forall s id l v,
  (fst (step typed_prims 1 s (OCreateEmptyTable id)) = ALoc l v ->
   fst (step typed_prims 1 (bump (snd (step typed_prims 1 s (OCreateEmptyTable id)))) (OTableExists id)) = ADone)
  /\ (locs_ok s -> fst (step typed_prims 1 s (ODropTable id)) = ALoc l v ->
      fst (step typed_prims 1 (bump (snd (step typed_prims 1 s (ODropTable id)))) (OTableExists id)) = AFail E_NS).
Proof. intros s id l v. split; [apply create_then_exists | apply drop_then_gone]. Qed.
Print Assumptions C36_create_drop_laws.

(* The directory of a table with a storable id is the same whichever way the code computes it
   (base_path.child, construct_full_uri, table_full_uri), and different tables get different directories. *)
Theorem C36_locations_faithful : forall n k id, storable n = true -> storable_path id = true ->
  (child_key (n ++ DOT_LANCE) = [n ++ DOT_LANCE] /\ resolve_url (n ++ DOT_LANCE) = [n ++ DOT_LANCE]
   /\ resolve_plain (n ++ DOT_LANCE) = [n ++ DOT_LANCE])
  /\ (let dn := (NONCE0 + k) :: USCORE :: join_dollar id in child_key dn = [dn] /\ resolve_url dn = [dn]).
Proof.
  intros n k id Hn Hid. split; [apply root_table_dir_faithful; exact Hn | apply hashed_table_dir_faithful; exact Hid].
Qed.
Print Assumptions C36_locations_faithful.

(* ---------------------------------------------------------------- paging *)

(* apply_pagination (root listing of directory and dual mode): for every page size n >= 1, paging with
   page_token = last name of the previous page until a page is empty returns the sorted listing: every
   name exactly once, no page longer than n. *)
Theorem C36_paging : forall names n fuel,
  NoDup names -> (1 <= n)%Z -> (length names < fuel)%nat ->
  concat (pages fuel names None n) = sort_names names
  /\ Forall (fun p => (length p <= Z.to_nat n)%nat /\ p <> []) (pages fuel names None n)
  /\ NoDup (concat (pages fuel names None n))
  /\ (forall x, In x names <-> In x (concat (pages fuel names None n))).
Proof. exact paging_complete. Qed.
Print Assumptions C36_paging.

(* the directory-mode listing IS apply_pagination of the table directories *)
Theorem C36_paging_is_used : forall s tok lim,
  fst (step string_prims 0 s (OListTables [] tok lim)) = ANames (apply_pagination (dir_tables (dsk s)) tok lim).
Proof. reflexivity. Qed.
Print Assumptions C36_paging_is_used.

(* the names it lists are distinct, so C36_paging applies to every directory-mode listing *)
Theorem C36_dir_listing_nodup : forall s : state str, NoDup (dir_tables (dsk s)).
Proof. intro s. apply dir_tables_nodup. Qed.
Print Assumptions C36_dir_listing_nodup.

(* ---------------------------------------------------------------- refuted parts (reproduced on the real code) *)

(* F10. "Names that cannot be stored faithfully are rejected" is false: a name with `$` is accepted and
   aliases another path; a name with `'` selects another object. *)
Definition rejects_unstorable (mode : N) (ops : list op) : Prop :=
  forall i o a, nth_error ops i = Some o -> nth_error (impl_run mode ops) i = Some a ->
                storable_op o = false -> exists k, a = AFail k.

Theorem C36_rejects_unstorable_refuted :
  exists mode ops, Known_C36_delimiter_or_quote_in_name ops = true /\ ~ rejects_unstorable mode ops.
Proof.
  exists 1, [OCreateNs [[120; 36; 121]]; ONsExists [[120]; [121]]]. split; [reflexivity|].
  intro H. destruct (H 0%nat (OCreateNs [[120; 36; 121]]) ADone eq_refl eq_refl eq_refl) as [k Hk]. discriminate.
Qed.
Print Assumptions C36_rejects_unstorable_refuted.

(* the aliases themselves: x$y is served as (x, y); (a, b$c) as (a, b, c); a'$'b as a; and
   drop_table(a'$'b) removes the catalog *)
Theorem C36_delimiter_or_quote_in_name_refuted :
  impl_run 1 [OCreateNs [[120; 36; 121]]; ONsExists [[120]; [121]]; OListNs [] None None] = [ADone; ADone; ANames []]
  /\ impl_run 1 [OCreateNs [[97]]; OCreateNs [[97]; [98]]; OCreateEmptyTable [[97]; [98; 36; 99]];
                 OTableExists [[97]; [98]; [99]]; OListTables [[97]] None None; OListTables [[97]; [98]] None None]
     = [ADone; ADone; ALoc [35; 95; 97; 36; 98; 36; 99] false; ADone; ANames []; ANames [[99]]]
  /\ impl_run 1 [OCreateNs [[97]]; OTableExists [[97; 39; 36; 39; 98]]; ODropTable [[97; 39; 36; 39; 98]];
                 OListNs [] None None]
     = [ADone; ADone; ALoc [] false; AFail E_IO]
  /\ impl_run 1 [OCreateEmptyTable [[120; 39; 39; 121]]; OTableExists [[120; 39; 39; 121]]]
     = [ALoc [35; 95; 120; 39; 39; 121] false; AFail E_NS]
  /\ impl_run 1 [OTableExists [[39; 47; 98; 39]]] = [APanic].
Proof. vm_compute. repeat split; reflexivity. Qed.
Print Assumptions C36_delimiter_or_quote_in_name_refuted.

(* `/` and non-ASCII names: the dataset and the directory the catalog removes differ (drop_table fails after
   the row is gone); the children filter of a non-ASCII namespace lists a grandchild *)
Theorem C36_path_unsafe_name_refuted :
  Known_C36_path_unsafe_name [OCreateTable [[99; 47; 100]]] = true
  /\ impl_run 1 [OCreateTable [[99; 47; 100]]; ODropTable [[99; 47; 100]]; OTableExists [[99; 47; 100]]]
     = [ALoc [35; 95; 99; 47; 100] true; AFail E_NS; AFail E_NS]
  /\ impl_run 1 [OCreateNs [[233; 233]]; OCreateNs [[233; 233]; [97]]; OCreateEmptyTable [[233; 233]; [97]; [98]];
                 OListTables [[233; 233]] None None]
     = [ADone; ADone; ALoc [35; 95; 233; 233; 36; 97; 36; 98] false; ANames [[98]]]
  /\ map_run 1 [OCreateNs [[233; 233]]; OCreateNs [[233; 233]; [97]]; OCreateEmptyTable [[233; 233]; [97]; [98]];
                OListTables [[233; 233]] None None]
     = [ADone; ADone; ALoc [35; 95; 233; 233; 36; 97; 36; 98] false; ANames []].
Proof. vm_compute. repeat split; reflexivity. Qed.
Print Assumptions C36_path_unsafe_name_refuted.

(* `_` in a namespace name is a LIKE wildcard of the prefix filters: listing namespace `_` also returns the
   tables of namespace b, and drop_namespace(_) is refused because b has children *)
Theorem C36_like_wildcard_in_name_refuted :
  let ops := [OCreateNs [[95]]; OCreateNs [[98]]; OCreateEmptyTable [[98]; [120]]; OListTables [[95]] None None; ODropNs [[95]]] in
  Known_C36_like_wildcard_in_name ops = true /\ Known_C36_path_unsafe_name ops = true
  /\ impl_run 1 ops = [ADone; ADone; ALoc [35; 95; 98; 36; 120] false; ANames [[120]]; AFail E_NS]
  /\ map_run 1 ops = [ADone; ADone; ALoc [35; 95; 98; 36; 120] false; ANames []; ADone].
Proof. vm_compute. repeat split; reflexivity. Qed.
Print Assumptions C36_like_wildcard_in_name_refuted.

(* kind confusion: table_exists of a namespace; drop_namespace deletes a table *)
Theorem C36_kind_confusion_refuted :
  let ops := [OCreateNs [[110]]; OTableExists [[110]]; OCreateEmptyTable [[116]]; ODropNs [[116]]; OTableExists [[116]]] in
  Known_C36_kind_confusion 1 ops = true
  /\ impl_run 1 ops = [ADone; ADone; ALoc [35; 95; 116] false; ADone; AFail E_NS]
  /\ typed_run 1 ops = [ADone; AFail E_NS; ALoc [35; 95; 116] false; AFail E_NS; ADone].
Proof. vm_compute. repeat split; reflexivity. Qed.
Print Assumptions C36_kind_confusion_refuted.

(* manifest listings ignore limit and page_token *)
Theorem C36_manifest_listing_ignores_paging_refuted :
  let ops := [OCreateEmptyTable [[97]]; OCreateEmptyTable [[98]]; OListTables [] None (Some 1%Z); OListTables [] (Some [97]) None] in
  Known_C36_manifest_listing_ignores_paging 1 ops = true
  /\ impl_run 1 ops = [ALoc [35; 95; 97] false; ALoc [35; 95; 98] false; ANames [[97]; [98]]; ANames [[97]; [98]]].
Proof. vm_compute. repeat split; reflexivity. Qed.
Print Assumptions C36_manifest_listing_ignores_paging_refuted.

(* dual mode: a name is listed twice *)
Theorem C36_dual_listing_duplicate_name_refuted :
  let ops := [OCreateEmptyTable [[97]]; OCreateEmptyTable [[98]]; ODeregisterTable [[97]];
              ORegisterTable [[97]] [98; 46; 108; 97; 110; 99; 101]; OListTables [] None None] in
  Known_C36_dual_listing_duplicate_name 2 ops = true
  /\ nth_error (impl_run 2 ops) 4 = Some (ANames [[97]; [97]; [98]]).
Proof. vm_compute. repeat split; reflexivity. Qed.
Print Assumptions C36_dual_listing_duplicate_name_refuted.

(* register_table with an empty location, then drop_table: the whole catalog is removed *)
Theorem C36_register_empty_location_refuted :
  let ops := [OCreateEmptyTable [[116]]; ORegisterTable [[114]] []; ODropTable [[114]]; OTableExists [[116]]] in
  Known_C36_register_empty_location ops = true
  /\ Known_C36_delimiter_or_quote_in_name ops = false /\ Known_C36_path_unsafe_name ops = false
  /\ impl_run 1 ops = [ALoc [35; 95; 116] false; ALoc [114; 58] false; ALoc [] false; AFail E_IO].
Proof. vm_compute. repeat split; reflexivity. Qed.
Print Assumptions C36_register_empty_location_refuted.

(* ---------------------------------------------------------------- non-vacuity *)

(* a history of nested namespaces and tables over storable names (".", "-", digits, an empty name) that is
   outside every class, with its answers *)
Example C36_nonvacuous :
  let a := [97] in let dot := [46; 46] in let t := [116; 46; 49] in
  let ops := [OCreateNs [a]; OCreateNs [a; dot]; OCreateNs [a; dot; []]; OCreateEmptyTable [a; dot; t];
              OCreateTable [a; t]; OListTables [a; dot] None None; OListNs [a] None None;
              ODropNs [a; dot]; ODropTable [a; dot; t]; ODropNs [a; dot; []]; ODropNs [a; dot]; OTableExists [a; t];
              ODescribeTable [a; t]; OListNs [a] None None] in
  Known_C36_delimiter_or_quote_in_name ops = false /\ Known_C36_path_unsafe_name ops = false
  /\ Known_C36_kind_confusion 2 ops = false /\ Known_C36_register_empty_location ops = false
  /\ impl_run 2 ops = [ADone; ADone; ADone; ALoc [35; 95; 97; 36; 46; 46; 36; 116; 46; 49] false;
                       ALoc [35; 95; 97; 36; 116; 46; 49] true; ANames [t]; ANames [dot];
                       AFail E_NS; ALoc [35; 95; 97; 36; 46; 46; 36; 116; 46; 49] false; ADone; ADone; ADone;
                       ALoc [35; 95; 97; 36; 116; 46; 49] true; ANames []]
  /\ typed_run 2 ops = impl_run 2 ops.
Proof. vm_compute. repeat split; reflexivity. Qed.

Example C36_paging_nonvacuous :
  pages 10 [[98]; [97]; [99]; [97; 97]; [66]] None 2 = [[[66]; [97]]; [[97; 97]; [98]]; [[99]]].
Proof. vm_compute. reflexivity. Qed.
