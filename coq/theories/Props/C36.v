(* C36 - Namespace catalog behaves as a hierarchical map.  (statements are being added) *)
From LanceV Require Import Common.Base Ns.Model_Namespace.
Local Open Scope N_scope.

Example C36_model_runs :
  impl_run 1 [OCreateNs [[97]]; ONsExists [[97]]] = [ADone; ADone].
Proof. vm_compute. reflexivity. Qed.
