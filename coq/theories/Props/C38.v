(* C38 - Caching is transparent.
   Property theorems only; model in Store/Model_Cache.v (+ Store/Model_History.v), proofs in Store/Proofs_Cache.v.
   Cache = partial map with ARBITRARY eviction (`exec`: before every call any subset of the entries may disappear;
   capacity 0 = everything disappears at once); `get_or_load` = LanceCache::get_or_insert; inserts as done by the
   commit path and by load_manifest.  Keys transcribed per cached type (Model_Cache.v ckey).
   Quantifiers are real: ANY key/value types, ANY request list, ANY eviction behaviour (C38_get_or_load_transparent);
   ANY session trace over any number of table URIs made of appends, deletes, updates, compactions, column changes,
   index creations, overwrites, restores, config changes, tag operations, table creations and reads of any cached
   type at any version / fragment, interleaved arbitrarily (C38_transparent, C38_keys_determine_source).
   (H) "the key determines the stored object" is FALSE for two classes, both reproduced on the real code:
     Known_C38_fragment_keyed_cache_across_overwrite   RowIdSequenceKey{fragment_id}: Overwrite restarts fragment ids
     Known_C38_version_keyed_cache_across_recreate     TransactionKey / IndexMetadataKey / RowIdMaskKey / RowIdIndexKey
                                                        {version} and RowIdSequenceKey{fragment_id} carry neither the
                                                        e-tag nor any generation of the table at the URI *)
From LanceV Require Import Common.Base Store.Model_History Store.Proofs_History Store.Model_Cache Store.Proofs_Cache.
Local Open Scope N_scope.

(* the generic statement: (H) => for all eviction behaviours get_or_load returns what the store holds *)
Theorem C38_get_or_load_transparent : forall (K V : Type) (keqb : K -> K -> bool),
  (forall a b, keqb a b = true -> a = b) ->
  forall (rs : list (request K V)) outs,
  functional K V rs -> exec keqb [] rs outs -> outs = map (fun r => snd (snd r)) rs.
Proof.
  intros K V keqb Hk rs outs F E. eapply exec_transparent; [exact Hk | exact E | exact F | apply coh_empty].
Qed.
Print Assumptions C38_get_or_load_transparent.

(* (H) discharged per key type from immutability (C06): in a session without cleanup and without removal of a table
   directory, manifest (by e-tag), transaction, index metadata, row id mask, row id index (by version) and deletion
   vector (by fragment, read version, id) keys determine the stored object; the fragment-keyed row id sequence key
   does whenever no two reads give it different sequences *)
Theorem C38_keys_determine_source : forall (oracle : store -> N), (forall s, unused (oracle s) s) ->
  forall (etag : manifest -> N) tr s,
  no_cleanup tr = true -> Known_C38_version_keyed_cache_across_recreate tr = false ->
  Known_C38_fragment_keyed_cache_across_overwrite oracle etag s tr = false ->
  functional ckey cval (requests oracle etag s tr).
Proof.
  intros oracle Hf etag tr s NC ND NO. apply requests_functional; [exact Hf | apply ok_trace_of; assumption | exact NO].
Qed.
Print Assumptions C38_keys_determine_source.

Theorem C38_transparent : forall (oracle : store -> N), (forall s, unused (oracle s) s) ->
  forall (etag : manifest -> N) tr s outs,
  no_cleanup tr = true ->
  Known_C38_version_keyed_cache_across_recreate tr = false ->
  Known_C38_fragment_keyed_cache_across_overwrite oracle etag s tr = false ->
  exec ckey_eqb [] (requests oracle etag s tr) outs ->
  outs = map (fun r => snd (snd r)) (requests oracle etag s tr).
Proof. intros oracle Hf etag tr s outs NC ND NO E. eapply session_transparent; eassumption. Qed.
Print Assumptions C38_transparent.

(* B2: (H) is false for RowIdSequenceKey{fragment_id} across an Overwrite - no removal of a directory, no cleanup, no
   eviction needed: the read of version 2's fragment 0 is answered with version 1's sequence *)
Theorem C38_fragment_keyed_cache_across_overwrite_refuted :
  exists tr, no_cleanup tr = true /\ Known_C38_version_keyed_cache_across_recreate tr = false /\
    Known_C38_fragment_keyed_cache_across_overwrite oracle_max etag0 [] tr = true /\
    exists outs, exec ckey_eqb [] (requests oracle_max etag0 [] tr) outs /\
                 outs <> map (fun r => snd (snd r)) (requests oracle_max etag0 [] tr).
Proof.
  exists tr_overwrite. destruct overwrite_witness as [A [B [C [outs [E [M O]]]]]].
  repeat split; try assumption. exists outs. split; [exact E|]. rewrite M, O. discriminate.
Qed.
Print Assumptions C38_fragment_keyed_cache_across_overwrite_refuted.

(* (H) is false for the version-only keys and the fragment-only key across delete-directory-and-recreate at the same
   URI: transaction, index metadata, row id index and row id sequence of the new table are answered with the old
   table's objects *)
Theorem C38_version_keyed_cache_across_recreate_refuted :
  exists tr, no_cleanup tr = true /\ Known_C38_version_keyed_cache_across_recreate tr = true /\
    exists outs, exec ckey_eqb [] (requests oracle_max etag0 [] tr) outs /\
                 outs <> map (fun r => snd (snd r)) (requests oracle_max etag0 [] tr).
Proof.
  exists tr_recreate. destruct recreate_witness as [A [B [outs [E [N _]]]]].
  repeat split; try assumption. exists outs. split; assumption.
Qed.
Print Assumptions C38_version_keyed_cache_across_recreate_refuted.

(* non-vacuity: two tables sharing the session, deletions, tags, an append, reads of every cached type; outside
   both classes, and the no-eviction execution answers every read with the stored object *)
Example C38_nonvacuous :
  no_cleanup tr_deletion_ok = true /\ Known_C38_version_keyed_cache_across_recreate tr_deletion_ok = false /\
  Known_C38_fragment_keyed_cache_across_overwrite oracle_max etag0 [] tr_deletion_ok = false /\
  length (requests oracle_max etag0 [] tr_deletion_ok) = 10%nat /\
  run_cache ckey_eqb [] (requests oracle_max etag0 [] tr_deletion_ok) = map (fun r => snd (snd r)) (requests oracle_max etag0 [] tr_deletion_ok).
Proof. vm_compute. repeat split; reflexivity. Qed.
