(* C27 - Repetition/definition levels encode nesting losslessly. Property theorems only.

   [call]            : the public RepDefBuilder calls of one page, outermost layer first
   [spec_top cs]     : model-independent meaning of the calls: per layer the validity AND-ed with all
                       enclosing layers (what Arrow defines) and the normalized offsets (null lists
                       have length 0); None if the calls are not well formed (lengths disagree,
                       offsets not sorted, a list behind a null ancestor is not empty)
   [roundtrip cs]    : RepDefBuilder::serialize followed by CompositeRepDefUnraveler over all layers,
                       in the transcription of repdef.rs (Model_RepDef.v)                              *)
From LanceV Require Import Common.Base Codec.Model_RepDef Codec.Proofs_RepDef.
Local Open Scope N_scope.

(* Round trip, for EVERY well-formed stack of validity / list layers of any depth and any lengths,
   outside the one remaining class in which the real code (and the model) lose information.
   (Two former classes - list_of_nullable_struct_repdef (F21) and allvalid_list_over_nullable_items -
   were repaired in /repo (d90c193, acc257d); the model follows the repaired code and the theorem now
   covers their inputs; see the regression examples below.) *)
Theorem C27_roundtrip : forall (cs : list call) (outs : list layer_out),
  spec_top cs = Some outs ->
  c27_dom cs = true ->
  Known_C27_allvalid_list_inside_nullable_struct cs = false ->
  roundtrip cs = Ok (rev outs).
Proof. exact roundtrip_correct. Qed.
Print Assumptions C27_roundtrip.

(* The reader side on its own: whatever state the (abstract) serializer is in before a suffix of the
   layers, unravelling the levels it finally produces gives back those layers and that state.
   This is the induction the round trip rests on; stated here because it is the lossless-ness of the
   level encoding itself, independent of the builder. *)
Theorem C27_unravel_inverts_serialize : forall hr hd M items rs es cr cd ms,
  M = rev (ms ++ map lm rs) ->
  cd = mlev (map lm rs) -> cr = mlists (map lm rs) ->
  Forall (eok (levels_to_rep M) cd cr (mrc (map lm rs)) (rev ms)) es ->
  uls_pre hr hd rs (es, cr, cd, ms) ->
  forall u0, relu hr hd M items 0 0 O u0 (st_es (a_layers rs (es, cr, cd, ms))) ->
  exists u1, unravel_st [u0] (rev (map lkind rs)) = Ok ([u1], rev (a_outs rs (es, cr, cd, ms))) /\
             relu hr hd M items cd cr (length rs) u1 es.
Proof. exact unravel_layers. Qed.
Print Assumptions C27_unravel_inverts_serialize.

(* The buffer-level SerializerContext follows the abstract serializer (no panic, same entries). *)
Theorem C27_serializer_refines : forall hr hd total rs c es cr cd ms cl,
  cinv hr hd total c es cr cd ms cl ->
  layers_pre hr hd total rs (es, cr, cd, ms) cl ->
  exists c', record_layers c rs = Ok c' /\
    let '(es', cr', cd', ms') := a_layers rs (es, cr, cd, ms) in
    cinv hr hd total c' es' cr' cd' ms' (layers_len rs (es, cr, cd, ms) cl).
Proof. exact record_layers_ok. Qed.
Print Assumptions C27_serializer_refines.

(* Control words (both levels present): for all level lists within the declared maxima, the bytes written
   by build_control_word_iterator / append_next parse back, with ControlWordParser::new(bits_rep, bits_def),
   to exactly the same (rep, def) levels, for every word width (1, 2 or 4 bytes), and writer and reader
   agree on is_new_row / is_visible / is_valid_item. *)
Theorem C27_control_words : forall rep def mr md mv len,
  length rep = length def ->
  1 <= mr -> mr < 32768 -> 1 <= md -> md < 32768 ->
  Forall (fun r => r <= mr) rep -> Forall (fun d => d <= md) def ->
  let descs := map2 (fun r d => (r =? mr, d <=? mv, d =? 0)) rep def in
  exists bpw br bd bs,
    cw_encode (Some rep) (Some def) mr md mv len = Ok (bpw, br, bd, true, bs, descs, true) /\
    (do p <- parser_new br bd; parse_all p bs mr mv (S (length bs))) = Ok (rep, def, descs).
Proof. exact control_words_roundtrip. Qed.
Print Assumptions C27_control_words.

(* ---- the known-finding classes are real: a well-formed member of each class on which the round trip fails *)
Definition T := true. Definition F := false.

(* regression examples: the inputs of the two repaired classes now round trip (and lie in the theorem's domain) *)
Example C27_regression_list_of_nullable_struct_a :
  let cs := [COffsets [0;1;1] None; CValidity [T]; CValidity [F]] in
  c27_dom cs = true /\ Known_C27_allvalid_list_inside_nullable_struct cs = false /\
  roundtrip cs = Ok [(Some [F], None); (Some [T], None); (None, Some [0;1;1])].
Proof. vm_compute. repeat split; reflexivity. Qed.
Example C27_regression_list_of_nullable_struct_b :
  let cs := [COffsets [0;0;0] (Some [F;T]); CValidity []] in
  c27_dom cs = true /\ Known_C27_allvalid_list_inside_nullable_struct cs = false /\
  roundtrip cs = Ok [(Some [], None); (Some [F;T], Some [0;0;0])].
Proof. vm_compute. repeat split; reflexivity. Qed.
Example C27_regression_allvalid_list_over_nullable_items :
  let cs := [COffsets [0;2;3] None; CValidity [F;T;T]] in
  c27_dom cs = true /\ Known_C27_allvalid_list_inside_nullable_struct cs = false /\
  roundtrip cs = Ok [(Some [F;T;T], None); (None, Some [0;2;3])].
Proof. vm_compute. repeat split; reflexivity. Qed.

Theorem C27_allvalid_list_inside_nullable_struct_refuted :
  exists cs outs, Known_C27_allvalid_list_inside_nullable_struct cs = true /\ c27_dom cs = true /\
                  spec_top cs = Some outs /\ roundtrip cs <> Ok (rev outs).
Proof.
  exists [COffsets [0;1;1] (Some [T;F]); CValidity [T]; COffsets [0;2] None; CNoNull 2]. eexists.
  split; [vm_compute; reflexivity|]. split; [vm_compute; reflexivity|]. split; [vm_compute; reflexivity|].
  vm_compute. discriminate.
Qed.
Print Assumptions C27_allvalid_list_inside_nullable_struct_refuted.

(* ---- non-vacuity: the hypotheses of C27_roundtrip hold for the stack of the Rust unit test
   test_repdef_basic (two nullable list layers over nullable items), and the conclusion computes *)
Example C27_nonvacuous :
  let cs := [COffsets [0;2;2;5] (Some [T;F;T]); COffsets [0;1;3;5;5;9] (Some [T;T;T;F;T]);
             CValidity [T;T;T;F;F;F;T;T;F]] in
  c27_dom cs = true /\
  Known_C27_allvalid_list_inside_nullable_struct cs = false /\
  spec_top cs = Some [(Some [T;F;T], Some [0;2;2;5]); (Some [T;T;T;F;T], Some [0;1;3;5;5;9]);
                      (Some [T;T;T;F;F;F;T;T;F], None)] /\
  roundtrip cs = Ok [(Some [T;T;T;F;F;F;T;T;F], None); (Some [T;T;T;F;T], Some [0;1;3;5;5;9]);
                     (Some [T;F;T], Some [0;2;2;5])].
Proof. vm_compute. repeat split; reflexivity. Qed.

(* a struct with nulls over a list with null, empty and garbage-behind-null lists over nullable items *)
Example C27_nonvacuous_masked :
  let cs := [CValidity [T;F;T;T]; COffsets [3;5;5;5;9] (Some [T;F;T;F]); CValidity [T;F]] in
  c27_dom cs = true /\
  Known_C27_allvalid_list_inside_nullable_struct cs = false /\
  roundtrip cs = Ok [(Some [T;F], None); (Some [T;F;T;F], Some [0;2;2;2;2]); (Some [T;F;T;T], None)].
Proof. vm_compute. repeat split; reflexivity. Qed.

Example C27_control_words_nonvacuous :
  cw_encode (Some [0;7;3;2;9;8;12;5]) (Some [5;3;1;2;12;22;0;2]) 12 22 23 8
  = Ok (2, 4, 5, true, [5; 0; 227; 0; 97; 0; 66; 0; 44; 1; 22; 1; 128; 1; 162; 0],
        [(false, true, false); (false, true, false); (false, true, false); (false, true, false);
         (false, true, false); (false, true, false); (true, true, true); (false, true, false)], true).
Proof. vm_compute. reflexivity. Qed.
