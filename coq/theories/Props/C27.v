(* C27 - Repetition/definition levels encode nesting losslessly. Property theorems only. *)
From LanceV Require Import Common.Base Codec.Model_RepDef Codec.Proofs_RepDef.
Local Open Scope N_scope.

Example C27_basic_roundtrip :
  roundtrip [COffsets [0;2;2;5] (Some [true;false;true]); COffsets [0;1;3;5;5;9] (Some [true;true;true;false;true]);
             CValidity [true;true;true;false;false;false;true;true;false]]
  = Ok [(Some [true; true; true; false; false; false; true; true; false], None);
        (Some [true; true; true; false; true], Some [0; 1; 3; 5; 5; 9]);
        (Some [true; false; true], Some [0; 2; 2; 5])].
Proof. vm_compute. reflexivity. Qed.
