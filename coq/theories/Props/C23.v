(* C23 - Full-text search matches the tokenised documents.  Property theorems only.

   Model: Index/Model_Fts.v.  The tokenizer is outside (the harness applies the real one).  `spec_match q d`: the
   tokenised evaluator (term / OR / AND / phrase = consecutive positions / boolean).  `impl_match known indexed q d`:
   what the implementation returns for a row (indexed path incl. the transcribed Wand::check_positions; flat path
   over unindexed rows), `known` = vocabulary of the row's index partition.

   PARTIAL: the WAND cursor machinery (pivot selection, block-max skipping, posting iterators) is NOT transcribed;
   WAND enters only as "returns the scored matching set" plus C23_wand_safe_partial.  BM25 scores are not modelled
   (harness oracle only).  Five defect classes of the real code are excluded and refuted below. *)
From LanceV Require Import Common.Base Index.Model_Fts Index.Proofs_Fts Index.Model_TopK Index.Proofs_TopK.
From Coq Require Import Permutation.
Local Open Scope N_scope.

(* ---- known-finding class predicates on (query, row is unindexed, partition vocabulary) *)
Fixpoint long_phrase_leaf (repeated : bool) (q : fquery) : bool :=
  match q with
  | QMatch _ _ => false
  | QPhrase ts => (3 <=? length ts)%nat && Bool.eqb repeated (negb (list_eqb N.eqb (dedup ts) ts))
  | QBool a b c => existsb (long_phrase_leaf repeated) a || existsb (long_phrase_leaf repeated) b || existsb (long_phrase_leaf repeated) c
  end.
(* F22a: a phrase of >= 3 tokens with a repeated token *)
Definition Known_C23_phrase_repeated_term (q : fquery) : bool := long_phrase_leaf true q.
(* new: a phrase of >= 3 distinct tokens (same mechanism: check_positions overshoots when a later token occurs early) *)
Definition Known_C23_phrase_later_term_early (q : fquery) : bool := long_phrase_leaf false q.
(* F22b: an AND match query with >= 2 distinct tokens evaluated on an unindexed row *)
Definition Known_C23_flat_path_and_as_or (q : fquery) (unindexed : bool) : bool := unindexed && negb (and_single q).
(* F22c: a phrase evaluated on an unindexed row *)
Definition Known_C23_flat_path_no_phrase (q : fquery) (unindexed : bool) : bool := unindexed && negb (no_phrase q).
(* new: an AND match query with a token that is missing from the index partition's vocabulary (and another that is not) *)
Definition Known_C23_and_unknown_term (known : N -> bool) (q : fquery) (unindexed : bool) : bool :=
  negb unindexed && negb (and_known known q).

Lemma long_phrase_none : forall q, long_phrase_leaf true q = false -> long_phrase_leaf false q = false -> phrase_le2 q = true.
Proof.
  induction q as [a ts|ts|a b c Ha Hb Hc] using fquery_ind'; intros H1 H2; [reflexivity| |].
  - cbn [long_phrase_leaf phrase_le2] in *. destruct (3 <=? length ts)%nat eqn:E.
    + cbn [andb] in H1, H2. destruct (negb (list_eqb N.eqb (dedup ts) ts)); cbn in H1, H2; discriminate.
    + apply Nat.leb_gt in E. apply Nat.leb_le. lia.
  - cbn [long_phrase_leaf phrase_le2] in *.
    apply orb_false_iff in H1, H2. destruct H1 as [H1 H1c], H2 as [H2 H2c].
    apply orb_false_iff in H1, H2. destruct H1 as [H1a H1b], H2 as [H2a H2b].
    assert (G : forall l, Forall (fun q => long_phrase_leaf true q = false -> long_phrase_leaf false q = false -> phrase_le2 q = true) l ->
                existsb (long_phrase_leaf true) l = false -> existsb (long_phrase_leaf false) l = false -> forallb phrase_le2 l = true).
    { intros l H. induction H as [|x l Hx _ IH]; intros F1 F2; [reflexivity|].
      cbn [existsb] in F1, F2. apply orb_false_iff in F1, F2. destruct F1, F2. cbn [forallb]. rewrite Hx, IH by assumption. reflexivity. }
    rewrite (G a Ha), (G b Hb), (G c Hc) by assumption. reflexivity.
Qed.
Print Assumptions long_phrase_none.

(* MATCH SET, row level: for every query, every document (token list), every partition vocabulary containing the
   document's tokens: outside the five classes the implementation's verdict is the tokenised evaluator's. *)
Theorem C23_match_row : forall (known : N -> bool) (unindexed : bool) (q : fquery) (d : list N),
  (unindexed = false -> forall t, mem t d = true -> known t = true) ->
  Known_C23_phrase_repeated_term q = false -> Known_C23_phrase_later_term_early q = false ->
  Known_C23_flat_path_and_as_or q unindexed = false -> Known_C23_flat_path_no_phrase q unindexed = false ->
  Known_C23_and_unknown_term known q unindexed = false ->
  impl_match known (negb unindexed) q d = Some (spec_match q d).
Proof.
  intros known unindexed q d Hv K1 K2 K3 K4 K5. destruct unindexed; cbn [negb].
  - unfold Known_C23_flat_path_and_as_or, Known_C23_flat_path_no_phrase in K3, K4. cbn [andb] in K3, K4.
    apply negb_false_iff in K3, K4. apply impl_spec_flat; assumption.
  - unfold Known_C23_and_unknown_term in K5. cbn [negb andb] in K5. apply negb_false_iff in K5.
    apply impl_spec_indexed; [apply Hv; reflexivity | apply long_phrase_none; assumption | exact K5].
Qed.
Print Assumptions C23_match_row.

(* MATCH SET, table level: result doc set = { live rows whose token list the evaluator accepts } (indexed rows minus
   deleted ones, plus matching unindexed rows), whenever no row/query pair falls in a class.  One index partition. *)
Theorem C23_match_set : forall (indexed fresh : list (N * option (list N))) (deleted : list N) (q : fquery),
  Known_C23_phrase_repeated_term q = false -> Known_C23_phrase_later_term_early q = false ->
  Known_C23_and_unknown_term (vocab_of indexed) q false = false ->
  (fresh <> [] -> Known_C23_flat_path_and_as_or q true = false /\ Known_C23_flat_path_no_phrase q true = false) ->
  fts_search true indexed fresh deleted q =
    Ok (sort_n (map fst (filter (fun rd => match snd rd with
                                           | Some d => negb (mem (fst rd) deleted) && spec_match q d
                                           | None => false
                                           end) (indexed ++ fresh)))).
Proof.
  intros indexed fresh deleted q K1 K2 K5 Kf. unfold fts_search. cbv zeta. cbn [negb andb].
  set (known := vocab_of indexed).
  set (ev := fun (ix : bool) (rd : N * option (list N)) =>
       match snd rd with Some d => if mem (fst rd) deleted then Some false else impl_match known ix q d | None => Some false end).
  set (sp := fun rd : N * option (list N) => match snd rd with Some d => negb (mem (fst rd) deleted) && spec_match q d | None => false end).
  assert (EI : forall rd, In rd indexed -> ev true rd = Some (sp rd)).
  { intros [r od] Hin. unfold ev, sp. cbn [fst snd]. destruct od as [d|]; [|reflexivity].
    destruct (mem r deleted); [reflexivity|]. cbn [negb andb].
    apply (C23_match_row known false q d); try assumption; try reflexivity.
    intros _ t Ht. unfold known, vocab_of. apply existsb_exists. exists (r, Some d). split; [exact Hin | exact Ht]. }
  assert (EF : forall rd, In rd fresh -> ev false rd = Some (sp rd)).
  { intros [r od] Hin. unfold ev, sp. cbn [fst snd]. destruct od as [d|]; [|reflexivity].
    destruct (mem r deleted); [reflexivity|]. cbn [negb andb].
    destruct Kf as [K3 K4]; [intros ->; destruct Hin|].
    apply (C23_match_row known true q d); try assumption; try reflexivity. discriminate. }
  match goal with |- context [map ?f indexed ++ map ?g fresh] =>
    replace (map f indexed ++ map g fresh) with (map (fun rd => (fst rd, Some (sp rd))) (indexed ++ fresh))
  end.
  2:{ rewrite map_app. f_equal; apply map_ext_in; intros rd Hin; cbv beta;
        [rewrite <- (EI rd Hin) | rewrite <- (EF rd Hin)]; reflexivity. }
  clear EI EF.
  assert (NoNone : existsb (fun x : N * option bool => match snd x with None => true | Some _ => false end)
                     (map (fun rd => (fst rd, Some (sp rd))) (indexed ++ fresh)) = false).
  { induction (indexed ++ fresh) as [|x l IH]; [reflexivity | cbn [map existsb snd]; exact IH]. }
  rewrite NoNone. clear NoNone. f_equal. f_equal.
  induction (indexed ++ fresh) as [|x l IH]; [reflexivity|]. cbn [map filter snd fst].
  destruct (sp x); cbn [map fst]; rewrite IH; reflexivity.
Qed.
Print Assumptions C23_match_set.

(* index construction from token lists <-> lookup: the posting list found for a token is exactly, in row order, the
   rows containing it with all its positions *)
Theorem C23_posting_lists_faithful : forall (t : N) (part : list (N * option (list N))),
  NoDup (map fst part) ->
  lookup t (build part) = posting t part /\
  forall rid ps, In (rid, ps) (posting t part) <->
                 exists d, In (rid, Some d) part /\ ps = positions_of t d 0%Z /\ ps <> [].
Proof. intros t part ND. split; [apply lookup_build, ND | intros rid ps; apply posting_spec]. Qed.
Print Assumptions C23_posting_lists_faithful.

(* the transcribed Wand::check_positions (slop 0) terminates within its fuel and decides "consecutive positions"
   for phrases of one or two tokens; for >= 3 tokens it does not (refutations below) *)
Theorem C23_phrase_positions : forall (a b : N) (d : list N),
  check_positions 0%Z [a] d = Some true /\
  check_positions 0%Z [a; b] d = Some (has_sublist [a; b] d) /\
  (has_sublist [a; b] d = true <-> exists p, In p (positions_of a d 0%Z) /\ In (p + 1)%Z (positions_of b d 0%Z)).
Proof. intros a b d. split; [apply check_positions_one | split; [apply check_positions_two | apply has_sublist_two]]. Qed.
Print Assumptions C23_phrase_positions.

(* WAND safety, set level (PARTIAL: wand.rs' cursors are not transcribed): docs with score `score`, upper bounds
   `ub >= score`; pruning every doc whose upper bound is <= a threshold that is at most the k-th best score among the
   kept docs never changes the top-k (ties arbitrary). *)
Theorem C23_wand_safe_partial : forall (A : Type) (score ub : A -> Z) (k : nat) (l kept dropped : list A) (theta : Z) (s : list A),
  Permutation l (kept ++ dropped) ->
  (forall x, (score x <= ub x)%Z) ->
  (forall y, In y dropped -> (ub y <= theta)%Z) ->
  (k <= length (filter (fun z => (theta <=? score z)%Z) kept))%nat ->
  is_topk key_leb (fun x => KNum (- score x)) k kept s ->
  is_topk key_leb (fun x => KNum (- score x)) k l s.
Proof.
  intros A score ub k l kept dropped theta s PL Hub Hdrop Hgood Hs.
  apply (wand_safe key_leb key_leb_total key_leb_trans (fun x => KNum (- score x)) k l kept dropped (KNum (- theta)) s PL).
  - intros y Hy. cbn [key_leb]. apply Z.leb_le. specialize (Hdrop y Hy). specialize (Hub y). lia.
  - erewrite filter_ext; [exact Hgood|]. intros z. cbn [key_leb].
    destruct (Z.leb_spec theta (score z)), (Z.leb_spec (- score z) (- theta)); try reflexivity; lia.
  - exact Hs.
Qed.
Print Assumptions C23_wand_safe_partial.

(* ---- refutations on the faithful model (each reproduced on the real code, see KNOWN_FINDINGS.txt) *)
(* tokens: 1 = kappa, 2 = quux, 3 = zeta, 4 = omega, 9 = a token no indexed document contains *)
Theorem C23_phrase_repeated_term_refuted :
  exists q d, Known_C23_phrase_repeated_term q = true /\ spec_match q d = true /\ impl_match (fun _ => true) true q d = Some false.
Proof. exists (QPhrase [1; 2; 2]), [5; 1; 2; 2]. repeat split; vm_compute; reflexivity. Qed.
Print Assumptions C23_phrase_repeated_term_refuted.

Theorem C23_phrase_later_term_early_refuted :
  exists q d, Known_C23_phrase_later_term_early q = true /\ Known_C23_phrase_repeated_term q = false /\
              spec_match q d = true /\ impl_match (fun _ => true) true q d = Some false.
Proof. exists (QPhrase [3; 1; 4]), [4; 4; 4; 3; 1; 4]. repeat split; vm_compute; reflexivity. Qed.
Print Assumptions C23_phrase_later_term_early_refuted.

Theorem C23_flat_path_and_as_or_refuted :
  exists q d, Known_C23_flat_path_and_as_or q true = true /\ spec_match q d = false /\ impl_match (fun _ => true) false q d = Some true.
Proof. exists (QMatch true [3; 1]), [1; 4]. repeat split; vm_compute; reflexivity. Qed.
Print Assumptions C23_flat_path_and_as_or_refuted.

Theorem C23_flat_path_no_phrase_refuted :
  exists q d, Known_C23_flat_path_no_phrase q true = true /\ spec_match q d = true /\ impl_match (fun _ => true) false q d = Some false.
Proof. exists (QPhrase [3; 1]), [3; 1; 4]. repeat split; vm_compute; reflexivity. Qed.
Print Assumptions C23_flat_path_no_phrase_refuted.

Theorem C23_and_unknown_term_refuted :
  exists known q d, Known_C23_and_unknown_term known q false = true /\ (forall t, mem t d = true -> known t = true) /\
                    spec_match q d = false /\ impl_match known true q d = Some true.
Proof.
  exists (fun t => negb (t =? 9)), (QMatch true [3; 9]), [3; 4]. repeat split; try (vm_compute; reflexivity).
  intros t H. cbn in H. destruct (N.eqb_spec t 9) as [->|]; [discriminate | reflexivity].
Qed.
Print Assumptions C23_and_unknown_term_refuted.

(* ---- non-vacuity *)
Example C23_nonvacuous :
  fts_search true [(0, Some [3; 1; 4]); (1, None); (2, Some []); (3, Some [1; 3; 1]); (4, Some [4; 3; 1])] [(5, Some [3; 1]); (6, Some [2])] [4]
    (QBool [QPhrase [3; 1]] [QMatch false [4]] [QMatch true [2; 2]]) = Ok [0; 3]
  /\ fts_search true [(0, Some [3; 1; 4]); (3, Some [1; 3; 1])] [(5, Some [3; 1])] [] (QMatch false [1; 9]) = Ok [0; 3; 5]
  /\ lookup 1 (build [(0, Some [3; 1; 4]); (1, None); (3, Some [1; 3; 1])]) = [(0, [1%Z]); (3, [0%Z; 2%Z])].
Proof. repeat split; vm_compute; reflexivity. Qed.
