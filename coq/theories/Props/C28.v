(* C28 - Standalone compression kernels round trip (FastLanes bit packing, FSST). Property theorems only. *)
From LanceV Require Import Common.Base Codec.Model_FastLanes Codec.Proofs_FastLanes.
Local Open Scope N_scope.

Theorem C28_packed_len : forall T W, In T [8; 16; 32; 64] -> packed_len T W = fl_lanes T * W.
Proof. exact packed_len_spec. Qed.
Print Assumptions C28_packed_len.
