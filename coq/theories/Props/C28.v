(* C28 - Standalone compression kernels round trip: FastLanes bit packing for every (type, width),
   FSST compress/decompress.  Property theorems only. *)
From LanceV Require Import Common.Base Codec.Model_FastLanes Codec.Proofs_FastLanes.
From LanceV Require Codec.Model_Fsst Codec.Proofs_Fsst.
Local Open Scope N_scope.

(* ================================================================== FastLanes *)

(* BitPacking::unchecked_unpack(W, unchecked_pack(W, v)) = v for every element type u8/u16/u32/u64,
   every width W <= T and EVERY block of 1024 values below 2^W; the calls do not panic, the packed
   block has 1024*W/T words, and the initial contents of the two output buffers are irrelevant. *)
Theorem C28_bitpack_roundtrip : forall (T W : N) (input out0 out1 : list N),
  In T [8; 16; 32; 64] -> W <= T ->
  length input = 1024%nat -> Forall (fun x => x < 2 ^ W) input ->
  N.of_nat (length out0) = packed_len T W -> length out1 = 1024%nat ->
  exists packed,
    unchecked_pack T W input out0 = Ok packed /\
    N.of_nat (length packed) = packed_len T W /\
    unchecked_unpack T W packed out1 = Ok input.
Proof. exact fl_roundtrip. Qed.
Print Assumptions C28_bitpack_roundtrip.

(* Without the assumption that the values fit the width: the kernel masks them, every value comes
   back reduced mod 2^W and does not disturb its neighbours. *)
Theorem C28_bitpack_roundtrip_masking : forall (T W : N) (input out0 out1 : list N),
  In T [8; 16; 32; 64] -> W <= T ->
  length input = 1024%nat -> Forall (fun x => x < 2 ^ T) input ->
  N.of_nat (length out0) = packed_len T W -> length out1 = 1024%nat ->
  exists packed,
    unchecked_pack T W input out0 = Ok packed /\
    N.of_nat (length packed) = packed_len T W /\
    unchecked_unpack T W packed out1 = Ok (map (fun x => x mod 2 ^ W) input).
Proof. exact fl_roundtrip_gen. Qed.
Print Assumptions C28_bitpack_roundtrip_masking.

(* The per-lane loops of the pack!/unpack! macros are inverse for EVERY word size T (not only the four
   instantiated ones) and every width 0 < W <= T: the W packed words are below 2^T and unpacking them
   yields the T values in row order. *)
Theorem C28_bitpack_lane_any_word_size : forall (T W : N) (vals : N -> N),
  0 < W -> W <= T -> (forall r, vals r < 2 ^ W) ->
  let words := map snd (pack_lane T W vals) in
  length words = N.to_nat W /\
  Forall (fun w => w < 2 ^ T) words /\
  unpack_lane T W (fun k => nth (N.to_nat k) words 0) = map (fun r => (r, vals r)) (rows (N.to_nat T)).
Proof. exact fl_lane_roundtrip_allT. Qed.
Print Assumptions C28_bitpack_lane_any_word_size.

(* The transposed layout: the FastLanes index map hits every position of the 1024-block exactly once. *)
Theorem C28_bitpack_index_bijection : forall T : N, In T [8; 16; 32; 64] ->
  NoDup (unpack_pos T) /\ (forall i, i < 1024 <-> In i (unpack_pos T)) /\ fl_lanes T * T = 1024.
Proof.
  intros T HT. destruct (unpack_facts T HT) as (H1 & H2 & H3 & H4).
  split; [exact H1|]. split; [|exact H4]. intro i. split; [apply H3 | apply H2].
Qed.
Print Assumptions C28_bitpack_index_bijection.

(* non-vacuity / regression: concrete blocks through the executable model *)
Example C28_bitpack_example :
  let vals := map (fun i => (i * 2654435761 + 12345) mod 2 ^ 3) (nseq 1024) in
  exists packed,
    unchecked_pack 8 3 vals (repeat 170 384) = Ok packed /\ length packed = 384%nat /\
    firstn 4 packed = [73; 146; 219; 36] /\
    unchecked_unpack 8 3 packed (repeat 85 1024) = Ok vals.
Proof. vm_compute. eexists. repeat split. Qed.

Example C28_bitpack_sweep_small_types :
  forallb (fun T => forallb (fun W =>
     let vals := map (fun i => (i * 2654435761 + 12345) mod 2 ^ W) (nseq 1024) in
     match unchecked_pack T W vals (repeat 7 (N.to_nat (packed_len T W))) with
     | Ok p => match unchecked_unpack T W p (repeat 9 1024) with Ok u => list_eqb N.eqb u vals | _ => false end
     | _ => false
     end) (nseq (T + 1))) [8; 16] = true.
Proof. vm_compute. reflexivity. Qed.

(* ================================================================== FSST *)
Import Codec.Model_Fsst Codec.Proofs_Fsst.

(* The kernel pair compress_bulk / decompress_bulk, for EVERY symbol table satisfying wf_table (symbol
   lengths 1..8, at most 255 symbols, no symbol carries the terminator byte after its first byte: the
   harness checks this on every table the real compressor emits), whichever 2-byte symbol finalize()
   left out of short_codes, every array of byte strings of any length (incl. empty strings, strings
   longer than the 511-byte chunk, bytes 255 and the terminator): decompress (compress x) = x. *)
Theorem C28_fsst_kernel_roundtrip : forall (tb : list N) (dead : option N) (strs : list (list N)) (out_cap offs_cap : N),
  wf_table tb = true -> t_switch (parse_table tb) = true ->
  Forall bytes_ok strs ->
  let comp := comp_bulk (mk_enc (parse_table tb) dead) strs in
  total_len comp * 3 <= out_cap -> N.of_nat (length strs) + 1 <= offs_cap ->
  fsst_decompress tb comp out_cap offs_cap = Ok strs.
Proof. exact fsst_bulk_roundtrip. Qed.
Print Assumptions C28_fsst_kernel_roundtrip.

(* The public pair fsst::compress / fsst::decompress with symbol-table construction as an arbitrary
   function [build] (hypothesis: a table it returns satisfies wf_table and has the switch bit set):
   whenever compress returns Ok, decompress (with the buffer sizes lance-encoding passes) returns exactly
   the input; otherwise compress returned Err: it never panics.  Covers the copy path (< 32 KiB) too. *)
Theorem C28_fsst_roundtrip : forall (build : list (list N) -> option (list N * option N)),
  (forall strs tb dead, build strs = Some (tb, dead) -> wf_table tb = true /\ t_switch (parse_table tb) = true) ->
  forall (tb0 : list N) (strs : list (list N)) (out_cap offs_cap : N) (tb : list N) (comp : list (list N)),
    Forall bytes_ok strs ->
    fsst_compress (build strs) tb0 strs out_cap offs_cap = Ok (tb, comp) ->
    fsst_decompress tb comp (8 * total_len comp) (N.of_nat (length comp) + 1) = Ok strs.
Proof. exact fsst_api_roundtrip. Qed.
Print Assumptions C28_fsst_roundtrip.

Theorem C28_fsst_compress_never_panics : forall (build : list (list N) -> option (list N * option N))
    (tb0 : list N) (strs : list (list N)) (out_cap offs_cap : N),
  fsst_compress (build strs) tb0 strs out_cap offs_cap <> Panic.
Proof. exact fsst_compress_no_panic. Qed.
Print Assumptions C28_fsst_compress_never_panics.

(* The 4-byte-block decoder of decompress_bulk (five unrolled arms + two tail arms) computes the same as
   decoding one code at a time, on every well-formed code stream, whatever follows the value in the buffer. *)
Theorem C28_fsst_block_decoder : forall (so : N -> list N) (la : option N) (cs : list N),
  wfb cs -> dec_str so la cs = Ok (dec_ref so cs).
Proof. intros so la cs H. exact (dec_str_ref so la (length cs) cs (le_n _) H). Qed.
Print Assumptions C28_fsst_block_decoder.

(* non-vacuity: a hand-made table (symbols "ab", "abc", "a"; terminator 0) satisfies the hypothesis, and
   the model really compresses with it *)
Example C28_fsst_example :
  wf_table ex_table = true /\ t_switch (parse_table ex_table) = true /\
  comp_bulk (mk_enc (parse_table ex_table) None) [[97; 98; 99; 97; 98; 97; 120; 255]; []; [98; 97]]
    = [[1; 0; 2; 255; 120; 255; 255]; []; [255; 98; 2]] /\
  fsst_decompress ex_table [[1; 0; 2; 255; 120; 255; 255]; []; [255; 98; 2]] 80 4
    = Ok [[97; 98; 99; 97; 98; 97; 120; 255]; []; [98; 97]].
Proof. vm_compute. repeat split. Qed.
