(* C26 - Every compression codec is lossless and respects the mini-block chunk limits.
   Property theorems only; models in Codec/Model_*.v, proofs in Codec/Proofs_*.v.
   Proved here, for ALL inputs: byte-pack, byte-stream-split, RLE, value/flat (+ chunk limits for the
   three mini-block codecs), the general LZ4/ZSTD wrapper, per-value general compression and the FSST
   wrapper (opaque compressors as hypotheses), dictionary encoding.
   NOT proved yet (model + differential correspondence + round-trip oracle only, see checks.d/C26.json):
   bit-packing inline/out-of-line layer, binary chunk CONTENTS (the chunk table is proved), packed structs,
   variable block layout. *)
From LanceV Require Import Common.Base Codec.Model_Bytes
  Codec.Model_BytePack Codec.Proofs_BytePack
  Codec.Model_Bss Codec.Proofs_Bss
  Codec.Model_Rle Codec.Proofs_Rle Codec.Proofs_RlePage
  Codec.Model_Value Codec.Proofs_Value
  Codec.Model_Binary Codec.Proofs_Binary Codec.Model_Packed Codec.Model_General Codec.Proofs_General
  Codec.Model_Bitpack.
Local Open Scope N_scope.

(* ---- byte-pack (utils/bytepack.rs) ----
   For EVERY maximum 0 < max < 2^64 and EVERY list of values <= max, the unpacker (told the byte
   width the encoder chose) returns exactly the values, and the packed size is width * count. *)
Theorem C26_bytepack_roundtrip : forall (mx : N) (vals : list N),
  0 < mx -> mx < two64 -> Forall (fun v => v <= mx) vals ->
  bp_unpack (N.of_nat (bp_width (bp_kind_of mx))) (bp_pack mx vals) = Ok vals
  /\ length (bp_pack mx vals) = (length vals * bp_width (bp_kind_of mx))%nat.
Proof. exact bytepack_roundtrip. Qed.
Print Assumptions C26_bytepack_roundtrip.

(* ---- byte-stream-split (byte_stream_split.rs) ----
   For both supported widths and EVERY buffer of n values (any n, including 0 and 1): the
   compressor terminates with a result, decoding the page chunk by chunk (with the reader's
   slicing by buffer_sizes and MiniBlockChunk::num_values) returns the input bytes, and the chunk
   table respects the limits (counts add up, 1..4096 values, non-last chunks flagged with a power
   of two >= 2, <= MAX_MINIBLOCK_BYTES bytes per chunk). *)
Theorem C26_bss_roundtrip_and_limits : forall (w : N) (bytes : list N) (n : N),
  (w = 4 \/ w = 8) -> nlen bytes = n * w ->
  exists bufs chunks,
    bss_encode w bytes n = Some (Ok (bufs, chunks)) /\
    bss_decode_page w bufs chunks n = Ok bytes /\
    chunks_ok chunks n = true.
Proof. exact bss_roundtrip. Qed.
Print Assumptions C26_bss_roundtrip_and_limits.

(* ---- RLE (rle.rs) ----
   For every word size and EVERY sequence of values (any length, any run structure): the outer
   loop of encode_data terminates with a result (no out-of-fuel, no panic, and in particular the
   silent `values_processed == 0 => break` that would drop the rest of the page is unreachable),
   decoding the page chunk by chunk returns the input bytes (over-full checkpoints are harmless
   because the decoder truncates at the chunk's value count), and the chunk table respects the
   limits. *)
Theorem C26_rle_roundtrip_and_limits : forall (ts : N) (data : list N),
  ts_ok ts -> vals_ok ts data ->
  exists bufs chunks,
    rle_encode ts data = Some (Ok (bufs, chunks)) /\
    rle_decode_page ts bufs chunks (nlen data) = Ok (bytes_of_words (N.to_nat ts) data) /\
    chunks_ok chunks (nlen data) = true.
Proof. exact rle_roundtrip. Qed.
Print Assumptions C26_rle_roundtrip_and_limits.

(* the RLE chunk decoder returns the first p values of the chunk's runs, for every run list *)
Theorem C26_rle_decoder_truncates : forall ts rr p,
  ts_ok ts -> rr <> [] -> vals_ok ts (map fst rr) -> 1 <= p -> p <= nlen (expand rr) ->
  rle_decode ts (rle_buffers ts rr) p = Ok (bytes_of_words (N.to_nat ts) (firstn (N.to_nat p) (expand rr))).
Proof. exact rle_decode_chunk. Qed.
Print Assumptions C26_rle_decoder_truncates.

(* ---- value / flat (value.rs) ----
   For every bit width the mini-block value encoder accepts (sub-byte widths included) and EVERY
   buffer of n values: the chunk table is produced without panic, it respects the limits, and
   slicing the untouched buffer by the table gives the buffer back. *)
Theorem C26_value_roundtrip_and_limits : forall (bits n : N) (data : list N),
  value_width_ok bits = true -> nlen data = value_data_len bits n ->
  exists cs,
    value_chunk_data bits n (nlen data) = Some (Ok cs) /\
    chunks_ok cs n = true /\
    value_decode_page [data] cs n = Ok data.
Proof. exact value_roundtrip. Qed.
Print Assumptions C26_value_roundtrip_and_limits.

(* ---- general LZ4 / ZSTD mini-block wrapper (general.rs) ----
   The byte compressor is a hypothesis (decomp (comp x) = x; compressed chunk slices fit a u16).
   For EVERY inner codec (its chunk decoder [inner]) and EVERY inner page: decoding the wrapped
   page with GeneralMiniBlockDecompressor (or, when the wrapper decided not to wrap, with the inner
   decoder) gives exactly what the inner decoder gives on the inner page, chunk for chunk - so
   the wrapper preserves whatever round trip and value counts the inner codec has. *)
Theorem C26_general_wrapper_lossless :
  forall (comp decomp : list N -> list N),
  (forall x, decomp (comp x) = x) ->
  (forall x, nlen x < 65536 -> nlen (comp x) < 65536) ->
  forall (A : Type) (inner : list (list N) -> N -> outcome A)
         (bufs : list (list N)) (chunks : list chunk) (prev total : N),
  sizes_ok chunks ->
  let '(wrapped, bufs', chunks') := general_compress comp bufs chunks in
  decode_chunks (if wrapped then general_decode decomp inner else inner) bufs' chunks' prev total
  = decode_chunks inner bufs chunks prev total.
Proof. exact general_roundtrip. Qed.
Print Assumptions C26_general_wrapper_lossless.

Theorem C26_general_wrapper_keeps_counts :
  forall (comp : list N -> list N) chunks first,
  map snd (snd (general_chunks comp first chunks)) = map snd chunks.
Proof. exact general_chunks_logs. Qed.
Print Assumptions C26_general_wrapper_keeps_counts.

(* per-value LZ4/ZSTD (block.rs CompressedBufferEncoder) *)
Theorem C26_per_value_general_roundtrip :
  forall (comp decomp : list N -> list N), (forall x, decomp (comp x) = x) ->
  forall vals, per_value_decompress decomp (per_value_compress comp vals) = vals.
Proof. intros comp decomp H vals. exact (per_value_roundtrip comp decomp H vals). Qed.
Print Assumptions C26_per_value_general_roundtrip.

(* ---- FSST wrappers (fsst.rs); the symbol-table kernel itself is C28 ---- *)
Theorem C26_fsst_wrapper_roundtrip :
  forall (table : Type) (fsst_train : list (list N) -> table)
         (fsst_enc fsst_dec : table -> list N -> list N),
  (forall vals v, In v vals -> fsst_dec (fsst_train vals) (fsst_enc (fsst_train vals) v) = v) ->
  forall vals,
  let '(t, cvals) := fsst_compress table fsst_train fsst_enc vals in
  fsst_decode table fsst_dec t (Ok cvals) = Ok vals.
Proof. exact fsst_wrapper_roundtrip. Qed.
Print Assumptions C26_fsst_wrapper_roundtrip.

(* ---- dictionary encoding (dict.rs) ---- *)
Theorem C26_dict_roundtrip : forall vals : list (list N),
  dict_decode (fst (dict_encode vals)) (snd (dict_encode vals)) = vals.
Proof. exact dict_roundtrip. Qed.
Print Assumptions C26_dict_roundtrip.

(* ---- binary mini-block chunker (binary.rs chunk_offsets / search_next_offset_idx, as repaired) ----
   For both offset widths and EVERY block of n >= 1 values with non-decreasing offsets whose values
   all fit (<= 2036 bytes each; mini-block is selected by default only below 256 bytes): the
   chunker terminates, the chunk table covers the values exactly once within the limits
   (1..4096 values, non-last chunks a power of two >= 2, <= MAX_MINIBLOCK_BYTES bytes), and the
   recorded u16 sizes add up to the single output buffer (no truncation).
   partial: the byte-level decode round trip of the chunk contents is not proved (correspondence
   + oracle only). *)
Theorem C26_binary_chunk_limits_partial : forall (bw : N) (offsets data : list N),
  (bw = 4 \/ bw = 8) -> offsets_ok offsets BINARY_FIT ->
  2 <= nlen offsets -> nlen offsets < two64 ->
  off_at offsets (nlen offsets - 1) <= nlen data ->
  exists buf chunks,
    binary_encode bw offsets data = Some ([buf], chunks) /\
    chunks_ok chunks (nlen offsets - 1) = true /\
    sum_N (map (fun c : chunk => sum_N (fst c)) chunks) = nlen buf.
Proof. exact binary_chunk_limits. Qed.
Print Assumptions C26_binary_chunk_limits_partial.

(* ---- regression of the binary chunker defect repaired in repo commit b9f1526 ----
   256 one-byte values followed by 256 values of 255 bytes (every value shorter than 256 bytes).
   Before the repair the chunker returned the doubled window that had not fitted: ONE chunk of 512
   values whose 67588 bytes were recorded as 2052 after the `as u16` cast. Now: 256 values, then
   32 chunks of 8 values, every chunk within the limit, the table adds up to the buffer, and the
   page decodes to the values. *)
Example C26_binary_skewed_lengths_regression :
  let offsets := map N.of_nat (seq 0 257) ++ map (fun k => 256 + 255 * N.of_nat k) (seq 1 256) in
  let data := repeat 7 (256 + 255 * 256) in
  binary_table_ok (4, offsets, data) = true /\
  match binary_encode 4 offsets data with
  | Some (bufs, chunks) =>
      chunks_ok chunks 512 = true /\ length chunks = 33%nat /\ hd ([], 0) chunks = ([1284], 8) /\
      outcome_eqb (list_eqb nlist_eqb) (binary_decode_page 4 bufs chunks 512) (Ok (var_values_from offsets data)) = true
  | None => False
  end.
Proof. vm_compute. repeat split; reflexivity. Qed.

(* ---- known finding (class predicate in Model_Bitpack.v; reproduced on the real code, see
   KNOWN_FINDINGS.txt): the faithful model violates the documented per-chunk byte limit ---- *)
Theorem C26_inline_bitpack_full_u64_refuted :
  exists vals, Forall (fun v => v < 2 ^ 64) vals /\
    Known_C26_inline_bitpack_full_u64 (64, vals) = true /\
    snd (inline_compress stub_pack 64 vals) = [([8200], 0)].
Proof.
  exists (repeat (2 ^ 64 - 1) 1024). split.
  - apply Forall_forall. intros x Hx. apply repeat_spec in Hx. subst x. reflexivity.
  - split; vm_compute; reflexivity.
Qed.
Print Assumptions C26_inline_bitpack_full_u64_refuted.

(* ---- non-vacuity ---- *)
Example C26_rle_nonvacuous :
  rle_encode 4 [1;1;1;2;2;3;3;3;3]
  = Some (Ok ([[1;0;0;0; 2;0;0;0; 3;0;0;0]; [3;2;4]], [([12; 3], 0)]))
  /\ rle_decode_page 4 [[1;0;0;0; 2;0;0;0; 3;0;0;0]; [3;2;4]] [([12; 3], 0)] 9
     = Ok (bytes_of_words 4 [1;1;1;2;2;3;3;3;3]).
Proof. split; vm_compute; reflexivity. Qed.

(* 3000 distinct u64 values: the byte budget forces roll backs to the 512-value checkpoint *)
Example C26_rle_rollback_exercised :
  option_map (outcome_map (fun r => map snd (snd r))) (rle_encode 8 (map N.of_nat (seq 0 3000)))
  = Some (Ok [9; 9; 9; 9; 9; 0]).
Proof. vm_compute. reflexivity. Qed.

Example C26_value_nonvacuous :
  value_chunk_data 32 2500 10000 = Some (Ok [([4096], 10); ([4096], 10); ([1808], 0)])
  /\ value_chunk_data 1 10000 1250 = Some (Ok [([512], 12); ([512], 12); ([226], 0)]).
Proof. split; vm_compute; reflexivity. Qed.

Example C26_bss_nonvacuous :
  bss_encode 4 [0;0;128;63; 0;0;0;64; 0;0;64;64; 0;0;128;64] 4
  = Some (Ok ([[0;0;0;0; 0;0;0;0; 128;0;64;128; 63;64;64;64]], [([16], 0)])).
Proof. vm_compute. reflexivity. Qed.

Example C26_bytepack_nonvacuous :
  bp_pack 1000 [500; 200; 300] = [244; 1; 200; 0; 44; 1]
  /\ bp_unpack 2 [244; 1; 200; 0; 44; 1] = Ok [500; 200; 300].
Proof. split; vm_compute; reflexivity. Qed.

Example C26_dict_nonvacuous :
  dict_encode [[97]; [98; 99]; [97]; []; [98; 99]] = ([0; 1; 0; 2; 1], [[97]; [98; 99]; []]).
Proof. vm_compute. reflexivity. Qed.
