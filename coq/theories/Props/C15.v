(* C15 - Random access agrees with scanning. Property theorems only.
   Objects: a table is its fragment list (id, physical rows, deletion vector); a row is named by its
   row address; [scan frs] is what an ordered full scan yields; [at_offset frs o] the o-th scan row.
   Model: Core/Model_Deletion.v (OffsetMapper) and Core/Model_Take.v (row_offsets_to_row_addresses,
   check_row_addrs, do_take_rows, take, take_scan, TakeBuilder::get_row_addrs). *)
From LanceV Require Import Common.Base Core.Model_Deletion Core.Proofs_Deletion Core.Model_Take Core.Proofs_Take.
From Coq Require Import Sorting.Sorted.
Local Open Scope N_scope.

(* ---- OffsetMapper ---- *)
(* One call, any state reachable by earlier calls with smaller-or-equal offsets ([om_inv]), EVERY
   deletion set: the result is the position of the o-th non-deleted row; no panic (no u32 overflow,
   `right - left` never underflows, the assert_ne! never fires); termination within 34 loop
   iterations (any fuel >= 34 gives the same answer); the state invariant is re-established. *)
Theorem C15_map_offset : forall (D : dvec) (st : om_state) (lo o : N) (fuel : nat),
  NoDup D -> om_inv D st lo -> lo <= o -> o + dv_len D + 1 < two32 -> (34 <= fuel)%nat ->
  exists a st', map_offset_fuel fuel D st o = Ok (a, st') /\ is_nth_live D o a /\ om_inv D st' o.
Proof. exact map_offset_correct. Qed.
Print Assumptions C15_map_offset.

(* A fresh mapper satisfies the invariant, and the specification determines the answer uniquely. *)
Theorem C15_map_offset_spec_is_a_function : forall (D : dvec),
  NoDup D -> om_inv D om_new 0 /\
  (forall o, exists a, is_nth_live D o a) /\
  (forall o a a', is_nth_live D o a -> is_nth_live D o a' -> a = a').
Proof.
  intros D ND. split; [exact (om_inv_new D ND)|]. split; [intro o; exact (nth_live_exists D o ND)|].
  exact (nth_live_unique D).
Qed.
Print Assumptions C15_map_offset_spec_is_a_function.

(* A mapper driven with ANY non-decreasing offset sequence (duplicates allowed). *)
Theorem C15_map_offsets_monotone : forall (D : dvec) (offs : list N),
  NoDup D -> StronglySorted N.le offs -> Forall (fun o => o + dv_len D + 1 < two32) offs ->
  exists res, map_offsets D offs = Ok res /\ Forall2 (is_nth_live D) offs res.
Proof. exact map_offsets_correct. Qed.
Print Assumptions C15_map_offsets_monotone.

(* ---- offsets -> addresses ---- *)
(* EVERY fragment layout and EVERY offset list (unsorted, duplicates, out of range): the result is,
   position by position in REQUEST order, the address a scan shows at that offset; tombstone past the end. *)
Theorem C15_offsets_to_addresses : forall (frs : list frag) (offs : list N),
  frags_wf frs = true -> scan_len frs < two64 ->
  row_offsets_to_row_addresses frs offs = Ok (map (at_offset frs) offs).
Proof. exact offsets_to_addresses_wf. Qed.
Print Assumptions C15_offsets_to_addresses.

(* ---- take by address (do_take_rows: contiguous / sorted / re-mapping paths) ---- *)
(* Whatever is returned is exactly the requested rows that exist and are not deleted, in request
   order, duplicates kept - for every address list, with or without the row-address column. *)
Theorem C15_take_rows_sound : forall (frs : list frag) (addrs : list N) (wra : bool) (l : list N),
  frags_wf frs = true -> do_take_rows frs addrs wra = Ok l -> l = filter (addr_live frs) addrs.
Proof. exact take_rows_sound_wf. Qed.
Print Assumptions C15_take_rows_sound.

(* If every address names a physical slot the take succeeds (no error, no panic, on each of the three
   paths); with the row-address column it fails exactly when a requested row is deleted. *)
Theorem C15_take_rows_total : forall (frs : list frag) (addrs : list N),
  frags_wf frs = true -> addrs <> [] -> forallb (addr_in_bounds frs) addrs = true ->
  do_take_rows frs addrs false = Ok (filter (addr_live frs) addrs) /\
  do_take_rows frs addrs true = (if forallb (addr_live frs) addrs then Ok addrs else Err).
Proof. exact take_rows_total_wf. Qed.
Print Assumptions C15_take_rows_total.

(* Addresses of fragments that do not exist (the tombstone u64::MAX included, at any position): dropped
   or reported as an error, never a panic, as long as at least one address is in bounds. *)
Theorem C15_take_rows_never_panics : forall (frs : list frag) (addrs : list N),
  frags_wf frs = true ->
  (forall a, In a addrs -> addr_in_bounds frs a = true \/ find_frag frs (addr_frag a) = None) ->
  (exists a, In a addrs /\ addr_in_bounds frs a = true) ->
  (do_take_rows frs addrs false = Ok (filter (addr_live frs) addrs) \/
   (do_take_rows frs addrs false = Err /\ forallb (addr_in_bounds frs) addrs = false)).
Proof. exact take_rows_no_panic_wf. Qed.
Print Assumptions C15_take_rows_never_panics.

(* ---- take by offset ---- *)
(* (1) any Ok result is the scan rows at the in-range offsets, in request order, duplicates kept;
   (2) outside the known class - i.e. as soon as ONE requested offset is in range, or a single offset
       is requested - the call IS Ok with those rows (out-of-range offsets dropped, wherever they stand
       in the request), or an error caused by an out-of-range offset;
   (3) all offsets in range: Ok with exactly one row per offset. *)
Theorem C15_take_by_offset : forall (frs : list frag) (offs : list N),
  frags_wf frs = true -> scan_len frs < two64 ->
  (forall l, take frs offs = Ok l -> l = expected_rows frs offs) /\
  (Known_C15_all_offsets_oob frs offs = false -> take_agrees_with_scan frs offs) /\
  (forallb (in_range frs) offs = true -> take frs offs = Ok (map (at_offset frs) offs)).
Proof. exact take_by_offset_wf. Qed.
Print Assumptions C15_take_by_offset.

(* Regression for the repaired class oob_offset_not_last (repo commit 33efb4f; it used to be a
   `last_offset + 1` overflow panic): on a 3-row table take([3, 0]) returns row 0, take([0, 3]) and
   take([3]) report an error. *)
Theorem C15_oob_offset_not_last_regression :
  take refuting_table [3; 0] = Ok [0] /\ take refuting_table [0; 3] = Err /\ take refuting_table [3] = Err /\
  Known_C15_all_offsets_oob refuting_table [3; 0] = false /\ take_agrees_with_scan refuting_table [3; 0].
Proof. exact oob_offset_not_last_regression. Qed.
Print Assumptions C15_oob_offset_not_last_regression.

(* What is left: two or more offsets, ALL out of range. The faithful model (and the code after 33efb4f:
   reproduced, see KNOWN_FINDINGS) panics - take([3, 3]) on a 3-row table: `batches.pop().unwrap()`. *)
Theorem C15_all_offsets_oob_refuted :
  exists frs offs, frags_wf frs = true /\ scan_len frs < two64 /\
    Known_C15_all_offsets_oob frs offs = true /\ ~ take_agrees_with_scan frs offs.
Proof. exact all_offsets_oob_refuted. Qed.
Print Assumptions C15_all_offsets_oob_refuted.

(* ---- take_scan ---- *)
Theorem C15_take_scan : forall (frs : list frag) (ranges : list (N * N)),
  frags_wf frs = true -> scan_len frs < two64 -> Forall (fun r => snd r <= scan_len frs) ranges ->
  take_scan frs ranges = map (fun r => Ok (map (at_offset frs) (N_span (fst r) (snd r)))) ranges.
Proof. exact take_scan_wf. Qed.
Print Assumptions C15_take_scan.

(* ---- take by stable row id ---- *)
(* The row id index is C34's object; here it is any function that answers only with addresses of rows a
   scan shows. Then take_rows returns, for the requested ids in request order (duplicates kept, unknown
   ids dropped), exactly the rows the index maps them to. *)
Theorem C15_take_by_row_id : forall (frs : list frag) (get : N -> option N) (ids : list N),
  frags_wf frs = true -> (forall id a, get id = Some a -> In a (scan frs)) ->
  take_rows_by_id (Some get) frs ids false = Ok (get_row_addrs (Some get) ids) /\
  (forall a, In a (get_row_addrs (Some get) ids) <-> exists id, In id ids /\ get id = Some a).
Proof. exact take_by_row_id_wf. Qed.
Print Assumptions C15_take_by_row_id.

(* ---- the columns a scan reports resolve back to the same row ---- *)
Theorem C15_scan_rows_resolve : forall (frs : list frag),
  frags_wf frs = true -> scan_len frs < two64 ->
  (forall a, In a (scan frs) -> take_rows_by_id None frs [a] false = Ok [a] /\ take_rows_by_id None frs [a] true = Ok [a]) /\
  (forall o, o < scan_len frs -> take frs [o] = Ok [at_offset frs o] /\ In (at_offset frs o) (scan frs)) /\
  (forall a, addr_in_bounds frs a = true -> ~ In a (scan frs) -> take_rows_by_id None frs [a] false = Ok []).
Proof. exact scan_rows_resolve_wf. Qed.
Print Assumptions C15_scan_rows_resolve.

(* ---- regression / non-vacuity ---- *)
Theorem C15_rust_unit_tests :
  map_offsets [3; 5] [0; 1; 2; 3; 4; 5; 6] = Ok [0; 1; 2; 4; 6; 7; 8] /\
  map_offsets [0; 1; 2] [0; 1; 2; 3; 4; 5; 6] = Ok [3; 4; 5; 6; 7; 8; 9].
Proof. exact rust_unit_tests. Qed.
Print Assumptions C15_rust_unit_tests.

(* small-universe sweep kept as a test (64 deletion sets x 36 ordered offset pairs) *)
Example C15_sweep : sweep_ok = true.
Proof. exact (proj2 (proj2 sweep_small_universe)). Qed.

(* the hypotheses are satisfiable by a non-trivial table: three fragments, deletions in two of them,
   non-monotone fragment ids; requests with duplicates, unsorted, across fragment boundaries *)
Definition ex_table : list frag :=
  [ {| f_id := 0; f_phys := 10; f_del := Some [3; 5] |};
    {| f_id := 4; f_phys := 6;  f_del := Some [0; 1; 2] |};
    {| f_id := 1; f_phys := 10; f_del := None |} ].
Example C15_nonvacuous :
  frags_wf ex_table = true /\ scan_len ex_table = 21 /\
  Known_C15_all_offsets_oob ex_table [20; 0; 3; 3; 8; 9; 17; 7] = false /\
  take ex_table [20; 0; 3; 3; 8; 9; 17; 7]
    = Ok [4294967305; 0; 4; 4; 17179869187; 17179869188; 4294967302; 9] /\
  row_offsets_to_row_addresses ex_table [21; 2] = Ok [TOMBSTONE_ROW; 2] /\
  take ex_table [2; 21] = Err /\ take ex_table [21; 2] = Ok [2] /\ take ex_table [21; 22] = Panic /\
  do_take_rows ex_table [6; 3; 4294967296; 3; 17179869184; 17179869187] false = Ok [6; 4294967296; 17179869187] /\
  (exists st, map_offset [3; 5] om_new 3 = Ok (4, st) /\ om_inv [3; 5] st 3) /\
  NoDup [3; 5].
Proof.
  repeat split; try (vm_compute; reflexivity).
  - destruct (map_offset_correct [3; 5] om_new 0 3 MAP_FUEL) as [a [st' [E [_ I]]]];
      [repeat constructor; cbn; intuition discriminate | apply om_inv_new; repeat constructor; cbn; intuition discriminate
      | lia | vm_compute; reflexivity | unfold MAP_FUEL; lia |].
    exists st'. unfold map_offset. split; [|exact I].
    rewrite E. f_equal. f_equal. vm_compute in E. inversion E. reflexivity.
  - repeat constructor; cbn; intuition discriminate.
Qed.
