(* C15 - Random access agrees with scanning. Property theorems only. *)
From LanceV Require Import Common.Base Core.Model_Deletion Core.Proofs_Deletion Core.Model_Take Core.Proofs_Take.
Local Open Scope N_scope.

Theorem C15_rust_unit_tests :
  map_offsets [3; 5] [0; 1; 2; 3; 4; 5; 6] = Ok [0; 1; 2; 4; 6; 7; 8] /\
  map_offsets [0; 1; 2] [0; 1; 2; 3; 4; 5; 6] = Ok [3; 4; 5; 6; 7; 8; 9].
Proof. exact rust_unit_tests. Qed.
Print Assumptions C15_rust_unit_tests.
