(* C02 - At most one writer wins each version slot and published manifests never change.
   Property theorems only; model in Store/Model_Handlers.v, proofs in Store/Proofs_Handlers.v.
   Quantifiers are real: any number of writers (indexed by N), any assignment of versions and (compatible,
   atomic-create) handlers, any pre-existing store without staging files, any event list = any interleaving
   of the writers' individual store calls with any placement of failing calls (`Fail`), lost replies (`Lost`)
   and crashes (a writer that is not scheduled again). *)
From LanceV Require Import Common.Base Store.Model_Handlers Store.Proofs_Handlers.
Local Open Scope N_scope.

Theorem C02_at_most_one_winner : forall st0 vers kinds evs,
  (forall t, st0 (KTmp t) = None) -> atomic_handlers kinds ->
  let s := run evs (init st0 vers kinds) in
  (forall t1 t2, tpc (thr s t1) = Done ROk -> tpc (thr s t2) = Done ROk -> vers t1 = vers t2 -> t1 = t2)
  /\ (forall t, tpc (thr s t) = Done ROk -> sto s (KFinal (vers t)) = Some (By t)).
Proof.
  intros st0 vers kinds evs Htmp Hk s.
  destruct (run_inv evs _ (init_inv st0 vers kinds Htmp) (Hom_init st0 vers kinds Hk)) as [I _].
  assert (Hw : forall t, tpc (thr s t) = Done ROk -> sto s (KFinal (vers t)) = Some (By t)).
  { intros t Ht. pose proof (I_ok _ I t Ht) as H. unfold s in H. rewrite run_ver in H. exact H. }
  split; [|exact Hw].
  intros t1 t2 H1 H2 Hv. pose proof (Hw t1 H1) as A. pose proof (Hw t2 H2) as B.
  rewrite Hv in A. rewrite A in B. inversion B. reflexivity.
Qed.
Print Assumptions C02_at_most_one_winner.

(* once a version's manifest path holds some content it holds that content in every later state:
   in particular a slot published before the run is never won by anybody *)
Theorem C02_published_immutable : forall st0 vers kinds evs1 evs2 v c,
  (forall t, st0 (KTmp t) = None) -> atomic_handlers kinds ->
  sto (run evs1 (init st0 vers kinds)) (KFinal v) = Some c ->
  sto (run (evs1 ++ evs2) (init st0 vers kinds)) (KFinal v) = Some c.
Proof.
  intros st0 vers kinds evs1 evs2 v c Htmp Hk Hv. rewrite run_app.
  destruct (run_inv evs1 _ (init_inv st0 vers kinds Htmp) (Hom_init st0 vers kinds Hk)) as [I H].
  apply run_mono; assumption.
Qed.
Print Assumptions C02_published_immutable.

Theorem C02_published_slot_never_won : forall st0 vers kinds evs t c,
  (forall t, st0 (KTmp t) = None) -> atomic_handlers kinds ->
  st0 (KFinal (vers t)) = Some (Pre c) ->
  tpc (thr (run evs (init st0 vers kinds)) t) <> Done ROk.
Proof.
  intros st0 vers kinds evs t c Htmp Hk Hpre Hok.
  destruct (C02_at_most_one_winner st0 vers kinds evs Htmp Hk) as [_ Hw].
  pose proof (Hw t Hok) as A.
  pose proof (C02_published_immutable st0 vers kinds [] evs (vers t) (Pre c) Htmp Hk Hpre) as B.
  cbn [app] in B. rewrite A in B. discriminate.
Qed.
Print Assumptions C02_published_slot_never_won.

(* without injected faults every writer that finishes either won or saw CommitConflict *)
Theorem C02_losers_see_conflict : forall st0 vers kinds evs t r,
  all_run evs -> tpc (thr (run evs (init st0 vers kinds)) t) = Done r -> r = ROk \/ r = RConflict.
Proof.
  intros st0 vers kinds evs t r Hall Hd.
  pose proof (run_noerr evs _ Hall (init_noerr st0 vers kinds)) as NE.
  destruct (NE_pc _ NE t) as [A _]. destruct r; auto. congruence.
Qed.
Print Assumptions C02_losers_see_conflict.

(* the qualifier "handler that provides atomic create" matters: UnsafeCommitHandler has two winners *)
Theorem C02_unsafe_handler_refuted :
  exists evs, let s := run evs (init (fun _ => None) (fun _ => 5) (fun _ => HUnsafe)) in
    tpc (thr s 1) = Done ROk /\ tpc (thr s 2) = Done ROk.
Proof. exists [Run 1; Run 2]. vm_compute. split; reflexivity. Qed.
Print Assumptions C02_unsafe_handler_refuted.

(* non-vacuity: three writers (rename, conditional put, rename) race for version 7 *)
Example C02_nonvacuous :
  let kinds := fun t => if N.eqb t 2 then HCondPut else HRename in
  let s := run [Run 1; Run 3; Run 2; Run 1; Run 3; Run 1; Run 3] (init (fun _ => None) (fun _ => 7) kinds) in
  atomic_handlers kinds /\
  tpc (thr s 1) = Done RConflict /\ tpc (thr s 2) = Done ROk /\ tpc (thr s 3) = Done RConflict
  /\ sto s (KFinal 7) = Some (By 2) /\ sto s (KTmp 1) = None.
Proof.
  split; [left; intro t; destruct (N.eqb t 2); auto|]. vm_compute. repeat split; reflexivity.
Qed.
