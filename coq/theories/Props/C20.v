(* C20 - Inexact scalar indices never drop a matching row.  Property theorems only.
   Model: Index/Model_Inexact.v - zone map statistics + evaluate_zone_against_query + search (zonemap.rs),
   the split-block bloom filter Block::mask/insert/check and Sbbf::hash_to_block_index (bloomfilter/sbbf.rs),
   n-gram extraction + posting-list intersection + search (ngram.rs).  The planner / scan side (how an AtMost /
   AtLeast answer is consumed) is Index/Model_ScalarExpr.v (C19) over C21's evaluate.

   F20a (AtLeast answer used as the candidate set) is repaired in /repo (72db555); its input is a fixed corpus
   case of the harness.  F20b is NOT repaired: a contains() query of >= 3 bytes that yields no trigram after
   normalisation is answered AtMost(nothing): class [Known_C20_ngram_no_trigram_query]. *)
From LanceV Require Import Common.Base Core.Model_Mask Core.Proofs_Mask Index.Model_ExprResult Index.Proofs_ExprResult
  Index.Model_ScalarExpr Index.Proofs_ScalarExpr Index.Model_Inexact Index.Proofs_Inexact.
Local Open Scope N_scope.

(* zone statistics computed from the rows of a zone (min / max over the non-null values with NaN largest,
   null_count, nan_count) never exclude a query one of the rows satisfies: all arms of
   evaluate_zone_against_query, NaN special cases included, for ALL value lists and ALL queries *)
Theorem C20_zone_statistics_sound : forall (frag start : N) (vs : list (option fval)) (q : zquery) (v : option fval),
  In v vs -> zmatch q v = true -> eval_zone (mk_zone frag start vs) q = true.
Proof. exact eval_zone_sound. Qed.
Print Assumptions C20_zone_statistics_sound.

(* for all tables (values over Z + NaN + NULL), all zone sizes >= 1 and all queries: a row that matches lies in a
   selected zone, i.e. its address is in the AtMost answer of ZoneMapIndex::search.
   PARTIAL: [build_zonemap] is the builder as documented (zones cut per fragment, addresses = offsets); the
   batch-by-batch fragment walk of ZoneMapIndexBuilder::train is NOT transcribed.  The real walk deviates from it on
   two reproduced classes (KNOWN_FINDINGS: zonemap_zone_spans_fragments, zonemap_rows_not_contiguous), where rows
   end up in no zone; the statistics / evaluation / search part (C20_zone_statistics_sound) is complete. *)
Theorem C20_zonemap_superset_partial : forall (size : nat) (frags : list (N * list (option fval))) (q : zquery)
    (f : N) (vals : list (option fval)) (i : nat) (v : option fval),
  (0 < size)%nat -> In (f, vals) frags -> nth_error vals i = Some v -> zmatch q v = true ->
  In (f * two32N + N.of_nat i) (zm_search (build_zonemap size frags) q).
Proof. exact zonemap_superset. Qed.
Print Assumptions C20_zonemap_superset_partial.

(* the block a hash selects always exists: ((h >> 32) * n) >> 32 < n *)
Theorem C20_bloom_block_index_in_bounds : forall n h : N, 0 < n -> h < two64 -> block_index n h < n.
Proof. exact block_index_lt. Qed.
Print Assumptions C20_bloom_block_index_in_bounds.

(* for every hash function, every filter size and every insert sequence: each inserted value checks true
   afterwards (and a positive answer is never lost by later inserts) *)
Theorem C20_bloom_no_false_negative : forall (A : Type) (hash : A -> N) (n : nat) (vals : list A) (x : A),
  (forall a, hash a < two64) -> (0 < n)%nat -> In x vals ->
  sbbf_check (fold_left sbbf_insert (map hash vals) (repeat empty_block n)) (hash x) = true.
Proof.
  intros A hash n vals x Hh Hn Hin. apply bloom_no_false_negative.
  - split; [apply Forall_forall; intros b Hb; apply repeat_spec in Hb; subst; reflexivity | rewrite repeat_length; exact Hn].
  - apply Forall_forall. intros h Hi. apply in_map_iff in Hi as [a [<- _]]. apply Hh.
  - left. apply in_map. exact Hin.
Qed.
Print Assumptions C20_bloom_no_false_negative.

Theorem C20_bloom_monotone : forall (f : sbbf) (hs : list N) (x : N),
  sbbf_wf f -> Forall (fun h => h < two64) hs -> (In x hs \/ sbbf_check f x = true) ->
  sbbf_check (fold_left sbbf_insert hs f) x = true.
Proof. intros f hs x. exact (bloom_no_false_negative hs f x). Qed.
Print Assumptions C20_bloom_monotone.

(* n-gram: for every normaliser that works character by character, every trigram filter and every table:
   if the text of a row contains s and s yields at least one trigram (the query is outside the class), the row
   is in the answer (AtMost: intersection of the posting lists; the "token missing => Exact(nothing)" arm cannot
   be taken); queries under 3 bytes answer AtLeast(nothing) = "recheck everything" *)
Theorem C20_ngram_superset : forall (norm : list N -> list N) (keep : list N -> bool) (blen : N -> N),
  (forall a b, norm (a ++ b) = norm a ++ norm b) ->
  forall (docs : list (N * list N)) (rid : N) (p s q : list N),
  In (rid, p ++ s ++ q) docs ->
  Known_C20_ngram_no_trigram_query norm keep blen s = false ->
  match fst (ngram_search norm keep blen docs s) with
  | NAtLeast => True
  | NExact | NAtMost => In rid (snd (ngram_search norm keep blen docs s))
  end.
Proof. intros norm keep blen Hn docs rid p s q. exact (ngram_superset norm keep blen Hn docs rid p s q). Qed.
Print Assumptions C20_ngram_superset.

(* F20b: text "xnïy" (row 7), query "nï" = 3 bytes, no trigram survives: AtMost(nothing), the row is dropped *)
Theorem C20_ngram_no_trigram_query_refuted : exists docs rid p s q,
  In (rid, p ++ s ++ q) docs /\
  Known_C20_ngram_no_trigram_query norm_ascii keep_alnum blen_utf8 s = true /\
  ngram_search norm_ascii keep_alnum blen_utf8 docs s = (NAtMost, []).
Proof.
  exists [(7, [120; 110; 239; 121])], 7, [120], [110; 239], [121].
  vm_compute. repeat split. left. reflexivity.
Qed.
Print Assumptions C20_ngram_no_trigram_query_refuted.

(* the consumer side: whatever mix of exact and inexact indices the planner picks, if every leaf search
   answers truthfully in its own kind (the three theorems above give AtMost supersets), the scan with the
   indices returns exactly the rows of the scan without - outside C19's class not_over_nullable (C19's theorem, restated) *)
Theorem C20_inexact_scan_eq_scan : forall (en : env) (info : index_info)
    (search : leaf -> outcome search_result) (cov : leaf -> list N) (ltruth : leaf -> N -> bool)
    (tbl : list rowT) (p : sexpr),
  parsers_ok info -> fn_definite en ->
  (forall r, In r tbl -> row_ok info r = true) ->
  (forall ie sq, apply_scalar_indices info p = Ok ie -> scalar_query ie = Some sq ->
     forall l, In l (s_leaves sq) -> leaf_ok en search cov ltruth tbl l) ->
  Known_C19_not_over_nullable info tbl p = false ->
  apply_scalar_indices info p <> Err ->
  index_scan en info search cov tbl p = Ok (full_scan en tbl p).
Proof. exact index_scan_eq_scan. Qed.
Print Assumptions C20_inexact_scan_eq_scan.

(* ---------------------------------------------------------------- tests of the model (not theorems) *)
(* zone [1, NaN, NULL, 5]: min 1, max NaN, 1 null, 1 NaN (test_nan_zonemap_index shapes) *)
Example ex_zone_stats :
  let z := mk_zone 0 0 [Some (Fin 1%Z); Some NaN; None; Some (Fin 5%Z)] in
  z_min z = Some (Fin 1%Z) /\ z_max z = Some NaN /\ z_nulls z = 1 /\ z_nans z = 1 /\
  eval_zone z (ZEquals (Some (Fin 3%Z))) = true /\           (* max is NaN: conservative *)
  eval_zone z (ZEquals (Some (Fin 0%Z))) = false /\
  eval_zone z (ZRange (ZExcl (Fin 7%Z)) ZUnb) = true /\       (* NaN > 7 under the total order *)
  eval_zone z (ZRange ZUnb (ZExcl (Fin 1%Z))) = false /\
  eval_zone z ZIsNull = true /\
  eval_zone (mk_zone 0 0 [None; None]) (ZRange ZUnb (ZIncl (Fin 9%Z))) = true /\   (* min NULL sorts first: kept *)
  eval_zone (mk_zone 0 0 [None; None]) (ZEquals (Some (Fin 9%Z))) = false.
Proof. vm_compute. repeat split. Qed.

(* exhaustive small universe: every zone of <= 3 values over {NULL, 0, 1, NaN} x 60 queries: a matching row => selected *)
Definition su_vals : list (option fval) := [None; Some (Fin 0%Z); Some (Fin 1%Z); Some NaN].
Definition su_lists : list (list (option fval)) :=
  [[]] ++ map (fun a => [a]) su_vals ++ flat_map (fun a => map (fun b => [a; b]) su_vals) su_vals
  ++ flat_map (fun a => flat_map (fun b => map (fun c => [a; b; c]) su_vals) su_vals) su_vals.
Definition su_bounds : list zbound := [ZUnb; ZIncl (Fin 0%Z); ZIncl (Fin 1%Z); ZIncl NaN; ZExcl (Fin 0%Z); ZExcl (Fin 1%Z); ZExcl NaN].
Definition su_queries : list zquery :=
  [ZIsNull] ++ map ZEquals su_vals ++ flat_map (fun lo => map (fun hi => ZRange lo hi) su_bounds) su_bounds
  ++ [ZIsIn []; ZIsIn [None]; ZIsIn [Some (Fin 0%Z); Some NaN]; ZIsIn [Some (Fin 1%Z); None]].
Example ex_zone_sweep :
  forallb (fun vs => forallb (fun q => negb (existsb (zmatch q) vs) || eval_zone (mk_zone 0 0 vs) q) su_queries) su_lists = true
  /\ length su_lists = 85%nat /\ length su_queries = 58%nat.
Proof. vm_compute. repeat split. Qed.

(* bloom: masks of Block::mask(1) set one bit per word; a filter of 2 blocks after three inserts *)
Example ex_bloom :
  mask 1 = [256; 256; 131072; 1048576; 16384; 32; 524288; 2048] /\
  let f := fold_left sbbf_insert [12345678901234567890; 42; 18446744073709551615] (repeat empty_block 2) in
  sbbf_check f 42 = true /\ sbbf_check f 12345678901234567890 = true /\ sbbf_check f 18446744073709551615 = true /\
  sbbf_check f 43 = false /\ block_index 2 18446744073709551615 = 1 /\ block_index 2 42 = 0.
Proof. vm_compute. repeat split. Qed.

(* n-gram: "Apple pie" contains "ple p"? the trigrams of the query are "ple" only ("le ", "e p" hold a blank) *)
Example ex_ngram :
  let docs := [(1, [65; 112; 112; 108; 101; 32; 112; 105; 101]); (2, [98; 97; 110; 97; 110; 97])] in
  grams norm_ascii keep_alnum [112; 108; 101; 32; 112] = [[112; 108; 101]] /\
  ngram_search norm_ascii keep_alnum blen_utf8 docs [112; 108; 101; 32; 112] = (NAtMost, [1]) /\
  ngram_search norm_ascii keep_alnum blen_utf8 docs [97; 112] = (NAtLeast, []) /\
  ngram_search norm_ascii keep_alnum blen_utf8 docs [122; 122; 122] = (NExact, []) /\
  (forall a b, norm_ascii (a ++ b) = norm_ascii a ++ norm_ascii b).
Proof. split; [|split; [|split; [|split]]]; try (vm_compute; reflexivity). exact norm_ascii_app. Qed.
