(* C01 - Every commit is atomic and versions form a dense, monotone history.
   Property theorems only; model in Store/Model_Commit.v, proofs in Store/Proofs_Commit.v.

   Quantifiers are real: ANY store satisfying WF (attached versions exactly 1..N, every published manifest -
   attached or detached - references only files that exist), ANY handler, ANY transaction (any number of new
   files, any choice of inherited references, any base version, detached or not), ANY crash point k, ANY
   history (list of complete / crashed / failed writes and detached commits).
   `exec (firstn k w) s` is the store after a crash that let k calls of the program w through, and also the
   store after call k+1 failed (a failing call has no effect and the error aborts the operation).

   Assumptions of the model (not proved here): a single store call (put, put_opts(Create),
   rename_if_not_exists) is atomic and durable; file names drawn from uuids are fresh (modelled by a counter);
   an operation that adopts files written by an earlier phase of itself (compaction's second commit) wrote
   them completely before it commits (`adopt_ok`); histories are sequential (concurrent writers: C02, C03). *)
From LanceV Require Import Common.Base Store.Model_Handlers Store.Proofs_Handlers Store.Model_Commit Store.Proofs_Commit.
Local Open Scope N_scope.

(* (1) A write that crashes, or whose store call fails, at or before its commit point (k calls done, k <= number
   of calls before the publishing call) is invisible: every attached version shows the same manifest and the
   same file contents, the latest version is the same, and the store is still well formed. *)
Theorem C01_crash_prefix_invisible : forall s h t k,
  WF s -> (k <= commit_pos s h t)%nat ->
  let s' := exec (firstn k (write_program s h t)) s in
  (forall v, visible s' v = visible s v) /\ latest s' = latest s /\ WF s'.
Proof. exact crash_prefix_invisible. Qed.
Print Assumptions C01_crash_prefix_invisible.

(* (2) Running the whole program of an (attached) write succeeds and adds exactly version N+1, whose manifest is
   the one the model built and whose references all exist; every other version is unchanged. *)
Theorem C01_success_one_version : forall s h t inh,
  WF s -> adopt_ok s t -> t_detached t = None -> refused s t = false -> base_refs s t = Some inh ->
  let w := write_program s h t in
  let s' := exec w s in
  let n := latest0 s in
  let m := new_manifest s t inh in
  completes w s = true
  /\ latest s' = Some (n + 1)
  /\ (forall v, v <> n + 1 -> visible s' v = visible s v)
  /\ visible s (n + 1) = None
  /\ visible s' (n + 1) = Some (m, map (fun r => get s' (PFile r)) (m_refs m))
  /\ refs_exist s' m = true
  /\ m_version m = n + 1
  /\ WF s'.
Proof. exact success_one_version. Qed.
Print Assumptions C01_success_one_version.

(* the same for a crash anywhere past the commit point (the publication is the commit: later calls only
   release the lock) *)
Theorem C01_past_commit_point_one_version : forall s h t inh k,
  WF s -> adopt_ok s t -> t_detached t = None -> refused s t = false -> base_refs s t = Some inh ->
  (commit_pos s h t < k)%nat ->
  let s' := exec (firstn k (write_program s h t)) s in
  let n := latest0 s in
  let m := new_manifest s t inh in
  latest s' = Some (n + 1)
  /\ (forall v, v <> n + 1 -> visible s' v = visible s v)
  /\ visible s (n + 1) = None
  /\ visible s' (n + 1) = Some (m, map (fun r => get s' (PFile r)) (m_refs m))
  /\ refs_exist s' m = true
  /\ m_version m = n + 1
  /\ WF s'.
Proof. exact past_commit_one_version. Qed.
Print Assumptions C01_past_commit_point_one_version.

(* a version number in the detached range is refused after the transaction file was written: nothing is published *)
Theorem C01_detached_range_refused : forall s h t k,
  WF s -> refused s t = true ->
  let s' := apply_op s (Write h t k) in
  (forall v, visible s' v = visible s v) /\ latest s' = latest s /\ WF s'.
Proof.
  intros s h t k W R s'.
  assert (F : Frame s s') by (apply write_no_commit; [exact W | unfold write_program; rewrite R; reflexivity]).
  split; [apply frame_visible; assumption | split; [apply frame_latest; exact F | eapply frame_WF; eauto]].
Qed.
Print Assumptions C01_detached_range_refused.

(* (3) WF is an invariant of every history of complete / crashed / failed writes and detached commits, by
   induction on the history: versions stay exactly 1..N, no manifest is ever published before its files,
   N never decreases and grows by at most one per write, and published versions never change. *)
Theorem C01_reachable_WF_dense : forall ops s0,
  WF s0 -> ops_ok ops s0 ->
  let s := run_ops ops s0 in
  WF s
  /\ (forall v, has s (PMan v) = true <-> 1 <= v <= latest0 s)
  /\ (forall v m, open v s = Some m -> refs_exist s m = true)
  /\ latest0 s0 <= latest0 s <= latest0 s0 + N.of_nat (length ops)
  /\ (forall v, 1 <= v <= latest0 s0 -> visible s v = visible s0 v).
Proof.
  intros ops s0 W A s. destruct (reachable_WF_dense ops s0 W A) as (W' & HL & Hv). fold s in W', HL, Hv.
  split; [exact W'|]. split; [exact (wf_dense _ W')|]. split; [|split; [exact HL | exact Hv]].
  intros v m Ho. apply open_get in Ho.
  destruct (wf_man _ W' _ _ (manifest_path_is_manifest v) Ho) as (m' & Hm & _ & Hr). inversion Hm; subst m'.
  unfold refs_exist. apply forallb_forall. intros r Hin. apply has_true. destruct (Hr r Hin) as [d Hd]; eauto.
Qed.
Print Assumptions C01_reachable_WF_dense.

(* every table starts empty *)
Theorem C01_histories_from_empty : forall ops, ops_ok ops [] ->
  let s := run_ops ops [] in
  WF s /\ (forall v, has s (PMan v) = true <-> 1 <= v <= latest0 s) /\ latest0 s <= N.of_nat (length ops).
Proof.
  intros ops A s. destruct (reachable_WF_dense ops [] WF_empty A) as (W' & HL & _). fold s in W', HL.
  split; [exact W'|]. split; [exact (wf_dense _ W')|]. cbn in HL. lia.
Qed.
Print Assumptions C01_histories_from_empty.

(* (4) Detached commits never become the latest version:
   (a) for ALL stores the reader's latest ignores a manifest stored under a detached name;
   (b) a detached commit, run to any point k, leaves latest, every attached version and WF unchanged;
   (c) the latest version of a well formed store is never in the detached range;
   (d) the version a detached commit picks always has the high bit set. *)
Theorem C01_detached_never_latest :
  (forall s v c, is_detached v = true -> latest (put s (manifest_path v) c) = latest s)
  /\ (forall s h t k r, WF s -> adopt_ok s t -> t_detached t = Some r ->
        let s' := apply_op s (Write h t k) in
        latest s' = latest s /\ (forall v, visible s' v = visible s v) /\ WF s')
  /\ (forall s v, WF s -> latest s = Some v -> is_detached v = false)
  /\ (forall s t r, t_detached t = Some r -> is_detached (target s t) = true).
Proof.
  split; [exact latest_ignores_detached_name|]. split; [exact detached_commit_invisible|].
  split; [exact latest_not_detached | exact target_detached].
Qed.
Print Assumptions C01_detached_never_latest.

(* The commit step is C02's: for one writer, the handler calls of this model and the handler programs of
   Store.Model_Handlers (ConditionalPut / Rename / CommitLock / Unsafe) agree, call by call, on what the final
   manifest path and the staging path hold. *)
Theorem C01_commit_step_is_C02_handler : forall h tv m t st0 s1 j,
  st0 (KFinal tv) = None -> st0 (KTmp t) = None ->
  has s1 (manifest_path tv) = false -> has s1 (PTmp tv) = false ->
  (j <= length (commit_calls h tv m))%nat ->
  let hs := Model_Handlers.run (repeat (Run t) j) (init st0 (fun _ => tv) (fun _ => h)) in
  let s2 := exec (firstn j (commit_calls h tv m)) s1 in
  (sto hs (KFinal tv) = Some (By t) <-> get s2 (manifest_path tv) = Some (CMan m))
  /\ (sto hs (KFinal tv) = None <-> get s2 (manifest_path tv) = None)
  /\ (sto hs (KTmp t) = None <-> get s2 (PTmp tv) = None)
  /\ (j = length (commit_calls h tv m) -> tpc (thr hs t) = Done ROk)
  /\ (tpc (thr hs t) = Done ROk -> sto hs (KFinal tv) = Some (By t)).
Proof.
  intros h tv m t st0 s1 j H1 H2 H3 H4 Hj hs s2.
  destruct (commit_calls_refine_handlers h tv m t st0 s1 j H1 H2 H3 H4 Hj) as (A & B & C & D & E).
  fold hs s2 in A, B, C, D, E.
  split; [exact A|]. split; [exact B|]. split; [exact C|]. split; [|exact E].
  intro Hl. apply D. rewrite Hl. apply Nat.eqb_refl.
Qed.
Print Assumptions C01_commit_step_is_C02_handler.

(* ---------- non-vacuity ---------- *)
Definition ex_append : txn := {| t_files := [(7, true); (8, true)]; t_adopt := []; t_base := None; t_keep := [true; true; true; true; true; true]; t_detached := None |}.
Definition ex_overwrite : txn := {| t_files := [(9, true)]; t_adopt := []; t_base := None; t_keep := []; t_detached := None |}.
Definition ex_restore : txn := {| t_files := []; t_adopt := []; t_base := Some 1; t_keep := [true; true; true]; t_detached := None |}.
Definition ex_detached : txn := {| t_files := [(5, true)]; t_adopt := []; t_base := None; t_keep := [true; true; true]; t_detached := Some 12345 |}.
(* compaction: rewritten file first, ReserveFragments does not reference it, Rewrite adopts it *)
Definition ex_reserve : txn := {| t_files := [(4, false)]; t_adopt := []; t_base := None; t_keep := [true; true; true; true]; t_detached := None |}.

(* create (3 files + txn, rename handler), an append that crashes before its commit point, the same append
   complete (conditional put), a detached commit, a crashed overwrite under the lock handler, a restore *)
Definition ex_history : list op :=
  [Write HRename ex_append 100; Write HCondPut ex_append 2; Write HCondPut ex_append 100;
   Write HCondPut ex_detached 100; Write HLock ex_overwrite 4; Write HLock ex_restore 100].

Example C01_nonvacuous :
  ops_ok ex_history []
  /\ let s := run_ops ex_history [] in
     latest s = Some 3 /\ attached_versions s = [1; 2; 3] /\ wf_b s = true
     /\ has s (PDet (N.lor 12345 DETACHED_VERSION_MASK)) = true
     /\ option_map (fun x => m_refs (fst x)) (visible s 2) = Some [6; 7; 8; 1; 2; 3]
     /\ option_map (fun x => m_refs (fst x)) (visible s 3) = Some [13; 1; 2; 3].
Proof.
  split; [cbn; repeat split; intros r []|]. vm_compute. repeat split; reflexivity.
Qed.

(* the hypotheses of (1) and (2) hold at a non-trivial point: the store after the history above, the append, all
   crash points 0..3 before the publication and the complete run *)
Example C01_nonvacuous_crash_points :
  let s := run_ops ex_history [] in
  wf_b s = true /\ commit_pos s HRename ex_append = 4%nat /\ refused s ex_append = false
  /\ base_refs s ex_append = Some [13; 1; 2; 3]
  /\ forallb (fun k => list_eqb N.eqb (attached_versions (exec (firstn k (write_program s HRename ex_append)) s)) [1; 2; 3]) [0; 1; 2; 3; 4]%nat = true
  /\ attached_versions (exec (write_program s HRename ex_append) s) = [1; 2; 3; 4].
Proof. vm_compute. repeat split; reflexivity. Qed.

(* the refusal of detached-range numbers is reachable in the model: a store whose latest version is 2^63 - 1 *)
Example C01_refusal_example :
  let s := [(PMan 9223372036854775807, CMan {| m_version := 9223372036854775807; m_refs := [] |})] in
  refused s ex_overwrite = true /\ write_program s HCondPut ex_overwrite = file_puts s ex_overwrite.
Proof. vm_compute. split; reflexivity. Qed.
