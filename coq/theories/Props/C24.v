(* C24 - Index coverage is never claimed for data the index did not see.
   Property theorems only; model in Table/Model_Txn.v (check_create_index, prune_updated_fields, the CreateIndex /
   Update / Rewrite arms of build_manifest).
   PARTIAL: proved are the per-commit facts the property rests on - (a) an Update that modified fields leaves none of
   its updated fragments in the bitmap of any index covering one of those fields (prune_updated_fields_from_indices);
   (b) a CreateIndex is refused (retryable) when a compaction without deferred remap moved a fragment of its bitmap,
   or a DataReplacement replaced one of its fields, since its read version; (c) the converse checks for Rewrite and
   DataReplacement as the committing writer.  The history-level statement C24_coverage_sound (snapshot of the indexed
   values = current values for every fragment in every bitmap, over all schedules) is NOT proved; it is refuted inside
   the known class create_index_over_concurrent_column_rewrite (F12) by the witness below, and checked end to end
   (indexed query == unindexed query after every commit) by hx_c24. *)
From LanceV Require Import Common.Base Table.Model_Txn Table.Proofs_TxnBase.
Local Open Scope N_scope.

(* F12: a CreateIndex committing after an Update that rewrote (fields_modified) one of its fields in a fragment of
   its bitmap; check_create_index_txn returns Ok for every Update *)
Definition Known_C24_create_index_over_concurrent_column_rewrite (o : op) (others : list op) : bool :=
  match o with
  | CreateIndex newi _ =>
      existsb (fun other => match other with
                            | Update _ upd _ fields_mod _ _ _ =>
                                existsb (fun i => overlapZ (i_fields i) fields_mod
                                                  && match i_bitmap i with Some b => overlapN b (ids_of upd) | None => true end) newi
                            | _ => false end) others
  | _ => false
  end.

(* (a) *)
Theorem C24_update_prunes_bitmap : forall indices upd fields_mod i f,
  fields_mod <> [] -> In i (prune_updated_fields indices upd fields_mod) -> overlapZ (i_fields i) fields_mod = true ->
  forall b, i_bitmap i = Some b -> In f b -> ~ In f (ids_of upd).
Proof.
  intros indices upd fields_mod i f Hne Hin Hov b Hb Hf Hu. unfold prune_updated_fields in Hin.
  destruct fields_mod as [|x r]; [congruence|]. apply in_map_iff in Hin as [j [E Hj]].
  destruct (overlapZ (i_fields j) (x :: r)) eqn:Eo.
  - destruct (i_bitmap j) as [bj|] eqn:Ebj.
    + subst i. cbn [set_bitmap i_bitmap] in Hb. inversion Hb; subst b. apply filter_In in Hf as [_ Hf].
      apply negb_true_iff in Hf. apply memN_false in Hf. exact (Hf Hu).
    + subst i. congruence.
  - subst i. congruence.
Qed.
Print Assumptions C24_update_prunes_bitmap.

(* (b) *)
Theorem C24_create_index_conflicts : forall rb newi removedi,
  (forall groups rw, (exists i b f, In i newi /\ i_bitmap i = Some b /\ In f b /\ In f (group_old_ids groups)) ->
     fst (check_create_index rb newi removedi (Rewrite groups rw None)) = VRetry)
  /\ (forall groups rw, (exists i, In i newi /\ i_bitmap i = None) ->
     fst (check_create_index rb newi removedi (Rewrite groups rw None)) = VRetry)
  /\ (forall repl, (exists x, In x (repl_fields repl) /\ In x (indexed_fields newi)) ->
     fst (check_create_index rb newi removedi (DataReplacement repl)) = VRetry).
Proof.
  intros rb newi removedi. split; [|split].
  - intros groups rw [i [b [f [Hi [Hb [Hf Hg]]]]]]. cbn [check_create_index fst]. unfold index_vs_rewrite.
    destruct (bitmaps_union newi) as [ids|] eqn:Eu; [|reflexivity].
    assert (Hin : In f ids).
    { clear - Hi Hb Hf Eu. revert ids Eu. induction newi as [|j r IH]; intros ids Eu; [destruct Hi|]. cbn [bitmaps_union] in Eu.
      destruct (i_bitmap j) as [bj|] eqn:Ebj; [|discriminate]. destruct (bitmaps_union r) as [rest|] eqn:Er; [|discriminate].
      inversion Eu; subst. apply in_or_app. destruct Hi as [Hi | Hi]; [subst j; left; congruence | right; apply (IH Hi rest eq_refl)]. }
    assert (Q : overlapN (group_old_ids groups) ids = true) by (apply overlapN_true; exists f; auto). rewrite Q. reflexivity.
  - intros groups rw [i [Hi Hb]]. cbn [check_create_index fst]. unfold index_vs_rewrite.
    assert (Q : bitmaps_union newi = None).
    { clear - Hi Hb. induction newi as [|j r IH]; [destruct Hi|]. cbn [bitmaps_union]. destruct Hi as [Hi | Hi].
      - subst j. rewrite Hb. reflexivity.
      - destruct (i_bitmap j); [|reflexivity]. rewrite (IH Hi). reflexivity. }
    rewrite Q. reflexivity.
  - intros repl [x [H1 H2]]. cbn [check_create_index fst].
    assert (Q : overlapZ (repl_fields repl) (indexed_fields newi) = true) by (apply overlapZ_true; exists x; auto). rewrite Q. reflexivity.
Qed.
Print Assumptions C24_create_index_conflicts.

(* (c) the same conflicts seen from the other committing writer *)
Theorem C24_rewrite_and_replacement_conflicts : forall rb groups newi removedi repl,
  ((exists i b f, In i newi /\ i_bitmap i = Some b /\ In f b /\ In f (group_old_ids groups)) -> find is_fri newi = None ->
     fst (check_rewrite rb groups None (CreateIndex newi removedi)) = VRetry)
  /\ ((exists x, In x (repl_fields repl) /\ In x (indexed_fields newi)) ->
     check_data_replacement repl (CreateIndex newi removedi) = VRetry).
Proof.
  intros rb groups newi removedi repl. split.
  - intros [i [b [f [Hi [Hb [Hf Hg]]]]]] Hfri. cbn [check_rewrite]. rewrite Hfri. cbn [fst]. unfold index_vs_rewrite.
    destruct (bitmaps_union newi) as [ids|] eqn:Eu; [|reflexivity].
    assert (Hin : In f ids).
    { clear - Hi Hb Hf Eu. revert ids Eu. induction newi as [|j r IH]; intros ids Eu; [destruct Hi|]. cbn [bitmaps_union] in Eu.
      destruct (i_bitmap j) as [bj|] eqn:Ebj; [|discriminate]. destruct (bitmaps_union r) as [rest|] eqn:Er; [|discriminate].
      inversion Eu; subst. apply in_or_app. destruct Hi as [Hi | Hi]; [subst j; left; congruence | right; apply (IH Hi rest eq_refl)]. }
    assert (Q : overlapN (group_old_ids groups) ids = true) by (apply overlapN_true; exists f; auto). rewrite Q. reflexivity.
  - intros [x [H1 H2]]. cbn [check_data_replacement].
    assert (Q : overlapZ (repl_fields repl) (indexed_fields newi) = true) by (apply overlapZ_true; exists x; auto). rewrite Q. reflexivity.
Qed.
Print Assumptions C24_rewrite_and_replacement_conflicts.

(* F12 witness: fragment 0 stores field 1 in file 1; a partial-schema merge_insert rewrites the column into file 5
   (version 2); a CreateIndex computed at version 1 with fragment 0 in its bitmap then commits (version 3): the
   index claims fragment 0 although field 1 of fragment 0 is now another file *)
Definition f12_rows : N -> N := fun _ => 3.
Definition f12_m0 : manifest :=
  {| m_frags := [mkf 0 [mkd 1 [0%Z; 1%Z]] None]; m_schema := [(0%Z, false); (1%Z, true)]; m_maxfid := Some 0;
     m_config := []; m_indices := [] |}.
Definition f12_h0 : history := [{| v_man := f12_m0; v_op := Overwrite [] [] None |}].
Definition f12_h1 : history :=
  fst (run_step f12_rows f12_h0 {| s_rv := 1; s_int := IUpdateCols [(0, 5)] [1%Z] [(0, 1)] []; s_newdel := 1 |}).
Definition f12_idx : index := mki 7 2 [1%Z] (Some [0]) 1 false.
Definition f12_step : step := {| s_rv := 1; s_int := ICreateIndex [f12_idx] []; s_newdel := 2 |}.
Definition field1_file (h : history) : option N :=
  match latest h with
  | Some m => match find_frag 0 (m_frags m) with Some f => option_map d_id (file_of f 1%Z) | None => None end
  | None => None
  end.

Theorem C24_create_index_over_concurrent_column_rewrite_refuted :
  version_of f12_h1 = 2 /\ field1_file f12_h0 = Some 1 /\ field1_file f12_h1 = Some 5
  /\ Known_C24_create_index_over_concurrent_column_rewrite (CreateIndex [f12_idx] []) (ops_since f12_h1 1) = true
  /\ exists h2 m, fst (run_step f12_rows f12_h1 f12_step) = h2 /\ version_of h2 = 3 /\ latest h2 = Some m
       /\ map (fun i => (i_uuid i, i_bitmap i)) (m_indices m) = [(7, Some [0])] /\ field1_file h2 = Some 5.
Proof.
  split; [vm_compute; reflexivity | split; [vm_compute; reflexivity | split; [vm_compute; reflexivity | split; [vm_compute; reflexivity|]]]].
  eexists. eexists. split; [reflexivity | split; [vm_compute; reflexivity | split; [vm_compute; reflexivity | split; vm_compute; reflexivity]]].
Qed.
Print Assumptions C24_create_index_over_concurrent_column_rewrite_refuted.

(* non-vacuity of (a): the reverse order - index first, column rewrite second - prunes fragment 0 from the bitmap *)
Example C24_update_after_index_prunes :
  let h1 := fst (run_step f12_rows f12_h0 f12_step) in
  let h2 := fst (run_step f12_rows h1 {| s_rv := 2; s_int := IUpdateCols [(0, 5)] [1%Z] [(0, 1)] []; s_newdel := 1 |}) in
  version_of h2 = 3 /\ exists m, latest h2 = Some m /\ map (fun i => (i_uuid i, i_bitmap i)) (m_indices m) = [(7, Some [])].
Proof. cbv zeta. split; [vm_compute; reflexivity|]. eexists. split; vm_compute; reflexivity. Qed.
