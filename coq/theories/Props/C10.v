(* C10 - External manifest store protocol keeps versions unique, durable and portable.
   Property theorems only; model in Store/Model_External.v, proofs in Store/Proofs_External.v.

   Quantifiers are real: any number of threads (indexed by N) with any assignment of roles (writer = commit,
   reader = resolve_version_location, latest-reader = resolve_latest_location), versions and manifest sizes; any
   pre-existing store (versions published before the run, on-boarded in the external store or not); either
   naming scheme; any event list = any interleaving of the threads' individual calls to the object store and to
   the external store, with any placement of failing calls (`Fail`), lost replies (`Lost`), stale external reads
   (`Stale`, eventual consistency) and crashes (a thread that is not scheduled again).

   One class of event lists is excluded (finding F13, `C10_ack_lost_refuted`): a lost reply on a writer's
   put_if_not_exists that took effect.  Every list without `Lost` events is outside the class
   (`C10_class_is_only_lost_replies`). *)
From LanceV Require Import Common.Base Store.Model_External Store.Proofs_External.
Local Open Scope N_scope.

(* Each version maps to exactly one content, for all readers and writers, forever:
   - whatever a reader (resolve_version_location or resolve_latest_location) or a writer resolves for a version is
     held by the version's final path, and it is the content staged by the single winner `win` of that version
     (the writer whose put_if_not_exists created the external entry);
   - a final path that holds a content holds that content in every later state;
   - the winner of a version never changes; two acknowledged writers of one version are the same writer. *)
Theorem C10_unique_content : forall st0 ex0 sch roles vers bigs evs1 evs2,
  wf_init st0 ex0 roles vers ->
  let s0 := init st0 ex0 sch roles vers bigs in
  Known_C10_ack_lost_put_if_not_exists (evs1 ++ evs2) s0 = false ->
  let s1 := run evs1 s0 in
  let s2 := run (evs1 ++ evs2) s0 in
  (forall x, tpc (thr s1 x) = Done ROk ->
     exists c, sto s1 (KFinal (ver (thr s1 x))) = Some c /\ sto s2 (KFinal (ver (thr s1 x))) = Some c
               /\ (forall w, win s1 (ver (thr s1 x)) = Some w -> c = By w))
  /\ (forall v c, sto s1 (KFinal v) = Some c ->
        sto s2 (KFinal v) = Some c /\ (forall w, win s1 v = Some w -> c = By w))
  /\ (forall v w, win s1 v = Some w -> win s2 v = Some w)
  /\ (forall x y, roles x = Writer -> roles y = Writer -> tpc (thr s1 x) = Done ROk -> tpc (thr s1 y) = Done ROk ->
        vers x = vers y -> x = y).
Proof.
  intros st0 ex0 sch roles vers bigs evs1 evs2 Hwf s0 Hk s1 s2.
  destruct (known_app evs1 evs2 s0 Hk) as [K1 K2].
  pose proof (run_inv evs1 s0 (init_inv st0 ex0 sch roles vers bigs Hwf) K1) as I1. fold s1 in I1, K2.
  destruct (run_mono evs2 s1 I1 K2) as [M1 M2].
  assert (E2 : s2 = run evs2 s1) by (unfold s2, s1; apply run_app).
  split; [|split; [|split]].
  - intros x Hx. destruct (inv_resolved s1 x I1 Hx) as [c [A B]]. exists c. split; [exact A|]. split; [|exact B].
    rewrite E2. apply M1. exact A.
  - intros v c Hc. split.
    + rewrite E2. apply M1. exact Hc.
    + intros w Hw. eapply inv_final_content; eassumption.
  - intros v w Hw. rewrite E2. apply M2. exact Hw.
  - intros x y Rx Ry Hx Hy Hv.
    assert (Rx1 : rl (thr s1 x) = Writer) by (unfold s1; rewrite run_rl; exact Rx).
    assert (Ry1 : rl (thr s1 y) = Writer) by (unfold s1; rewrite run_rl; exact Ry).
    destruct (inv_acked s1 x I1 Rx1 Hx) as [A _]. destruct (inv_acked s1 y I1 Ry1 Hy) as [B _].
    assert (Vx : ver (thr s1 x) = vers x) by (unfold s1; rewrite (run_ver evs1 s0 x (init_inv _ _ _ _ _ _ Hwf) K1 Rx); reflexivity).
    assert (Vy : ver (thr s1 y) = vers y) by (unfold s1; rewrite (run_ver evs1 s0 y (init_inv _ _ _ _ _ _ Hwf) K1 Ry); reflexivity).
    rewrite Vx in A. rewrite Vy, <- Hv in B. rewrite A in B. inversion B. reflexivity.
Qed.
Print Assumptions C10_unique_content.

(* A version whose commit returned success is never lost: in every later state the final path of the version
   holds the acknowledged writer's manifest. *)
Theorem C10_acked_never_lost : forall st0 ex0 sch roles vers bigs evs1 evs2 t,
  wf_init st0 ex0 roles vers ->
  let s0 := init st0 ex0 sch roles vers bigs in
  Known_C10_ack_lost_put_if_not_exists (evs1 ++ evs2) s0 = false ->
  roles t = Writer -> tpc (thr (run evs1 s0) t) = Done ROk ->
  sto (run (evs1 ++ evs2) s0) (KFinal (vers t)) = Some (By t).
Proof.
  intros st0 ex0 sch roles vers bigs evs1 evs2 t Hwf s0 Hk Rt Ht.
  destruct (known_app evs1 evs2 s0 Hk) as [K1 K2].
  pose proof (init_inv st0 ex0 sch roles vers bigs Hwf) as I0. fold s0 in I0.
  pose proof (run_inv evs1 s0 I0 K1) as I1.
  assert (R1 : rl (thr (run evs1 s0) t) = Writer) by (rewrite run_rl; exact Rt).
  destruct (inv_acked _ t I1 R1 Ht) as [_ A].
  rewrite (run_ver evs1 s0 t I0 K1 Rt) in A. change (ver (thr s0 t)) with (vers t) in A.
  rewrite run_app. destruct (run_mono evs2 _ I1 K2) as [M _]. apply M. exact A.
Qed.
Print Assumptions C10_acked_never_lost.

(* Durable: once the external store has accepted writer t's entry for version v (at whatever point t then
   crashes or fails), t's manifest is never lost: it is at the final path, or it is still in t's staging file
   and the external entry points at that file. *)
Theorem C10_durable : forall st0 ex0 sch roles vers bigs evs v t,
  wf_init st0 ex0 roles vers ->
  let s0 := init st0 ex0 sch roles vers bigs in
  Known_C10_ack_lost_put_if_not_exists evs s0 = false ->
  let s := run evs s0 in
  win s v = Some t ->
  sto s (KFinal v) = Some (By t) \/ (sto s (KTmp t) = Some (By t) /\ ext s v = Some (EStaging t)).
Proof.
  intros st0 ex0 sch roles vers bigs evs v t Hwf s0 Hk s Hw.
  apply inv_durable; [|exact Hw]. apply run_inv; [apply init_inv; exact Hwf | exact Hk].
Qed.
Print Assumptions C10_durable.

(* Repair: from any reachable state in which version v is committed (by t), a reader of v that has not started
   yet and now runs alone (6 calls suffice; calls after it returned are no-ops) returns Ok, and afterwards the
   final path of v holds t's manifest and the external entry of v is the final path. *)
Theorem C10_repair : forall st0 ex0 sch roles vers bigs evs v t r,
  wf_init st0 ex0 roles vers ->
  let s0 := init st0 ex0 sch roles vers bigs in
  Known_C10_ack_lost_put_if_not_exists evs s0 = false ->
  let s := run evs s0 in
  win s v = Some t ->
  tpc (thr s r) = R0 -> ver (thr s r) = v ->
  let s' := run (repeat (Run r) 6) s in
  tpc (thr s' r) = Done ROk /\ sto s' (KFinal v) = Some (By t) /\ ext s' v = Some EFinal.
Proof.
  intros st0 ex0 sch roles vers bigs evs v t r Hwf s0 Hk s Hw Hp Hv.
  apply inv_repair; try assumption. apply run_inv; [apply init_inv; exact Hwf | exact Hk].
Qed.
Print Assumptions C10_repair.

(* The excluded class contains only event lists with a lost reply: every schedule made of normal calls, calls
   failing without effect, stale reads and crashes is covered by the theorems above. *)
Theorem C10_class_is_only_lost_replies : forall evs s, no_lost evs -> Known_C10_ack_lost_put_if_not_exists evs s = false.
Proof. exact no_lost_outside_class. Qed.
Print Assumptions C10_class_is_only_lost_replies.

(* F13: inside the class the property fails.  Writer 1 stages its manifest, its put_if_not_exists is applied but
   the reply is lost, so `commit` deletes the staging file the external entry now points at: version 5 is
   committed (the external store is the source of truth), its content exists nowhere, and a fresh reader fails
   with NotFound. *)
Theorem C10_ack_lost_refuted :
  exists evs, let s0 := init (fun _ => None) [] false (fun t => if N.eqb t 1 then Writer else Reader) (fun _ => 5) (fun _ => false) in
    wf_init (fun _ => None) [] (fun t => if N.eqb t 1 then Writer else Reader) (fun _ => 5)
    /\ Known_C10_ack_lost_put_if_not_exists evs s0 = true
    /\ let s := run evs s0 in
       win s 5 = Some 1
       /\ ~ (sto s (KFinal 5) = Some (By 1) \/ (sto s (KTmp 1) = Some (By 1) /\ ext s 5 = Some (EStaging 1)))
       /\ tpc (thr s 3) = R0 /\ tpc (thr (run (repeat (Run 3) 6) s) 3) = Done RNotFound.
Proof.
  exists [Run 1; Lost 1; Run 1]. cbn zeta. split.
  - constructor; intros; try discriminate; try reflexivity. contradiction.
  - vm_compute. repeat split; try reflexivity. intros [H | [H _]]; discriminate H.
Qed.
Print Assumptions C10_ack_lost_refuted.

(* non-vacuity: two writers race for version 5, writer 2 loses; writer 1 crashes after the external commit; a
   reader that read the entry while it still pointed at the staging file (stale read) repairs the version *)
Example C10_nonvacuous :
  let roles := fun t => if N.leb t 2 then Writer else Reader in
  let s0 := init (fun _ => None) [] false roles (fun _ => 5) (fun _ => false) in
  let evs := [Run 1; Run 2; Run 1; Run 2; Run 2; Run 1; Fail 1; Stale 3 1; Run 3; Run 3; Run 3; Run 3] in
  wf_init (fun _ => None) [] roles (fun _ => 5)
  /\ Known_C10_ack_lost_put_if_not_exists evs s0 = false
  /\ let s := run evs s0 in
     tpc (thr s 1) = Done ROther /\ tpc (thr s 2) = Done RConflict /\ tpc (thr s 3) = Done ROk
     /\ win s 5 = Some 1 /\ sto s (KFinal 5) = Some (By 1) /\ ext s 5 = Some EFinal /\ sto s (KTmp 1) = None /\ sto s (KTmp 2) = None.
Proof.
  cbn zeta. split.
  - constructor; intros; try discriminate; try reflexivity. contradiction.
  - vm_compute. repeat split; reflexivity.
Qed.
