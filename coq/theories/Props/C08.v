(* C08 - Cleanup never removes anything a retained version needs.
   Property theorems only; model (transcription of rust/lance/src/dataset/cleanup.rs) in
   Table/Model_Cleanup.v, proofs in Table/Proofs_Cleanup.v.

   Quantifiers are real: any list of manifests with any reference sets, any store listing (paths, mtimes,
   sizes), any policy (before_timestamp / before_version / delete_unverified / error_if_tagged_old_versions),
   any tag set, any dataset version of the handle, any `now`; for the race any number of writers and any
   event list (= any interleaving of the cleanup's individual steps with the writers' store calls; a writer
   that is not scheduled again has failed).

   Scope (finding F7): the theorems speak about the references held by the manifests under the cleaned
   dataset's own _versions/ directory.  References held by branches / shallow clones are invisible to
   process_manifests; they are covered only outside the class Known_C08_cleanup_ignores_branch_refs. *)
From LanceV Require Import Common.Base Table.Model_Cleanup Table.Proofs_Cleanup.
Local Open Scope N_scope.

(* Whenever cleanup_with_policy returns Ok:
   - no removed object is needed by (or even connected with, `touches`) a manifest of the working set
     (latest / version >= the handle's, tagged, or not selected by the policy);
   - the objects removed come from the listing and are never manifest files;
   - the manifests removed are EXACTLY those the policy selects (older than the handle's version, selected
     by before_timestamp and before_version, not tagged); the latest and tagged ones are never removed. *)
Theorem C08_retained_readable : forall dsv tags pol now ms files r,
  run_cleanup dsv tags pol now ms files = Ok r ->
  (forall m f, In m ms -> in_working_set dsv tags pol m = true -> wf_refs (m_refs m) = true ->
               In f (rm_files r) -> touches (m_refs m) (f_path f) = false /\ needs m (f_path f) = false)
  /\ (forall f, In f (rm_files r) -> In f files /\ wf_manifest_path (f_path f) = false)
  /\ (forall m, In m (rm_manifests r) <->
                In m ms /\ m_version m < dsv /\ should_clean pol m = true /\ ~ In (m_version m) tags)
  /\ (forall m, In m ms -> dsv <= latest_version ms -> m_version m = latest_version ms -> ~ In m (rm_manifests r))
  /\ (forall m, In m ms -> In (m_version m) tags -> ~ In m (rm_manifests r)).
Proof. exact retained_readable. Qed.
Print Assumptions C08_retained_readable.

(* The same in terms of the store after cleanup: every object present before that a working-set manifest
   needs is present afterwards. *)
Theorem C08_retained_files_survive : forall dsv tags pol now ms files r m f,
  run_cleanup dsv tags pol now ms files = Ok r ->
  In m ms -> in_working_set dsv tags pol m = true -> wf_refs (m_refs m) = true ->
  In f files -> needs m (f_path f) = true -> In f (files_after r files).
Proof.
  intros dsv tags pol now ms files r m f Hrun Hm Hw Hwf Hf Hn.
  destruct (retained_readable _ _ _ _ _ _ _ Hrun) as (SAFE & _).
  unfold files_after. apply filter_In. split; [exact Hf|]. apply negb_true_iff.
  apply mem_path_false. intro Hin. apply in_map_iff in Hin as (g & Hg & Hgin).
  destruct (SAFE m g Hm Hw Hwf Hgin) as [_ N]. rewrite Hg in N. congruence.
Qed.
Print Assumptions C08_retained_files_survive.

(* An Err result (tagged old versions with error_if_tagged_old_versions) removes nothing: by construction
   run_cleanup returns no removal; stated for completeness. *)
Theorem C08_error_removes_nothing : forall dsv tags pol now ms files,
  run_cleanup dsv tags pol now ms files = Err ->
  error_if_tagged_old_versions pol = true /\ i_tagged_old (process_manifests dsv tags pol ms) <> [].
Proof.
  intros dsv tags pol now ms files H. unfold run_cleanup in H.
  destruct (error_if_tagged_old_versions pol); cbn [andb] in H; [|discriminate].
  destruct (i_tagged_old (process_manifests dsv tags pol ms)); [discriminate|]. split; [reflexivity | discriminate].
Qed.
Print Assumptions C08_error_removes_nothing.

(* F7: outside the class, what branches / shallow clones reference inside the cleaned dataset survives *)
Theorem C08_outside_branch_class : forall dsv tags pol now ms files r ext,
  run_cleanup dsv tags pol now ms files = Ok r ->
  (forall m, In m ms -> wf_refs (m_refs m) = true) ->
  Known_C08_cleanup_ignores_branch_refs dsv tags pol ms ext = false ->
  forall e f, In e ext -> In f (rm_files r) -> needs_refs e (f_path f) = false.
Proof. exact outside_branch_class. Qed.
Print Assumptions C08_outside_branch_class.

(* F7 (DESIGN.md §6): inside the class the property fails, for the faithful model as for the code:
   main v1 = {data/a.lance}; branch dev created from v1; main overwritten (v2 = {data/b.lance});
   cleanup of everything older than now removes data/a.lance, which the branch still needs. *)
Theorem C08_cleanup_ignores_branch_refs_refuted :
  exists dsv tags pol now ms files ext,
    Known_C08_cleanup_ignores_branch_refs dsv tags pol ms ext = true /\
    (forall m, In m ms -> wf_refs (m_refs m) = true) /\
    exists r e f, run_cleanup dsv tags pol now ms files = Ok r /\ In e ext /\ wf_refs e = true /\
                  In f (rm_files r) /\ needs_refs e (f_path f) = true.
Proof.
  destruct branch_refs_refuted as (K & W & We & r & f & R & F & N).
  exists 2, [], f7_pol, 1000000000000000000, f7_ms, f7_files, [f7_branch].
  split; [exact K|]. split; [exact W|]. exists r, f7_branch, f. repeat split; auto. left; reflexivity.
Qed.
Print Assumptions C08_cleanup_ignores_branch_refs_refuted.

(* Cleanup with delete_unverified = false, interleaved with any number of concurrent writers.
   Hypotheses: the handle's version exists (dsv <= latest); all reference sets are well formed; what a
   writer's own references are connected with (`tclaims`) is connected with no manifest present at the
   start and, if already in the store, is younger than the 7-day threshold; every object a writer puts
   carries an mtime not older than `now - 7 days`.
   Conclusion, for EVERY event list: no object connected with a published version >= dsv is ever removed;
   a writer that committed published a version that is still there and every file it put and needs exists;
   the initial objects such versions need exist; no manifest of a version >= dsv is ever deleted.
   _partial: (1) the mtime-driven clock is an assumption (object mtimes as the store reports them are
   compared with the cleaner's wall clock; a writer slower than 7 days, clock skew or an object store
   that does not report the write time are outside); (2) the writer program covers commits whose new
   manifest references a subset of the LATEST version's references plus the writer's own new files
   (append, delete, update, compaction, index creation, overwrite); Restore / checkout-and-commit of an
   old version, concurrent tag creation and a second concurrent cleanup are not modelled; (3) the
   listing of manifests is one atomic step of the model. *)
Theorem C08_in_progress_safe_partial : forall dsv tags pol now writers files0 ms0,
  delete_unverified pol = false ->
  dsv <= latest_version ms0 -> ms0 <> [] ->
  (forall m, In m ms0 -> wf_refs (m_refs m) = true) ->
  (forall t, wf_refs (w_own (writers t)) = true) ->
  (forall t p m, tclaims writers t p = true -> In m ms0 -> touches (m_refs m) p = false) ->
  (forall t f, In f files0 -> tclaims writers t (f_path f) = true -> verification_threshold now <= f_mtime f) ->
  (forall t f, In f (w_puts (writers t)) -> verification_threshold now <= f_mtime f) ->
  forall evs,
    let w := run dsv tags pol now writers evs (init writers files0 ms0) in
    (forall m p, In m (wd_manifests w) -> dsv <= m_version m -> In p (wd_removed w) ->
                 touches (m_refs m) p = false /\ needs m p = false)
    /\ (forall t m, ws_committed (wd_writers w t) = Some m ->
          In m (wd_manifests w) /\ dsv < m_version m /\
          (forall f, In f (w_puts (writers t)) -> needs m (f_path f) = true -> In f (wd_files w)))
    /\ (forall m f, In m (wd_manifests w) -> dsv <= m_version m -> In f files0 -> needs m (f_path f) = true -> In f (wd_files w))
    /\ (forall v, In v (wd_pending_m w) -> v < dsv).
Proof. exact in_progress_safe. Qed.
Print Assumptions C08_in_progress_safe_partial.

(* The safety window itself, as a statement about one decision: with delete_unverified = false an object
   not older than now - 7 days that no listed manifest is connected with is never selected for removal,
   whatever its path. *)
Theorem C08_unverified_young_kept : forall dsv tags pol now ms f,
  delete_unverified pol = false -> verification_threshold now <= f_mtime f ->
  (forall m, In m ms -> touches (m_refs m) (f_path f) = false) ->
  removes pol now (process_manifests dsv tags pol ms) f = false.
Proof.
  intros dsv tags pol now ms f Hdu Hy Hnt. unfold removes.
  assert (M : maybe_in_progress pol now f = true).
  { unfold maybe_in_progress. rewrite Hdu. cbn [negb andb]. apply N.leb_le. exact Hy. }
  rewrite M. rewrite decision_in_progress; [apply andb_false_r|]. intros m Hm _. apply Hnt. exact Hm.
Qed.
Print Assumptions C08_unverified_young_kept.

(* auto_cleanup_hook fires exactly when version mod interval = 0 (interval parsed and non-zero) and then
   uses exactly the configured policy: before_timestamp = now - older_than (if configured), before_version
   from retain_n_versions (if configured), delete_unverified = false, error_if_tagged_old_versions = true. *)
Theorem C08_auto_cleanup_trigger : forall cfg version now versions,
  (forall pol, auto_cleanup_hook cfg version now versions = Ok (Some pol) ->
     exists i, ac_interval cfg = Good i /\ i <> 0 /\ version mod i = 0 /\
               ((ac_retain cfg = Absent /\ pol = auto_policy cfg now None) \/
                (exists n v, ac_retain cfg = Good n /\ retain_n_versions versions n = Ok v /\ pol = auto_policy cfg now (Some v))))
  /\ (forall i, ac_interval cfg = Good i -> i <> 0 -> version mod i = 0 -> ac_older_than cfg <> Bad ->
        (ac_retain cfg = Absent -> auto_cleanup_hook cfg version now versions = Ok (Some (auto_policy cfg now None))) /\
        (forall n v, ac_retain cfg = Good n -> retain_n_versions versions n = Ok v ->
                     auto_cleanup_hook cfg version now versions = Ok (Some (auto_policy cfg now (Some v)))))
  /\ (forall i, ac_interval cfg = Good i -> i <> 0 -> version mod i <> 0 -> auto_cleanup_hook cfg version now versions = Ok None)
  /\ (ac_interval cfg = Absent -> auto_cleanup_hook cfg version now versions = Ok None).
Proof. exact auto_trigger. Qed.
Print Assumptions C08_auto_cleanup_trigger.

(* ---- non-vacuity ---------------------------------------------------------------------------- *)
Definition nv_a : path := [sg "data"; sg "a.lance"].
Definition nv_b : path := [sg "data"; sg "b.lance"].
Definition nv_c : path := [sg "data"; sg "c.lance"].
Definition nv_d : path := [sg "_deletions"; sg "0-2-7.arrow"].
Definition nv_i : path := [sg "_indices"; sg "u1"; sg "index.idx"].
Definition nv_day : N := 86400000000000.
Definition nv_now : N := 100 * nv_day.
Definition nv_ms : list manifest :=
  [ {| m_path := [sg "_versions"; sg "1.manifest"]; m_version := 1; m_ts := 10 * nv_day; m_size := 10;
       m_refs := {| r_data := [nv_a]; r_del := []; r_tx := [[sg "_transactions"; sg "0-x.txn"]]; r_idx := [sg "u1"] |} |};
    {| m_path := [sg "_versions"; sg "2.manifest"]; m_version := 2; m_ts := 20 * nv_day; m_size := 10;
       m_refs := {| r_data := [nv_a; nv_b]; r_del := [nv_d]; r_tx := []; r_idx := [] |} |};
    {| m_path := [sg "_versions"; sg "3.manifest"]; m_version := 3; m_ts := 30 * nv_day; m_size := 10;
       m_refs := {| r_data := [nv_b]; r_del := []; r_tx := []; r_idx := [] |} |} ].
Definition nv_files : list file :=
  [ {| f_path := nv_a; f_mtime := 9 * nv_day; f_size := 100 |}; {| f_path := nv_b; f_mtime := 19 * nv_day; f_size := 100 |};
    {| f_path := nv_d; f_mtime := 19 * nv_day; f_size := 7 |}; {| f_path := nv_i; f_mtime := 9 * nv_day; f_size := 7 |};
    {| f_path := [sg "_transactions"; sg "0-x.txn"]; f_mtime := 9 * nv_day; f_size := 3 |};
    {| f_path := [sg "data"; sg "orphan-old.lance"]; f_mtime := 5 * nv_day; f_size := 1 |};
    {| f_path := [sg "data"; sg "orphan-young.lance"]; f_mtime := 29 * nv_day; f_size := 1 |};
    {| f_path := [sg "_versions"; sg "3.manifest-staging"]; f_mtime := 5 * nv_day; f_size := 1 |} ].
Definition nv_pol : policy :=
  {| before_timestamp := Some (25 * nv_day); before_version := None; delete_unverified := false; error_if_tagged_old_versions := true |}.

(* versions 1 and 2 are selected; 2 is tagged and kept; v1's transaction file, index and the old orphan go;
   a.lance stays because tagged v2 needs it *)
Example C08_sequential_nonvacuous :
  exists r, run_cleanup 3 [2] {| before_timestamp := Some (25 * nv_day); before_version := None;
                                 delete_unverified := false; error_if_tagged_old_versions := false |}
                        nv_now nv_ms nv_files = Ok r /\
            map m_version (rm_manifests r) = [1] /\
            map f_path (rm_files r) = [nv_i; [sg "_transactions"; sg "0-x.txn"]; [sg "data"; sg "orphan-old.lance"]] /\
            rm_bytes r = 21 /\ rm_old_versions r = 1.
Proof. eexists. vm_compute. repeat split; reflexivity. Qed.

(* with error_if_tagged_old_versions the same call is an Err *)
Example C08_tagged_error_nonvacuous : run_cleanup 3 [2] nv_pol nv_now nv_ms nv_files = Err.
Proof. vm_compute. reflexivity. Qed.

(* a race: writer 1 puts c.lance (young) and then commits version 4 = v3's references + c.lance, while
   cleanup inspects, sees a.lance / c.lance / d, deletes a.lance and manifests 1 and 2 *)
Definition nv_writer : writer :=
  {| w_puts := [ {| f_path := nv_c; f_mtime := 99 * nv_day; f_size := 50 |} ];
     w_keep := fun _ => true; w_keep_idx := fun _ => true;
     w_own := {| r_data := [nv_c]; r_del := []; r_tx := []; r_idx := [] |};
     w_mpath := [sg "_versions"; sg "4.manifest"]; w_ts := 99 * nv_day; w_msize := 10 |}.

Example C08_race_nonvacuous :
  let writers := fun _ : N => nv_writer in
  let pol := {| before_timestamp := Some (99 * nv_day); before_version := None; delete_unverified := false; error_if_tagged_old_versions := false |} in
  (* the hypotheses of C08_in_progress_safe_partial hold *)
  (3 <= latest_version nv_ms) /\ nv_ms <> [] /\
  (forall m, In m nv_ms -> wf_refs (m_refs m) = true) /\ (forall t, wf_refs (w_own (writers t)) = true) /\
  (forall t p m, tclaims writers t p = true -> In m nv_ms -> touches (m_refs m) p = false) /\
  (forall t f, In f nv_files -> tclaims writers t (f_path f) = true -> verification_threshold nv_now <= f_mtime f) /\
  (forall t f, In f (w_puts (writers t)) -> verification_threshold nv_now <= f_mtime f) /\
  (* and a run in which cleanup removes things while the writer commits *)
  let w := run 3 [] pol nv_now writers
               [EW 1; ECInspect; ECSee nv_a; ECSee nv_c; ECSee nv_d; EW 1; ECDelete nv_a; ECDelete nv_d; ECDeleteManifest 1; ECDeleteManifest 2; ECSee nv_c]
               (init writers nv_files nv_ms) in
  wd_removed w = [nv_d; nv_a] /\ map m_version (wd_manifests w) = [4; 3] /\
  map f_path (wd_files w) = [nv_c; nv_b; nv_i; [sg "_transactions"; sg "0-x.txn"]; [sg "data"; sg "orphan-old.lance"];
                             [sg "data"; sg "orphan-young.lance"]; [sg "_versions"; sg "3.manifest-staging"]].
Proof.
  cbv zeta.
  assert (TC : forall t p, tclaims (fun _ : N => nv_writer) t p = true -> p = nv_c).
  { intros t p H. unfold tclaims in H. apply touches_iff in H.
    destruct H as [[<-|[]]|[[]|[[]|[_ [u [_ []]]]]]]. reflexivity. }
  split; [vm_compute; discriminate|]. split; [discriminate|].
  split. { intros m [<-|[<-|[<-|[]]]]; vm_compute; reflexivity. }
  split. { intro t. vm_compute. reflexivity. }
  split. { intros t p m H Hm. apply TC in H. subst p. destruct Hm as [<-|[<-|[<-|[]]]]; vm_compute; reflexivity. }
  split. { intros t f Hf H. apply TC in H.
           repeat (destruct Hf as [<-|Hf]; [vm_compute in H; discriminate|]). destruct Hf. }
  split. { intros t f [<-|[]]. vm_compute. discriminate. }
  vm_compute. repeat split; reflexivity.
Qed.

(* the hook: interval 3, older_than 14 days, retain 2 of the versions 1..6 -> fires at version 6 with
   before_version = 5; silent at version 7; interval 0 panics (remainder by zero) *)
Example C08_auto_nonvacuous :
  let cfg := {| ac_interval := Good 3; ac_older_than := Good (14 * nv_day); ac_retain := Good 2 |} in
  auto_cleanup_hook cfg 6 nv_now [1;2;3;4;5;6]
    = Ok (Some {| before_timestamp := Some (86 * nv_day); before_version := Some 5; delete_unverified := false; error_if_tagged_old_versions := true |})
  /\ auto_cleanup_hook cfg 7 nv_now [1;2;3;4;5;6;7] = Ok None
  /\ auto_cleanup_hook {| ac_interval := Good 0; ac_older_than := Absent; ac_retain := Absent |} 7 nv_now [1] = Panic
  /\ retain_n_versions [1;2;3] 0 = Panic.
Proof. vm_compute. repeat split; reflexivity. Qed.
