(* C43 - Schema and projection algebra is consistent. Property theorems only.
   Model: Meta/Model_Schema.v (transcription of lance-core datatypes/{schema.rs,field.rs} and
   lance-file datatypes.rs).  Vocabulary used in the statements (all defined in Meta/Proofs_Schema*.v):
     chains s        root-to-field chains of a schema, pre-order;  achain c = the attributes along c
     subforest r s   r is s with fields removed: attributes (id, parent id, name, type, nullability,
                     metadata, encoding) and relative order of the kept fields unchanged
     addressed s c   c is the chain a list of names designates (first field of that name at each level)
     hits I f        f or one of its descendants has its id in I;  dhits: a proper descendant has *)
From LanceV Require Import Common.Base Meta.Model_Schema Meta.Proofs_Schema Meta.Proofs_SchemaTree
  Meta.Proofs_SchemaPb Meta.Proofs_SchemaIds Meta.Proofs_SchemaNames Meta.Proofs_SchemaMerge Meta.Proofs_SchemaMerge2
  Meta.Proofs_SchemaProject Meta.Proofs_SchemaIntersect.
Local Open Scope N_scope.

(* ---------------------------------------------------------------- field paths *)

(* Any non-empty list of non-empty names - whatever characters they contain, '.' and '`' included -
   is printed to a string that parses back to exactly that list. *)
Theorem C43_path_roundtrip : forall p : list str,
  p <> [] -> Forall (fun s => s <> []) p -> parse_field_path (format_field_path p) = Ok p.
Proof. exact parse_format_roundtrip. Qed.
Print Assumptions C43_path_roundtrip.

(* A name without '.' and '`' is a path naming itself. *)
Theorem C43_plain_name_is_its_path : forall s : str, plain s = true -> parse_field_path s = Ok [s].
Proof. exact parse_plain. Qed.
Print Assumptions C43_plain_name_is_its_path.

(* Resolving the printed path of a chain of fields finds exactly that chain (hence that field). *)
Theorem C43_resolve_finds_the_named_field : forall (s : schema) (chain : list field),
  addressed s chain -> Forall (fun f => fname f <> []) chain ->
  resolve s (format_field_path (map fname chain)) = Some chain /\
  sfield s (format_field_path (map fname chain)) = Some (last chain dflt).
Proof.
  intros s chain Ha Hn. split; [exact (resolve_addressed s chain Ha Hn) | exact (sfield_addressed s chain dflt Ha Hn)].
Qed.
Print Assumptions C43_resolve_finds_the_named_field.

(* field_path(id) leads back to a field with that id (sibling names distinct, no empty name). *)
Theorem C43_field_path_resolves : forall (s : schema) (id : Z) (path : str),
  names_unique s = true -> all_names_nonempty s = true ->
  field_path s id = Ok path -> exists f, sfield s path = Some f /\ fid f = id.
Proof. exact field_path_resolves. Qed.
Print Assumptions C43_field_path_resolves.

(* ---------------------------------------------------------------- projection by ids *)

(* project_by_ids returns a sub-forest of the schema: every kept field keeps all its attributes,
   its ancestors and its relative position. *)
Theorem C43_project_by_ids_subforest : forall (s : schema) (I : list Z) (b : bool),
  subforest (project_by_ids s I b) s.
Proof. intros s I b. exact (project_by_ids_subforest I s b). Qed.
Print Assumptions C43_project_by_ids_subforest.

(* include_all_children: the kept fields are exactly those that are selected, lie below a selected
   field, or lie above one (ancestors_closure of I together with the sub-trees of I). *)
Theorem C43_project_by_ids_set_semantics_all : forall (s : schema) (I : list Z) (ac : list attrs),
  In ac (achains (project_by_ids s I true)) <->
  exists c, In c (chains s) /\ achain c = ac /\
            (existsb (fun a => zmem (fid a) I) c || dhits I (last c dflt)) = true.
Proof. exact project_by_ids_chains_all. Qed.
Print Assumptions C43_project_by_ids_set_semantics_all.

(* without include_all_children: selected fields, their ancestors, and the whole sub-tree of a
   selected field none of whose descendants is selected (keepF). *)
Theorem C43_project_by_ids_set_semantics_sel : forall (s : schema) (I : list Z) (ac : list attrs),
  In ac (achains (project_by_ids s I false)) <->
  exists c, In c (chains s) /\ achain c = ac /\ keepF I c = true.
Proof. exact project_by_ids_chains_sel. Qed.
Print Assumptions C43_project_by_ids_set_semantics_sel.

(* ---------------------------------------------------------------- Projection *)

(* union / intersect / subtract are the set operations on field ids and the boolean operations on
   the system-column flags; the algebraic laws follow. *)
Theorem C43_projection_set_operations : forall (p q : projection) (x : Z),
  (In x (p_ids (union_projection p q)) <-> In x (p_ids p) \/ In x (p_ids q)) /\
  (In x (p_ids (intersect_projection p q)) <-> In x (p_ids p) /\ In x (p_ids q)) /\
  (In x (p_ids (subtract_projection p q)) <-> In x (p_ids p) /\ ~ In x (p_ids q)).
Proof.
  intros p q x. split; [apply union_projection_spec|]. split; [apply intersect_projection_spec | apply subtract_projection_spec].
Qed.
Print Assumptions C43_projection_set_operations.

Theorem C43_projection_laws : forall p q r : projection,
  p_equiv (union_projection p p) p /\
  p_equiv (intersect_projection p p) p /\
  p_equiv (union_projection p q) (union_projection q p) /\
  p_equiv (intersect_projection p q) (intersect_projection q p) /\
  p_equiv (union_projection (union_projection p q) r) (union_projection p (union_projection q r)) /\
  p_equiv (subtract_projection (union_projection p q) q) (subtract_projection p q) /\
  p_equiv (subtract_projection p (union_projection q r))
          (intersect_projection (subtract_projection p q) (subtract_projection p r)) /\
  p_equiv (intersect_projection p (union_projection q r))
          (union_projection (intersect_projection p q) (intersect_projection p r)) /\
  p_equiv (intersect_projection p (union_projection p q)) p /\
  (forall x, ~ In x (p_ids (subtract_projection p p))).
Proof.
  intros p q r.
  repeat split; try (intros x; first [apply proj_subtract_self]);
  first [apply proj_union_idem | apply proj_inter_idem | apply proj_union_comm | apply proj_inter_comm
        | apply proj_union_assoc | apply proj_union_subtract | apply proj_subtract_union
        | apply proj_inter_union_distr | apply proj_absorb | idtac].
Qed.
Print Assumptions C43_projection_laws.

(* id sets are kept in canonical (strictly increasing) form, so equivalent projections are equal *)
Theorem C43_projection_canonical : forall p q : projection,
  p_wf p -> p_wf q ->
  p_wf (union_projection p q) /\ p_wf (intersect_projection p q) /\ p_wf (subtract_projection p q) /\
  (p_equiv p q -> p = q).
Proof.
  intros p q Hp Hq. split; [apply union_projection_wf; exact Hp|]. split; [apply intersect_projection_wf; exact Hp|].
  split; [apply subtract_projection_wf; exact Hp | apply p_equiv_eq; assumption].
Qed.
Print Assumptions C43_projection_canonical.

(* union_column(path) adds the resolved field, its ancestors and all its descendants - nothing else *)
Theorem C43_union_column : forall (base : schema) (p p' : projection) (col : str) (e : bool),
  is_system_column col = false -> union_column base p col e = Ok p' ->
  p_flags p' = p_flags p /\
  match resolve base col with
  | Some chain => forall x, In x (p_ids p') <-> In x (p_ids p) \/ In x (map fid chain) \/ In x (fdesc_ids (last chain dflt))
  | None => e = false /\ p' = p
  end.
Proof. exact union_column_data. Qed.
Print Assumptions C43_union_column.

(* to_schema keeps exactly the selected fields and their ancestors, as a sub-forest of the base schema;
   it panics exactly when a selected nested field has no selected descendant (the assert in
   Field::apply_projection). *)
Theorem C43_to_schema_keeps_ancestors : forall (base : schema) (p : projection),
  (existsb (panics (p_ids p)) base = true -> to_bare_schema base p = Panic) /\
  (existsb (panics (p_ids p)) base = false ->
     exists r, to_bare_schema base p = Ok r /\ subforest r base /\
       forall ac, In ac (achains r) <->
                  exists c, In c (chains base) /\ achain c = ac /\ hits (p_ids p) (last c dflt) = true).
Proof. exact to_bare_schema_spec. Qed.
Print Assumptions C43_to_schema_keeps_ancestors.

(* ---------------------------------------------------------------- stored form and Arrow *)

(* Schema -> pb::Field list -> Schema is the identity when ids are distinct, none is -1, every field
   records its parent's id, and attributes are canonical (metadata sorted by key, encoding tag <= 4). *)
Theorem C43_pb_roundtrip : forall s : schema, wf_schema s = true -> of_fields (to_fields s) = Ok s.
Proof. exact fields_roundtrip. Qed.
Print Assumptions C43_pb_roundtrip.

Theorem C43_pb_order : forall s : schema, map pb_id (to_fields s) = field_ids s.
Proof. exact to_fields_ids. Qed.
Print Assumptions C43_pb_order.

(* set_field_id changes nothing but ids: unassigned (negative) ids are numbered consecutively in
   pre-order from max(existing)+1, assigned ids are kept, parents are recorded; result ids are
   non-negative, and distinct whenever the pre-assigned ones were. *)
Theorem C43_set_field_id : forall (s : schema) (mx : option Z),
  map strip (set_field_id s mx) = map strip s /\
  field_ids (set_field_id s mx) = fst (assign (field_ids s) (seed_of s mx)) /\
  Forall (fun x => 0 <= x)%Z (field_ids (set_field_id s mx)) /\
  (NoDup (filter (fun x => 0 <=? x)%Z (field_ids s)) -> NoDup (field_ids (set_field_id s mx))).
Proof.
  intros s mx. destruct (set_field_id_spec s mx) as [H1 [H2 _]]. destruct (set_field_id_ids s mx) as [H3 H4].
  repeat split; assumption.
Qed.
Print Assumptions C43_set_field_id.

(* Schema::try_from(&ArrowSchema): names, types, nullability, metadata and shape are those of the
   Arrow schema; ids are fresh, distinct, non-negative; and the result survives the stored form. *)
Theorem C43_arrow_conversion : forall arrow s : schema,
  forallb canon_f arrow = true -> of_arrow arrow = Ok s ->
  map strip s = map strip arrow /\ NoDup (field_ids s) /\ Forall (fun x => 0 <= x)%Z (field_ids s) /\
  of_fields (to_fields s) = Ok s.
Proof.
  intros arrow s Hc H. destruct (of_arrow_spec arrow s H) as [H1 [_ [H3 [H4 H5]]]].
  repeat split; try assumption. apply fields_roundtrip. apply H5. exact Hc.
Qed.
Print Assumptions C43_arrow_conversion.

Theorem C43_arrow_fresh_ids : forall arrow s : schema,
  Forall (fun x => x < 0)%Z (field_ids arrow) -> of_arrow arrow = Ok s ->
  field_ids s = map Z.of_nat (seq 0 (length (field_ids arrow))).
Proof. exact of_arrow_fresh_ids. Qed.
Print Assumptions C43_arrow_fresh_ids.

(* ---------------------------------------------------------------- operations matching fields by name *)

(* exclude(s, other) is s minus other: a sub-forest of s keeping exactly the fields that have, in their
   sub-tree, a field whose name path other does not contain (so parents of surviving fields stay).
   Proved outside two defect classes of the real code (see the _refuted witnesses below). *)
Theorem C43_exclude_set_semantics : forall s other : schema,
  forallb shape_ok s = true ->
  Known_C43_toplevel_name_reparsed s = false ->
  Known_C43_exclude_toplevel_list s other = false ->
  exists r, exclude s other = Ok r /\ subforest r s /\
    forall ac, In ac (achains r) <-> exists c, In c (chains s) /\ achain c = ac /\ keeps_x other c = true.
Proof.
  intros s other Hs Hk1 Hk2. apply exclude_semantics; [exact Hs | | exact Hk2].
  unfold Known_C43_toplevel_name_reparsed in Hk1. apply forallb_forall. intros f Hf.
  destruct (plain (fname f)) eqn:E; [reflexivity|]. exfalso.
  assert (X : existsb (fun f => negb (plain (fname f))) s = true) by (apply existsb_exists; exists f; rewrite E; auto).
  congruence.
Qed.
Print Assumptions C43_exclude_set_semantics.

(* merge(s, other), when it succeeds, is the union on name paths: every path of s with s's field
   (id, name, type, nullability, metadata unchanged), every other path of other with other's field and
   its id reset to -1; sibling names stay distinct. *)
Theorem C43_merge_is_union : forall s o r : schema,
  merge s o = Ok r ->
  Known_C43_toplevel_name_reparsed s = false ->
  names_unique s = true -> names_unique o = true -> agree_schema s (map freset_id o) = true ->
  names_unique r = true /\
  forall p, p <> [] -> lookup_a r p = orelse (lookup_a s p) (option_map reset_attrs (lookup_a o p)).
Proof.
  intros s o r H Hk Hus Huo Hag. apply merge_union; try assumption.
  unfold Known_C43_toplevel_name_reparsed in Hk. apply forallb_forall. intros f Hf.
  destruct (plain (fname f)) eqn:E; [reflexivity|]. exfalso.
  assert (X : existsb (fun f => negb (plain (fname f))) s = true) by (apply existsb_exists; exists f; rewrite E; auto).
  congruence.
Qed.
Print Assumptions C43_merge_is_union.

(* project(columns) (and project_or_drop): when every column exists and starts with a plain top-level
   name - i.e. outside the two defect classes below - the call succeeds, and a name path p leads to a
   field of the result iff p lies on, above or below one of the columns (covered); that field then has
   exactly the attributes (id, name, type, nullability, metadata) it has in s.  Repeated and overlapping
   columns are merged (Field::merge); sibling names stay distinct. *)
Theorem C43_project_set_semantics : forall (s : schema) (cols : list str) (err_on_missing : bool),
  forallb shape_ok s = true -> names_unique s = true -> Forall (col_ok s) cols ->
  exists r, do_project s cols err_on_missing = Ok r /\
    nodup_by str_eqb (map fname r) = true /\ (forall c, In c r -> names_unique_f c = true) /\
    forall p, p <> [] -> lookup_a r p = if covered cols p then lookup_a s p else None.
Proof. exact project_semantics. Qed.
Print Assumptions C43_project_set_semantics.

(* the hypothesis col_ok is exactly "outside the defect classes": *)
Theorem C43_project_domain : forall (s : schema) (col : str),
  col_ok s col -> Known_C43_dangling_subpath s [col] = false /\
                  (forall f, sfield s col <> None -> In f s -> fname f = hd [] (col_path col) -> plain (fname f) = true).
Proof.
  intros s col H. destruct (col_ok_inv s col H) as [first [rest [f0 [Hp [Hpl [Hf Hr]]]]]]. split.
  - unfold Known_C43_dangling_subpath. cbn [existsb]. rewrite Hp, Hf. unfold resolve. rewrite Hp, Hf.
    destruct (fresolve f0 rest); [reflexivity | contradiction].
  - intros f _ _ Hn. unfold col_path in Hn. rewrite Hp in Hn. cbn [hd] in Hn. rewrite Hn. exact Hpl.
Qed.
Print Assumptions C43_project_domain.

(* intersection(s, other) is sound: each result field is a pruning of the top-level field of s with the
   same name as a field of other (attributes, ids and order of children kept), and - types not ignored -
   every name path below it exists in other as well.  (Completeness fails in the large_list class and
   because nested type mismatches are silently dropped: see the witness below.) *)
Theorem C43_intersection_sound_partial : forall (s o r : schema) (ign : bool),
  intersection s o ign = Ok r ->
  forallb ids_nonneg s = true -> Known_C43_toplevel_name_reparsed o = false ->
  Forall (fun x => exists f of, In f s /\ In of o /\ fname f = fname of /\ subfield x f /\
                     (ign = false -> shape_ok f = true -> names_unique_f f = true -> paths_within (fch x) (fch of))) r.
Proof.
  intros s o r ign H Hid Hk. apply intersection_sound; [exact H | exact Hid|].
  unfold Known_C43_toplevel_name_reparsed in Hk. apply forallb_forall. intros f Hf.
  destruct (plain (fname f)) eqn:E; [reflexivity|]. exfalso.
  assert (X : existsb (fun f => negb (plain (fname f))) o = true) by (apply existsb_exists; exists f; rewrite E; auto).
  congruence.
Qed.
Print Assumptions C43_intersection_sound_partial.

(* ---------------------------------------------------------------- defects of the real code: witnesses *)

(* a : int32, s : struct{x, y.z, q`r}, l : list<item : struct{u, v}>   (ids 0..8, pre-order) *)
Definition ex_leaf (id pid : Z) (name : str) : field := mkf id pid name (LPrim 6) true [] 1 false [].
Definition ex_schema : schema :=
  [ ex_leaf 0 (-1) [97];
    mkf 1 (-1) [115] LStruct true [] 0 false [ex_leaf 2 1 [120]; ex_leaf 3 1 [121; 46; 122]; ex_leaf 4 1 [113; 96; 114]];
    mkf 5 (-1) [108] (LList true) true [] 1 false
      [mkf 6 5 [105;116;101;109] LStruct true [] 0 false [ex_leaf 7 6 [117]; ex_leaf 8 6 [118]]] ].

Definition ex_bt (child : str) : schema :=
  [mkf 0 (-1) [98; 96; 116] LStruct true [] 0 false [ex_leaf 1 0 child]].          (* b`t : struct{child} *)
Definition bt_path : str := [96; 98; 96; 96; 116; 96].                              (* `b``t` *)

(* a top-level name with a backtick: its own printed path resolves, yet project refuses it, and
   merge silently drops other's children *)
Theorem C43_toplevel_name_reparsed_refuted :
  exists s o cols,
    Known_C43_toplevel_name_reparsed s = true /\
    field_path s 0 = Ok bt_path /\ option_map (map fid) (resolve s bt_path) = Some [0%Z] /\ cols = [bt_path] /\
    project s cols = Err /\
    merge s o = Ok s /\ lookup_a o [[98; 96; 116]; [121]] <> None /\ lookup_a s [[98; 96; 116]; [121]] = None.
Proof.
  exists (ex_bt [120]), (ex_bt [121]), [bt_path]. repeat split; try (vm_compute; reflexivity). vm_compute. discriminate.
Qed.
Print Assumptions C43_toplevel_name_reparsed_refuted.

(* a column whose tail does not exist is accepted (truncated parent) or panics *)
Theorem C43_dangling_subpath_refuted :
  exists s c1 c2,
    Known_C43_dangling_subpath s c1 = true /\ Known_C43_dangling_subpath s c2 = true /\
    (exists r, project s c1 = Ok r /\ field_ids r = [1%Z]) /\ project s c2 = Panic.
Proof.
  exists ex_schema, [[115; 46; 110; 111; 112; 101]], [[108; 46; 110; 111; 112; 101]; [108; 46; 105; 116; 101; 109]].
  split; [vm_compute; reflexivity|]. split; [vm_compute; reflexivity|]. split; [|vm_compute; reflexivity].
  eexists. split; vm_compute; reflexivity.
Qed.
Print Assumptions C43_dangling_subpath_refuted.

(* excluding one leaf of a top-level list<struct> drops the whole list *)
Theorem C43_exclude_toplevel_list_refuted :
  exists s other,
    forallb shape_ok s = true /\ Known_C43_toplevel_name_reparsed s = false /\
    Known_C43_exclude_toplevel_list s other = true /\
    project s [[108; 46; 105; 116; 101; 109; 46; 117]] = Ok other /\
    exclude s other = Ok [] /\ field_ids (exclude_spec s other) = [5; 6; 8]%Z.
Proof.
  exists [nth 2 ex_schema dflt]. eexists. repeat split; try (vm_compute; reflexivity).
Qed.
Print Assumptions C43_exclude_toplevel_list_refuted.

Definition ex_large (children : list field) : schema :=
  [mkf 0 (-1) [99] (LLargeList true) true [] 1 false [mkf 1 0 [105;116;101;109] LStruct true [] 0 false children]].

(* large_list<struct{p,q}> against large_list<struct{p}>: refused, or (ignoring types) q survives *)
Theorem C43_intersection_large_list_refuted :
  exists s o,
    Known_C43_intersection_large_list s o = true /\
    intersection s o false = Err /\
    intersection s o true = Ok s /\ lookup_a s [[99]; [105;116;101;109]; [113]] <> None /\
    lookup_a o [[99]; [105;116;101;109]; [113]] = None.
Proof.
  exists (ex_large [ex_leaf 2 1 [112]; ex_leaf 3 1 [113]]), (ex_large [ex_leaf 2 1 [112]]).
  repeat split; try (vm_compute; reflexivity). vm_compute. discriminate.
Qed.
Print Assumptions C43_intersection_large_list_refuted.

(* ---------------------------------------------------------------- non-vacuity *)

Example C43_nonvacuous_paths :
  format_field_path [[115]; [121; 46; 122]] = [115; 46; 96; 121; 46; 122; 96]
  /\ option_map (map fid) (resolve ex_schema [115; 46; 96; 121; 46; 122; 96]) = Some [1; 3]%Z
  /\ field_path ex_schema 4 = Ok [115; 46; 96; 113; 96; 96; 114; 96]
  /\ names_unique ex_schema = true /\ all_names_nonempty ex_schema = true.
Proof. repeat split; reflexivity. Qed.

Example C43_nonvacuous_ids :
  field_ids (project_by_ids ex_schema [3; 7]%Z true) = [1; 3; 5; 6; 7]%Z
  /\ field_ids (project_by_ids ex_schema [1; 3; 5]%Z false) = [1; 3; 5; 6; 7; 8]%Z
  /\ wf_schema ex_schema = true
  /\ of_fields (to_fields ex_schema) = Ok ex_schema
  /\ option_map field_ids (match of_arrow (map freset_id ex_schema) with Ok s => Some s | _ => None end)
     = Some [0; 1; 2; 3; 4; 5; 6; 7; 8]%Z.
Proof. repeat split; vm_compute; reflexivity. Qed.

Definition ex_cols : list str :=
  [ [115; 46; 96; 121; 46; 122; 96];            (* s.`y.z` *)
    [108; 46; 105; 116; 101; 109; 46; 117];     (* l.item.u *)
    [115; 46; 120] ].                           (* s.x *)
Example C43_nonvacuous_project :
  forallb shape_ok ex_schema = true /\ Forall (col_ok ex_schema) ex_cols
  /\ (match project ex_schema ex_cols with Ok r => Some (field_ids r) | _ => None end) = Some [1; 3; 2; 5; 6; 7]%Z
  /\ covered ex_cols [[108]; [105;116;101;109]; [118]] = false
  /\ (match exclude ex_schema [nth 1 ex_schema dflt] with Ok r => Some (field_ids r) | _ => None end) = Some [0; 5; 6; 7; 8]%Z
  /\ Known_C43_exclude_toplevel_list ex_schema [nth 1 ex_schema dflt] = false
  /\ agree_schema (ex_bt [120]) (map freset_id (ex_bt [121])) = true.
Proof.
  split; [vm_compute; reflexivity|]. split.
  - repeat constructor; try (vm_compute; discriminate); vm_compute; reflexivity.
  - repeat split; vm_compute; reflexivity.
Qed.

Example C43_nonvacuous_to_schema :
  (match to_schema ex_schema (mkP [3; 8]%Z true false false false) with Ok s => Some (field_ids s) | _ => None end)
    = Some [1; 3; 5; 6; 8; -1]%Z
  /\ to_bare_schema ex_schema (mkP [1]%Z false false false false) = Panic.
Proof. split; vm_compute; reflexivity. Qed.
