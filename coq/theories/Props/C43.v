(* C43 - Schema and projection algebra is consistent. Property theorems only. *)
From LanceV Require Import Common.Base Meta.Model_Schema Meta.Proofs_Schema.
Local Open Scope N_scope.

Example C43_smoke : parse_field_path [97; 46; 98] = Ok [[97]; [98]].
Proof. reflexivity. Qed.
