(* C11 - Write/append/overwrite/read returns exactly the rows written.  Property theorems only.

   Rows are OPAQUE payloads (any type A): the theorems say which rows end up in which data file and
   in which order a scan of the manifest visits them.  That a value, a null or a type survives the
   file encoding is NOT stated here (file round trip C25-C27, and the e2e arm of the C11 check):
   the property as a whole is therefore proved only in part ("partial" in checks.d/C11.json).
   Domain of the theorems: 0 < max_rows_per_file <= 2^31 (the u32 row counter of do_write_fragments
   cannot overflow); fewer than 2^32 rows over a whole history (fragment ids fit the u32
   max_fragment_id).  C11_split_preserves is about error-free readers; C11_scan_is_model covers
   readers that fail at any position as well (the call fails, the table is unchanged). *)
From LanceV Require Import Common.Base Io.Model_Chunker Table.Model_Write Table.Proofs_Write.

(* One write call, for EVERY list of batches (empty batches included), EVERY max_rows_per_file,
   max_rows_per_group, both stream splitters and EVERY byte-limit oracle:
   the data files hold exactly the rows of the input, in order; no file is empty; every file has fewer
   than 2*max rows; physical_rows is the file's row count; outside the two finding classes every file
   has at most max rows; and when the byte limit never closes a file, all files but the last are full
   (2.x: exactly max rows; 0.1: the first multiple of the group size that reaches max). *)
Theorem C11_split_preserves :
  forall (A : Type) (legacy : bool) (max g : nat) (full : nat -> bool) (bs : list (list A)),
  0 < max -> 0 < g -> (2 * N.of_nat max <= two32)%N ->
  exists (files : list (list A)) (chunks : list (list (batch A))),
    buffered_reader legacy max (Nat.min g max) (map IBatch bs) = Ok (map OVal chunks) /\
    write_fragments_internal legacy max g full (map IBatch bs) = Ok files /\
    concat files = concat bs /\
    Forall (fun f => f <> []) files /\
    Forall (fun f => length f < 2 * max) files /\
    Forall (fun f => physical_rows f = N.of_nat (length f)) files /\
    (Known_C11_rows_limit_byte_roll legacy full (length chunks) = false ->
     Known_C11_rows_limit_legacy_group legacy max g = false ->
     Forall (fun f => length f <= max) files) /\
    (fires_within full (length chunks) = false ->
     Forall (fun f => if legacy then max <= length f < max + Nat.min g max /\ length f mod Nat.min g max = 0
                      else length f = max) (removelast files)).
Proof. intros A. exact (@write_fragments_split A). Qed.
Print Assumptions C11_split_preserves.

(* Inside each class max_rows_per_file IS exceeded (confirmed on the real code, KNOWN_FINDINGS.txt). *)
Theorem C11_rows_limit_byte_roll_refuted :
  exists (full : nat -> bool) (bs : list (list unit)) (max g : nat) files chunks,
    buffered_reader false max (Nat.min g max) (map IBatch bs) = Ok (map OVal chunks) /\
    Known_C11_rows_limit_byte_roll false full (length chunks) = true /\
    write_fragments_internal false max g full (map IBatch bs) = Ok files /\
    ~ Forall (fun f => length f <= max) files.
Proof. exact rows_limit_byte_roll_witness. Qed.
Print Assumptions C11_rows_limit_byte_roll_refuted.

Theorem C11_rows_limit_legacy_group_refuted :
  exists (bs : list (list unit)) (max g : nat) files,
    Known_C11_rows_limit_legacy_group true max g = true /\
    write_fragments_internal true max g (fun _ => false) (map IBatch bs) = Ok files /\
    ~ Forall (fun f => length f <= max) files.
Proof. exact rows_limit_legacy_group_witness. Qed.
Print Assumptions C11_rows_limit_legacy_group_refuted.

(* build_manifest, Append arm: on a well-formed manifest (ids strictly increasing, below the stored
   high-water mark) the new manifest scans as the old one followed by the new files, version + 1,
   and is again well formed. *)
Theorem C11_build_manifest_append :
  forall (A : Type) (m : manifest (list A)) (files : list (list A)) (K : N),
  wf m K -> (K + N.of_nat (length files) <= two32)%N ->
  exists m', build_manifest (Some m) (OpAppend (new_frags files)) = Ok m' /\
    wf m' (K + N.of_nat (length files)) /\
    abs_manifest m' = abs_manifest m ++ concat files /\
    m_version m' = (m_version m + 1)%N.
Proof. intros A. exact (@build_manifest_append A). Qed.
Print Assumptions C11_build_manifest_append.

(* Overwrite arm (also used for Create): the new manifest scans as the new files alone. *)
Theorem C11_build_manifest_overwrite :
  forall (A : Type) (cur : option (manifest (list A))) (files : list (list A)) (K : N),
  match cur with Some m => wf m K | None => True end -> (K + N.of_nat (length files) <= two32)%N ->
  exists m', build_manifest cur (OpOverwrite (new_frags files)) = Ok m' /\
    wf m' (K + N.of_nat (length files)) /\
    abs_manifest m' = concat files.
Proof. intros A. exact (@build_manifest_overwrite A). Qed.
Print Assumptions C11_build_manifest_overwrite.

(* EVERY history of create / append / overwrite calls (any parameters per call, any byte oracle,
   any storage version switches, create-over-existing and failing readers included): no call
   panics, a failed call leaves the table as it was, and a scan of the final manifest - fragments in
   manifest order, each file front to back - is exactly the abstract table. *)
Theorem C11_scan_is_model :
  forall (A : Type) (h : list (wreq A)),
  Forall req_ok h -> (N.of_nat (total_rows h) <= two32)%N ->
  exists st, run_history None h = Ok st /\
    abs_state st = table_rows (spec_history h) /\
    (st = None <-> spec_history h = None).
Proof. intros A. exact (@scan_is_model A). Qed.
Print Assumptions C11_scan_is_model.

(* ... and the abstract table is the rows of the last overwrite followed by the rows appended since,
   in insertion order (whatever happened before). *)
Theorem C11_table_since_last_overwrite :
  forall (A : Type) (h1 : list (wreq A)) (ow : wreq A) (apps : list (wreq A)),
  w_mode ow = MOverwrite -> has_err (w_data ow) = false ->
  Forall (fun r => w_mode r = MAppend /\ has_err (w_data r) = false) apps ->
  spec_history (h1 ++ ow :: apps) = Some (req_rows ow ++ concat (map req_rows apps)).
Proof. intros A. exact (@spec_since_last_overwrite A). Qed.
Print Assumptions C11_table_since_last_overwrite.

(* ---- non-vacuity and regression ---- *)
(* the break_stream doc example [3,5,8,3,5] cut at 10, written with max_rows_per_file = 10 *)
Example C11_doc_example :
  omap (map physical_rows)
       (write_fragments_internal false 10 1024 (fun _ => false) (unit_items [Some 3; Some 5; Some 8; Some 3; Some 5]%N))
  = Ok [10; 10; 4]%N.
Proof. vm_compute. reflexivity. Qed.

(* a history that satisfies the hypotheses of C11_scan_is_model and is not trivial:
   create 25 rows in files of 10, append 3+3 in files of 4, create again (fails), overwrite as 0.1
   with groups of 3, an append whose reader fails after 3 rows (no effect), append 5 *)
Definition ex_rows (lo n : nat) : list nat := seq lo n.
Definition ex_req (md : wmode) (ver : option bool) (max g : nat) (bs : list (list nat)) : wreq nat :=
  {| w_mode := md; w_version := ver; w_max := max; w_group := g; w_full := fun _ => false; w_data := map IBatch bs |}.
Definition ex_history : list (wreq nat) :=
  [ex_req MCreate None 10 1024 [ex_rows 0 25];
   ex_req MAppend None 4 1024 [ex_rows 25 3; []; ex_rows 28 3];
   ex_req MCreate None 4 1024 [ex_rows 100 2];
   ex_req MOverwrite (Some true) 4 3 [ex_rows 200 10];
   {| w_mode := MAppend; w_version := None; w_max := 2; w_group := 2; w_full := fun _ => false;
      w_data := [IBatch (ex_rows 400 3); IErr; IBatch (ex_rows 403 1)] |};
   ex_req MAppend None 100 7 [ex_rows 300 5]].

Example C11_nonvacuous :
  Forall req_ok ex_history /\ (N.of_nat (total_rows ex_history) <= two32)%N /\
  omap (fun st => (abs_state st, option_map (fun s => view_of physical_rows (fst s)) st)) (run_history None ex_history)
  = Ok (ex_rows 200 10 ++ ex_rows 300 5, Some (4%N, [(0, 6); (1, 4); (5, 5)]%N, Some 5%N)) /\
  spec_history ex_history = Some (ex_rows 200 10 ++ ex_rows 300 5).
Proof.
  split; [repeat constructor; vm_compute; congruence|].
  split; [vm_compute; congruence|]. split; vm_compute; reflexivity.
Qed.

(* exhaustive small-universe sweep of the statement of C11_split_preserves through its executable
   restatement: 2 splitters x max in 1..4 x group in {1,2,3,5} x 5 byte-oracle patterns x all
   size lists over {0,1,2,3,5} of length <= 3 (24 960 cases).  A test, not the theorem. *)
Example C11_split_sweep : sweep_split = true.
Proof. vm_compute. reflexivity. Qed.
