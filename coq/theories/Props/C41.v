(* C41 - replay spills and stream chunking deliver every batch exactly once. (theorems follow) *)
From LanceV Require Import Common.Base Io.Model_Chunker Io.Model_Spill.

Example C41_unit_test_chunkers :
  chk_break_stream (10%N, ut_batches)
    (Ok [Some [0;1;2;3;4;5;6;7;8;9]%N; Some [0;1;2;3;4]%N; Some [0;1;2;3;4]%N; Some [5;6;7;8;9;10;11;12]%N]) = true.
Proof. reflexivity. Qed.
