(* C41 - replay spills and stream chunking deliver every batch exactly once.  Property theorems only.

   Chunker (rust/lance-datafusion/src/chunker.rs).  Batches are lists of opaque rows; the inner stream
   is any finite list of Ok(batch) / Err items.  [ovals out] are the Ok items of the output stream,
   [oerrs out] the number of Err items, [no_fuel out]: the model's loop bound was not hit.
   Spill (spill.rs).  A schedule is any list of sender calls (write / finish / send_error / drop) and
   reader events (open a reader, poll reader k), reader events also while a write/finish awaits I/O;
   [written] / [delivered k] are read off the observable trace. *)
From LanceV Require Import Common.Base Io.Model_Chunker Io.Proofs_Chunker Io.Model_Spill Io.Proofs_Spill.

(* ---------------------------------------------------------------- chunking *)

(* [exact_chunks n R flat] (Io/Model_Chunker.v) is what "re-sliced into chunks of exactly n rows except
   the last, none empty, nothing lost" means for output chunks [flat] (each flattened to its rows) of
   the data [R]:
     concat flat = R /\ Forall (fun c => c <> [] /\ length c <= n) flat /\
     (forall pre c post, flat = pre ++ c :: post -> post <> [] -> length c = n). *)

(* chunk_stream: for EVERY inner stream and every chunk size n > 0 the stream never panics, passes
   the Err items through, and its chunks (each a Vec of zero-copy slices, none of them empty) have
   exactly n rows except possibly the last, are non-empty, and concatenate to the input rows *)
Theorem C41_chunks : forall (A : Type) (n : nat) (inner : list (item A)), 0 < n ->
  exists out, chunk_stream n inner = Ok out /\ no_fuel out /\ oerrs out = ierrs inner /\
    exact_chunks n (concat (oks inner)) (map (@concat A) (ovals out)) /\
    Forall (Forall (fun piece => piece <> [])) (ovals out).
Proof.
  intros A n inner Hn. destruct (chunk_stream_correct n inner Hn) as (out & Ho & Hnf & Hch & HF & He).
  exists out. repeat split; try assumption; apply (chunks_of_exact_chunks n _ _ Hn Hch).
Qed.
Print Assumptions C41_chunks.

Theorem C41_chunk_concat : forall (A : Type) (n : nat) (inner : list (item A)), 0 < n ->
  exists out, chunk_concat_stream n inner = Ok out /\ no_fuel out /\ oerrs out = ierrs inner /\
    exact_chunks n (concat (oks inner)) (ovals out).
Proof.
  intros A n inner Hn. destruct (chunk_concat_stream_correct n inner Hn) as (out & Ho & Hnf & Hch & He).
  exists out. repeat split; try assumption; apply (chunks_of_exact_chunks n _ _ Hn Hch).
Qed.
Print Assumptions C41_chunk_concat.

Theorem C41_strict_batch_size : forall (A : Type) (n : nat) (inner : list (item A)), 0 < n ->
  exists out, strict_stream n inner = Ok out /\ no_fuel out /\ oerrs out = ierrs inner /\
    exact_chunks n (concat (oks inner)) (ovals out).
Proof.
  intros A n inner Hn. destruct (strict_stream_correct n inner Hn) as (out & Ho & Hnf & Hch & He).
  exists out. repeat split; try assumption; apply (chunks_of_exact_chunks n _ _ Hn Hch).
Qed.
Print Assumptions C41_strict_batch_size.

(* break_stream: nothing lost or reordered, no empty batch, no output batch crosses a multiple of
   max, and every multiple of max (up to the total) is a boundary between output batches *)
Theorem C41_break_stream : forall (A : Type) (max : nat) (inner : list (item A)), 0 < max ->
  exists out, break_stream max inner = Ok out /\ no_fuel out /\ oerrs out = ierrs inner /\
    concat (ovals out) = concat (oks inner) /\
    (forall pre p post, ovals out = pre ++ p :: post ->
       p <> [] /\ length (concat pre) mod max + length p <= max) /\
    (forall k, k * max <= length (concat (ovals out)) ->
       exists pre post, ovals out = pre ++ post /\ length (concat pre) = k * max).
Proof. intros A max inner H. exact (break_stream_flat max inner H). Qed.
Print Assumptions C41_break_stream.

(* break_stream never combines batches: the output is, input batch by input batch, a cut of that
   batch ([groups_ok]: pieces non-empty, inside one max-window, every piece but the last of a batch
   ending on a multiple of max - so it cuts only where it must) *)
Theorem C41_break_stream_refines : forall (A : Type) (max : nat) (inner : list (item A)), 0 < max ->
  exists out groups, break_stream max inner = Ok out /\ ovals out = concat groups /\
    Forall2 (fun g b => concat g = b) groups (oks inner) /\ groups_ok max 0 groups.
Proof.
  intros A max inner H. destruct (break_stream_correct max inner H) as (out & groups & Ho & _ & _ & Hv & HF & Hg).
  exists out, groups. repeat split; assumption.
Qed.
Print Assumptions C41_break_stream_refines.

(* outside the domain n > 0 (confirmed on the real code by the correspondence cases with size 0):
   chunk_stream with size 0 yields an empty stream whatever the input; break_stream panics *)
Definition Known_C41_size_zero (n : nat) : bool := n =? 0.
Theorem C41_size_zero_refuted :
  exists (n : nat) (inner : list (item N)), Known_C41_size_zero n = true /\
    chunk_stream n inner = Ok [] /\ concat (oks inner) <> [] /\ break_stream n inner = Panic.
Proof. exists 0, [IBatch [1%N; 2%N]]. repeat split. discriminate. Qed.
Print Assumptions C41_size_zero_refuted.

(* ---------------------------------------------------------------- replay spill *)
Section Replay.
Context {B : Type}.
Variable ipc : B -> B.
Hypothesis ipc_roundtrip : forall b, ipc b = b.

(* safety, for EVERY schedule (errors and drops included), memory limit and accumulator totals:
   what reader k has been given is exactly the first [batches_read] written batches *)
Theorem C41_replay_prefix : forall (limit : N) (es : list (event B)) (k : nat),
  let '(st, os) := run ipc (init limit) es in
  delivered k es os = firstn (nread st k) (written es os) /\ nread st k <= length (written es os).
Proof. exact (replay_prefix ipc ipc_roundtrip). Qed.

(* the published flags are the trace's: error iff send_error was executed, finished iff finish
   returned Ok or an error was sent *)
Theorem C41_replay_status : forall (limit : N) (es : list (event B)),
  let '(st, os) := run ipc (init limit) es in
  ws_error (sp_status st) = existsb is_sent os /\
  ws_finished (sp_status st) = existsb is_finish_ok os || existsb is_sent os.
Proof. exact (status_flags ipc). Qed.

(* progress, in any reachable state without a sent error: a live reader's next poll yields the next
   written batch if there is one; otherwise the end of the stream iff the spill is finished, else it
   waits (or reports the dropped sender) - it never skips, repeats, ends early or fails *)
Theorem C41_replay_poll : forall (limit : N) (es : list (event B)),
  let '(st, os) := run ipc (init limit) es in
  forall k r, nth_error (sp_readers st) k = Some r -> rd_done r = false -> ws_error (sp_status st) = false ->
    fst (reader_read ipc st r) =
      match nth_error (written es os) (rd_read r) with
      | Some b => OBatch b
      | None => if ws_finished (sp_status st) then OEnd
                else if sp_alive st then OPending else OErrR REDropped
      end.
Proof. exact (replay_poll ipc ipc_roundtrip). Qed.

(* a reader opened after ANY history in which finish succeeded and no error was sent sees exactly
   the written sequence and then the end - wherever the data ended up (memory or disk) *)
Theorem C41_replay_new_reader : forall (limit : N) (es : list (event B)),
  let '(st, os) := run ipc (init limit) es in
  existsb is_finish_ok os = true -> existsb is_sent os = false ->
  snd (run ipc st (ERead ROpen :: repeat (ERead (RPoll (length (sp_readers st)))) (S (length (written es os))))) =
    ORead OOpened :: map (fun b => ORead (OBatch b)) (written es os) ++ [ORead OEnd].
Proof. exact (replay_new_reader ipc ipc_roundtrip). Qed.

(* a reader opened before or during the writes (any live reader, whatever it has read so far): once
   finish has succeeded and no error was sent, polling it yields exactly the remaining written
   batches and then the end; together with what it received before that is the whole sequence *)
Theorem C41_replay_drain : forall (limit : N) (es : list (event B)),
  let '(st, os) := run ipc (init limit) es in
  existsb is_finish_ok os = true -> existsb is_sent os = false ->
  forall k r, nth_error (sp_readers st) k = Some r -> rd_done r = false ->
    snd (run ipc st (repeat (ERead (RPoll k)) (S (length (written es os) - rd_read r)))) =
      map (fun b => ORead (OBatch b)) (skipn (rd_read r) (written es os)) ++ [ORead OEnd] /\
    delivered k es os ++ skipn (rd_read r) (written es os) = written es os.
Proof. exact (replay_drain ipc ipc_roundtrip). Qed.
End Replay.
Print Assumptions C41_replay_prefix.
Print Assumptions C41_replay_status.
Print Assumptions C41_replay_poll.
Print Assumptions C41_replay_new_reader.
Print Assumptions C41_replay_drain.

(* ---------------------------------------------------------------- non-vacuity / model runs *)
(* the Rust unit test test_chunkers *)
Example C41_unit_test_chunkers :
  chk_chunk_stream (10%N, ut_batches)
    (Ok [Some [[0;1;2;3;4;5;6;7;8;9]]; Some [[0;1;2;3;4]; [0;1;2;3;4]]; Some [[5;6;7;8;9;10;11;12]]])%N = true /\
  chk_break_stream (10%N, ut_batches)
    (Ok [Some [0;1;2;3;4;5;6;7;8;9]; Some [0;1;2;3;4]; Some [0;1;2;3;4]; Some [5;6;7;8;9;10;11;12]])%N = true /\
  chk_strict_stream (10%N, ut_batches)
    (Ok [Some [0;1;2;3;4;5;6;7;8;9]; Some [0;1;2;3;4;0;1;2;3;4]; Some [5;6;7;8;9;10;11;12]])%N = true.
Proof. repeat split; vm_compute; reflexivity. Qed.

(* exhaustive small universe: every stream of <= 3 items over {Err, batches of 0..3 rows}, sizes 1..3:
   the flattened outputs of all four functions carry the input rows (a test, not the theorem) *)
Definition small_items : list (item N) := [IErr; IBatch []; IBatch [1]; IBatch [1;2]; IBatch [1;2;3]]%N.
Definition small_streams : list (list (item N)) :=
  [[]] ++ map (fun a => [a]) small_items
  ++ flat_map (fun a => map (fun b => [a; b]) small_items) small_items
  ++ flat_map (fun a => flat_map (fun b => map (fun c => [a; b; c]) small_items) small_items) small_items.
Definition rows_kept (n : nat) (inner : list (item N)) : bool :=
  let want := concat (oks inner) in
  let same (l : list N) := list_eqb N.eqb l want in
  match chunk_stream n inner, chunk_concat_stream n inner, break_stream n inner, strict_stream n inner with
  | Ok a, Ok b, Ok c, Ok d =>
      same (concat (concat (ovals a))) && same (concat (ovals b)) && same (concat (ovals c)) && same (concat (ovals d))
  | _, _, _, _ => false
  end.
Example C41_small_universe :
  forallb (fun n => forallb (rows_kept n) small_streams) [1; 2; 3] = true.
Proof. vm_compute. reflexivity. Qed.

(* the Rust unit test test_spill (memory limit 0: spills on the first write), with a poll while the
   second write awaits its file I/O *)
Example C41_unit_test_spill :
  snd (run (fun b => b) (init 0)
     [ERead ROpen; ERead (RPoll 0); EWrite [1;2;3]%N 12 true []; ERead (RPoll 0); ERead (RPoll 0);
      ERead ROpen; ERead (RPoll 1); EWrite [4;5;6]%N 24 true [RPoll 0]; EFinish true [RPoll 1];
      ERead (RPoll 0); ERead (RPoll 0); ERead (RPoll 1); ERead ROpen; ERead (RPoll 2); ERead (RPoll 2); ERead (RPoll 2)])
  = [ORead OOpened; ORead OPending; OWrite SOk true []; ORead (OBatch [1;2;3]%N); ORead OPending;
     ORead OOpened; ORead (OBatch [1;2;3]%N); OWrite SOk true [OPending]; OFinish SOk [OBatch [4;5;6]%N];
     ORead (OBatch [4;5;6]%N); ORead OEnd; ORead OEnd; ORead OOpened;
     ORead (OBatch [1;2;3]%N); ORead (OBatch [4;5;6]%N); ORead OEnd].
Proof. vm_compute. reflexivity. Qed.
