(* C12 - Delete, update and merge_insert follow SQL semantics on the model table.  (skeleton; theorems follow) *)
From LanceV Require Import Common.Base Table.Model_DML Table.Proofs_DML.

Theorem C12_placeholder_partial : True.
Proof. exact I. Qed.
Print Assumptions C12_placeholder_partial.
