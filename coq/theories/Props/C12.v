(* C12 - Delete, update and merge_insert follow SQL semantics on the model table.
   Property theorems only; model in Table/Model_DML.v, proofs in Table/Proofs_DML.v.

   The table is a list of fragments, a fragment a list of physical slots (None = masked by the deletion
   vector); `abs` is what a scan returns.  Cells are `option Z`, None = NULL.  `eval_b` / `eval_v` are the
   three-valued reference semantics of the expression fragment (=,<>,<,<=,>,>=, AND, OR, NOT, IS NULL, IN,
   BETWEEN, +,-,* on Z, literals incl. NULL).  PARTIAL in one respect, stated in checks.d/C12.json: in the
   implementation DataFusion evaluates the expressions; that it implements `eval_b`/`eval_v` on this fragment is
   assumed here and is what the end-to-end correspondence tests.

   Quantifiers are real: any table (any fragments / deletion vectors), any predicate and assignments of the
   AST, any source (duplicates, NULL keys, any sub-schema containing the keys), any settings. *)
From LanceV Require Import Common.Base Table.Model_DML Table.Proofs_DML.
From Coq Require Import Permutation.

(* ------------------------------------------------------------------ DELETE *)
(* delete(p) removes exactly the rows on which p is TRUE; rows where p is FALSE or NULL stay, in their old order *)
Theorem C12_delete_exact : forall p ct,
  abs (c_delete p ct) = filter (fun r => negb (tv_eqb (eval_b r p) TT)) (abs ct)
  /\ (forall r, In r (abs (c_delete p ct)) <-> In r (abs ct) /\ eval_b r p <> TT).
Proof.
  intros p ct. rewrite abs_c_delete. split; [apply a_delete_spec|]. intro r. apply a_delete_in.
Qed.
Print Assumptions C12_delete_exact.

(* ------------------------------------------------------------------ UPDATE *)
(* update(set, where p): `asg'` is the order in which the HashMap of assignments happens to iterate.  When no
   assignment reads a column written by another one, every order gives the SQL result: the rows where p is TRUE
   are rewritten with all right-hand sides evaluated on the OLD row, all other rows are untouched, the row count
   is preserved.  Order guaranteed by the code (RewriteRows): untouched rows first, in their old order, then the
   rewritten rows in their old relative order. *)
Theorem C12_update_exact : forall p asg asg' ct,
  Permutation asg asg' -> NoDup (map fst asg) ->
  Known_C12_update_reads_assigned_column asg = false ->
  abs (c_update p asg' ct)
    = filter (fun r => negb (sel p r)) (abs ct) ++ map (apply_simul asg) (filter (sel p) (abs ct))
  /\ Permutation (abs (c_update p asg' ct)) (sql_update p asg (abs ct))
  /\ length (abs (c_update p asg' ct)) = length (abs ct).
Proof.
  intros p asg asg' ct P ND K.
  assert (E : forall r, apply_seq asg' r = apply_simul asg r) by (intro r; apply apply_seq_any_order; assumption).
  rewrite abs_c_update. split; [|split].
  - unfold a_update. f_equal. apply map_ext. exact E.
  - eapply Permutation_trans; [apply a_update_perm|]. unfold sql_update.
    erewrite map_ext; [apply Permutation_refl|]. intro r. cbn beta. rewrite E. reflexivity.
  - apply a_update_length.
Qed.
Print Assumptions C12_update_exact.

(* inside the class: UPDATE SET c1 = c2, c2 = c1 gives the SQL result in NO iteration order *)
Theorem C12_update_reads_assigned_column_refuted : exists asg r,
  Known_C12_update_reads_assigned_column asg = true /\ NoDup (map fst asg) /\
  forall asg', In asg' (perms asg) -> apply_seq asg' r <> apply_simul asg r.
Proof.
  exists [(1%nat, VCol 2); (2%nat, VCol 1)], [Some 1%Z; Some 10%Z; Some 20%Z].
  split; [reflexivity|]. split; [repeat constructor; cbn; intuition congruence|].
  intros asg' H. cbn in H. destruct H as [<-|[<-|[]]]; vm_compute; congruence.
Qed.
Print Assumptions C12_update_reads_assigned_column_refuted.

(* ------------------------------------------------------------------ MERGE *)
(* merge_insert as coded (path selection, join, action per joined row, duplicate detection, RewriteRows or
   RewriteColumns) yields exactly the SQL MERGE written independently in `sql_merge`: same rows as a multiset,
   same inserted/updated/deleted counts, or the same error (EDup: more than one source row would update one target
   row; EFail: WhenMatched::Fail hit) - in which case no new table exists.  For all tables, all sources, all
   well-formed settings outside the five known-finding classes.  The statement does not mention `m_indexed`
   on the SQL side: the result is independent of whether the key is indexed. *)
Theorem C12_merge_is_sql_merge : forall st ct src,
  wf_settings st = true ->
  Known_C12_null_key_source_rows_skipped st src = false ->
  Known_C12_null_key_target_rows_kept st (abs ct) = false ->
  Known_C12_fail_off_fast_path st = false ->
  Known_C12_key_columns_not_first st = false ->
  Known_C12_update_if_partial_schema_panics st = false ->
  match c_merge st ct src, sql_merge st (abs ct) src with
  | inl ct', inl r => Permutation (abs ct') (r_rows r) /\ merge_stats st ct src = r_stats r
  | inr e, inr e' => e = e'
  | _, _ => False
  end.
Proof.
  intros st ct src WF K1 K2 K3 K5 K4. rewrite <- (abs_arows ct) in K2 |- *.
  pose proof (merge_is_sql_merge st (arows ct) src WF (arows_nodup ct) K1 K2 K3 K5 K4) as M.
  pose proof (c_merge_abs st ct src) as C. unfold merge_stats.
  destruct (c_merge st ct src) as [ct'|e]; destruct (a_merge st (arows ct) src) as [r|e']; try contradiction;
    destruct (sql_merge st (map snd (arows ct)) src) as [r2|e2]; cbn [mres_equiv] in M; try contradiction.
  - rewrite C. exact M.
  - congruence.
Qed.
Print Assumptions C12_merge_is_sql_merge.

(* the same on rows with arbitrary distinct identities *)
Theorem C12_merge_abstract : forall st tgt src,
  wf_settings st = true -> NoDup (map fst tgt) ->
  Known_C12_null_key_source_rows_skipped st src = false ->
  Known_C12_null_key_target_rows_kept st (map snd tgt) = false ->
  Known_C12_fail_off_fast_path st = false ->
  Known_C12_key_columns_not_first st = false ->
  Known_C12_update_if_partial_schema_panics st = false ->
  mres_equiv (a_merge st tgt src) (sql_merge st (map snd tgt) src).
Proof. exact merge_is_sql_merge. Qed.
Print Assumptions C12_merge_abstract.

(* the concrete side: deletion vectors + new fragments realise the abstract result *)
Theorem C12_merge_concrete : forall st ct src,
  match c_merge st ct src, a_merge st (arows ct) src with
  | inl ct', inl r => abs ct' = r_rows r
  | inr e, inr e' => e = e'
  | _, _ => False
  end.
Proof. exact c_merge_abs. Qed.
Print Assumptions C12_merge_concrete.

(* ------------------------------------------------------------------ counts *)
Theorem C12_counts : forall ct f,
  count_rows (Some f) ct = length (filter (fun r => is_tt (eval_b r f)) (abs ct))
  /\ count_rows None ct = length (abs ct)
  /\ count_deleted ct = fold_right (fun fr acc => length (filter is_none fr) + acc)%nat O ct
  /\ (physical ct = count_rows None ct + count_deleted ct)%nat.
Proof.
  intros ct f. split; [reflexivity|]. split; [reflexivity|]. split; [reflexivity|]. apply physical_split.
Qed.
Print Assumptions C12_counts.

(* and they agree with the table an operation leaves behind *)
Theorem C12_counts_after : forall ct p asg f,
  count_rows (Some f) (c_delete p ct) = length (filter (sel f) (a_delete p (abs ct)))
  /\ (count_rows None (c_delete p ct) + length (filter (sel p) (abs ct)) = count_rows None ct)%nat
  /\ count_rows (Some f) (c_update p asg ct) = length (filter (sel f) (a_update p asg (abs ct)))
  /\ count_rows None (c_update p asg ct) = count_rows None ct
  /\ (physical (c_update p asg ct) = count_rows None ct + count_deleted (c_update p asg ct))%nat.
Proof.
  intros ct p asg f. unfold count_rows. rewrite abs_c_delete, abs_c_update. repeat split; try reflexivity.
  - unfold a_delete. apply filter_length_split.
  - apply a_update_length.
  - rewrite physical_split, abs_c_update, a_update_length. reflexivity.
Qed.
Print Assumptions C12_counts_after.

(* ------------------------------------------------------------------ the action table *)
(* The CASE expression of merge_insert_action, transcribed, against the specification table, for ALL inputs:
   WhenMatched in {UpdateAll, UpdateIf c, DoNothing, Fail} x insert_not_matched x WhenNotMatchedBySource in
   {Keep, Delete, DeleteIf c} x source_has_key x target row present x value of the UpdateIf condition x value of
   the DeleteIf condition (4*2*3*2*2*3*3 = 864 points, by computation).  They agree exactly on `table_domain`:
   everywhere except the F19 cell and the fall-through of a matched row into the delete clause, which needs
   WhenNotMatchedBySource <> Keep and is therefore never evaluated (can_use_create_plan). *)
Theorem C12_action_table : forall wm ins ns has_key tp cm cd,
  (table_domain wm ins ns has_key tp cm cd = true ->
     case_table wm ins ns has_key tp cm cd = spec_table wm ins ns has_key tp cm cd)
  /\ (table_domain wm ins ns has_key tp cm cd = false ->
     case_table wm ins ns has_key tp cm cd <> spec_table wm ins ns has_key tp cm cd)
  /\ (wm <> WmDoNothing -> ns = NsKeep -> (ins && negb has_key && negb tp) = false ->
     case_table wm ins ns has_key tp cm cd = spec_table wm ins ns has_key tp cm cd).
Proof.
  intros. split; [apply action_table_agrees|]. split; [apply action_table_differs|].
  intros Hwm -> H. apply action_table_fast_path; assumption.
Qed.
Print Assumptions C12_action_table.

(* ------------------------------------------------------------------ the known-finding classes are real *)
Definition st0 (wm : when_matched) (ins : bool) (ns : when_nmbs) (idx : bool) : msettings :=
  {| m_on := [O]; m_scols := [O; 1%nat]; m_ncols := 2%nat; m_wm := wm; m_ins := ins; m_ns := ns; m_indexed := idx |}.
Definition tgt0 : ctable := [[Some [Some 1%Z; Some 10%Z]; Some [Some 2%Z; Some 20%Z]; Some [None; Some 30%Z]]].

(* F19: target k=[1,2,NULL], source k=[1,NULL,7,NULL], on k, UpdateAll + InsertAll: 4 rows instead of 6 *)
Theorem C12_null_key_source_rows_skipped_refuted : exists st ct src,
  wf_settings st = true /\ Known_C12_null_key_source_rows_skipped st src = true /\
  Known_C12_null_key_target_rows_kept st (abs ct) = false /\ Known_C12_fail_off_fast_path st = false /\
  Known_C12_update_if_partial_schema_panics st = false /\ Known_C12_key_columns_not_first st = false /\
  exists ct' r, c_merge st ct src = inl ct' /\ sql_merge st (abs ct) src = inl r /\
                length (abs ct') = 4%nat /\ length (r_rows r) = 6%nat.
Proof.
  exists (st0 WmUpdateAll true NsKeep false), tgt0,
         [[Some 1%Z; Some 100%Z]; [None; Some 200%Z]; [Some 7%Z; Some 700%Z]; [None; Some 201%Z]].
  do 6 (split; [reflexivity|]). eexists. eexists. split; [vm_compute; reflexivity|]. split; [vm_compute; reflexivity|].
  split; reflexivity.
Qed.
Print Assumptions C12_null_key_source_rows_skipped_refuted.

(* a NULL-key target row survives WhenNotMatchedBySource::Delete *)
Theorem C12_null_key_target_rows_kept_refuted : exists st ct src,
  wf_settings st = true /\ Known_C12_null_key_target_rows_kept st (abs ct) = true /\
  Known_C12_null_key_source_rows_skipped st src = false /\ Known_C12_fail_off_fast_path st = false /\
  Known_C12_update_if_partial_schema_panics st = false /\ Known_C12_key_columns_not_first st = false /\
  exists ct' r, c_merge st ct src = inl ct' /\ sql_merge st (abs ct) src = inl r /\
                length (abs ct') = 2%nat /\ length (r_rows r) = 1%nat.
Proof.
  exists (st0 WmUpdateAll false NsDelete false), tgt0, [[Some 1%Z; Some 100%Z]].
  do 6 (split; [reflexivity|]). eexists. eexists. split; [vm_compute; reflexivity|]. split; [vm_compute; reflexivity|].
  split; reflexivity.
Qed.
Print Assumptions C12_null_key_target_rows_kept_refuted.

(* WhenMatched::Fail with an indexed key updates instead of failing *)
Theorem C12_fail_off_fast_path_refuted : exists st ct src,
  wf_settings st = true /\ Known_C12_fail_off_fast_path st = true /\
  Known_C12_null_key_source_rows_skipped st src = false /\ Known_C12_null_key_target_rows_kept st (abs ct) = false /\
  Known_C12_update_if_partial_schema_panics st = false /\ Known_C12_key_columns_not_first st = false /\
  (exists ct', c_merge st ct src = inl ct') /\ sql_merge st (abs ct) src = inr EFail.
Proof.
  exists (st0 WmFail true NsKeep true), [[Some [Some 1%Z; Some 10%Z]; Some [Some 2%Z; Some 20%Z]]],
         [[Some 1%Z; Some 100%Z]; [Some 9%Z; Some 900%Z]].
  do 6 (split; [reflexivity|]). split; [eexists; vm_compute; reflexivity|]. vm_compute. reflexivity.
Qed.
Print Assumptions C12_fail_off_fast_path_refuted.

(* WhenMatched::UpdateIf with a partial source schema panics where SQL MERGE updates *)
Theorem C12_update_if_partial_schema_panics_refuted : exists st ct src,
  wf_settings st = true /\ Known_C12_update_if_partial_schema_panics st = true /\
  Known_C12_null_key_source_rows_skipped st src = false /\ Known_C12_null_key_target_rows_kept st (abs ct) = false /\
  Known_C12_fail_off_fast_path st = false /\ Known_C12_key_columns_not_first st = false /\
  c_merge st ct src = inr EPanic /\ exists r, sql_merge st (abs ct) src = inl r.
Proof.
  exists {| m_on := [O]; m_scols := [O; 1%nat]; m_ncols := 3%nat;
            m_wm := WmUpdateIf (BCmp CGt (VCol 1) (VCol 4)); m_ins := true; m_ns := NsKeep; m_indexed := false |},
         [[Some [Some 1%Z; Some 10%Z; Some 20%Z]; Some [Some 2%Z; Some 30%Z; Some 40%Z]]],
         [[Some 1%Z; Some 100%Z]; [Some 9%Z; Some 900%Z]].
  do 6 (split; [reflexivity|]). split; [vm_compute; reflexivity|]. eexists. vm_compute. reflexivity.
Qed.
Print Assumptions C12_update_if_partial_schema_panics_refuted.

(* the key is the SECOND column of the source schema: Merger::extract_selections tests the first column instead.
   Table (a,k) = (NULL,1) (5,2), on k, DoNothing + InsertAll, source (NULL,7) (3,8): the new key 7 is not inserted *)
Theorem C12_key_columns_not_first_refuted : exists st ct src,
  wf_settings st = true /\ Known_C12_key_columns_not_first st = true /\
  Known_C12_null_key_source_rows_skipped st src = false /\ Known_C12_null_key_target_rows_kept st (abs ct) = false /\
  Known_C12_fail_off_fast_path st = false /\ Known_C12_update_if_partial_schema_panics st = false /\
  exists ct' r, c_merge st ct src = inl ct' /\ sql_merge st (abs ct) src = inl r /\
                length (abs ct') = 3%nat /\ length (r_rows r) = 4%nat.
Proof.
  exists {| m_on := [1%nat]; m_scols := [O; 1%nat]; m_ncols := 2%nat; m_wm := WmDoNothing; m_ins := true; m_ns := NsKeep; m_indexed := false |},
         [[Some [None; Some 1%Z]; Some [Some 5%Z; Some 2%Z]]], [[None; Some 7%Z]; [Some 3%Z; Some 8%Z]].
  do 6 (split; [reflexivity|]). eexists. eexists. split; [vm_compute; reflexivity|]. split; [vm_compute; reflexivity|].
  split; reflexivity.
Qed.
Print Assumptions C12_key_columns_not_first_refuted.

(* ------------------------------------------------------------------ non-vacuity and sanity sweeps (tests, not theorems) *)
(* every hypothesis of C12_merge_is_sql_merge holds on a merge that updates, inserts and deletes:
   target k = [1,2,3,4] (4 deleted beforehand), source k = [1,7,7], UpdateAll + InsertAll + DeleteIf(x > 25) *)
Example C12_merge_nonvacuous :
  let st := st0 WmUpdateAll true (NsDeleteIf (BCmp CGt (VCol 1) (VLit (Some 25%Z)))) false in
  let ct := [[Some [Some 1%Z; Some 10%Z]; Some [Some 2%Z; Some 20%Z]]; [Some [Some 3%Z; Some 30%Z]; None]] in
  let src := [[Some 1%Z; Some 100%Z]; [Some 7%Z; Some 700%Z]; [Some 7%Z; Some 701%Z]] in
  wf_settings st = true /\ Known_C12_null_key_source_rows_skipped st src = false /\
  Known_C12_null_key_target_rows_kept st (abs ct) = false /\ Known_C12_fail_off_fast_path st = false /\
  Known_C12_update_if_partial_schema_panics st = false /\ Known_C12_key_columns_not_first st = false /\
  match c_merge st ct src with
  | inl ct' => same_rows (abs ct') [[Some 1%Z; Some 100%Z]; [Some 2%Z; Some 20%Z]; [Some 7%Z; Some 700%Z]; [Some 7%Z; Some 701%Z]] = true
               /\ merge_stats st ct src = (2, 1, 1)%N /\ shape ct' = [(2, 1); (3, 0)]%N
  | inr _ => False
  end.
Proof. vm_compute. repeat split; reflexivity. Qed.

(* two source rows matching one target row: error, and no table is produced *)
Example C12_duplicate_match_rejected :
  c_merge (st0 WmUpdateAll true NsKeep false) tgt0 [[Some 1%Z; Some 5%Z]; [Some 1%Z; Some 6%Z]] = inr EDup
  /\ sql_merge (st0 WmUpdateAll true NsKeep false) (abs tgt0) [[Some 1%Z; Some 5%Z]; [Some 1%Z; Some 6%Z]] = inr EDup.
Proof. split; vm_compute; reflexivity. Qed.

(* exhaustive small-universe sweep of the merge statement (boolean form): keys in {NULL,1,2}, tables and sources of
   at most 2 rows, every setting (UpdateIf source.x > target.x, DeleteIf x = 0), indexed or not, full, key-only or permuted
   source schema: outside the classes model and SQL agree, 13*13*144 = 24336 merges (source schemas (k,x), (k), (x,k)) *)
Definition mres_eqb (a b : mresult + merr) : bool :=
  match a, b with
  | inl r1, inl r2 => same_rows (r_rows r1) (r_rows r2)
                      && (let '(a1, b1, c1) := r_stats r1 in let '(a2, b2, c2) := r_stats r2 in N.eqb a1 a2 && N.eqb b1 b2 && N.eqb c1 c2)
  | inr e1, inr e2 => merr_eqb e1 e2
  | _, _ => false
  end.
Definition sweep_rows : list row := [[None; Some 0%Z]; [Some 1%Z; Some 0%Z]; [Some 2%Z; Some 1%Z]].
Definition lists_le2 {A} (u : list A) : list (list A) :=
  [[]] ++ map (fun x => [x]) u ++ flat_map (fun x => map (fun y => [x; y]) u) u.
Definition sweep_settings : list msettings :=
  flat_map (fun wm => flat_map (fun ins => flat_map (fun ns => flat_map (fun idx => map (fun scols =>
    {| m_on := [O]; m_scols := scols; m_ncols := 2%nat; m_wm := wm; m_ins := ins; m_ns := ns; m_indexed := idx |})
    [[O; 1%nat]; [O]; [1%nat; O]]) [false; true])
    [NsKeep; NsDelete; NsDeleteIf (BCmp CEq (VCol 1) (VLit (Some 0%Z)))]) [false; true])
    [WmUpdateAll; WmUpdateIf (BCmp CGt (VCol 1) (VCol 3)); WmDoNothing; WmFail].
Example C12_merge_sweep :
  forallb (fun st => forallb (fun tgt => forallb (fun src0 =>
    let src := map (fun s => map (fun c => nth c s None) (m_scols st)) src0 in
    let ct := [map Some tgt] in
    negb (wf_settings st) || Known_C12_null_key_source_rows_skipped st src || Known_C12_null_key_target_rows_kept st tgt
    || Known_C12_fail_off_fast_path st || Known_C12_update_if_partial_schema_panics st || Known_C12_key_columns_not_first st
    || mres_eqb (a_merge st (arows ct) src) (sql_merge st tgt src))
    (lists_le2 sweep_rows)) (lists_le2 sweep_rows)) sweep_settings = true.
Proof. vm_compute. reflexivity. Qed.

(* sweep of the update statement: every order of every pair of assignments over 3 columns drawn from a small
   expression universe, on every row over {NULL,0,1}: outside the class all orders give the SQL row *)
Definition sweep_exprs : list vexpr := [VCol 0; VCol 1; VCol 2; VLit None; VAdd (VCol 0) (VCol 1); VMul (VCol 2) (VLit (Some 2%Z))].
Definition sweep_cells : list cell := [None; Some 0%Z; Some 1%Z].
Example C12_update_sweep :
  forallb (fun c1 => forallb (fun c2 => forallb (fun e1 => forallb (fun e2 =>
    let asg := [(c1, e1); (c2, e2)] in
    Nat.eqb c1 c2 || Known_C12_update_reads_assigned_column asg
    || forallb (fun a => forallb (fun b => forallb (fun c =>
         forallb (fun asg' => row_eqb (apply_seq asg' [a; b; c]) (apply_simul asg [a; b; c])) (perms asg))
         sweep_cells) sweep_cells) sweep_cells)
    sweep_exprs) sweep_exprs) [O; 1%nat; 2%nat]) [O; 1%nat; 2%nat] = true.
Proof. vm_compute. reflexivity. Qed.
