(* C42 - A copied table root is a complete, identical table.
   Property theorems only; model in Store/Model_History.v, proofs in Store/Proofs_History.v.
   Two roots r, r' of one object store; `copy_root r r'` re-keys every object under r to the same relative path
   under r' (cp -r); `remove_root r` deletes the source.  Quantifiers are real: ANY initial store whose manifests
   under r carry no base id, ANY history of appends, deletes, updates, compactions, column changes, index creations,
   overwrites, restores, config changes, tag operations and cleanups with ANY payloads and ANY name oracle (no
   freshness needed here), EVERY version number v and EVERY tag.
   The invariant: `open` only dereferences root (+) relative path, and no operation introduces a base id
   (only Clone / UpdateBases do, which are outside the claim). *)
From LanceV Require Import Common.Base Store.Model_History Store.Proofs_History.
Local Open Scope N_scope.

Theorem C42_copy : forall (oracle : store -> N) r r' s0 h,
  r <> r' -> all_local r s0 ->
  let s := run oracle r h s0 in
  no_root r' s ->
  forall v,
    snapshot r' v (copy_root r r' s) = snapshot r v s
    /\ snapshot r' v (remove_root r (copy_root r r' s)) = snapshot r v s
    /\ snapshot r v (copy_root r r' s) = snapshot r v s.
Proof.
  intros oracle r r' s0 h Hne L0 s NR v.
  assert (L : all_local r s) by (apply run_local; exact L0).
  assert (LM : forall m, get s (r, RManifest v) = Some (CMan m) -> man_local m = true).
  { intros m G. eapply L. apply get_In. exact G. }
  repeat split.
  - apply snapshot_copy_any; [|exact LM]. intro p. apply copy_get_new. exact NR.
  - apply snapshot_copy_any; [|exact LM]. intro p. rewrite remove_get by congruence. apply copy_get_new. exact NR.
  - destruct (get s (r, RManifest v)) as [[m| |]|] eqn:G;
      try (unfold snapshot, open; rewrite copy_get_old by exact Hne; rewrite G; reflexivity).
    eapply snapshot_frame; [exact G | rewrite copy_get_old by exact Hne; exact G|].
    intros [r0 p] Hk. destruct (N.eq_dec r0 r') as [->|N0]; [|apply copy_get_old; exact N0].
    (* a local manifest opened at r never dereferences r' *)
    exfalso. specialize (LM m eq_refl). apply man_local_parts in LM as [LF LI]. rewrite forallb_forall in LF, LI.
    unfold man_keys in Hk. apply in_app_or in Hk as [Hk|Hk]; [|apply in_app_or in Hk as [Hk|Hk]].
    + apply in_flat_map in Hk as [f [Hf Hk]]. specialize (LF f Hf). unfold frag_keys in Hk. apply in_app_or in Hk as [Hk|Hk].
      * apply in_map_iff in Hk as [fr [E Hfr]]. rewrite (frag_local_files f LF fr Hfr) in E. inversion E. congruence.
      * destruct (f_del f) as [d|] eqn:Ed; [|destruct Hk]. destruct Hk as [E|[]]. rewrite (frag_local_del f d LF Ed) in E.
        inversion E. congruence.
    + apply in_map_iff in Hk as [i [E Hi]]. specialize (LI i Hi). destruct (ix_base i); [discriminate|]. inversion E. congruence.
    + destruct (m_txn m); [|destruct Hk]. destruct Hk as [E|[]]. inversion E. congruence.
Qed.
Print Assumptions C42_copy.

Theorem C42_tags : forall r r' s t, r <> r' -> no_root r' s ->
  resolve_tag r' t (copy_root r r' s) = resolve_tag r t s
  /\ resolve_tag r' t (remove_root r (copy_root r r' s)) = resolve_tag r t s.
Proof.
  intros r r' s t Hne NR. unfold resolve_tag. split.
  - rewrite copy_get_new by exact NR. reflexivity.
  - rewrite remove_get by congruence. rewrite copy_get_new by exact NR. reflexivity.
Qed.
Print Assumptions C42_tags.

(* the latest version number is found identically (it is computed from the listing of the root) *)
Theorem C42_objects : forall r r' s p, r <> r' -> no_root r' s ->
  get (remove_root r (copy_root r r' s)) (r', p) = get s (r, p) /\ get (remove_root r (copy_root r r' s)) (r, p) = None.
Proof.
  intros r r' s p Hne NR. split; [rewrite remove_get by congruence; apply copy_get_new; exact NR | apply remove_get_gone].
Qed.
Print Assumptions C42_objects.

(* the invariant behind "no base path other than the root": no operation introduces a base id *)
Theorem C42_histories_stay_local : forall (oracle : store -> N) r h s0, all_local r s0 -> all_local r (run oracle r h s0).
Proof. intros. apply run_local. assumption. Qed.
Print Assumptions C42_histories_stay_local.

(* the qualifier matters: a manifest stored under root 1 whose references carry a base id that resolves to the
   absolute location of root 1 (what Manifest::shallow_clone produces for a branch kept under tree/ of root 1)
   reads nothing at the copy once root 1 is gone *)
Theorem C42_base_path_refuted :
  exists s m, get s (1, RManifest 1) = Some (CMan m) /\ man_local m = false /\ no_root 2 s /\
    snapshot 2 1 (remove_root 1 (copy_root 1 2 s)) <> snapshot 1 1 s.
Proof.
  set (s0 := create oracle_max 1 [10; 11] 5 []).
  set (m := match open 1 1 s0 with Some m => shallow_clone m 7 1 | None => {| m_version := 0; m_meta := 0; m_frags := []; m_indices := []; m_txn := None; m_bases := []; m_max_frag := 0 |} end).
  exists (put (del s0 (1, RManifest 1)) (1, RManifest 1) (CMan m)), m.
  split; [vm_compute; reflexivity|]. split; [vm_compute; reflexivity|]. split.
  - apply no_root_b_true. vm_compute. reflexivity.
  - vm_compute. discriminate.
Qed.
Print Assumptions C42_base_path_refuted.

(* non-vacuity: a concrete table (deletions, compaction, an index, tags, a cleanup) copied from root 1 to root 2 *)
Example C42_nonvacuous :
  let s := run oracle_max 1 [ODelete 0 77; OAppend [12]; OCreateIndex 60 61; ORewrite [0] [14]; OTagSet 3 2; OTagSet 4 4;
                             OCleanup [3] [RTxn 2 9]; OMerge 15 6]
               (create oracle_max 1 [10; 11] 5 []) in
  all_local 1 [] /\ no_root 2 s /\ latest 1 s = 6 /\
  snapshot 2 2 (remove_root 1 (copy_root 1 2 s)) = snapshot 1 2 s /\ snapshot 1 2 s <> None /\
  snapshot 2 6 (remove_root 1 (copy_root 1 2 s)) = snapshot 1 6 s /\ snapshot 1 6 s <> None /\
  snapshot 1 3 s = None /\
  resolve_tag 2 3 (remove_root 1 (copy_root 1 2 s)) = Some 2 /\ latest 2 (remove_root 1 (copy_root 1 2 s)) = 6.
Proof.
  cbv zeta. split; [intros v m []|]. split.
  - apply no_root_b_true. vm_compute. reflexivity.
  - vm_compute. repeat split; try reflexivity; discriminate.
Qed.
