(* C16 - Scanner results equal a reference query and do not depend on execution knobs.
   Property theorems only.  Model: Index/Model_ScanPlan.v (transcription of the FilteredReadExec
   planning core: DvToValidRanges/full_frag_range, calculate_fetch, trim_ranges, intersect_ranges,
   trim_ranges_by_offset, apply_skip_take_to_ranges, apply_index_to_fragment, plan_scan,
   apply_hard_range; safe_coerce_scalar on integers; the SQL three-valued reference evaluator);
   proofs: Index/Proofs_ScanPlan.v.  Ranges are (start, end) pairs of u64; debug-build arithmetic. *)
From LanceV Require Import Common.Base Index.Model_ScanPlan Index.Proofs_ScanPlan.
Local Open Scope N_scope.

(* ---- the range helpers ------------------------------------------------------------------ *)

(* intersect_ranges on sorted disjoint inputs is set intersection (and stays sorted disjoint) *)
Theorem C16_intersect_ranges_is_intersection : forall a b loa hia lob hib,
  sorted_in loa hia a -> sorted_in lob hib b ->
  flatten (intersect_ranges a b) = filter (fun x => in_ranges x b) (flatten a)
  /\ sorted_in loa hia (intersect_ranges a b)
  /\ forall x, In x (flatten (intersect_ranges a b)) <-> In x (flatten a) /\ In x (flatten b).
Proof.
  intros a b loa hia lob hib Ha Hb. destruct (intersect_spec a b _ _ _ _ Ha Hb) as [F S].
  split; [exact F|]. split; [exact S|]. intros x. eapply in_intersect; eauto.
Qed.
Print Assumptions C16_intersect_ranges_is_intersection.

(* trim_ranges_by_offset rs s t selects exactly rows s .. s+t of the flattened ranges, never panics
   on sorted disjoint u64 ranges, and keeps them sorted disjoint *)
Theorem C16_trim_ranges_by_offset_is_window : forall rs lo hi s t,
  sorted_in lo hi rs -> hi < two64 ->
  exists rs', trim_by_offset rs s t = Ok rs'
    /\ flatten rs' = firstn (N.to_nat t) (skipn (N.to_nat s) (flatten rs))
    /\ sorted_in lo hi rs'.
Proof. intros rs lo hi s t H1 H2. exact (trim_by_offset_spec rs lo hi s t H1 H2). Qed.
Print Assumptions C16_trim_ranges_by_offset_is_window.

(* apply_skip_take_to_ranges: the window plus the OFFSET/LIMIT counters left for the next fragment *)
Theorem C16_apply_skip_take_counters : forall rs lo hi s t,
  sorted_in lo hi rs -> hi < two64 ->
  exists rs' s' t', apply_skip_take rs s t = Ok (rs', s', t')
    /\ flatten rs' = firstn (N.to_nat t) (skipn (N.to_nat s) (flatten rs))
    /\ sorted_in lo hi rs'
    /\ t' = t - lenN (flatten rs')
    /\ (t <> 0 -> s' = s - lenN (flatten rs)).
Proof. intros rs lo hi s t H1 H2. exact (apply_skip_take_spec rs lo hi s t H1 H2). Qed.
Print Assumptions C16_apply_skip_take_counters.

(* full_frag_range = the complement of the deletion vector inside 0..num_physical_rows *)
Theorem C16_full_frag_range_is_complement : forall phys dv,
  match dv with Some d => dv_ok phys d | None => True end ->
  flatten (full_frag_range phys dv)
  = filter (fun off => negb (existsb (N.eqb off) (match dv with Some d => d | None => [] end)))
           (seqN 0 (N.to_nat phys))
  /\ sorted_in 0 phys (full_frag_range phys dv).
Proof. intros phys dv H. exact (full_frag_range_spec phys dv H). Qed.
Print Assumptions C16_full_frag_range_is_complement.

(* trim_ranges / calculate_fetch: a fragment occupying positions ps..pe of the row sequence keeps
   exactly its rows that fall inside the before-filter bounds bs..be *)
Theorem C16_trim_ranges_is_window : forall rs lo hi ps pe bs be,
  sorted_in lo hi rs -> hi < two64 -> ps <= pe -> pe - ps = lenN (flatten rs) ->
  exists rs', trim_ranges rs (ps, pe) (bs, be) = Ok rs'
    /\ flatten rs' = firstn (N.to_nat (be - ps) - N.to_nat (bs - ps)) (skipn (N.to_nat (bs - ps)) (flatten rs))
    /\ sorted_in lo hi rs'.
Proof. intros rs lo hi ps pe bs be H1 H2 H3 H4. exact (trim_ranges_spec rs lo hi ps pe bs be H1 H2 H3 H4). Qed.
Print Assumptions C16_trim_ranges_is_window.

(* ---- plan_scan -------------------------------------------------------------------------- *)

(* For ALL fragment lists (physical rows, deletion vectors, logical row counts), index results of
   every kind with per-fragment applicability satisfying their guarantee on the rows that exist
   (Exact = truth of the indexed part, AtMost a superset, AtLeast a subset), refine/full filters with
   full = indexed AND refine, before/after ranges: the rows read by the planned ranges, filtered by the
   filter plan_scan chose, then windowed by the after-filter range when it was not pushed down, are
   exactly OFFSET/LIMIT of the rows that satisfy the full filter inside the before-filter range, in
   fragment order - outside the class below.  (F11 and F20a of DESIGN section 6 are fixed: no carve-out
   for a refine filter or for reading AtLeast results.) *)
Theorem C16_plan_scan_sound : forall (o : opts) (refine_p full_p indexed_p : rowpred) (frs : list frag),
  wf_frags o refine_p full_p indexed_p 0 frs -> total_rows o frs < two64 -> wf_after o ->
  Known_C16_limit_pushdown_skips_unguaranteed_rows o full_p frs = false ->
  run_scan o refine_p full_p frs = Ok (reference o full_p frs).
Proof. intros o rp fp ip frs H1 H2 H3 H4. exact (plan_scan_sound o rp fp ip frs H1 H2 H3 H4). Qed.
Print Assumptions C16_plan_scan_sound.

(* New finding (not F11/F20a): when the limit is pushed into index-vouched ranges, matching rows the
   index does not vouch for - all rows of a fragment the index does not cover, rows outside an AtLeast
   mask - that precede the cut are neither returned nor counted.  Witnesses: an un-indexed fragment in
   front of an indexed one (Exact), and an AtLeast mask missing a matching row; both LIMIT 1. *)
Theorem C16_limit_pushdown_skips_unguaranteed_rows_refuted :
  (exists o rp fp ip frs,
      wf_frags o rp fp ip 0 frs /\ total_rows o frs < two64 /\ wf_after o
      /\ Known_C16_limit_pushdown_skips_unguaranteed_rows o fp frs = true
      /\ o_index o = Some Exact
      /\ run_scan o rp fp frs <> Ok (reference o fp frs))
  /\ (exists o rp fp ip frs,
      wf_frags o rp fp ip 0 frs /\ total_rows o frs < two64 /\ wf_after o
      /\ Known_C16_limit_pushdown_skips_unguaranteed_rows o fp frs = true
      /\ o_index o = Some AtLeast
      /\ run_scan o rp fp frs <> Ok (reference o fp frs)).
Proof.
  split.
  - exists w1_opts, all_true, all_true, all_true, w1_frs. destruct w1_refuted as (K & R & F).
    split; [exact w1_wf|]. split; [reflexivity|]. split; [cbn; lia|]. split; [exact K|]. split; [reflexivity|].
    rewrite R, F. discriminate.
  - exists w2_opts, all_true, all_true, all_true, w2_frs. destruct w2_refuted as (K & R & F).
    split; [exact w2_wf|]. split; [reflexivity|]. split; [cbn; lia|]. split; [exact K|]. split; [reflexivity|].
    rewrite R, F. discriminate.
Qed.
Print Assumptions C16_limit_pushdown_skips_unguaranteed_rows_refuted.

(* ---- knobs ------------------------------------------------------------------------------ *)

(* batch size / readahead / fragment split cannot change the result: filtering batch by batch is
   filtering the table for ANY partition of the rows (chunks n is one); OFFSET/LIMIT threaded through
   any partition with running counters is OFFSET/LIMIT of the whole; apply_hard_range over any batch
   sequence is the window of the concatenation. *)
Theorem C16_knob_independence : forall (A : Type),
  (forall (p : A -> bool) (parts : list (list A)), concat (map (filter p) parts) = filter p (concat parts))
  /\ (forall (p : A -> bool) (n : nat) (rows : list A),
        concat (map (filter p) (chunks (S n) rows)) = filter p rows)
  /\ (forall (parts : list (list A)) (offset limit : nat),
        concat (win_parts offset limit parts) = firstn limit (skipn offset (concat parts)))
  /\ (forall (batches : list (list A)) (s e : N),
        concat (hard_range batches 0 s e) = firstn (N.to_nat (e - s)) (skipn (N.to_nat s) (concat batches))).
Proof.
  intros A. split; [apply filter_concat|]. split; [|split].
  - intros p n rows. rewrite filter_concat, concat_chunks. reflexivity.
  - intros parts offset limit. apply concat_win_parts.
  - intros batches s e. rewrite hard_range_spec, !N.sub_0_r. unfold winT. f_equal. lia.
Qed.
Print Assumptions C16_knob_independence.

(* ---- Scanner glue: which OFFSET/LIMIT reaches the plan --------------------------------------- *)

(* Scanner::get_scan_range / create_plan stage 4: for every limit, offset, filter/ordering presence and
   row list, the window the scanner applies is SQL's OFFSET/LIMIT - outside the class below.
   (GlobalLimitExec is assumed to be firstn/skipn: DataFusion.) *)
Theorem C16_scanner_limit_window : forall (A : Type) (limit offset : option N) (has_filter has_order : bool) (rows : list A),
  Known_C16_limit_zero_ignored limit offset has_filter has_order = false ->
  scanner_limit limit offset has_filter has_order rows = sql_limit limit offset rows.
Proof. intros A limit offset hf ho rows H. exact (scanner_limit_spec limit offset hf ho rows H). Qed.
Print Assumptions C16_scanner_limit_window.

(* New finding: `limit(Some(0), None)` together with a filter (or an ordering) adds no limit node
   (`limit.unwrap_or(0) > 0`), so LIMIT 0 returns every matching row. *)
Theorem C16_limit_zero_ignored_refuted :
  exists (limit offset : option N) (hf ho : bool) (rows : list N),
    Known_C16_limit_zero_ignored limit offset hf ho = true
    /\ scanner_limit limit offset hf ho rows <> sql_limit limit offset rows.
Proof.
  exists (Some 0), None, true, false, [1; 2; 3]. destruct scanner_limit_zero_refuted as (K & R & F).
  split; [exact K|]. rewrite R, F. discriminate.
Qed.
Print Assumptions C16_limit_zero_ignored_refuted.

(* ---- literal coercion -------------------------------------------------------------------- *)

(* safe_coerce_scalar over the integer lattice: a literal v of integer type src coerced to integer
   type dst is v itself (so every comparison on dst agrees with the comparison on Z), and coercion is
   refused exactly when v is outside dst's range; typed NULLs are kept only for src = dst *)
Theorem C16_coercion_sound : forall (src dst : ity) (v : Z),
  in_ity src v = true ->
  (forall r, coerce_int src (Some v) dst = Some r -> r = Some v /\ in_ity dst v = true)
  /\ (coerce_int src (Some v) dst = None <-> in_ity dst v = false)
  /\ (forall c w, in_ity dst v = true ->
        option_map (fun v' => cmp_z c w v') (match coerce_int src (Some v) dst with Some r => r | None => None end)
        = Some (cmp_z c w v)).
Proof.
  intros src dst v H. pose proof (coerce_int_sound src dst v H) as S.
  destruct (coerce_int src (Some v) dst) as [[v'|]|] eqn:E.
  - destruct S as [-> S]. split; [intros r Hr; inversion Hr; auto|]. split; [split; [discriminate | congruence]|].
    intros c w _. reflexivity.
  - destruct S.
  - split; [discriminate|]. split; [tauto|]. intros c w Hin. congruence.
Qed.
Print Assumptions C16_coercion_sound.

(* ---- the reference query ------------------------------------------------------------------ *)

(* PARTIAL.  What is missing: that DataFusion's evaluation of the filter expressions agrees with the
   three-valued reference evaluator eval3 is ASSUMED here (hypothesis df_ok) - it is exactly what the
   end-to-end differential arm tests on generated tables and filters; projection, ORDER BY, late
   materialisation (TakeExec) and the legacy read path are likewise covered only by that arm.
   Given the assumption, a scan returns the rows on which the reference evaluation of the filter is
   TRUE (not NULL, not FALSE), in table order, windowed. *)
Section ReferenceQuery.
  Variable table : nat -> N -> list (option Z).      (* cells of the row at (fragment, offset) *)
  Variable e : expr.                                  (* the filter *)
  Variable df_full df_refine df_indexed : rowpred.    (* rows DataFusion keeps for each filter part *)
  Hypothesis df_ok : forall i off, df_full i off = is_true (eval3 e (table i off)).

  Theorem C16_scan_equals_reference_query_partial : forall (o : opts) (frs : list frag),
    wf_frags o df_refine df_full df_indexed 0 frs -> total_rows o frs < two64 -> wf_after o ->
    Known_C16_limit_pushdown_skips_unguaranteed_rows o df_full frs = false ->
    run_scan o df_refine df_full frs
    = Ok (reference o (fun i off => is_true (eval3 e (table i off))) frs).
  Proof.
    intros o frs H1 H2 H3 H4. rewrite (plan_scan_sound o df_refine df_full df_indexed frs H1 H2 H3 H4).
    f_equal. unfold reference. f_equal. apply filter_ext. intros [i off]. apply df_ok.
  Qed.
End ReferenceQuery.
Print Assumptions C16_scan_equals_reference_query_partial.

(* ---- non-vacuity --------------------------------------------------------------------------- *)

(* the Rust unit tests of the helpers, evaluated on the model *)
Example C16_ex_trim_ranges :
  trim_ranges [(0,10);(15,25);(30,40)] (0,25) (10,15) = Ok [(15,20)]
  /\ trim_ranges [(0,10);(15,25);(30,40)] (0,25) (15,25) = Ok [(20,25);(30,35)].
Proof. vm_compute. auto. Qed.
Example C16_ex_full_frag_range : full_frag_range 53 (Some [13;17;51;52]) = [(0,13);(14,17);(18,51)].
Proof. vm_compute. reflexivity. Qed.
Example C16_ex_trim_by_offset :
  trim_by_offset [(0,10);(20,30);(40,50)] 5 10 = Ok [(5,10);(20,25)]
  /\ trim_by_offset [(0,10);(20,30);(40,50)] 15 100 = Ok [(25,30);(40,50)].
Proof. vm_compute. auto. Qed.
(* a malformed range panics (debug build), it is not silently accepted *)
Example C16_ex_panics : trim_by_offset [(10,5)] 0 1 = Panic /\ sum_rows [(0, two64 - 1); (0, 5)] = Panic.
Proof. vm_compute. auto. Qed.

(* F11's old failing input on the repaired planner: 20 rows, index Exact on x >= 0 (all rows), refine
   y = 1 true on rows 15..19, LIMIT 2 (and LIMIT 2 OFFSET 1 = after-range 1..3): the plan is NOT pushed down
   and the result is the reference *)
Definition f11_opts after := mkopts None (Some after) true (Some Exact).
Definition f11_frs := [mkfrag 20 None (Some [(0, 20)])].
Definition f11_refine : rowpred := fun _ off => 15 <=? off.
Example C16_ex_F11_fixed :
  run_scan (f11_opts (0, 2)) f11_refine f11_refine f11_frs = Ok [(0%nat, 15); (0%nat, 16)]
  /\ run_scan (f11_opts (1, 3)) f11_refine f11_refine f11_frs = Ok [(0%nat, 16); (0%nat, 17)]
  /\ reference (f11_opts (0, 2)) f11_refine f11_frs = [(0%nat, 15); (0%nat, 16)]
  /\ Known_C16_limit_pushdown_skips_unguaranteed_rows (f11_opts (0, 2)) f11_refine f11_frs = false.
Proof. vm_compute. auto. Qed.
(* F20a's old failing input: AtLeast(empty) ("the index knows nothing"): the whole fragment is read *)
Example C16_ex_F20a_fixed :
  run_scan (mkopts None None false (Some AtLeast)) all_true (fun _ off => off mod 3 =? 0) [mkfrag 7 None (Some [])]
  = Ok [(0%nat, 0); (0%nat, 3); (0%nat, 6)].
Proof. vm_compute. reflexivity. Qed.
(* the hypotheses of C16_plan_scan_sound are satisfiable by pushed-down and not pushed-down plans of
   every index kind: the sweep of Proofs_ScanPlan.v (more than 100 pushed-down plans outside the class) *)
Example C16_ex_sweep : forallb fst sw_all = true /\ (100 <? N.of_nat (length (filter snd sw_all))) = true.
Proof. exact sweep_plan_scan_sound. Qed.
Example C16_ex_coerce :
  coerce_int I64 (Some 300%Z) I8 = None /\ coerce_int I64 (Some (-1)%Z) U64 = None
  /\ coerce_int U64 (Some 18446744073709551615%Z) I64 = None /\ coerce_int I64 (Some 127%Z) I8 = Some (Some 127%Z)
  /\ coerce_int I8 None I16 = None /\ coerce_int I8 None I8 = Some None.
Proof. vm_compute. repeat split. Qed.
Example C16_ex_eval3 :
  eval3 (ENot (ECmp Ceq 0 (Some 5%Z))) [None] = None
  /\ eval3 (EOr (ECmp Ceq 0 (Some 5%Z)) (EIsNull 0)) [None] = Some true
  /\ eval3 (EIn 0 [Some 1%Z; None]) [Some 2%Z] = None
  /\ eval3 (EBetween 0 (Some 1%Z) None) [Some 0%Z] = Some false.
Proof. vm_compute. repeat split. Qed.
