(* C31 - Object writes persist exactly the bytes written.  Property theorems only.

   Setting (Io/Model_ObjectWriter.v): the ObjectWriter state machine of rust/lance-io/src/object_writer.rs
   driven by a trace of events - every poll_write / poll_flush / poll_shutdown call, the resolution of
   every store future (create upload, each put_part with outcome ok / error / connection reset, single put,
   complete), abort() and drop.  A trace therefore fixes the write sizes, the schedule and the faults;
   the theorems quantify over ALL traces the model accepts ([run ... = Some _]), all configurations
   (initial size, step, parallelism, retries, constant-size flag) and all byte values.
   Store hypotheses built into the model: put/complete are atomic at their completion event, parts are
   positioned by put_part CALL order, a failed part upload stores nothing. *)
From LanceV Require Import Common.Base Io.Model_ObjectWriter Io.Proofs_ObjectWriter.
Local Open Scope N_scope.

(* the bytes the writer reported as written: for every poll_write answered Ready(k), the first k bytes offered *)
Definition written {T : Type} (tr : list (event (list T))) (rs : list pollres) : list T :=
  accepted (list T) (bs_list T) [] tr rs.

Definition lrun {T : Type} (c : cfg) (tr : list (event (list T))) :=
  run (list T) (bs_list T) c (init_state (list T) (bs_list T) c) tr.

(* the class of the known finding: some part upload was answered "connection reset by peer" *)
Definition Known_C31_conn_reset_retry {T : Type} (tr : list (event (list T))) : bool := existsb is_reset tr.

(* After a successful shutdown (phase Done) the visible object is exactly the concatenation of the written
   bytes and the reported size is its length - for every trace outside the known class. *)
Theorem C31_bytes : forall (T : Type) (c : cfg) (tr : list (event (list T))) s rs,
  0 < c_maxpar c ->
  lrun c tr = Some (s, rs) ->
  Known_C31_conn_reset_retry tr = false ->
  ph s = Done ->
  obj s = Some (written tr rs) /\ cursor s = N.of_nat (length (written tr rs)).
Proof.
  intros T c tr s rs Hp H Hk Hd.
  exact (bytes_exact (list T) (bs_list T) c (bs_list_laws T) Hp tr s rs H Hk Hd).
Qed.
Print Assumptions C31_bytes.

(* The known finding: with a connection-reset retry, shutdown succeeds and the object is NOT the written bytes. *)
Definition c31_witness_cfg : cfg := {| c_init := 2; c_step := 2; c_maxpar := 10; c_maxretry := 20; c_const := false |}.
Definition c31_witness : list (event (list N)) :=
  [EvWrite [1; 2]; EvCreate true; EvWrite [3; 4]; EvFinish 0%nat RErrReset; EvWrite [5];
   EvFinish 1%nat ROk; EvFinish 2%nat ROk; EvShutdown; EvFinish 3%nat ROk; EvShutdown; EvComplete true; EvShutdown].

Theorem C31_conn_reset_retry_refuted : exists (c : cfg) (tr : list (event (list N))) s rs,
  0 < c_maxpar c /\ Known_C31_conn_reset_retry tr = true /\ lrun c tr = Some (s, rs) /\ ph s = Done /\
  written tr rs = [1; 2; 3; 4; 5] /\ obj s = Some [3; 4; 1; 2; 5].
Proof.
  exists c31_witness_cfg, c31_witness.
  destruct (lrun c31_witness_cfg c31_witness) as [[s rs]|] eqn:E; [|vm_compute in E; discriminate].
  exists s, rs. vm_compute in E. inversion E; subst. vm_compute. repeat split.
Qed.
Print Assumptions C31_conn_reset_retry_refuted.

(* Nothing is visible at the destination before the store completed a put / complete - any trace, any faults
   (resets included) - and those can only be issued after poll_shutdown was called. *)
Theorem C31_invisible_before : forall (T : Type) (c : cfg) (tr : list (event (list T))) s rs,
  lrun c tr = Some (s, rs) ->
  (existsb committed tr = false -> obj s = None) /\
  (existsb is_shutdown tr = false -> obj s = None).
Proof.
  intros T c tr s rs H. split; intro Hn.
  - exact (invisible_before_commit (list T) (bs_list T) c tr s rs H Hn).
  - exact (invisible_before_shutdown (list T) (bs_list T) c tr s rs H Hn).
Qed.
Print Assumptions C31_invisible_before.

(* A failing part upload, a failing create / put / complete, abort() or drop, occurring before the store
   committed anything, leaves no object - whatever happens afterwards. *)
Theorem C31_failure_leaves_nothing : forall (T : Type) (c : cfg) (tr1 tr2 : list (event (list T))) e s rs,
  lrun c (tr1 ++ e :: tr2) = Some (s, rs) ->
  is_fault e = true ->
  existsb committed tr1 = false ->
  obj s = None.
Proof. intros T c tr1 tr2 e s rs. exact (fault_leaves_nothing (list T) (bs_list T) c tr1 e tr2 s rs). Qed.
Print Assumptions C31_failure_leaves_nothing.

(* If any poll_write / poll_flush / poll_shutdown returned Err, there is no object at the end. *)
Theorem C31_error_leaves_nothing : forall (T : Type) (c : cfg) (tr : list (event (list T))) s rs,
  lrun c tr = Some (s, rs) -> In PError rs -> obj s = None.
Proof. intros T c tr s rs. exact (error_leaves_nothing (list T) (bs_list T) c tr s rs). Qed.
Print Assumptions C31_error_leaves_nothing.

(* ---- non-vacuity ---- *)

(* a multipart write (2 full parts + a short one) and a single-put write reach Done with the right bytes *)
Example C31_nonvacuous_multipart :
  let tr := [EvWrite [1; 2; 3]; EvWrite [3]; EvCreate true; EvWrite [3; 4; 5; 6]; EvWrite [5; 6]; EvFinish 1%nat ROk;
             EvFinish 0%nat ROk; EvShutdown; EvFinish 2%nat ROk; EvShutdown; EvComplete true; EvShutdown] in
  match lrun c31_witness_cfg tr with
  | Some (s, rs) => ph s = Done /\ obj s = Some [1; 2; 3; 4; 5; 6] /\ written tr rs = [1; 2; 3; 4; 5; 6] /\ calls s = [[1; 2]; [3; 4]; [5; 6]]
  | None => False
  end.
Proof. vm_compute. repeat split. Qed.

Example C31_nonvacuous_single :
  let tr := [EvWrite [7]; EvShutdown; EvPut true; EvShutdown] in
  match lrun c31_witness_cfg tr with
  | Some (s, rs) => ph s = Done /\ obj s = Some [7] /\ put_data s = Some [7] /\ calls s = []
  | None => False
  end.
Proof. vm_compute. repeat split. Qed.

(* a failing part: the next poll reports the error, nothing becomes visible *)
Example C31_nonvacuous_part_failure :
  let tr := [EvWrite [1; 2]; EvCreate true; EvWrite [3]; EvFinish 0%nat RErrOther; EvWrite [4]; EvDrop true] in
  match lrun c31_witness_cfg tr with
  | Some (s, rs) => obj s = None /\ rs = [PReady 2; PNone; PReady 1; PNone; PError; PNone] /\ n_abort s = 1
  | None => False
  end.
Proof. vm_compute. repeat split. Qed.

(* a small-universe sweep of C31_bytes and C31_invisible_before (a test, not the theorem): every trace of
   length <= 4 over 12 events *)
Definition c31_alphabet : list (event (list N)) :=
  [EvWrite [1]; EvWrite [2; 3]; EvWrite [4; 5; 6]; EvShutdown; EvFlush; EvCreate true; EvFinish 0%nat ROk;
   EvFinish 1%nat ROk; EvFinish 2%nat ROk; EvPut true; EvComplete true; EvFinish 0%nat RErrOther].
Fixpoint c31_traces (n : nat) : list (list (event (list N))) :=
  match n with
  | O => [[]]
  | S m => [] :: flat_map (fun t => map (fun e => e :: t) c31_alphabet) (c31_traces m)
  end.
Definition c31_trace_ok (tr : list (event (list N))) : bool :=
  match lrun c31_witness_cfg tr with
  | None => true
  | Some (s, rs) =>
      match ph s with
      | Done => option_eqb (list_eqb N.eqb) (obj s) (Some (written tr rs))
      | _ => true
      end && (existsb committed tr || match obj s with None => true | Some _ => false end)
  end.
Example C31_sweep : forallb c31_trace_ok (c31_traces 4) = true.
Proof. vm_compute. reflexivity. Qed.
