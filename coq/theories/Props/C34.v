(* C34 - Row id sequences and the row id index are faithful. Property theorems only. *)
From LanceV Require Import Common.Base Core.Model_RowIds Core.Proofs_RowIds Core.Model_RowIdIndex Core.Proofs_RowIdIndex.
Local Open Scope N_scope.

Theorem C34_placeholder : forall n s, length (nrange s n) = n.
Proof. exact nrange_length. Qed.
Print Assumptions C34_placeholder.
