(* C34 - Row id sequences and the row id index are faithful. Property theorems only.
   Model: Core/Model_RowIds.v (U64Segment, EncodedU64Array, Bitmap, RowIdSequence, rechunk_sequences,
   select_row_ids), Core/Model_RowIdIndex.v (RowIdIndex::new/get).  [seg_iter]/[rs_iter] is the list view. *)
From LanceV Require Import Common.Base Core.Model_RowIds Core.Proofs_RowIds Core.Model_RowIdIndex Core.Proofs_RowIdIndex.
Local Open Scope N_scope.

(* 1. A segment built from ANY duplicate-free u64 list outside the two known-finding classes holds exactly
      those ids in order, whatever encoding it picks; len/get/position/contains agree with the list. *)
Theorem C34_holds_ids : forall l : list N,
  Forall (fun x => x < two64) l -> NoDup l ->
  Known_C34_u64max l = false -> Known_C34_span_overflow l = false ->
  exists sg, from_slice l = Ok sg /\ seg_wf sg = true /\ seg_iter sg = l
    /\ seg_len sg = len_N l
    /\ (forall i, seg_get sg i = nth_N l i)
    /\ (forall v, seg_position sg v = index_of v l)
    /\ (forall v, seg_contains sg v = memN v l).
Proof.
  intros l Hall Hnd Hm Hs. destruct (from_slice_holds l Hall Hnd Hm Hs) as [sg [E H]].
  exists sg. split; [exact E|]. destruct H as [Hw Hi]. split; [exact Hw|]. split; [exact Hi|].
  exact (holds_accessors sg l (conj Hw Hi)).
Qed.
Print Assumptions C34_holds_ids.

(* F9b: ids containing u64::MAX break it (the exclusive Range<u64> end overflows). *)
Theorem C34_u64max_refuted : exists l, Known_C34_u64max l = true /\ NoDup l /\ Forall (fun x => x < two64) l
  /\ ~ (exists sg, from_slice l = Ok sg /\ seg_iter sg = l).
Proof.
  exists [u64max - 1; u64max]. split; [reflexivity|]. split.
  - constructor; [intros [H | []]; discriminate | constructor; [intros [] | constructor]].
  - split; [repeat constructor|]. intros [sg [H _]]. vm_compute in H. discriminate.
Qed.
Print Assumptions C34_u64max_refuted.

(* found while modelling: an increasing list with >= 2^62-6 holes overflows `24 + 4 * n_holes`. *)
Theorem C34_span_overflow_refuted : exists l, Known_C34_span_overflow l = true /\ Known_C34_u64max l = false
  /\ NoDup l /\ Forall (fun x => x < two64) l /\ ~ (exists sg, from_slice l = Ok sg /\ seg_iter sg = l).
Proof.
  exists [0; 2 ^ 63]. split; [reflexivity|]. split; [reflexivity|]. split.
  - constructor; [intros [H | []]; discriminate | constructor; [intros [] | constructor]].
  - split; [repeat constructor|]. intros [sg [H _]]. vm_compute in H. discriminate.
Qed.
Print Assumptions C34_span_overflow_refuted.

(* 2. Every well-formed segment (any of the 5 variants x 3 encodings): accessors agree with its list view. *)
Theorem C34_segment_accessors : forall sg, seg_wf sg = true ->
  seg_len sg = len_N (seg_iter sg)
  /\ (forall i, seg_get sg i = nth_N (seg_iter sg) i)
  /\ (forall v, seg_position sg v = index_of v (seg_iter sg))
  /\ (forall v, seg_contains sg v = memN v (seg_iter sg)).
Proof. intros sg H. exact (holds_accessors sg (seg_iter sg) (conj H eq_refl)). Qed.
Print Assumptions C34_segment_accessors.

(* 3. Operations commute with the list view. Domain [ids_ok]: unique ids, no u64::MAX, id span < 2^62-6
      (so that no sub-list falls in a known-finding class). *)
Theorem C34_segment_slice_delete : forall sg, seg_wf sg = true -> ids_ok (seg_iter sg) ->
  (forall offset len, exists sg', seg_slice sg offset len = Ok sg' /\ seg_wf sg' = true
       /\ seg_iter sg' = take_N len (skip_N offset (seg_iter sg)))
  /\ (forall vals, subseq vals (seg_iter sg) -> exists sg', seg_delete sg vals = Ok sg' /\ seg_wf sg' = true
       /\ seg_iter sg' = filter (fun x => negb (memN x vals)) (seg_iter sg)).
Proof.
  intros sg Hwf Hok. split.
  - intros offset len. destruct (seg_slice_ok sg offset len Hwf Hok) as [sg' [E [H1 H2]]]. exists sg'. auto.
  - intros vals Hs. destruct (seg_delete_ok sg vals Hwf Hok Hs) as [sg' [E [H1 H2]]]. exists sg'. auto.
Qed.
Print Assumptions C34_segment_slice_delete.

Theorem C34_sequence_ops_like_lists : forall q, rseq_wf q = true ->
  rs_len q = len_N (rs_iter q)
  /\ (forall other, rseq_wf other = true ->
        rseq_wf (rs_extend q other) = true /\ rs_iter (rs_extend q other) = rs_iter q ++ rs_iter other)
  /\ (forall i, rs_get q i = nth_N (rs_iter q) i)
  /\ (forall offset len, offset + len <= len_N (rs_iter q) ->
        rs_slice q offset len = Ok (take_N len (skip_N offset (rs_iter q))))
  /\ (forall sel, sorted_from 0 sel -> rs_select q sel = Ok (select_spec (rs_iter q) sel)).
Proof.
  intros q Hwf. split; [exact (rs_len_iter q Hwf)|]. split; [intros o Ho; exact (rs_extend_ok q o Hwf Ho)|].
  split; [intro i; exact (rs_get_ok q i Hwf)|]. split; [intros o n H; exact (rs_slice_ok q o n Hwf H)|].
  intros sel Hs. exact (rs_select_ok q sel Hwf Hs).
Qed.
Print Assumptions C34_sequence_ops_like_lists.

Theorem C34_sequence_delete : forall q ids, rseq_wf q = true -> ids_ok (rs_iter q) -> NoDup ids ->
  exists q', rs_delete q ids = Ok q' /\ rseq_wf q' = true
             /\ rs_iter q' = filter (fun x => negb (memN x ids)) (rs_iter q).
Proof. exact rs_delete_ok. Qed.
Print Assumptions C34_sequence_delete.

Theorem C34_rechunk : forall seqs sizes allow chunks,
  Forall (fun q => rseq_wf q = true) seqs -> ids_ok (concat (map rs_iter seqs)) ->
  rechunk_sequences seqs sizes allow = Ok chunks ->
  concat (map rs_iter chunks) = concat (map rs_iter seqs)
  /\ Forall2 (chunk_len_ok allow) chunks sizes
  /\ Forall (fun c => rseq_wf c = true) chunks.
Proof. exact rechunk_sequences_ok. Qed.
Print Assumptions C34_rechunk.

(* mask (delete by position): for strictly increasing in-range positions the result holds exactly the ids at
   the other positions ([remove_at]), for a segment (any variant; the hand-made stats of U64Segment::mask with
   its cyclic first/last-unmasked search are in the model) and for a whole sequence. *)
Theorem C34_mask : 
  (forall sg ps, seg_wf sg = true -> ids_ok (seg_iter sg) -> sincr ps ->
     (forall p, In p ps -> p < len_N (seg_iter sg)) ->
     exists sg', seg_mask sg ps = Ok sg' /\ seg_wf sg' = true /\ seg_iter sg' = remove_at 0 ps (seg_iter sg))
  /\ (forall q ps, rseq_wf q = true -> ids_ok (rs_iter q) -> sincr ps ->
     (forall p, In p ps -> p < len_N (rs_iter q)) ->
     exists q', rs_mask q ps = Ok q' /\ rseq_wf q' = true /\ rs_iter q' = remove_at 0 ps (rs_iter q)).
Proof.
  split; [|exact rs_mask_ok]. intros sg ps H1 H2 H3 H4.
  destruct (seg_mask_ok sg ps H1 H2 H3 H4) as [sg' [E [Hw Hi]]]. exists sg'. auto.
Qed.
Print Assumptions C34_mask.

(* 4. mask_to_offset_ranges = the offsets of the selected ids, for EVERY mask predicate (the code as repaired
      by 8e1324b; before the repair this failed when a RangeWithBitmap segment was not first - F9a). *)
Theorem C34_mask_to_offset_ranges : forall (selected : N -> bool) q, rseq_wf q = true -> NoDup (rs_iter q) ->
  exists rs, rs_mask_to_offset_ranges selected q = Ok rs
             /\ flat_ranges rs = sel_off selected 0 (rs_iter q).
Proof. exact rs_mask_to_offset_ranges_ok. Qed.
Print Assumptions C34_mask_to_offset_ranges.

(* 5. RowIdIndex. [frag_live f] = (row id, fragment_id * 2^32 + offset) for every non-deleted row offset of f.
      C34_index_get: the lookup is exact on any chunk list with pairwise disjoint ranges and well-formed
      (ids, addresses) segment pairs.
      C34_index_partial: for EVERY list of fragments (any segment layout, any deletion vectors) with unique
      in-domain ids per fragment and addresses below 2^62 whose chunk ranges - the (min, max) of the live ids of
      each segment - do not overlap one another, RowIdIndex::new succeeds and
          get id = Some addr  <->  (id, addr) is a live row of some fragment.
      PARTIAL: layouts where chunk ranges overlap (ids interleaved between fragments, with or without holes; the
      merge_overlapping_chunks path) are not covered by the theorem - they are checked by the
      exhaustive/random correspondence and the brute-force oracle only (F18 was repaired by ac0e2db; regression
      Example below). *)
Theorem C34_index_get : forall idx, Forall chunk_ok idx -> disjoint_chunks idx ->
  forall id addr, index_get idx id = Some addr <-> In (id, addr) (index_pairs idx).
Proof. exact index_get_spec. Qed.
Print Assumptions C34_index_get.

Theorem C34_index_partial : forall frags chunks, Forall frag_ok frags ->
  decompose_all frags = Ok chunks -> asc_disjoint (processing_order chunks) = true ->
  exists idx, index_new frags = Ok idx /\
    forall id addr, index_get idx id = Some addr <-> In (id, addr) (flat_map frag_live frags).
Proof. exact index_new_no_overlap. Qed.
Print Assumptions C34_index_partial.

(* F18 regression (RowIdIndex::new used to panic here; repaired in /repo by ac0e2db): fragment 0 keeps ids
   {1,2,4,5,8}, an update carried id 7 into fragment 1 - new succeeds and get is exact on the witness. *)
Example C34_index_overlapping_ranges_regression :
  let frags := [ (0, [SBitmap 1 9 [true; true; false; true; true; false; false; true]], []); (1, [SRange 7 8], []) ] in
  (do idx <- index_new frags; Ok (map (index_get idx) [0; 1; 2; 3; 4; 5; 6; 7; 8; 9]))
  = Ok [None; Some 0; Some 1; None; Some 2; Some 3; None; Some two32; Some 4; None].
Proof. vm_compute. reflexivity. Qed.

(* ---------- non-vacuity ---------- *)
Example C34_nonvacuous_holds :
  Known_C34_u64max [3; 4; 5; 9; 10; 40] = false /\ Known_C34_span_overflow [3; 4; 5; 9; 10; 40] = false
  /\ from_slice [3; 4; 5; 9; 10; 40] = Ok (SBitmap 3 41 (map (fun v => memN v [3; 4; 5; 9; 10; 40]) (range_iter 3 41)))
  /\ from_slice [7000; 1; 24000] = Ok (SArray (EU16 1 [6999; 0; 23999])).
Proof. vm_compute. repeat split; reflexivity. Qed.

Example C34_nonvacuous_ids_ok : ids_ok (rs_iter [SRange 0 10; SSorted (EU16 100 [0; 7; 9])]).
Proof.
  assert (Hsmall : Forall (fun v => v < 200) (rs_iter [SRange 0 10; SSorted (EU16 100 [0; 7; 9])])).
  { vm_compute. repeat (constructor; [reflexivity|]). constructor. }
  split; [|split].
  - apply sincr_NoDup. apply strict_sorted_sincr. vm_compute. reflexivity.
  - eapply Forall_impl; [|exact Hsmall]. intros a Ha. cbv beta in Ha. unfold u64max, two64. lia.
  - intros x y Hx Hy. rewrite Forall_forall in Hsmall. pose proof (Hsmall y Hy) as Hy200. cbv beta in Hy200.
    change (2 ^ 62 - 6) with 4611686018427387898. lia.
Qed.

Example C34_nonvacuous_m2o :
  rs_mask_to_offset_ranges (fun id => id mod 5 =? 0)
    (rs_extend [SRange 0 10] [SBitmap 100 105 [true; true; false; true; true]]) = Ok [(0, 1); (5, 6); (10, 11)].
Proof. vm_compute. reflexivity. Qed.

Example C34_nonvacuous_index :
  (do idx <- index_new [ (3, [SRange 10 13], [1]); (5, [SSorted (EU16 20 [0; 5])], []) ];
   Ok (map (index_get idx) [10; 11; 12; 20; 25; 26]))
  = Ok [Some (3 * two32); None; Some (3 * two32 + 2); Some (5 * two32); Some (5 * two32 + 1); None].
Proof. vm_compute. reflexivity. Qed.

Example C34_nonvacuous_index_hyps :
  let frags := [ (3, [SRange 10 13; SSorted (EU16 40 [0; 9])], [1]); (5, [SSorted (EU16 20 [0; 5])], []) ] in
  exists chunks, decompose_all frags = Ok chunks /\ asc_disjoint (processing_order chunks) = true
                 /\ length chunks = 3%nat
                 /\ flat_map frag_live frags = [(10, 3 * two32); (12, 3 * two32 + 2); (40, 3 * two32 + 3);
                                                (49, 3 * two32 + 4); (20, 5 * two32); (25, 5 * two32 + 1)].
Proof. eexists. split; [vm_compute; reflexivity|]. split; [vm_compute; reflexivity|]. split; vm_compute; reflexivity. Qed.

(* exhaustive small-universe sweep of the candidate statements on the model (a test, not the theorem):
   every duplicate-free list over ids 0..4 of length <= 3 - from_slice holds it, and every position mask /
   every allow-mask behaves like the list operation. *)
Definition sweep_lists : list (list N) :=
  let ids := [0; 1; 2; 3; 4] in
  [[]] ++ map (fun a => [a]) ids
  ++ flat_map (fun a => flat_map (fun b => if a =? b then [] else [[a; b]]) ids) ids
  ++ flat_map (fun a => flat_map (fun b => flat_map (fun c =>
        if (a =? b) || (a =? c) || (b =? c) then [] else [[a; b; c]]) ids) ids) ids.
Definition sub_masks (n : nat) : list (list bool) :=
  fold_right (fun _ acc => map (cons true) acc ++ map (cons false) acc) [[]] (seq 0 n).
Definition keep_by {A} (l : list A) (m : list bool) : list A := map fst (filter snd (combine l m)).
Definition sweep_ok (l : list N) : bool :=
  match from_slice l with
  | Ok sg =>
      nlist_eqb (seg_iter sg) l
      && forallb (fun m =>
           let ps := keep_by (map N.of_nat (seq 0 (length l))) m in
           (match seg_mask sg ps with
            | Ok sg' => nlist_eqb (seg_iter sg') (keep_by l (map negb m))
            | _ => false end)
           && (match rs_mask_to_offset_ranges (fun id => memN id (keep_by l m)) [sg] with
               | Ok rs => nlist_eqb (flat_ranges rs) ps
               | _ => false end))
         (sub_masks (length l))
  | _ => false
  end.
Example C34_sweep : forallb sweep_ok sweep_lists = true.
Proof. vm_compute. reflexivity. Qed.
