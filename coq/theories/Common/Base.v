(* Common imports and small lemmas shared by every model file (stdlib only). *)
From Coq Require Export List NArith ZArith Bool Lia Arith.
From Coq Require Export ZifyBool ZifyNat ZifyN.
Export ListNotations.

Ltac Zify.zify_post_hook ::= Z.div_mod_to_equations.

Global Arguments N.add : simpl never.
Global Arguments N.sub : simpl never.
Global Arguments N.mul : simpl never.
Global Arguments N.eqb : simpl never.
Global Arguments N.ltb : simpl never.
Global Arguments N.leb : simpl never.
Global Arguments N.div : simpl never.
Global Arguments N.modulo : simpl never.
Global Arguments N.pow : simpl never.
Global Arguments N.land : simpl never.
Global Arguments N.lor : simpl never.
Global Arguments N.shiftl : simpl never.
Global Arguments N.shiftr : simpl never.
Global Arguments Z.add : simpl never.
Global Arguments Z.sub : simpl never.
Global Arguments Z.mul : simpl never.

(* Outcome of a modelled Rust function: a value, an Err(..) return, or a panic. *)
Inductive outcome (A : Type) : Type :=
| Ok (a : A)
| Err
| Panic.
Arguments Ok {A} a.
Arguments Err {A}.
Arguments Panic {A}.

Definition outcome_eqb {A} (eqb : A -> A -> bool) (x y : outcome A) : bool :=
  match x, y with
  | Ok a, Ok b => eqb a b
  | Err, Err => true
  | Panic, Panic => true
  | _, _ => false
  end.

Definition two64 : N := 18446744073709551616%N.
Definition two32 : N := 4294967296%N.
Definition wrap64 (x : N) : N := (x mod two64)%N.
Definition wrap32 (x : N) : N := (x mod two32)%N.

(* list equality helpers used by the correspondence cases *)
Fixpoint list_eqb {A} (eqb : A -> A -> bool) (l1 l2 : list A) : bool :=
  match l1, l2 with
  | [], [] => true
  | x :: xs, y :: ys => eqb x y && list_eqb eqb xs ys
  | _, _ => false
  end.

Definition option_eqb {A} (eqb : A -> A -> bool) (x y : option A) : bool :=
  match x, y with
  | Some a, Some b => eqb a b
  | None, None => true
  | _, _ => false
  end.

Definition pair_eqb {A B} (ea : A -> A -> bool) (eb : B -> B -> bool) (x y : A * B) : bool :=
  ea (fst x) (fst y) && eb (snd x) (snd y).

Lemma list_eqb_eq {A} (eqb : A -> A -> bool) :
  (forall x y, eqb x y = true <-> x = y) ->
  forall l1 l2, list_eqb eqb l1 l2 = true <-> l1 = l2.
Proof.
  intros H l1; induction l1 as [|x xs IH]; intros [|y ys]; cbn [list_eqb]; split; intro E;
    try reflexivity; try discriminate.
  - apply andb_true_iff in E as [E1 E2]. apply H in E1. apply IH in E2. subst; reflexivity.
  - inversion E; subst. apply andb_true_iff; split; [apply H; reflexivity | apply IH; reflexivity].
Qed.

(* The generic shape of a correspondence shard: indices of cases whose recorded implementation
   output differs from the model's. *)
Definition bad_cases {I O} (chk : I -> O -> bool) (cases : list (N * (I * O))) : list N :=
  map fst (filter (fun c => negb (chk (fst (snd c)) (snd (snd c)))) cases).
