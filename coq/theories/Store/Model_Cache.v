(* C38 - session caches over the store model.  Executable definitions only (proofs in Proofs_Cache.v).

   rust/lance-core/src/cache.rs        LanceCache: one moka cache keyed by (String, TypeId); with_key_prefix /
                                       get_key build the string; get_or_insert = hit -> cached value,
                                       miss -> run the loader, insert, return; capacity-driven eviction.
   rust/lance/src/session/caches.rs    key types of the metadata cache, all under the prefix "<dataset uri>/":
       ManifestKey { version, e_tag }                  "manifest/{version}/{e_tag}"  (or "manifest/{version}")
       TransactionKey { version }                      "txn/{version}"
       DeletionFileKey { fragment_id, deletion_file }  "deletion/{fragment}/{read_version}/{id}/{suffix}"
       RowIdMaskKey { version }                        "row_id_mask/{version}"
       RowIdIndexKey { version }                       "row_id_index/{version}"
       RowIdSequenceKey { fragment_id }                "row_id_sequence/{fragment_id}"
   rust/lance/src/session/index_caches.rs
       IndexMetadataKey { version }                    "{version}"      (index cache, prefix "<dataset uri>/")
   Where they are built: dataset.rs (load_manifest inserts index metadata and transaction by manifest_location.version;
   latest_manifest / load_new_transactions ManifestKey, TransactionKey; read_transaction), io/commit.rs (after a commit:
   TransactionKey, ManifestKey, IndexMetadataKey), index.rs load_indices, io/deletion.rs read_dataset_deletion_file,
   index/prefilter.rs (RowIdMaskKey by dataset.manifest().version), dataset/rowids.rs (RowIdSequenceKey by
   fragment.id, RowIdIndexKey by manifest.version).

   A cache is a partial map with ARBITRARY eviction: between any two calls any subset of the entries may disappear. *)
From LanceV Require Import Common.Base Store.Model_History.
Local Open Scope N_scope.

(* ---------- generic cache ---------- *)
Section Cache.
  Variables (K V : Type) (keqb : K -> K -> bool).
  Definition cache := list (K * V).
  Fixpoint cget (c : cache) (k : K) : option V :=
    match c with [] => None | (k', v) :: t => if keqb k' k then Some v else cget t k end.
  Definition cput (c : cache) (k : K) (v : V) : cache := (k, v) :: c.

  (* eviction: c' holds a subset of what c holds *)
  Definition subcache (c' c : cache) : Prop := forall k v, cget c' k = Some v -> cget c k = Some v.

  (* LanceCache::get_or_insert_with_key; `loaded` is what the loader returns at the time of the call *)
  Definition get_or_load (c : cache) (k : K) (loaded : V) : V * cache :=
    match cget c k with Some v => (v, c) | None => (loaded, cput c k loaded) end.

  (* a request: (insert?, key, value the store holds for it at the time of the call).
     insert = insert_with_key of a value the caller just read or wrote (commit path, load_manifest) *)
  Definition request := (bool * (K * V))%type.

  (* all executions: eviction may happen before every request; the answers, in order *)
  Inductive exec : cache -> list request -> list V -> Prop :=
  | exec_nil c : exec c [] []
  | exec_evict c c' rs outs : subcache c' c -> exec c' rs outs -> exec c rs outs
  | exec_get c k l rs outs : exec (snd (get_or_load c k l)) rs outs -> exec c ((false, (k, l)) :: rs) (fst (get_or_load c k l) :: outs)
  | exec_insert c k l rs outs : exec (cput c k l) rs outs -> exec c ((true, (k, l)) :: rs) (l :: outs).
End Cache.
Arguments cget {K V}. Arguments cput {K V}. Arguments get_or_load {K V}. Arguments subcache {K V}.
Arguments exec {K V}.

(* ---------- the keys of the session caches ---------- *)
Inductive ckey :=
| KManifest (uri v : N) (etag : option N)
| KTxn (uri v : N)
| KIndexMeta (uri v : N)
| KDeletion (uri f rv id : N)        (* the suffix is a function of the file type stored next to (rv, id) *)
| KRowIdMask (uri v : N)
| KRowIdIndex (uri v : N)
| KRowIdSeq (uri f : N).

Definition ckey_eqb (a b : ckey) : bool :=
  match a, b with
  | KManifest u v e, KManifest u' v' e' => N.eqb u u' && N.eqb v v' && option_eqb N.eqb e e'
  | KTxn u v, KTxn u' v' => N.eqb u u' && N.eqb v v'
  | KIndexMeta u v, KIndexMeta u' v' => N.eqb u u' && N.eqb v v'
  | KDeletion u f r i, KDeletion u' f' r' i' => N.eqb u u' && N.eqb f f' && N.eqb r r' && N.eqb i i'
  | KRowIdMask u v, KRowIdMask u' v' => N.eqb u u' && N.eqb v v'
  | KRowIdIndex u v, KRowIdIndex u' v' => N.eqb u u' && N.eqb v v'
  | KRowIdSeq u f, KRowIdSeq u' f' => N.eqb u u' && N.eqb f f'
  | _, _ => false
  end.

Definition is_seq_key (k : ckey) : bool := match k with KRowIdSeq _ _ => true | _ => false end.

(* what is cached: the decoded object; decoding is a function of the stored object, so the stored object itself *)
Inductive cval :=
| VMan (m : manifest)
| VTxn (c : option (option content))
| VIdx (l : list (N * N * option content))
| VFrags (l : list frag_view)              (* row id mask / row id index: fragments with row id meta and deletion vectors *)
| VDel (c : content)
| VSeq (meta : N).

Inductive query :=
| QManifest (v : N) | QTxn (v : N) | QIndexMeta (v : N) | QRowIdMask (v : N) | QRowIdIndex (v : N)
| QDeletion (v f : N) | QRowIdSeq (v f : N).

Definition find_frag (m : manifest) (f : N) : option frag := find (fun fr => N.eqb (f_id fr) f) (m_frags m).

Section Session.
  Variable oracle : store -> N.
  (* the e-tag the object store reports for a manifest object *)
  Variable etag : manifest -> N.

  (* key and stored object of a read issued by a handle at (uri, version v) in store s; None: the call fails earlier *)
  Definition request_of (uri : N) (s : store) (q : query) : option (ckey * cval) :=
    match q with
    | QManifest v => match open uri v s with Some m => Some (KManifest uri v (Some (etag m)), VMan m) | None => None end
    | QTxn v => match snapshot uri v s with Some (_, _, _, _, tx) => Some (KTxn uri v, VTxn tx) | None => None end
    | QIndexMeta v => match snapshot uri v s with Some (_, _, _, ix, _) => Some (KIndexMeta uri v, VIdx ix) | None => None end
    | QRowIdMask v => match snapshot uri v s with Some (_, _, fs, _, _) => Some (KRowIdMask uri v, VFrags fs) | None => None end
    | QRowIdIndex v => match snapshot uri v s with Some (_, _, fs, _, _) => Some (KRowIdIndex uri v, VFrags fs) | None => None end
    | QDeletion v f =>
        match open uri v s with
        | Some m => match find_frag m f with
                    | Some fr => match f_del fr with
                                 | Some d => match dr_base d, get s (uri, RDel f (dr_rv d) (dr_id d)) with
                                             | None, Some c => Some (KDeletion uri f (dr_rv d) (dr_id d), VDel c)
                                             | _, _ => None end
                                 | None => None end
                    | None => None end
        | None => None end
    | QRowIdSeq v f =>
        match open uri v s with
        | Some m => match find_frag m f with Some fr => Some (KRowIdSeq uri f, VSeq (f_meta fr)) | None => None end
        | None => None end
    end.

  (* a session: operations on tables (each at its URI), rm -r of a table directory, creation of a table, and reads
     through the session (get_or_insert, or insert when `ins`) *)
  Inductive event := EOp (o : op) | EDrop | ECreate (blobs : list N) (meta : N) | ERead (ins : bool) (q : query).

  Definition apply_event (uri : N) (s : store) (e : event) : store :=
    match e with
    | EOp o => step oracle uri s o
    | EDrop => remove_root uri s
    | ECreate blobs meta => create oracle uri blobs meta s
    | ERead _ _ => s
    end.

  Fixpoint requests (s : store) (tr : list (N * event)) : list (request ckey cval) :=
    match tr with
    | [] => []
    | (u, ERead ins q) :: t => match request_of u s q with Some r => (ins, r) :: requests s t | None => requests s t end
    | (u, e) :: t => requests (apply_event u s e) t
    end.
End Session.

Definition is_cleanup_ev (e : event) : bool := match e with EOp (OCleanup _ _) => true | _ => false end.
Definition is_drop_ev (e : event) : bool := match e with EDrop => true | _ => false end.

(* class: a table directory is removed (and possibly re-created) under a URI the session has used *)
Definition Known_C38_version_keyed_cache_across_recreate (tr : list (N * event)) : bool :=
  existsb (fun e => is_drop_ev (snd e)) tr.

(* class: two reads use the same RowIdSequenceKey for different stored sequences *)
Definition seq_conflict (rs : list (request ckey cval)) : bool :=
  existsb (fun r1 => existsb (fun r2 =>
    match snd r1, snd r2 with
    | (KRowIdSeq u f, VSeq a), (KRowIdSeq u' f', VSeq b) => N.eqb u u' && N.eqb f f' && negb (N.eqb a b)
    | _, _ => false end) rs) rs.
Definition Known_C38_fragment_keyed_cache_across_overwrite (oracle : store -> N) (etag : manifest -> N) (s0 : store) (tr : list (N * event)) : bool :=
  seq_conflict (requests oracle etag s0 tr).

Definition no_cleanup (tr : list (N * event)) : bool := forallb (fun e => negb (is_cleanup_ev (snd e))) tr.

(* a deterministic execution without eviction (what a large cache does) *)
Fixpoint run_cache {K V} (keqb : K -> K -> bool) (c : cache K V) (rs : list (request K V)) : list V :=
  match rs with
  | [] => []
  | (true, (k, l)) :: t => l :: run_cache keqb (cput c k l) t
  | (false, (k, l)) :: t => fst (get_or_load keqb c k l) :: run_cache keqb (snd (get_or_load keqb c k l)) t
  end.

(* ---------- correspondence: traces of the real LanceCache ---------- *)
Definition bytes := list N.
(* with_key_prefix: prefix := format!("{}{}/", self.prefix, prefix);  get_key: prefix empty -> key, else "{prefix}/{key}" *)
Definition full_key (pfx : list bytes) (key : bytes) : bytes :=
  match flat_map (fun x => x ++ [47]) pfx with
  | [] => key
  | p => p ++ [47] ++ key
  end.

Definition tkey := (bytes * N)%type.      (* (full key string, TypeId of the value type) *)
Definition tkey_eqb (a b : tkey) : bool := list_eqb N.eqb (fst a) (fst b) && N.eqb (snd a) (snd b).

(* op = (kind, ((prefix chain, key), (value type, value)));  kind 0 insert_with_key, 1 get_with_key, 2 get_or_insert_with_key
   cap: 0 no_cache, 1 tiny (evicting), 2 large (never evicts).  outs: None for insert / a miss, Some v otherwise *)
Fixpoint trace_ok (cap : N) (st : cache tkey N) (ops : list (N * ((list bytes * bytes) * (N * N)))) (outs : list (option N)) : bool :=
  match ops, outs with
  | [], [] => true
  | (kind, ((pfx, key), (ty, val))) :: t, o :: ot =>
      let fk := (full_key pfx key, ty) in
      let cur := cget tkey_eqb st fk in
      match kind with
      | 0 => match o with None => trace_ok cap (cput st fk val) t ot | Some _ => false end
      | 1 => match o, cur with
             | None, None => trace_ok cap st t ot
             | None, Some _ => negb (N.eqb cap 2) && trace_ok cap st t ot          (* evicted *)
             | Some x, Some y => N.eqb x y && trace_ok cap st t ot
             | Some _, None => false
             end
      | _ => match o with
             | None => false
             | Some x =>
                 match cur with
                 | Some y => if N.eqb x y then trace_ok cap st t ot                 (* hit *)
                             else negb (N.eqb cap 2) && N.eqb x val && trace_ok cap (cput st fk val) t ot   (* evicted, reloaded *)
                 | None => N.eqb x val && trace_ok cap (cput st fk val) t ot        (* miss: the loader's value *)
                 end
             end
      end
  | _, _ => false
  end.

Definition chk_cache_trace (i : N * list (N * ((list bytes * bytes) * (N * N)))) (o : list (option N)) : bool :=
  trace_ok (fst i) [] (snd i) o.
