(* C06 / C42 - proofs about the store-level model (Store/Model_History.v). *)
From LanceV Require Import Common.Base Store.Model_History.
Local Open Scope N_scope.

(* ---------- keys ---------- *)
Lemma rel_eqb_eq a b : rel_eqb a b = true <-> a = b.
Proof.
  destruct a, b; cbn [rel_eqb]; split; intro H; try discriminate; try (inversion H; subst);
    repeat rewrite andb_true_iff in *; repeat rewrite N.eqb_eq in *;
    repeat match goal with H : _ /\ _ |- _ => destruct H end; subst; auto using N.eqb_refl.
Qed.

Lemma key_eqb_eq a b : key_eqb a b = true <-> a = b.
Proof.
  destruct a as [r1 p1], b as [r2 p2]. unfold key_eqb. cbn [fst snd].
  rewrite andb_true_iff, N.eqb_eq, rel_eqb_eq. split; [intros [-> ->]; reflexivity | intro H; inversion H; auto].
Qed.

Lemma key_eqb_refl k : key_eqb k k = true.
Proof. apply key_eqb_eq. reflexivity. Qed.

Lemma key_eqb_neq a b : a <> b -> key_eqb a b = false.
Proof. intro H. destruct (key_eqb a b) eqn:E; [apply key_eqb_eq in E; contradiction | reflexivity]. Qed.

(* ---------- get / put / del ---------- *)
Lemma get_put_eq s k c : get (put s k c) k = Some c.
Proof. unfold put. cbn [get]. rewrite key_eqb_refl. reflexivity. Qed.

Lemma get_put_neq s k c k' : k <> k' -> get (put s k c) k' = get s k'.
Proof. intro H. unfold put. cbn [get]. rewrite key_eqb_neq by assumption. reflexivity. Qed.

Lemma get_In s k c : get s k = Some c -> In (k, c) s.
Proof.
  induction s as [|[k' c'] t IH]; cbn [get]; [discriminate|].
  destruct (key_eqb k' k) eqn:E.
  - intro H. inversion H; subst. apply key_eqb_eq in E. subst. left. reflexivity.
  - intro H. right. apply IH. exact H.
Qed.

Lemma get_None_iff s k : get s k = None <-> (forall c, ~ In (k, c) s).
Proof.
  induction s as [|[k' c'] t IH]; cbn [get].
  - split; [intros _ c []|reflexivity].
  - destruct (key_eqb k' k) eqn:E.
    + apply key_eqb_eq in E. subst. split; [discriminate|]. intro H. exfalso. apply (H c'). left. reflexivity.
    + rewrite IH. split.
      * intros H c [A|A]; [inversion A; subst; rewrite key_eqb_refl in E; discriminate | apply (H c A)].
      * intros H c A. apply (H c). right. exact A.
Qed.

Lemma get_del_eq s k : get (del s k) k = None.
Proof.
  apply get_None_iff. intros c H. unfold del in H. apply filter_In in H as [_ H]. cbn [fst] in H.
  rewrite key_eqb_refl in H. discriminate.
Qed.

Lemma get_del_neq s k k' : k <> k' -> get (del s k) k' = get s k'.
Proof.
  intro N. unfold del. induction s as [|[k0 c0] t IH]; cbn [filter get fst]; [reflexivity|].
  destruct (key_eqb k0 k) eqn:E; cbn [negb].
  - apply key_eqb_eq in E. subst. rewrite key_eqb_neq by assumption. exact IH.
  - cbn [get]. destruct (key_eqb k0 k'); [reflexivity | exact IH].
Qed.

Lemma In_del s k e : In e (del s k) -> In e s.
Proof. unfold del. intro H. apply filter_In in H. tauto. Qed.

Lemma get_app s t k : get (s ++ t) k = match get s k with Some c => Some c | None => get t k end.
Proof.
  induction s as [|[k0 c0] s IH]; cbn [app get]; [reflexivity|]. destruct (key_eqb k0 k); [reflexivity | exact IH].
Qed.

(* ---------- latest ---------- *)
Lemma latest_ge here s v c : In ((here, RManifest v), c) s -> v <= latest here s.
Proof.
  induction s as [|[[r p] c0] t IH]; [intros []|]. intros [H|H].
  - inversion H; subst. cbn [latest]. rewrite N.eqb_refl. lia.
  - specialize (IH H). cbn [latest]. destruct p; try exact IH. destruct (N.eqb r here); lia.
Qed.

Lemma next_manifest_absent here s : get s (here, RManifest (latest here s + 1)) = None.
Proof. apply get_None_iff. intros c H. apply latest_ge in H. lia. Qed.

Lemma latest_put_other here s k c : is_manifest (snd k) = false -> latest here (put s k c) = latest here s.
Proof. destruct k as [r p]. cbn [snd]. intro H. unfold put. cbn [latest]. destruct p; try reflexivity. discriminate. Qed.

(* ---------- what a manifest references ---------- *)
Lemma ref_key_some here m b r k : ref_key here m b r = Some k -> snd k = r.
Proof. unfold ref_key. destruct (base_root here m b); [intro H; inversion H; reflexivity | discriminate]. Qed.

Lemma man_keys_rel here m k :
  In (Some k) (man_keys here m) ->
  is_manifest (snd k) = false /\ is_tag (snd k) = false /\ (forall n, In n (rel_names (snd k)) -> In n (man_names m)).
Proof.
  unfold man_keys, man_names. intro H. apply in_app_or in H as [H|H]; [|apply in_app_or in H as [H|H]].
  - apply in_flat_map in H as [f [Hf H]]. unfold frag_keys in H.
    assert (A : forall n, In n (frag_names f) -> In n (flat_map frag_names (m_frags m) ++ map ix_uuid (m_indices m) ++ match m_txn m with Some t => [snd t] | None => [] end)).
    { intros n Hn. apply in_or_app. left. apply in_flat_map. exists f. split; assumption. }
    apply in_app_or in H as [H|H].
    + apply in_map_iff in H as [fr [E Hfr]]. apply ref_key_some in E. rewrite E. cbn [is_manifest is_tag rel_names].
      repeat split; try reflexivity. intros n [<-|[]]. apply A. unfold frag_names. apply in_or_app. left. apply in_map. exact Hfr.
    + destruct (f_del f) as [d|] eqn:Ed; [|destruct H]. destruct H as [H|[]]. apply ref_key_some in H. rewrite H.
      cbn [is_manifest is_tag rel_names]. repeat split; try reflexivity. intros n [<-|[]]. apply A. unfold frag_names.
      apply in_or_app. right. rewrite Ed. left. reflexivity.
  - apply in_map_iff in H as [i [E Hi]]. apply ref_key_some in E. rewrite E. cbn [is_manifest is_tag rel_names].
    repeat split; try reflexivity. intros n [<-|[]]. apply in_or_app. right. apply in_or_app. left. apply in_map. exact Hi.
  - destruct (m_txn m) as [t|]; [|destruct H]. destruct H as [H|[]]. inversion H; subst. cbn [snd is_manifest is_tag rel_names].
    repeat split; try reflexivity. intros n [<-|[]]. apply in_or_app. right. apply in_or_app. right. left. reflexivity.
Qed.

(* the snapshot of a manifest only depends on the keys in man_keys *)
Lemma open_man_frame s s' here m :
  (forall k, In (Some k) (man_keys here m) -> get s' k = get s k) -> open_man s' here m = open_man s here m.
Proof.
  intro H. unfold open_man.
  assert (D : forall b r, In (ref_key here m b r) (man_keys here m) -> deref s' here m b r = deref s here m b r).
  { intros b r Hin. unfold deref. destruct (ref_key here m b r) as [k|] eqn:E; [apply H; exact Hin | reflexivity]. }
  f_equal; [f_equal|].
  - f_equal. apply map_ext_in. intros f Hf. unfold open_frag. f_equal; [f_equal|].
    + apply map_ext_in. intros fr Hfr. apply D. unfold man_keys. apply in_or_app. left. apply in_flat_map. exists f.
      split; [exact Hf|]. unfold frag_keys. apply in_or_app. left. apply in_map_iff. exists fr. split; [reflexivity | exact Hfr].
    + destruct (f_del f) as [d|] eqn:Ed; [|reflexivity]. cbn [option_map]. f_equal. apply D. unfold man_keys.
      apply in_or_app. left. apply in_flat_map. exists f. split; [exact Hf|]. unfold frag_keys. apply in_or_app. right.
      rewrite Ed. left. reflexivity.
  - apply map_ext_in. intros i Hi. f_equal. apply D. unfold man_keys. apply in_or_app. right. apply in_or_app. left.
    apply in_map_iff. exists i. split; [reflexivity | exact Hi].
  - destruct (m_txn m) as [t|] eqn:Et; [|reflexivity]. cbn [option_map]. f_equal. apply H. unfold man_keys.
    apply in_or_app. right. apply in_or_app. right. rewrite Et. left. reflexivity.
Qed.

Lemma snapshot_frame s s' here v m :
  get s (here, RManifest v) = Some (CMan m) -> get s' (here, RManifest v) = Some (CMan m) ->
  (forall k, In (Some k) (man_keys here m) -> get s' k = get s k) ->
  snapshot here v s' = snapshot here v s.
Proof.
  intros A B H. unfold snapshot, open. rewrite A, B. cbn [option_map]. f_equal. apply open_man_frame. exact H.
Qed.

(* ---------- mentioned keys and store extension ---------- *)
Definition mentioned (s : store) (k : key) : Prop :=
  (exists c, In (k, c) s) \/ (exists k0 m, In (k0, CMan m) s /\ In (Some k) (man_keys (fst k0) m)).

(* s' extends s: nothing removed, and every key that s holds or that a manifest of s references reads the same *)
Definition ext (s s' : store) : Prop :=
  (forall e, In e s -> In e s') /\ (forall k, mentioned s k -> get s' k = get s k).

Lemma mentioned_mono s s' k : (forall e, In e s -> In e s') -> mentioned s k -> mentioned s' k.
Proof.
  intros H [[c A]|[k0 [m [A B]]]]; [left; exists c; auto | right; exists k0, m; auto].
Qed.

Lemma ext_refl s : ext s s.
Proof. split; auto. Qed.

Lemma ext_trans a b c : ext a b -> ext b c -> ext a c.
Proof.
  intros [A1 A2] [B1 B2]. split; [auto|]. intros k Hk. rewrite B2 by (eapply mentioned_mono; eauto). apply A2. exact Hk.
Qed.

Lemma put_ext s k c : ~ mentioned s k -> ext s (put s k c).
Proof.
  intro N. split.
  - intros e He. right. exact He.
  - intros k' Hk'. apply get_put_neq. intro E. subst. contradiction.
Qed.

Definition unused (n : N) (s : store) : Prop := forall e, In e s -> ~ In n (entry_names e).

Lemma fresh_not_mentioned s n k : unused n s -> In n (rel_names (snd k)) -> ~ mentioned s k.
Proof.
  intros U Hn [[c A]|[k0 [m [A B]]]].
  - apply (U _ A). unfold entry_names. cbn [fst snd]. apply in_or_app. left. exact Hn.
  - apply (U _ A). unfold entry_names. cbn [fst snd]. apply in_or_app. right.
    apply man_keys_rel in B as [_ [_ B]]. apply B. exact Hn.
Qed.

Lemma next_manifest_not_mentioned here s : ~ mentioned s (here, RManifest (latest here s + 1)).
Proof.
  intros [[c A]|[k0 [m [A B]]]].
  - apply latest_ge in A. lia.
  - apply man_keys_rel in B as [B _]. cbn [snd is_manifest] in B. discriminate.
Qed.

Section Ops.
  Variable oracle : store -> N.
  (* FRESHNESS HYPOTHESIS: the drawn name is mentioned by no path and no manifest of the store.  In the real code
     the names are Uuid::new_v4() (data files, index directories, transaction files) and a random u64 (deletion
     file id, lance-table/src/io/deletion.rs write_deletion_file) - true up to a collision of random bits. *)
  Hypothesis oracle_fresh : forall s, unused (oracle s) s.

  Lemma put_fresh_ext here mk : (forall n, In n (rel_names (mk n))) ->
    forall blobs s s' ns, put_fresh oracle here mk blobs s = (s', ns) -> ext s s'.
  Proof.
    intros Hmk blobs. induction blobs as [|b t IH]; intros s s' ns H; cbn [put_fresh] in H.
    - inversion H; subst. apply ext_refl.
    - destruct (put_fresh oracle here mk t (put s (here, mk (oracle s)) (CBlob b))) as [s1 ns1] eqn:E.
      inversion H; subst. eapply ext_trans; [|eapply IH; exact E].
      apply put_ext. eapply fresh_not_mentioned; [apply oracle_fresh|]. cbn [snd]. apply Hmk.
  Qed.

  Lemma put_fresh_manifests here mk blobs : forall s s' ns, put_fresh oracle here mk blobs s = (s', ns) ->
    forall k m, In (k, CMan m) s' -> In (k, CMan m) s.
  Proof.
    induction blobs as [|b t IH]; intros s s' ns H k m Hin; cbn [put_fresh] in H.
    - inversion H; subst. exact Hin.
    - destruct (put_fresh oracle here mk t (put s (here, mk (oracle s)) (CBlob b))) as [s1 ns1] eqn:E.
      inversion H; subst. specialize (IH _ _ _ E k m Hin). destruct IH as [A|A]; [inversion A | exact A].
  Qed.

  Lemma put_fresh_latest here mk blobs : (forall n, is_manifest (mk n) = false) ->
    forall s s' ns, put_fresh oracle here mk blobs s = (s', ns) -> latest here s' = latest here s.
  Proof.
    intro Hmk. induction blobs as [|b t IH]; intros s s' ns H; cbn [put_fresh] in H.
    - inversion H; subst. reflexivity.
    - destruct (put_fresh oracle here mk t (put s (here, mk (oracle s)) (CBlob b))) as [s1 ns1] eqn:E.
      inversion H; subst. rewrite (IH _ _ _ E). apply latest_put_other. cbn [snd]. apply Hmk.
  Qed.

  Lemma commit_ext here s rv m : ext s (commit oracle here s rv m).
  Proof.
    unfold commit. set (s1 := put s (here, RTxn rv (oracle s)) (CBlob (m_meta m))).
    assert (E1 : ext s s1).
    { apply put_ext. eapply fresh_not_mentioned; [apply oracle_fresh|]. cbn [snd rel_names]. left. reflexivity. }
    eapply ext_trans; [exact E1|]. apply put_ext.
    replace (latest here s) with (latest here s1) by (apply latest_put_other; reflexivity).
    apply next_manifest_not_mentioned.
  Qed.

  Definition is_commit_op (o : op) : bool :=
    match o with OTagSet _ _ | OTagDel _ | OCleanup _ _ => false | _ => true end.

  Lemma step_commit_ext here s o : is_commit_op o = true -> ext s (step oracle here s o).
  Proof.
    intro Ho. unfold step.
    destruct o; try discriminate Ho; destruct (open here (latest here s) s) as [cur|]; try apply ext_refl.
    - destruct (put_fresh oracle here RData blobs s) as [s1 ns] eqn:E.
      eapply ext_trans; [eapply put_fresh_ext; [|exact E] | apply commit_ext]. intro n. left. reflexivity.
    - destruct (put_fresh oracle here (fun n => RDel fid (m_version cur) n) [dv] s) as [s1 ns] eqn:E.
      eapply ext_trans; [eapply put_fresh_ext; [|exact E] | apply commit_ext]. intro n. left. reflexivity.
    - destruct (put_fresh oracle here (fun n => RDel fid (m_version cur) n) [dv] s) as [s1 ds] eqn:E.
      destruct (put_fresh oracle here RData blobs s1) as [s2 ns] eqn:E2.
      eapply ext_trans; [eapply put_fresh_ext; [|exact E]|]; [intro n; left; reflexivity|].
      eapply ext_trans; [eapply put_fresh_ext; [|exact E2] | apply commit_ext]. intro n. left. reflexivity.
    - destruct (put_fresh oracle here RData blobs s) as [s1 ns] eqn:E.
      eapply ext_trans; [eapply put_fresh_ext; [|exact E] | apply commit_ext]. intro n. left. reflexivity.
    - destruct (put_fresh oracle here RData (map (fun _ => blob) (m_frags cur)) s) as [s1 ns] eqn:E.
      eapply ext_trans; [eapply put_fresh_ext; [|exact E] | apply commit_ext]. intro n. left. reflexivity.
    - apply commit_ext.
    - destruct (put_fresh oracle here (fun n => RIndex n 0) [blob] s) as [s1 ns] eqn:E.
      eapply ext_trans; [eapply put_fresh_ext; [|exact E] | apply commit_ext]. intro n. left. reflexivity.
    - destruct (put_fresh oracle here RData blobs s) as [s1 ns] eqn:E.
      eapply ext_trans; [eapply put_fresh_ext; [|exact E] | apply commit_ext]. intro n. left. reflexivity.
    - destruct (open here v s) as [old|]; [apply commit_ext | apply ext_refl].
    - apply commit_ext.
  Qed.

  (* ---------- cleanup ---------- *)
  Lemma fold_del_get {A} (g : A -> bool) (f : A -> key) (l : list A) k : (forall x, In x l -> g x = false -> f x <> k) ->
    forall s, get (fold_left (fun acc x => if g x then acc else del acc (f x)) l s) k = get s k.
  Proof.
    induction l as [|x t IH]; intros H s; cbn [fold_left]; [reflexivity|].
    rewrite IH by (intros y Hy; apply H; right; exact Hy).
    destruct (g x) eqn:E; [reflexivity|]. apply get_del_neq. apply H; [left; reflexivity | exact E].
  Qed.

  Lemma fold_del_In {A} (g : A -> bool) (f : A -> key) (l : list A) e :
    forall s, In e (fold_left (fun acc x => if g x then acc else del acc (f x)) l s) -> In e s.
  Proof.
    induction l as [|x t IH]; intros s H; cbn [fold_left] in H; [exact H|].
    apply IH in H. destruct (g x); [exact H | eapply In_del; exact H].
  Qed.

  Lemma referenced_true here s v m k :
    In ((here, RManifest v), CMan m) s -> In (Some k) (man_keys here m) -> referenced here s k = true.
  Proof.
    intros A B. unfold referenced. apply existsb_exists. exists ((here, RManifest v), CMan m). split; [exact A|].
    rewrite N.eqb_refl. cbn [andb]. apply existsb_exists. exists (Some k). split; [exact B | apply key_eqb_refl].
  Qed.

  Lemma cleanup_frame here sel cand s v m :
    get s (here, RManifest v) = Some (CMan m) -> ~ In v sel ->
    get (cleanup here sel cand s) (here, RManifest v) = Some (CMan m)
    /\ (forall k, In (Some k) (man_keys here m) -> get (cleanup here sel cand s) k = get s k).
  Proof.
    intros G NS. unfold cleanup.
    set (g1 := fun v0 => N.eqb v0 (latest here s) || tagged here s v0).
    set (s1 := fold_left (fun acc v0 => if g1 v0 then acc else del acc (here, RManifest v0)) sel s).
    assert (K1 : forall k, (forall v0, In v0 sel -> k <> (here, RManifest v0)) -> get s1 k = get s k).
    { intros k Hk. unfold s1. apply (fold_del_get g1 (fun v0 => (here, RManifest v0))). intros x Hx _ E. apply (Hk x Hx). symmetry. exact E. }
    assert (G1 : get s1 (here, RManifest v) = Some (CMan m)).
    { rewrite K1; [exact G|]. intros v0 Hv0 E. inversion E; subst. contradiction. }
    assert (I1 : In ((here, RManifest v), CMan m) s1) by (apply get_In; exact G1).
    set (g2 := fun r => is_manifest r || is_tag r || referenced here s1 (here, r)).
    split.
    - rewrite (fold_del_get g2 (fun r => (here, r))); [exact G1|].
      intros r _ E F. inversion F; subst. unfold g2 in E. cbn [is_manifest orb] in E. discriminate.
    - intros k Hk. rewrite (fold_del_get g2 (fun r => (here, r))).
      + apply K1. intros v0 _ E. subst. apply man_keys_rel in Hk as [Hk _]. cbn [snd is_manifest] in Hk. discriminate.
      + intros r _ E F. subst. unfold g2 in E. rewrite (referenced_true _ _ _ _ _ I1 Hk) in E.
        rewrite orb_true_r in E. discriminate.
  Qed.

  (* ---------- one step freezes every published version it does not select ---------- *)
  Lemma step_frame here s o v m :
    get s (here, RManifest v) = Some (CMan m) ->
    match o with OCleanup sel _ => ~ In v sel | _ => True end ->
    get (step oracle here s o) (here, RManifest v) = Some (CMan m)
    /\ (forall k, In (Some k) (man_keys here m) -> get (step oracle here s o) k = get s k).
  Proof.
    intros G Hsel. destruct (is_commit_op o) eqn:Ho.
    - destruct (step_commit_ext here s o Ho) as [_ E]. split.
      + rewrite E; [exact G|]. left. exists (CMan m). apply get_In. exact G.
      + intros k Hk. apply E. right. exists (here, RManifest v), m. split; [apply get_In; exact G | exact Hk].
    - destruct o; try discriminate Ho.
      + (* tag set *) unfold step. destruct (open here v0 s); [|split; [exact G | reflexivity]]. split.
        * rewrite get_put_neq by discriminate. exact G.
        * intros k Hk. apply get_put_neq. intro E. subst. apply man_keys_rel in Hk as [_ [Hk _]]. discriminate.
      + (* tag delete *) unfold step. split.
        * rewrite get_del_neq by discriminate. exact G.
        * intros k Hk. apply get_del_neq. intro E. subst. apply man_keys_rel in Hk as [_ [Hk _]]. discriminate.
      + (* cleanup *) unfold step. apply cleanup_frame; assumption.
  Qed.

  Lemma run_frame here h : forall s v m,
    get s (here, RManifest v) = Some (CMan m) -> never_selects v h ->
    get (run oracle here h s) (here, RManifest v) = Some (CMan m)
    /\ (forall k, In (Some k) (man_keys here m) -> get (run oracle here h s) k = get s k).
  Proof.
    induction h as [|o t IH]; intros s v m G NS; unfold run; cbn [fold_left].
    - split; [exact G | reflexivity].
    - inversion NS as [|? ? Ho Ht]; subst.
      destruct (step_frame here s o v m G Ho) as [G1 F1].
      destruct (IH _ v m G1 Ht) as [G2 F2]. unfold run in G2, F2. split; [exact G2|].
      intros k Hk. rewrite F2 by exact Hk. apply F1. exact Hk.
  Qed.

  (* C06: a published version reads the same after any later history that does not clean it up *)
  Lemma old_versions_frozen here h s v m :
    get s (here, RManifest v) = Some (CMan m) -> never_selects v h ->
    snapshot here v (run oracle here h s) = snapshot here v s.
  Proof.
    intros G NS. destruct (run_frame here h s v m G NS) as [G2 F2].
    eapply snapshot_frame; eassumption.
  Qed.

  (* monotone store: a history without tag operations and cleanup never changes or removes an object *)
  Lemma run_monotone here h : Forall (fun o => is_commit_op o = true) h ->
    forall s k c, get s k = Some c -> get (run oracle here h s) k = Some c.
  Proof.
    induction h as [|o t IH]; intros F s k c G; unfold run; cbn [fold_left]; [exact G|].
    inversion F; subst. apply IH; [assumption|]. destruct (step_commit_ext here s o) as [_ E]; [assumption|].
    rewrite E; [exact G|]. left. exists c. apply get_In. exact G.
  Qed.
End Ops.

(* ---------- the concrete oracle satisfies the freshness hypothesis ---------- *)
Lemma list_max_ge l x : In x l -> x <= list_max l.
Proof.
  induction l as [|y t IH]; [intros []|]. intros [->|H]; unfold list_max; cbn [fold_right]; [lia|].
  specialize (IH H). unfold list_max in IH. lia.
Qed.

Lemma oracle_max_fresh s : unused (oracle_max s) s.
Proof.
  intros e He Hn. unfold oracle_max in Hn.
  assert (A : In (list_max (flat_map entry_names s) + 1) (flat_map entry_names s)).
  { apply in_flat_map. exists e. split; assumption. }
  apply list_max_ge in A. lia.
Qed.

(* ---------- C42: copying a root ---------- *)
Definition no_root (r' : root) (s : store) : Prop := forall e, In e s -> fst (fst e) <> r'.

Lemma get_no_root r' s p : no_root r' s -> get s (r', p) = None.
Proof. intro H. apply get_None_iff. intros c Hin. apply (H _ Hin). reflexivity. Qed.

Lemma key_eqb_pair r0 p0 r p : key_eqb (r0, p0) (r, p) = N.eqb r0 r && rel_eqb p0 p.
Proof. reflexivity. Qed.

Lemma get_rekeyed r r' s p :
  get (map (fun e : key * content => ((r', snd (fst e)), snd e)) (filter (fun e : key * content => N.eqb (fst (fst e)) r) s)) (r', p)
  = get s (r, p).
Proof.
  induction s as [|[[r0 p0] c0] t IH]; cbn [filter map get fst snd]; [reflexivity|].
  destruct (N.eqb r0 r) eqn:E.
  - apply N.eqb_eq in E. subst. cbn [map get fst snd]. rewrite !key_eqb_pair, !N.eqb_refl. cbn [andb].
    destruct (rel_eqb p0 p); [reflexivity | exact IH].
  - rewrite IH. rewrite key_eqb_pair, E. reflexivity.
Qed.

Lemma get_rekeyed_other r r' s r0 p : r0 <> r' ->
  get (map (fun e : key * content => ((r', snd (fst e)), snd e)) (filter (fun e : key * content => N.eqb (fst (fst e)) r) s)) (r0, p) = None.
Proof.
  intro N. apply get_None_iff. intros c H. apply in_map_iff in H as [e [E _]]. inversion E. subst. contradiction.
Qed.

Lemma copy_get_new r r' s p : no_root r' s -> get (copy_root r r' s) (r', p) = get s (r, p).
Proof. intro H. unfold copy_root. rewrite get_app, (get_no_root _ _ _ H). apply get_rekeyed. Qed.

Lemma copy_get_old r r' s r0 p : r0 <> r' -> get (copy_root r r' s) (r0, p) = get s (r0, p).
Proof.
  intro H. unfold copy_root. rewrite get_app. destruct (get s (r0, p)); [reflexivity|]. apply get_rekeyed_other. exact H.
Qed.

Lemma remove_get r s r0 p : r0 <> r -> get (remove_root r s) (r0, p) = get s (r0, p).
Proof.
  intro H. unfold remove_root. induction s as [|[[r1 p1] c1] t IH]; cbn [filter get fst snd]; [reflexivity|].
  destruct (N.eqb r1 r) eqn:E; cbn [negb].
  - apply N.eqb_eq in E. subst. unfold key_eqb. cbn [fst snd]. rewrite (proj2 (N.eqb_neq r r0)) by congruence. exact IH.
  - cbn [get]. destruct (key_eqb (r1, p1) (r0, p)); [reflexivity | exact IH].
Qed.

Lemma remove_get_gone r s p : get (remove_root r s) (r, p) = None.
Proof.
  apply get_None_iff. intros c H. unfold remove_root in H. apply filter_In in H as [_ H]. cbn [fst] in H.
  rewrite N.eqb_refl in H. discriminate.
Qed.

Lemma frag_local_files f : frag_local f = true -> forall fr, In fr (f_files f) -> fr_base fr = None.
Proof.
  unfold frag_local. rewrite andb_true_iff. intros [H _] fr Hfr. rewrite forallb_forall in H. specialize (H fr Hfr).
  destruct (fr_base fr); [discriminate | reflexivity].
Qed.

Lemma frag_local_del f d : frag_local f = true -> f_del f = Some d -> dr_base d = None.
Proof.
  unfold frag_local. rewrite andb_true_iff. intros [_ H] E. rewrite E in H. destruct (dr_base d); [discriminate | reflexivity].
Qed.

(* a manifest without base ids read at r' over a store that holds under r' what s holds under r *)
Lemma open_man_copy s s' r r' m : man_local m = true -> (forall p, get s' (r', p) = get s (r, p)) ->
  open_man s' r' m = open_man s r m.
Proof.
  intros L H. unfold man_local in L. apply andb_true_iff in L as [LF LI]. rewrite forallb_forall in LF, LI.
  unfold open_man. f_equal; [f_equal|].
  - f_equal. apply map_ext_in. intros f Hf. specialize (LF f Hf). unfold open_frag. f_equal; [f_equal|].
    + apply map_ext_in. intros fr Hfr. rewrite (frag_local_files f LF fr Hfr). unfold deref, ref_key, base_root. apply H.
    + destruct (f_del f) as [d|] eqn:Ed; [|reflexivity]. cbn [option_map]. f_equal. rewrite (frag_local_del f d LF Ed).
      unfold deref, ref_key, base_root. apply H.
  - apply map_ext_in. intros i Hi. specialize (LI i Hi). destruct (ix_base i) eqn:E; [discriminate|].
    f_equal. unfold deref, ref_key, base_root. apply H.
  - destruct (m_txn m); [|reflexivity]. cbn [option_map]. f_equal. apply H.
Qed.

Lemma snapshot_copy s s' r r' v m : get s (r, RManifest v) = Some (CMan m) -> man_local m = true ->
  (forall p, get s' (r', p) = get s (r, p)) -> snapshot r' v s' = snapshot r v s.
Proof.
  intros G L H. unfold snapshot, open. rewrite H, G. cbn [option_map]. f_equal. apply open_man_copy; assumption.
Qed.

(* ---------- C42: histories never introduce a base id ---------- *)
Lemma new_frags_local first ns bs : forallb frag_local (new_frags first ns bs) = true.
Proof.
  revert first bs. induction ns as [|n t IH]; intros first [|b bs]; cbn [new_frags forallb]; try reflexivity.
  rewrite IH. reflexivity.
Qed.

Lemma set_del_local rv id fid fs : forallb frag_local fs = true -> forallb frag_local (map (set_del rv id fid) fs) = true.
Proof.
  induction fs as [|f t IH]; cbn [map forallb]; [reflexivity|]. rewrite andb_true_iff. intros [A B]. rewrite (IH B), andb_true_r.
  unfold set_del. destruct (N.eqb (f_id f) fid); [|exact A]. unfold frag_local in *. cbn [f_files f_del dr_base].
  apply andb_true_iff in A as [A _]. rewrite A. reflexivity.
Qed.

Lemma add_files_local ns : forall fs, forallb frag_local fs = true -> forallb frag_local (add_files ns fs) = true.
Proof.
  induction ns as [|n t IH]; intros [|f fs] H; cbn [add_files]; try exact H.
  cbn [forallb] in *. apply andb_true_iff in H as [A B]. rewrite (IH fs B), andb_true_r.
  unfold frag_local in *. cbn [f_files f_del]. apply andb_true_iff in A as [A1 A2]. rewrite forallb_app, A1, A2. reflexivity.
Qed.

Lemma filter_local g fs : forallb frag_local fs = true -> forallb frag_local (filter g fs) = true.
Proof.
  rewrite !forallb_forall. intros H f Hf. apply filter_In in Hf as [Hf _]. apply H. exact Hf.
Qed.

Lemma man_local_parts m : man_local m = true <->
  forallb frag_local (m_frags m) = true /\ forallb (fun i => match ix_base i with None => true | Some _ => false end) (m_indices m) = true.
Proof. unfold man_local. apply andb_true_iff. Qed.

Section Local.
  Variable oracle : store -> N.

  Lemma put_fresh_local r mk blobs s s' ns : all_local r s -> put_fresh oracle r mk blobs s = (s', ns) -> all_local r s'.
  Proof. intros A E v m H. eapply A. eapply put_fresh_manifests; eassumption. Qed.

  Lemma commit_local r s rv m : all_local r s -> man_local m = true -> all_local r (commit oracle r s rv m).
  Proof.
    intros A L v m0 H. unfold commit, put in H. destruct H as [H|[H|H]].
    - inversion H; subst. exact L.
    - inversion H.
    - eapply A. exact H.
  Qed.

  Lemma open_local r s v m : all_local r s -> open r v s = Some m -> man_local m = true.
  Proof.
    intros A H. unfold open in H. destruct (get s (r, RManifest v)) as [[m0| |]|] eqn:E; try discriminate.
    inversion H; subst. eapply A. apply get_In. exact E.
  Qed.

  Lemma step_local r s o : all_local r s -> all_local r (step oracle r s o).
  Proof.
    intro A. unfold step.
    destruct o; try (destruct (open r (latest r s) s) as [cur|] eqn:Ec; [|exact A];
                     pose proof (open_local r s _ cur A Ec) as L; apply man_local_parts in L as [LF LI]).
    - destruct (put_fresh oracle r RData blobs s) as [s1 ns] eqn:E. apply commit_local; [eapply put_fresh_local; eassumption|].
      apply man_local_parts. cbn [set_frags m_frags m_indices]. split; [|exact LI]. rewrite forallb_app, LF, new_frags_local. reflexivity.
    - destruct (put_fresh oracle r (fun n => RDel fid (m_version cur) n) [dv] s) as [s1 ns] eqn:E.
      apply commit_local; [eapply put_fresh_local; eassumption|].
      apply man_local_parts. cbn [set_frags m_frags m_indices]. split; [|exact LI]. apply set_del_local. exact LF.
    - destruct (put_fresh oracle r (fun n => RDel fid (m_version cur) n) [dv] s) as [s1 ds] eqn:E.
      destruct (put_fresh oracle r RData blobs s1) as [s2 ns] eqn:E2.
      apply commit_local; [eapply put_fresh_local; [eapply put_fresh_local|]; eassumption|].
      apply man_local_parts. cbn [set_frags m_frags m_indices]. split; [|exact LI].
      rewrite forallb_app, new_frags_local, set_del_local by exact LF. reflexivity.
    - destruct (put_fresh oracle r RData blobs s) as [s1 ns] eqn:E. apply commit_local; [eapply put_fresh_local; eassumption|].
      apply man_local_parts. cbn [set_frags m_frags m_indices]. split; [|exact LI].
      rewrite forallb_app, new_frags_local, filter_local by exact LF. reflexivity.
    - destruct (put_fresh oracle r RData (map (fun _ => blob) (m_frags cur)) s) as [s1 ns] eqn:E.
      apply commit_local; [eapply put_fresh_local; eassumption|].
      apply man_local_parts. cbn [set_meta set_frags m_frags m_indices]. split; [|exact LI]. apply add_files_local. exact LF.
    - apply commit_local; [exact A|]. apply man_local_parts. cbn [set_meta m_frags m_indices]. split; assumption.
    - destruct (put_fresh oracle r (fun n => RIndex n 0) [blob] s) as [s1 ns] eqn:E.
      apply commit_local; [eapply put_fresh_local; eassumption|].
      apply man_local_parts. cbn [set_indices m_frags m_indices]. split; [exact LF|]. rewrite forallb_app, LI. reflexivity.
    - destruct (put_fresh oracle r RData blobs s) as [s1 ns] eqn:E. apply commit_local; [eapply put_fresh_local; eassumption|].
      apply man_local_parts. cbn [set_meta set_indices set_frags m_frags m_indices forallb]. split; [apply new_frags_local | reflexivity].
    - destruct (open r v s) as [old|] eqn:Eo; [|exact A]. apply commit_local; [exact A|].
      pose proof (open_local r s _ old A Eo) as L. apply man_local_parts in L as [LF' LI'].
      apply man_local_parts. cbn [set_frags m_frags m_indices]. split; assumption.
    - apply commit_local; [exact A|]. apply man_local_parts. cbn [set_meta m_frags m_indices]. split; assumption.
    - destruct (open r v s) as [mt|]; [|exact A]. intros v0 m H. destruct H as [H|H]; [inversion H | eapply A; exact H].
    - intros v m H. apply In_del in H. eapply A. exact H.
    - intros v m H. unfold cleanup in H. apply fold_del_In in H. apply fold_del_In in H. eapply A. exact H.
  Qed.

  Lemma run_local r h : forall s, all_local r s -> all_local r (run oracle r h s).
  Proof.
    induction h as [|o t IH]; intros s A; unfold run; cbn [fold_left]; [exact A|]. apply IH. apply step_local. exact A.
  Qed.
End Local.

(* boolean form of no_root, for concrete stores *)
Definition no_root_b (r' : root) (s : store) : bool := forallb (fun e : key * content => negb (N.eqb (fst (fst e)) r')) s.
Lemma no_root_b_true r' s : no_root_b r' s = true -> no_root r' s.
Proof.
  unfold no_root_b, no_root. rewrite forallb_forall. intros H e He E. specialize (H e He). rewrite E, N.eqb_refl in H. discriminate.
Qed.

(* any version number: unpublished on both sides, or published and local *)
Lemma snapshot_copy_any s s' r r' v :
  (forall p, get s' (r', p) = get s (r, p)) ->
  (forall m, get s (r, RManifest v) = Some (CMan m) -> man_local m = true) ->
  snapshot r' v s' = snapshot r v s.
Proof.
  intros H L. destruct (get s (r, RManifest v)) as [[m| |]|] eqn:G.
  - eapply snapshot_copy; [exact G | apply L; reflexivity | exact H].
  - unfold snapshot, open. rewrite H, G. reflexivity.
  - unfold snapshot, open. rewrite H, G. reflexivity.
  - unfold snapshot, open. rewrite H, G. reflexivity.
Qed.

