(* C02 - commit handlers of rust/lance-table/src/io/commit.rs as small-step programs over an object store
   with atomic primitives, run under an arbitrary interleaving with injected faults.
   Executable definitions only (proofs are in Proofs_Handlers.v).

   One *event* = one object-store (or lock-service) call of one writer.  `Run t`: the call behaves
   normally; `Fail t`: it fails without effect; `Lost t`: it takes effect but the caller sees an error
   (lost reply).  A writer that is never scheduled again has crashed.

     ConditionalPutCommitHandler::commit   P0: put_opts(path, PutMode::Create)
     RenameCommitHandler::commit           P0: put(tmp)  P1: rename_if_not_exists(tmp, path)  P2: delete(tmp) (errors ignored)
     impl<T: CommitLock> CommitHandler     P0: lock(v)   P1: head(path)  P2: put(path)  P3: release(true)
                                           PRelC: release(false) then CommitConflict   PRelO: release(false) then OtherError
     UnsafeCommitHandler::commit           P0: put(path)                      (no atomic create: excluded by the theorems, see refutation)
*)
From LanceV Require Import Common.Base.
Local Open Scope N_scope.

Inductive key := KFinal (v : N) | KTmp (t : N).
Definition key_eqb (a b : key) : bool :=
  match a, b with
  | KFinal x, KFinal y => N.eqb x y
  | KTmp x, KTmp y => N.eqb x y
  | _, _ => false
  end.

(* what a path holds: something published before the run, or the manifest of writer t *)
Inductive content := Pre (c : N) | By (t : N).
Definition content_eqb (a b : content) : bool :=
  match a, b with
  | Pre x, Pre y => N.eqb x y
  | By x, By y => N.eqb x y
  | _, _ => false
  end.

Definition store := key -> option content.
Definition upd (s : store) (k : key) (c : content) : store := fun k' => if key_eqb k k' then Some c else s k'.
Definition del (s : store) (k : key) : store := fun k' => if key_eqb k k' then None else s k'.

Inductive hkind := HCondPut | HRename | HLock | HUnsafe.
Inductive result := ROk | RConflict | ROther.
Inductive pc := P0 | P1 | P2 | P3 | PRelC | PRelO | Done (r : result).

Record tstate := { ver : N; kind : hkind; tpc : pc }.
Record state := { sto : store; lck : option N; thr : N -> tstate }.

Inductive mode := Normal | FailNoEffect | LostReply.
Inductive event := Run (t : N) | Fail (t : N) | Lost (t : N).
Definition ev_tid (e : event) : N := match e with Run t | Fail t | Lost t => t end.
Definition ev_mode (e : event) : mode := match e with Run _ => Normal | Fail _ => FailNoEffect | Lost _ => LostReply end.

Definition set_thr (s : state) (t : N) (p : pc) : N -> tstate :=
  fun x => if N.eqb x t then {| ver := ver (thr s x); kind := kind (thr s x); tpc := p |} else thr s x.

Definition mk (s : state) (st : store) (l : option N) (t : N) (p : pc) : state :=
  {| sto := st; lck := l; thr := set_thr s t p |}.

Definition is_none {A} (o : option A) : bool := match o with None => true | Some _ => false end.

(* one call of writer t *)
Definition step (s : state) (e : event) : state :=
  let t := ev_tid e in
  let m := ev_mode e in
  let ts := thr s t in
  let fin := KFinal (ver ts) in
  let tmp := KTmp t in
  match kind ts, tpc ts with
  | _, Done _ => s
  | HCondPut, P0 =>
      match m with
      | FailNoEffect => mk s (sto s) (lck s) t (Done ROther)
      | Normal => if is_none (sto s fin) then mk s (upd (sto s) fin (By t)) (lck s) t (Done ROk)
                  else mk s (sto s) (lck s) t (Done RConflict)
      | LostReply => if is_none (sto s fin) then mk s (upd (sto s) fin (By t)) (lck s) t (Done ROther)
                     else mk s (sto s) (lck s) t (Done ROther)
      end
  | HCondPut, _ => s
  | HUnsafe, P0 =>
      match m with
      | FailNoEffect => mk s (sto s) (lck s) t (Done ROther)
      | Normal => mk s (upd (sto s) fin (By t)) (lck s) t (Done ROk)
      | LostReply => mk s (upd (sto s) fin (By t)) (lck s) t (Done ROther)
      end
  | HUnsafe, _ => s
  | HRename, P0 =>
      match m with
      | FailNoEffect => mk s (sto s) (lck s) t (Done ROther)
      | Normal => mk s (upd (sto s) tmp (By t)) (lck s) t P1
      | LostReply => mk s (upd (sto s) tmp (By t)) (lck s) t (Done ROther)
      end
  | HRename, P1 =>
      match m with
      | FailNoEffect => mk s (sto s) (lck s) t (Done ROther)
      | _ =>
          match sto s tmp with
          | None => mk s (sto s) (lck s) t (Done ROther)          (* source missing: NotFound *)
          | Some c =>
              if is_none (sto s fin)
              then mk s (del (upd (sto s) fin c) tmp) (lck s) t (match m with Normal => Done ROk | _ => Done ROther end)
              else mk s (sto s) (lck s) t (match m with Normal => P2 | _ => Done ROther end)
          end
      end
  | HRename, P2 =>
      match m with
      | FailNoEffect => mk s (sto s) (lck s) t (Done RConflict)    (* `let _ = delete(tmp)` *)
      | _ => mk s (del (sto s) tmp) (lck s) t (Done RConflict)
      end
  | HRename, _ => s
  | HLock, P0 =>
      match m with
      | FailNoEffect => mk s (sto s) (lck s) t (Done ROther)
      | Normal => if is_none (lck s) then mk s (sto s) (Some t) t P1 else s      (* blocked *)
      | LostReply => if is_none (lck s) then mk s (sto s) (Some t) t (Done ROther) else s
      end
  | HLock, P1 =>
      match m with
      | Normal => if is_none (sto s fin) then mk s (sto s) (lck s) t P2 else mk s (sto s) (lck s) t PRelC
      | _ => mk s (sto s) (lck s) t PRelO
      end
  | HLock, P2 =>
      match m with
      | FailNoEffect => mk s (sto s) (lck s) t PRelO
      | Normal => mk s (upd (sto s) fin (By t)) (lck s) t P3
      | LostReply => mk s (upd (sto s) fin (By t)) (lck s) t PRelO
      end
  | HLock, P3 =>
      match m with
      | FailNoEffect => mk s (sto s) (lck s) t (Done ROther)
      | Normal => mk s (sto s) None t (Done ROk)
      | LostReply => mk s (sto s) None t (Done ROther)
      end
  | HLock, PRelC =>
      match m with
      | FailNoEffect => mk s (sto s) (lck s) t (Done ROther)
      | Normal => mk s (sto s) None t (Done RConflict)
      | LostReply => mk s (sto s) None t (Done ROther)
      end
  | HLock, PRelO =>
      match m with
      | FailNoEffect => mk s (sto s) (lck s) t (Done ROther)
      | _ => mk s (sto s) None t (Done ROther)
      end
  end.

Definition run (evs : list event) (s : state) : state := fold_left step evs s.

(* initial state: store `st0` (no staging files), lock free, every writer at P0 with its version and handler *)
Definition init (st0 : store) (vers : N -> N) (kinds : N -> hkind) : state :=
  {| sto := st0; lck := None; thr := fun t => {| ver := vers t; kind := kinds t; tpc := P0 |} |}.

(* ---------- correspondence: a finite description of a run, evaluated by vm_compute ---------- *)
Definition kind_of_code (c : N) : hkind :=
  match c with 0 => HCondPut | 1 => HRename | 2 => HLock | _ => HUnsafe end.
Definition event_of_code (c : N * N) : event :=
  match fst c with 0 => Run (snd c) | 1 => Fail (snd c) | _ => Lost (snd c) end.
Definition result_code (p : pc) : N :=
  match p with Done ROk => 0 | Done RConflict => 1 | Done ROther => 2 | _ => 3 (* not finished *) end.
Definition content_code (o : option content) : N :=
  match o with None => 0 | Some (Pre c) => 1 | Some (By t) => 2 + t end.

Fixpoint assoc (l : list (N * N)) (k : N) (d : N) : N :=
  match l with [] => d | (a, b) :: r => if N.eqb a k then b else assoc r k d end.

(* input: writers as (tid, (version, handler code)); versions already published before the run; events.
   output of the implementation: per writer result code (in the order of the writers list);
   contents code of the final path of every version in `probe`; ids of writers with a leftover staging file. *)
Definition run_case (writers : list (N * (N * N))) (pre : list N) (evs : list (N * N)) : state :=
  let vers := fun t => assoc (map (fun w => (fst w, fst (snd w))) writers) t 0 in
  let kinds := fun t => kind_of_code (assoc (map (fun w => (fst w, snd (snd w))) writers) t 0) in
  let st0 : store := fun k => match k with KFinal v => if existsb (N.eqb v) pre then Some (Pre v) else None | KTmp _ => None end in
  run (map event_of_code evs) (init st0 vers kinds).

Definition chk_run (i : (list (N * (N * N)) * list N) * (list (N * N) * list N)) (o : (list N * list N) * list N) : bool :=
  let '((writers, pre), (evs, probe)) := i in
  let s := run_case writers pre evs in
  list_eqb N.eqb (map (fun w => result_code (tpc (thr s (fst w)))) writers) (fst (fst o))
  && list_eqb N.eqb (map (fun v => content_code (sto s (KFinal v))) probe) (snd (fst o))
  (* writers whose staging file is still in the store, in the order of the writers list *)
  && list_eqb N.eqb (map fst (filter (fun w => negb (is_none (sto s (KTmp (fst w))))) writers)) (snd o).
