(* C10 - invariants of the external manifest store protocol under arbitrary interleavings and faults. *)
From LanceV Require Import Common.Base Store.Model_External.
Local Open Scope N_scope.

(* ---------- classification of program counters ---------- *)
Definition pre_commit (p : pc) : bool := match p with W0 | W1 | W1c => true | _ => false end.
Definition fresh_pc (p : pc) : bool := match p with W0 | W1 | W1c | L0 | LL => true | _ => false end.
Definition reader_pc (p : pc) : bool := match p with R0 | R1 _ | D0 | D1 _ | DP _ | L0 | LL => true | _ => false end.
Definition owner (p : pc) : option N := match p with F0 o | F1 o _ | F2 o | F3 o | R1 o => Some o | _ => None end.
Definition needs_final (p : pc) : bool :=
  match p with F1 _ true | F2 _ | F3 _ | DP _ | Done ROk => true | _ => false end.

(* what the pc of thread t (role r, version v) promises about the shared state *)
Record PcOk (st : store) (ex : N -> option entry) (wn : N -> option N) (r : role) (v t : N) (p : pc) : Prop := {
  P_fresh : fresh_pc p = true -> forall v', wn v' <> Some t;
  P_pre : pre_commit p = true -> forall c, st (KFinal v) <> Some (Pre c);
  P_w1 : p = W1 -> st (KTmp t) = Some (By t);
  P_own : forall o, owner p = Some o -> wn v = Some o;
  P_fin : needs_final p = true -> st (KFinal v) <> None;
  P_f3 : forall o, p = F3 o -> ex v = Some EFinal;
  P_wr : r = Writer -> reader_pc p = false;
  P_wown : r = Writer -> forall o, owner p = Some o -> o = t;
  P_ack : r = Writer -> p = Done ROk -> wn v = Some t
}.

Record Inv (s : state) : Prop := {
  I_tmp : forall x c, sto s (KTmp x) = Some c -> c = By x;
  I_fin : forall v c, sto s (KFinal v) = Some c ->
          match win s v with Some w => c = By w | None => exists c0, c = Pre c0 end;
  I_estg : forall v o, ext s v = Some (EStaging o) -> sto s (KTmp o) = Some (By o) /\ win s v = Some o;
  I_efin : forall v, ext s v = Some EFinal -> sto s (KFinal v) <> None;
  I_win : forall v w, win s v = Some w -> ver (thr s w) = v /\ ext s v <> None;
  I_hist : forall v e, In (v, e) (hist s) ->
           match e with EStaging o => win s v = Some o | EFinal => ext s v = Some EFinal end;
  I_pc : forall x, PcOk (sto s) (ext s) (win s) (rl (thr s x)) (ver (thr s x)) x (tpc (thr s x))
}.

(* ---------- small facts ---------- *)
Lemma key_eqb_refl k : key_eqb k k = true.
Proof. destruct k; cbn; apply N.eqb_refl. Qed.
Lemma key_eqb_eq a b : key_eqb a b = true <-> a = b.
Proof.
  destruct a, b; cbn; split; intro H; try discriminate; try (apply N.eqb_eq in H; subst; reflexivity);
    inversion H; subst; apply N.eqb_refl.
Qed.
Lemma upd_same s k c : upd s k c k = Some c.
Proof. unfold upd; rewrite key_eqb_refl; reflexivity. Qed.
Lemma upd_other s k c k' : k <> k' -> upd s k c k' = s k'.
Proof. unfold upd; intro H; destruct (key_eqb k k') eqn:E; [apply key_eqb_eq in E; contradiction | reflexivity]. Qed.
Lemma del_same s k : del s k k = None.
Proof. unfold del; rewrite key_eqb_refl; reflexivity. Qed.
Lemma del_other s k k' : k <> k' -> del s k k' = s k'.
Proof. unfold del; intro H; destruct (key_eqb k k') eqn:E; [apply key_eqb_eq in E; contradiction | reflexivity]. Qed.
Lemma eset_same {A} (f : N -> option A) v a : eset f v a v = Some a.
Proof. unfold eset; rewrite N.eqb_refl; reflexivity. Qed.
Lemma eset_other {A} (f : N -> option A) v a v' : v <> v' -> eset f v a v' = f v'.
Proof. unfold eset; intro H; destruct (N.eqb_spec v v'); [contradiction | reflexivity]. Qed.

Lemma is_none_true {A} (o : option A) : is_none o = true -> o = None.
Proof. destruct o; [discriminate | reflexivity]. Qed.
Lemma is_none_false {A} (o : option A) : is_none o = false -> o <> None.
Proof. destruct o; [intros _ H; discriminate H | discriminate]. Qed.

Lemma thr_set_same s t vr p : set_thr s t vr p t = {| rl := rl (thr s t); ver := vr; big := big (thr s t); tpc := p |}.
Proof. unfold set_thr; rewrite N.eqb_refl; reflexivity. Qed.
Lemma thr_set_other s t vr p x : x <> t -> set_thr s t vr p x = thr s x.
Proof. unfold set_thr; intro H; destruct (N.eqb_spec x t); [contradiction | reflexivity]. Qed.

Ltac norm := unfold upd, del, eset in *; cbn [key_eqb] in *.
Ltac split_eqb := repeat match goal with
  | |- context [N.eqb ?a ?b] => destruct (N.eqb_spec a b); subst
  | H : context [N.eqb ?a ?b] |- _ => destruct (N.eqb_spec a b); subst end.

(* ---------- the invariant of `mk s st ex hs wn t p` from local obligations ---------- *)
Lemma PcOk_frame s st ex wn t x :
  x <> t ->
  PcOk (sto s) (ext s) (win s) (rl (thr s x)) (ver (thr s x)) x (tpc (thr s x)) ->
  (forall v c, st (KFinal v) = Some (Pre c) -> sto s (KFinal v) = Some (Pre c)) ->
  (forall v, sto s (KFinal v) <> None -> st (KFinal v) <> None) ->
  (forall y c, sto s (KTmp y) = Some c -> st (KTmp y) = Some c \/ y = t \/ exists v', win s v' = Some y) ->
  (forall v, ext s v = Some EFinal -> ex v = Some EFinal) ->
  (forall v w, win s v = Some w -> wn v = Some w) ->
  (forall v w, wn v = Some w -> win s v = Some w \/ w = t) ->
  PcOk st ex wn (rl (thr s x)) (ver (thr s x)) x (tpc (thr s x)).
Proof.
  intros Hne [Q1 Q2 Q3 Q4 Q5 Q6 Q7 Q8 Q9] Fpre Ffin Ftmp Fef Fw Fw'. constructor.
  - intros Hp v' Hv'. destruct (Fw' _ _ Hv') as [H | H]; [exact (Q1 Hp v' H) | contradiction].
  - intros Hp c Hc. exact (Q2 Hp c (Fpre _ _ Hc)).
  - intros Hp. destruct (Ftmp _ _ (Q3 Hp)) as [H | [H | [v' H]]]; [exact H | contradiction | ].
    exfalso. apply (Q1 ltac:(rewrite Hp; reflexivity) v' H).
  - intros o Ho. apply Fw. exact (Q4 o Ho).
  - intros Hp. apply Ffin. exact (Q5 Hp).
  - intros o Ho. apply Fef. exact (Q6 o Ho).
  - exact Q7.
  - exact Q8.
  - intros Hr Hp. apply Fw. exact (Q9 Hr Hp).
Qed.

Lemma Inv_mk s st ex hs wn t p :
  Inv s ->
  (forall x c, st (KTmp x) = Some c -> c = By x) ->
  (forall v c, st (KFinal v) = Some c -> match wn v with Some w => c = By w | None => exists c0, c = Pre c0 end) ->
  (forall v o, ex v = Some (EStaging o) -> st (KTmp o) = Some (By o) /\ wn v = Some o) ->
  (forall v, ex v = Some EFinal -> st (KFinal v) <> None) ->
  (forall v w, wn v = Some w -> ver (thr s w) = v /\ ex v <> None) ->
  (forall v e, In (v, e) hs -> match e with EStaging o => wn v = Some o | EFinal => ex v = Some EFinal end) ->
  (* frame: what other threads rely on *)
  (forall v c, st (KFinal v) = Some (Pre c) -> sto s (KFinal v) = Some (Pre c)) ->
  (forall v, sto s (KFinal v) <> None -> st (KFinal v) <> None) ->
  (forall y c, sto s (KTmp y) = Some c -> st (KTmp y) = Some c \/ y = t \/ exists v', win s v' = Some y) ->
  (forall v, ext s v = Some EFinal -> ex v = Some EFinal) ->
  (forall v w, win s v = Some w -> wn v = Some w) ->
  (forall v w, wn v = Some w -> win s v = Some w \/ w = t) ->
  (* the acting thread *)
  PcOk st ex wn (rl (thr s t)) (ver (thr s t)) t p ->
  Inv (mk s st ex hs wn t p).
Proof.
  intros I GA GB GC GD GE GH Fpre Ffin Ftmp Fef Fw Fw' Hloc.
  constructor; cbn [sto ext hist win thr mk]; try assumption.
  - intros v w Hw. destruct (GE v w Hw) as [A B]. split; [|exact B].
    destruct (N.eq_dec w t) as [-> | Hne]; [rewrite thr_set_same | rewrite thr_set_other by exact Hne]; exact A.
  - intro x. destruct (N.eq_dec x t) as [-> | Hne].
    + rewrite thr_set_same. cbn [rl ver tpc]. exact Hloc.
    + rewrite thr_set_other by exact Hne. apply (PcOk_frame s st ex wn t x Hne (I_pc s I x)); assumption.
Qed.

Lemma Inv_mkv s t vr p :
  Inv s -> (forall v, win s v <> Some t) ->
  PcOk (sto s) (ext s) (win s) (rl (thr s t)) vr t p ->
  Inv (mkv s t vr p).
Proof.
  intros I Hnw Hloc.
  constructor; cbn [sto ext hist win thr mkv]; try apply I.
  - intros v w Hw. destruct (I_win s I v w Hw) as [A B]. split; [|exact B].
    destruct (N.eq_dec w t) as [-> | Hne]; [exfalso; exact (Hnw v Hw) | rewrite thr_set_other by exact Hne; exact A].
  - intro x. destruct (N.eq_dec x t) as [-> | Hne].
    + rewrite thr_set_same. cbn [rl ver tpc]. exact Hloc.
    + rewrite thr_set_other by exact Hne. apply (I_pc s I x).
Qed.

(* ---------- one lemma per kind of state change ---------- *)
Lemma Inv_same s t p :
  Inv s -> PcOk (sto s) (ext s) (win s) (rl (thr s t)) (ver (thr s t)) t p ->
  Inv (mk s (sto s) (ext s) (hist s) (win s) t p).
Proof.
  intros I Hloc.
  apply Inv_mk; [exact I | exact (I_tmp s I) | exact (I_fin s I) | exact (I_estg s I) | exact (I_efin s I)
                | exact (I_win s I) | exact (I_hist s I) | auto | auto | auto | auto | auto | auto | exact Hloc].
Qed.

Lemma Inv_put_tmp s t p :
  Inv s ->
  PcOk (upd (sto s) (KTmp t) (By t)) (ext s) (win s) (rl (thr s t)) (ver (thr s t)) t p ->
  Inv (mk s (upd (sto s) (KTmp t) (By t)) (ext s) (hist s) (win s) t p).
Proof.
  intros I Hloc.
  apply Inv_mk; [exact I | | | | | exact (I_win s I) | exact (I_hist s I) | | | | auto | auto | auto | exact Hloc].
  - intros x c. norm. split_eqb; [intro H; inversion H; reflexivity | apply (I_tmp s I)].
  - intros v c. norm. apply (I_fin s I).
  - intros v o H. destruct (I_estg s I v o H) as [A B]. split; [|exact B].
    norm. split_eqb; [reflexivity | exact A].
  - intros v. norm. apply (I_efin s I).
  - intros v c. norm. auto.
  - intros v. norm. auto.
  - intros y c H. norm. split_eqb; auto.
Qed.

Lemma Inv_del_tmp s t o p :
  Inv s -> (forall v, ext s v <> Some (EStaging o)) ->
  (o = t \/ exists v', win s v' = Some o) ->
  PcOk (del (sto s) (KTmp o)) (ext s) (win s) (rl (thr s t)) (ver (thr s t)) t p ->
  Inv (mk s (del (sto s) (KTmp o)) (ext s) (hist s) (win s) t p).
Proof.
  intros I Hno Ho Hloc.
  apply Inv_mk; [exact I | | | | | exact (I_win s I) | exact (I_hist s I) | | | | auto | auto | auto | exact Hloc].
  - intros x c. norm. split_eqb; [discriminate | apply (I_tmp s I)].
  - intros v c. norm. apply (I_fin s I).
  - intros v o' H. destruct (I_estg s I v o' H) as [A B]. split; [|exact B].
    norm. split_eqb; [exfalso; exact (Hno v H) | exact A].
  - intros v. norm. apply (I_efin s I).
  - intros v c. norm. auto.
  - intros v. norm. auto.
  - intros y c H. norm. split_eqb; [right; destruct Ho as [-> | Ho]; auto | left; exact H].
Qed.

Lemma Inv_copy s t o c p :
  Inv s -> sto s (KTmp o) = Some c -> win s (ver (thr s t)) = Some o ->
  PcOk (upd (sto s) (KFinal (ver (thr s t))) c) (ext s) (win s) (rl (thr s t)) (ver (thr s t)) t p ->
  Inv (mk s (upd (sto s) (KFinal (ver (thr s t))) c) (ext s) (hist s) (win s) t p).
Proof.
  intros I Hc Hw Hloc. pose proof (I_tmp s I o c Hc) as ->.
  apply Inv_mk; [exact I | | | | | exact (I_win s I) | exact (I_hist s I) | | | | auto | auto | auto | exact Hloc].
  - intros x c. norm. apply (I_tmp s I).
  - intros v c. norm. split_eqb; [intro H; inversion H; subst; rewrite Hw; reflexivity | apply (I_fin s I)].
  - intros v o' H. destruct (I_estg s I v o' H) as [A B]. split; [|exact B]. norm. exact A.
  - intros v H. norm. split_eqb; [discriminate | apply (I_efin s I); exact H].
  - intros v c. norm. split_eqb; [discriminate | auto].
  - intros v H. norm. split_eqb; [discriminate | exact H].
  - intros y c H. norm. auto.
Qed.

Lemma Inv_ext_fin s t p :
  Inv s -> sto s (KFinal (ver (thr s t))) <> None ->
  PcOk (sto s) (eset (ext s) (ver (thr s t)) EFinal) (win s) (rl (thr s t)) (ver (thr s t)) t p ->
  Inv (mk s (sto s) (eset (ext s) (ver (thr s t)) EFinal) ((ver (thr s t), EFinal) :: hist s) (win s) t p).
Proof.
  intros I Hf Hloc.
  apply Inv_mk; [exact I | exact (I_tmp s I) | exact (I_fin s I) | | | | | auto | auto | auto | | auto | auto | exact Hloc].
  - intros v o H. norm. split_eqb; [discriminate | apply (I_estg s I); exact H].
  - intros v H. norm. split_eqb; [exact Hf | apply (I_efin s I); exact H].
  - intros v w H. destruct (I_win s I v w H) as [A B]. split; [exact A|]. norm. split_eqb; [discriminate | exact B].
  - intros v e [H | H].
    + inversion H; subst. apply eset_same.
    + pose proof (I_hist s I v e H) as Q. destruct e; [exact Q|]. norm. split_eqb; [reflexivity | exact Q].
  - intros v H. norm. split_eqb; [reflexivity | exact H].
Qed.

Lemma Inv_ext_stg s t p :
  Inv s -> ext s (ver (thr s t)) = None -> sto s (KTmp t) = Some (By t) ->
  (forall c, sto s (KFinal (ver (thr s t))) <> Some (Pre c)) ->
  PcOk (sto s) (eset (ext s) (ver (thr s t)) (EStaging t)) (eset (win s) (ver (thr s t)) t) (rl (thr s t)) (ver (thr s t)) t p ->
  Inv (mk s (sto s) (eset (ext s) (ver (thr s t)) (EStaging t)) ((ver (thr s t), EStaging t) :: hist s)
          (eset (win s) (ver (thr s t)) t) t p).
Proof.
  intros I He Ht Hpre Hloc.
  assert (Hw : win s (ver (thr s t)) = None).
  { destruct (win s (ver (thr s t))) as [w|] eqn:E; [|reflexivity].
    destruct (I_win s I _ _ E) as [_ B]. contradiction. }
  apply Inv_mk; [exact I | exact (I_tmp s I) | | | | | | auto | auto | auto | | | | exact Hloc].
  - intros v c H. norm. split_eqb.
    + pose proof (I_fin s I _ _ H) as Q. rewrite Hw in Q. destruct Q as [c0 ->]. exfalso. exact (Hpre c0 H).
    + apply (I_fin s I); exact H.
  - intros v o H. norm. split_eqb.
    + inversion H; subst. auto.
    + apply (I_estg s I); exact H.
  - intros v H. norm. split_eqb; [discriminate | apply (I_efin s I); exact H].
  - intros v w H. norm. split_eqb.
    + inversion H; subst. split; [reflexivity | discriminate].
    + apply (I_win s I); exact H.
  - intros v e [H | H].
    + inversion H; subst. apply eset_same.
    + pose proof (I_hist s I v e H) as Q. destruct e as [o|]; norm; split_eqb; try exact Q; congruence.
  - intros v H. norm. split_eqb; [congruence | exact H].
  - intros v w H. norm. split_eqb; [congruence | exact H].
  - intros v w H. norm. split_eqb; [inversion H; auto | auto].
Qed.

(* ---------- reads from the log ---------- *)
Lemma In_skipn {A} (x : A) n l : In x (skipn n l) -> In x l.
Proof.
  revert l; induction n as [|n IH]; intros l H; [exact H|].
  destruct l as [|a l]; [exact H|]. right. apply IH. exact H.
Qed.
Lemma hist_at_incl k h x : In x (hist_at k h) -> In x h.
Proof. apply In_skipn. Qed.
Lemma lookup_in v h e : lookup v h = Some e -> In (v, e) h.
Proof.
  induction h as [|[v' e'] r IH]; cbn [lookup]; [discriminate|].
  destruct (N.eqb_spec v' v) as [-> | Hne]; intro H; [inversion H; left; reflexivity | right; apply IH; exact H].
Qed.
Lemma latest_in h v e : latest h = Some (v, e) -> In (v, e) h.
Proof.
  revert v e; induction h as [|[v' e'] r IH]; intros v e; cbn [latest]; [discriminate|].
  destruct (latest r) as [[v2 e2]|] eqn:E.
  - destruct (N.ltb v' v2); intro H; inversion H; subst; [right; apply IH; reflexivity | left; reflexivity].
  - intro H; inversion H; left; reflexivity.
Qed.
Lemma latest_final_some st l v : latest_final st l = Some v -> st (KFinal v) <> None.
Proof.
  revert v; induction l as [|a l IH]; intros v; cbn [latest_final]; [discriminate|].
  destruct (latest_final st l) as [v'|] eqn:E.
  - destruct (is_none (st (KFinal a))) eqn:Ea.
    + intro H; inversion H; subst. apply IH; reflexivity.
    + destruct (N.ltb a v'); intro H; inversion H; subst; [apply IH; reflexivity | apply is_none_false; exact Ea].
  - destruct (is_none (st (KFinal a))) eqn:Ea; [discriminate|]. intro H; inversion H; subst. apply is_none_false; exact Ea.
Qed.

(* ---------- every step preserves the invariant (outside the known class) ---------- *)
(* solve a PcOk goal whose fields are trivial or follow from the listed facts *)
Ltac pcok_triv :=
  constructor; cbn [fresh_pc pre_commit owner needs_final reader_pc];
  try solve [intros; discriminate]; try solve [intros; congruence].

Lemma PcOk_done st ex wn r v t res : res <> ROk -> PcOk st ex wn r v t (Done res).
Proof. intro H. destruct res; [contradiction | | | ]; pcok_triv. Qed.
Ltac begin :=
  intros HI P G;
  match goal with |- Inv (step ?s ?e) =>
    unfold step; cbv zeta; rewrite P;
    pose proof (I_pc s HI (ev_tid e)) as Q; rewrite P in Q; destruct Q as [Q1 Q2 Q3 Q4 Q5 Q6 Q7 Q8 Q9];
    cbn [fresh_pc pre_commit owner needs_final reader_pc] in *;
    try specialize (Q1 eq_refl); try specialize (Q2 eq_refl); try specialize (Q3 eq_refl);
    try specialize (Q4 _ eq_refl); try specialize (Q5 eq_refl); try specialize (Q6 _ eq_refl);
    destruct e as [t|t|t|t k]; cbn [ev_tid ev_mode] in *
  end.
Ltac inv := match goal with H : Inv _ |- _ => exact H end.
Ltac done_other := apply Inv_same; [inv | apply PcOk_done; discriminate].
Ltac wr_absurd := let Hr := fresh "Hr" in intros Hr; exfalso;
  match goal with Q : _ = Writer -> true = false |- _ => specialize (Q Hr); discriminate end.
Ltac pcok :=
  constructor; cbn [fresh_pc pre_commit owner needs_final reader_pc];
  first [ solve [intros; discriminate]
        | solve [intros; congruence]
        | solve [intros; norm; auto]
        | solve [wr_absurd]
        | solve [intros; norm; eauto]
        | solve [let Hr := fresh "Hr" in let Ho := fresh "Ho" in
                 intros Hr ? Ho; inversion Ho; subst;
                 match goal with Q : _ = Writer -> forall o, Some _ = Some o -> o = _ |- _ => exact (Q Hr _ eq_refl) end ]
        | solve [let Ho := fresh "Ho" in intros ? Ho; inversion Ho; subst; first [apply eset_same | assumption]]
        | idtac ].

Lemma step_W0 s e : Inv s -> tpc (thr s (ev_tid e)) = W0 -> hits_ack_lost s e = false -> Inv (step s e).
Proof.
  begin.
  1,4: apply Inv_put_tmp; [inv|]; pcok; intros _; apply upd_same.
  - done_other.
  - apply Inv_put_tmp; [inv | apply PcOk_done; discriminate].
Qed.

Lemma step_W1 s e : Inv s -> tpc (thr s (ev_tid e)) = W1 -> hits_ack_lost s e = false -> Inv (step s e).
Proof.
  begin.
  1,4: destruct (is_none (ext s (ver (thr s t)))) eqn:E;
       [ apply is_none_true in E; apply Inv_ext_stg; [inv | exact E | exact Q3 | exact Q2 | pcok]
       | apply Inv_same; [inv | pcok] ].
  - apply Inv_same; [inv | pcok].
  - cbn [hits_ack_lost] in G. rewrite P in G. rewrite G. apply Inv_same; [inv | pcok].
Qed.

Lemma step_W1c s e : Inv s -> tpc (thr s (ev_tid e)) = W1c -> hits_ack_lost s e = false -> Inv (step s e).
Proof.
  begin.
  2: done_other.
  all: apply Inv_del_tmp; [inv | | left; reflexivity | apply PcOk_done; discriminate].
  all: intros v Hv; destruct (I_estg s HI v t Hv) as [_ B]; exact (Q1 v B).
Qed.

Lemma step_F0 s e o : Inv s -> tpc (thr s (ev_tid e)) = F0 o -> hits_ack_lost s e = false -> Inv (step s e).
Proof.
  begin.
  2: done_other.
  all: destruct (sto s (KTmp o)) as [c|] eqn:E.
  all: try (apply Inv_same; [inv | first [apply PcOk_done; discriminate | pcok]]).
  all: eapply Inv_copy; [inv | exact E | exact Q4 | ].
  all: try (apply PcOk_done; discriminate).
  all: destruct (big (thr s o)); pcok.
  all: intros _; rewrite upd_same; discriminate.
Qed.

Lemma step_F1 s e o b : Inv s -> tpc (thr s (ev_tid e)) = F1 o b -> hits_ack_lost s e = false -> Inv (step s e).
Proof.
  begin.
  2,3: done_other.
  all: destruct (is_none (sto s (KFinal (ver (thr s t))))) eqn:E; [apply Inv_same; [inv | apply PcOk_done; discriminate]|].
  all: apply is_none_false in E; destruct b; apply Inv_same; try inv; pcok.
  all: try (intros Hr _; rewrite Q4; f_equal; exact (Q8 Hr _ eq_refl)).
Qed.

Lemma step_F2 s e o : Inv s -> tpc (thr s (ev_tid e)) = F2 o -> hits_ack_lost s e = false -> Inv (step s e).
Proof.
  begin.
  2: done_other.
  all: destruct (is_none (ext s (ver (thr s t)))) eqn:E; [done_other|].
  all: apply Inv_ext_fin; [inv | exact Q5 | first [apply PcOk_done; discriminate | pcok]].
  all: intros ? Ho; apply eset_same.
Qed.

Lemma step_F3 s e o : Inv s -> tpc (thr s (ev_tid e)) = F3 o -> hits_ack_lost s e = false -> Inv (step s e).
Proof.
  begin.
  2: done_other.
  all: apply Inv_del_tmp; [inv | | right; eexists; exact Q4 | first [apply PcOk_done; discriminate | pcok]].
  all: match goal with
       | |- forall v, ext _ v <> _ =>
           intros v Hv; destruct (I_estg s HI v o Hv) as [_ B];
           destruct (I_win s HI _ _ B) as [A1 _]; destruct (I_win s HI _ _ Q4) as [A2 _];
           assert (Hvv : v = ver (thr s t)) by congruence; rewrite Hvv in Hv; rewrite Q6 in Hv; discriminate
       | |- _ = Writer -> _ => intros Hr _; rewrite Q4; f_equal; exact (Q8 Hr _ eq_refl)
       end.
Qed.

Lemma read_entry_ok s v e : Inv s -> In (v, e) (hist s) \/ ext s v = Some e ->
  match e with EStaging o => win s v = Some o | EFinal => sto s (KFinal v) <> None end.
Proof.
  intros HI [H | H].
  - pose proof (I_hist s HI v e H) as Q. destruct e; [exact Q | apply (I_efin s HI); exact Q].
  - destruct e; [apply (I_estg s HI); exact H | apply (I_efin s HI); exact H].
Qed.

Lemma step_R0 s e : Inv s -> tpc (thr s (ev_tid e)) = R0 -> hits_ack_lost s e = false -> Inv (step s e).
Proof.
  begin.
  2,3: done_other.
  - destruct (ext s (ver (thr s t))) as [[o|]|] eqn:E; apply Inv_same; try inv; pcok.
    + intros o' Ho; inversion Ho; subst. exact (read_entry_ok s _ _ HI (or_intror E)).
    + intros _. exact (read_entry_ok s _ _ HI (or_intror E)).
  - destruct (lookup (ver (thr s t)) (hist_at k (hist s))) as [[o|]|] eqn:E; apply Inv_same; try inv; pcok.
    + intros o' Ho; inversion Ho; subst. exact (read_entry_ok s _ _ HI (or_introl (hist_at_incl _ _ _ (lookup_in _ _ _ E)))).
    + intros _. exact (read_entry_ok s _ _ HI (or_introl (hist_at_incl _ _ _ (lookup_in _ _ _ E)))).
Qed.

Lemma step_R1 s e o : Inv s -> tpc (thr s (ev_tid e)) = R1 o -> hits_ack_lost s e = false -> Inv (step s e).
Proof.
  begin.
  2,3: done_other.
  all: destruct (is_none (sto s (KTmp o))); apply Inv_same; try inv; first [apply PcOk_done; discriminate | pcok].
Qed.

Lemma step_D0 s e : Inv s -> tpc (thr s (ev_tid e)) = D0 -> hits_ack_lost s e = false -> Inv (step s e).
Proof.
  begin.
  2,3: done_other.
  all: destruct (v1 s); [|destruct (is_none (sto s (KFinal (ver (thr s t)))))]; apply Inv_same; try inv; pcok.
Qed.

Lemma step_D1 s e b : Inv s -> tpc (thr s (ev_tid e)) = D1 b -> hits_ack_lost s e = false -> Inv (step s e).
Proof.
  begin.
  2,3: done_other.
  all: destruct (Bool.eqb b (v1 s) && negb (is_none (sto s (KFinal (ver (thr s t)))))) eqn:E;
       [|apply Inv_same; [inv | apply PcOk_done; discriminate]].
  all: apply andb_true_iff in E; destruct E as [_ E]; apply negb_true_iff in E; apply is_none_false in E.
  all: apply Inv_same; [inv | pcok].
Qed.

Lemma step_DP s e b : Inv s -> tpc (thr s (ev_tid e)) = DP b -> hits_ack_lost s e = false -> Inv (step s e).
Proof.
  begin.
  2: apply Inv_same; [inv | pcok].
  all: destruct (is_none (ext s (ver (thr s t)))); [apply Inv_ext_fin; [inv | exact Q5 | pcok] | apply Inv_same; [inv | pcok]].
Qed.

Lemma step_L0 s e : Inv s -> tpc (thr s (ev_tid e)) = L0 -> hits_ack_lost s e = false -> Inv (step s e).
Proof.
  begin.
  2,3: done_other.
  - destruct (latest (hist s)) as [[v' [o|]]|] eqn:E; [apply Inv_mkv; [inv | exact Q1 | pcok] .. | apply Inv_same; [inv | pcok]].
    + intros o' Ho; inversion Ho; subst. exact (read_entry_ok s _ _ HI (or_introl (latest_in _ _ _ E))).
    + intros _. exact (read_entry_ok s _ _ HI (or_introl (latest_in _ _ _ E))).
  - destruct (latest (hist_at k (hist s))) as [[v' [o|]]|] eqn:E; [apply Inv_mkv; [inv | exact Q1 | pcok] .. | apply Inv_same; [inv | pcok]].
    + intros o' Ho; inversion Ho; subst. exact (read_entry_ok s _ _ HI (or_introl (hist_at_incl _ _ _ (latest_in _ _ _ E)))).
    + intros _. exact (read_entry_ok s _ _ HI (or_introl (hist_at_incl _ _ _ (latest_in _ _ _ E)))).
Qed.

Lemma step_LL s e : Inv s -> tpc (thr s (ev_tid e)) = LL -> hits_ack_lost s e = false -> Inv (step s e).
Proof.
  begin.
  2,3: done_other.
  all: destruct (latest_final (sto s) scan_versions) as [v'|] eqn:E;
       [apply Inv_mkv; [inv | exact Q1 | pcok] | apply Inv_same; [inv | apply PcOk_done; discriminate]].
  all: intros _; exact (latest_final_some _ _ _ E).
Qed.

Lemma step_inv s e : Inv s -> hits_ack_lost s e = false -> Inv (step s e).
Proof.
  intros HI G. destruct (tpc (thr s (ev_tid e))) eqn:P.
  - apply step_W0; assumption.
  - apply step_W1; assumption.
  - apply step_W1c; assumption.
  - eapply step_F0; eassumption.
  - eapply step_F1; eassumption.
  - eapply step_F2; eassumption.
  - eapply step_F3; eassumption.
  - apply step_R0; assumption.
  - eapply step_R1; eassumption.
  - apply step_D0; assumption.
  - eapply step_D1; eassumption.
  - eapply step_DP; eassumption.
  - apply step_L0; assumption.
  - apply step_LL; assumption.
  - unfold step. rewrite P. exact HI.
Qed.

(* ---------- lifting to runs ---------- *)
Lemma run_app a b s : run (a ++ b) s = run b (run a s).
Proof. unfold run; apply fold_left_app. Qed.

Lemma known_app a : forall b s,
  Known_C10_ack_lost_put_if_not_exists (a ++ b) s = false ->
  Known_C10_ack_lost_put_if_not_exists a s = false /\ Known_C10_ack_lost_put_if_not_exists b (run a s) = false.
Proof.
  induction a as [|e a IH]; intros b s H; [split; [reflexivity | exact H]|].
  cbn [app Known_C10_ack_lost_put_if_not_exists] in *. apply orb_false_iff in H. destruct H as [H1 H2].
  destruct (IH b (step s e) H2) as [A B]. split; [rewrite H1, A; reflexivity | exact B].
Qed.

Lemma run_inv evs : forall s, Inv s -> Known_C10_ack_lost_put_if_not_exists evs s = false -> Inv (run evs s).
Proof.
  induction evs as [|e evs IH]; intros s HI H; [exact HI|].
  cbn [Known_C10_ack_lost_put_if_not_exists] in H. apply orb_false_iff in H. destruct H as [H1 H2].
  cbn [run fold_left]. apply IH; [apply step_inv; assumption | exact H2].
Qed.

(* final paths and winners never change *)
Lemma step_mono s e : Inv s -> hits_ack_lost s e = false ->
  (forall v c, sto s (KFinal v) = Some c -> sto (step s e) (KFinal v) = Some c) /\
  (forall v w, win s v = Some w -> win (step s e) v = Some w).
Proof.
  intros HI G. pose proof (I_pc s HI (ev_tid e)) as Q.
  unfold step; cbv zeta.
  destruct (tpc (thr s (ev_tid e))) eqn:P; destruct e as [t|t|t|t k]; cbn [ev_tid ev_mode] in *;
  repeat match goal with
   | |- context [if ?b then _ else _] => destruct b eqn:?
   | |- context [match ?x with _ => _ end] => lazymatch type of x with state => fail | _ => destruct x eqn:? end
  end; cbn [sto win mk mkv]; (split; [intros v0 c0 H0 | intros v0 w0 H0]); try exact H0; norm; split_eqb; try exact H0.
  (* W1 took effect: the slot had no winner *)
  all: try (exfalso; match goal with E : is_none (ext _ _) = true |- _ => apply is_none_true in E;
            destruct (I_win s HI _ _ H0) as [_ B]; exact (B E) end).
  (* F0 copied: the final path, if it held something, held the same content *)
  all: match goal with E : sto _ (KTmp ?o) = Some ?c |- _ =>
         pose proof (I_tmp s HI _ _ E); subst c;
         pose proof (P_own _ _ _ _ _ _ _ Q o eq_refl) as Hw; pose proof (I_fin s HI _ _ H0) as Hf; rewrite Hw in Hf; subst; reflexivity end.
Qed.

Lemma run_mono evs : forall s, Inv s -> Known_C10_ack_lost_put_if_not_exists evs s = false ->
  (forall v c, sto s (KFinal v) = Some c -> sto (run evs s) (KFinal v) = Some c) /\
  (forall v w, win s v = Some w -> win (run evs s) v = Some w).
Proof.
  induction evs as [|e evs IH]; intros s HI H; [split; auto|].
  cbn [Known_C10_ack_lost_put_if_not_exists] in H. apply orb_false_iff in H. destruct H as [H1 H2].
  cbn [run fold_left]. destruct (step_mono s e HI H1) as [A B].
  destruct (IH (step s e) (step_inv s e HI H1) H2) as [A' B']. split; intros; [apply A', A | apply B', B]; assumption.
Qed.

(* roles never change; the version of a thread changes only when a resolve_latest reader learns it *)
Lemma step_rl s e x : rl (thr (step s e) x) = rl (thr s x).
Proof.
  unfold step; cbv zeta.
  destruct (tpc (thr s (ev_tid e))); destruct (ev_mode e);
  repeat match goal with
   | |- context [if ?b then _ else _] => destruct b
   | |- context [match ?x with _ => _ end] => lazymatch type of x with state => fail | _ => destruct x end
  end; cbn [thr mk mkv]; unfold set_thr; try reflexivity; destruct (N.eqb x (ev_tid e)); reflexivity.
Qed.
Lemma run_rl evs : forall s x, rl (thr (run evs s) x) = rl (thr s x).
Proof. induction evs as [|e evs IH]; intros s x; [reflexivity|]. cbn [run fold_left]. fold (run evs (step s e)). rewrite IH. apply step_rl. Qed.

Lemma step_ver s e x : Inv s -> rl (thr s x) = Writer -> ver (thr (step s e) x) = ver (thr s x).
Proof.
  intros HI Hr. pose proof (I_pc s HI x) as Q.
  unfold step; cbv zeta.
  destruct (tpc (thr s (ev_tid e))) eqn:P; destruct (ev_mode e);
  repeat match goal with
   | |- context [if ?b then _ else _] => destruct b
   | |- context [match ?x with _ => _ end] => lazymatch type of x with state => fail | _ => destruct x end
  end; cbn [thr mk mkv]; unfold set_thr; try reflexivity; destruct (N.eqb_spec x (ev_tid e)); try reflexivity;
  subst x; cbn [ver]; try reflexivity.
  all: exfalso; rewrite P in Q; pose proof (P_wr _ _ _ _ _ _ _ Q Hr) as W; discriminate W.
Qed.
Lemma run_ver evs : forall s x, Inv s -> Known_C10_ack_lost_put_if_not_exists evs s = false ->
  rl (thr s x) = Writer -> ver (thr (run evs s) x) = ver (thr s x).
Proof.
  induction evs as [|e evs IH]; intros s x HI H Hr; [reflexivity|].
  cbn [Known_C10_ack_lost_put_if_not_exists] in H. apply orb_false_iff in H. destruct H as [H1 H2].
  cbn [run fold_left]. fold (run evs (step s e)).
  rewrite IH; [apply step_ver; assumption | apply step_inv; assumption | exact H2 | rewrite step_rl; exact Hr].
Qed.

(* ---------- initial states ---------- *)
Record wf_init (st0 : store) (ex0 : list N) (roles : N -> role) (vers : N -> N) : Prop := {
  W_tmp : forall t, st0 (KTmp t) = None;                                   (* no staging files *)
  W_pre : forall v c, st0 (KFinal v) = Some c -> exists c0, c = Pre c0;    (* what is there was published before *)
  W_ext : forall v, In v ex0 -> st0 (KFinal v) <> None;                    (* on-boarded versions exist *)
  W_new : forall t, roles t = Writer -> st0 (KFinal (vers t)) = None       (* writers commit new versions *)
}.

Lemma init_inv st0 ex0 sch roles vers bigs : wf_init st0 ex0 roles vers -> Inv (init st0 ex0 sch roles vers bigs).
Proof.
  intros [Wt Wp We Wn]. constructor; cbn [sto ext hist win thr init].
  - intros x c H. rewrite Wt in H. discriminate.
  - intros v c H. exact (Wp v c H).
  - intros v o H. destruct (existsb (N.eqb v) ex0); discriminate.
  - intros v H. destruct (existsb (N.eqb v) ex0) eqn:E; [|discriminate].
    apply existsb_exists in E. destruct E as [v' [A B]]. apply N.eqb_eq in B. subst v'. exact (We v A).
  - intros v w H. discriminate.
  - intros v e H. apply in_map_iff in H. destruct H as [v' [A B]]. inversion A; subst.
    assert (E : existsb (N.eqb v) ex0 = true) by (apply existsb_exists; exists v; split; [exact B | apply N.eqb_refl]).
    rewrite E. reflexivity.
  - intro x. cbn [rl ver tpc]. destruct (roles x) eqn:R; cbn [first_pc]; constructor;
      cbn [fresh_pc pre_commit owner needs_final reader_pc]; try solve [intros; discriminate]; try solve [intros; congruence].
    intros _ c H. rewrite (Wn x R) in H. discriminate.
Qed.

(* schedules without lost replies are outside the known class *)
Definition no_lost (evs : list event) : Prop := forall e, In e evs -> match e with Lost _ => False | _ => True end.
Lemma no_lost_outside_class evs : forall s, no_lost evs -> Known_C10_ack_lost_put_if_not_exists evs s = false.
Proof.
  induction evs as [|e evs IH]; intros s H; [reflexivity|].
  cbn [Known_C10_ack_lost_put_if_not_exists]. rewrite IH by (intros e' He'; apply H; right; exact He').
  pose proof (H e (or_introl eq_refl)) as He. destruct e; try reflexivity. contradiction.
Qed.

(* ---------- the statements of the property on a state that satisfies the invariant ---------- *)
Lemma inv_final_content s v c w : Inv s -> sto s (KFinal v) = Some c -> win s v = Some w -> c = By w.
Proof. intros HI Hc Hw. pose proof (I_fin s HI v c Hc) as Q. rewrite Hw in Q. exact Q. Qed.

Lemma inv_durable s v t : Inv s -> win s v = Some t ->
  sto s (KFinal v) = Some (By t) \/ (sto s (KTmp t) = Some (By t) /\ ext s v = Some (EStaging t)).
Proof.
  intros HI Hw. destruct (I_win s HI v t Hw) as [_ He].
  destruct (ext s v) as [[o|]|] eqn:E; [| |contradiction].
  - destruct (I_estg s HI v o E) as [A B]. rewrite Hw in B. inversion B; subst. right. split; [exact A | reflexivity].
  - pose proof (I_efin s HI v E) as F. destruct (sto s (KFinal v)) as [c|] eqn:Ec; [|contradiction].
    left. f_equal. exact (inv_final_content s v c t HI Ec Hw).
Qed.

Lemma inv_resolved s x : Inv s -> tpc (thr s x) = Done ROk ->
  exists c, sto s (KFinal (ver (thr s x))) = Some c /\ (forall w, win s (ver (thr s x)) = Some w -> c = By w).
Proof.
  intros HI Hp. pose proof (I_pc s HI x) as Q. rewrite Hp in Q.
  pose proof (P_fin _ _ _ _ _ _ _ Q eq_refl) as F.
  destruct (sto s (KFinal (ver (thr s x)))) as [c|] eqn:E; [|contradiction].
  exists c. split; [reflexivity|]. intros w Hw. exact (inv_final_content s _ c w HI E Hw).
Qed.

Lemma inv_acked s x : Inv s -> rl (thr s x) = Writer -> tpc (thr s x) = Done ROk ->
  win s (ver (thr s x)) = Some x /\ sto s (KFinal (ver (thr s x))) = Some (By x).
Proof.
  intros HI Hr Hp. pose proof (I_pc s HI x) as Q. rewrite Hp in Q.
  pose proof (P_ack _ _ _ _ _ _ _ Q Hr eq_refl) as A. split; [exact A|].
  destruct (inv_resolved s x HI Hp) as [c [B C]]. rewrite B. f_equal. exact (C x A).
Qed.

(* ---------- repair: a fresh reader, run alone, finalises a committed version ---------- *)
Lemma mk_thr_same s st ex hs wn t p :
  thr (mk s st ex hs wn t p) t = {| rl := rl (thr s t); ver := ver (thr s t); big := big (thr s t); tpc := p |}.
Proof. cbn [thr mk]. apply thr_set_same. Qed.
Lemma big_mk s st ex hs wn t p x : big (thr (mk s st ex hs wn t p) x) = big (thr s x).
Proof. cbn [thr mk]. unfold set_thr. destruct (N.eqb x t); reflexivity. Qed.

Lemma run_done n s r res : tpc (thr s r) = Done res -> run (repeat (Run r) n) s = s.
Proof.
  intro P. induction n as [|n IH]; [reflexivity|]. cbn [repeat run fold_left].
  assert (E : step s (Run r) = s) by (unfold step; cbv zeta; cbn [ev_tid ev_mode]; rewrite P; reflexivity).
  rewrite E. exact IH.
Qed.

Lemma run_S n s r : run (repeat (Run r) (S n)) s = run (repeat (Run r) n) (step s (Run r)).
Proof. reflexivity. Qed.

Lemma finish_from_F2 s r t v n :
  tpc (thr s r) = F2 t -> ver (thr s r) = v -> ext s v <> None -> sto s (KFinal v) = Some (By t) ->
  let s' := run (repeat (Run r) (2 + n)) s in
  tpc (thr s' r) = Done ROk /\ sto s' (KFinal v) = Some (By t) /\ ext s' v = Some EFinal.
Proof.
  intros P V E F.
  assert (E1 : step s (Run r) = mk s (sto s) (eset (ext s) v EFinal) ((v, EFinal) :: hist s) (win s) r (F3 t)).
  { unfold step; cbv zeta; cbn [ev_tid ev_mode]; rewrite P, V.
    destruct (ext s v); [reflexivity | contradiction]. }
  set (s1 := mk s (sto s) (eset (ext s) v EFinal) ((v, EFinal) :: hist s) (win s) r (F3 t)) in *.
  assert (T1 : tpc (thr s1 r) = F3 t) by (unfold s1; rewrite mk_thr_same; reflexivity).
  assert (E2 : step s1 (Run r) = mk s1 (del (sto s) (KTmp t)) (eset (ext s) v EFinal) ((v, EFinal) :: hist s) (win s) r (Done ROk)).
  { unfold step; cbv zeta; cbn [ev_tid ev_mode]; rewrite T1. reflexivity. }
  set (s2 := mk s1 (del (sto s) (KTmp t)) (eset (ext s) v EFinal) ((v, EFinal) :: hist s) (win s) r (Done ROk)) in *.
  assert (T2 : tpc (thr s2 r) = Done ROk) by (unfold s2; rewrite mk_thr_same; reflexivity).
  cbn zeta. change (2 + n)%nat with (S (S n)). rewrite run_S, E1, run_S, E2, (run_done n s2 r ROk T2).
  split; [exact T2|]. split.
  - unfold s2. cbn [sto mk]. rewrite del_other by discriminate. exact F.
  - unfold s2. cbn [ext mk]. apply eset_same.
Qed.

Lemma repair_from_staging s r t :
  Inv s -> tpc (thr s r) = R0 -> ext s (ver (thr s r)) = Some (EStaging t) ->
  let s' := run (repeat (Run r) 6) s in
  tpc (thr s' r) = Done ROk /\ sto s' (KFinal (ver (thr s r))) = Some (By t) /\ ext s' (ver (thr s r)) = Some EFinal.
Proof.
  intros HI P E. destruct (I_estg s HI _ _ E) as [Hst Hw]. set (v := ver (thr s r)) in *.
  (* R0: the entry points at the staging file *)
  assert (E1 : step s (Run r) = mk s (sto s) (ext s) (hist s) (win s) r (R1 t)).
  { unfold step; cbv zeta; cbn [ev_tid ev_mode]; rewrite P. fold v. rewrite E. reflexivity. }
  set (s1 := mk s (sto s) (ext s) (hist s) (win s) r (R1 t)) in *.
  assert (T1 : thr s1 r = {| rl := rl (thr s r); ver := v; big := big (thr s r); tpc := R1 t |}) by apply mk_thr_same.
  (* R1: head(staging) succeeds *)
  assert (E2 : step s1 (Run r) = mk s1 (sto s) (ext s) (hist s) (win s) r (F0 t)).
  { unfold step; cbv zeta; cbn [ev_tid ev_mode]; rewrite T1; cbn [tpc ver].
    change (sto s1) with (sto s). rewrite Hst. reflexivity. }
  set (s2 := mk s1 (sto s) (ext s) (hist s) (win s) r (F0 t)) in *.
  assert (T2 : thr s2 r = {| rl := rl (thr s r); ver := v; big := big (thr s r); tpc := F0 t |}).
  { unfold s2. rewrite mk_thr_same, T1. reflexivity. }
  assert (B2 : big (thr s2 t) = big (thr s t)) by (unfold s2, s1; rewrite !big_mk; reflexivity).
  set (st3 := upd (sto s) (KFinal v) (By t)).
  assert (F3v : st3 (KFinal v) = Some (By t)) by apply upd_same.
  (* F0: copy *)
  assert (E3 : step s2 (Run r) = mk s2 st3 (ext s) (hist s) (win s) r (if big (thr s t) then F1 t true else F2 t)).
  { unfold step; cbv zeta; cbn [ev_tid ev_mode]; rewrite T2; cbn [tpc ver].
    change (sto s2) with (sto s). rewrite Hst, B2. reflexivity. }
  assert (Hext : ext s v <> None) by (rewrite E; discriminate).
  cbn zeta. change 6%nat with (S (S (S 3))). rewrite run_S, E1, run_S, E2, run_S, E3.
  destruct (big (thr s t)).
  - (* F1 (a big manifest): head(final) *)
    set (s3 := mk s2 st3 (ext s) (hist s) (win s) r (F1 t true)) in *.
    assert (T3 : thr s3 r = {| rl := rl (thr s r); ver := v; big := big (thr s r); tpc := F1 t true |}).
    { unfold s3. rewrite mk_thr_same, T2. reflexivity. }
    assert (E4 : step s3 (Run r) = mk s3 st3 (ext s) (hist s) (win s) r (F2 t)).
    { unfold step; cbv zeta; cbn [ev_tid ev_mode]; rewrite T3; cbn [tpc ver].
      change (sto s3) with st3. rewrite F3v. reflexivity. }
    change 3%nat with (S (2 + 0)). rewrite run_S, E4.
    apply (finish_from_F2 (mk s3 st3 (ext s) (hist s) (win s) r (F2 t)) r t v 0).
    + rewrite mk_thr_same. reflexivity.
    + rewrite mk_thr_same, T3. reflexivity.
    + exact Hext.
    + exact F3v.
  - change 3%nat with (2 + 1)%nat.
    apply (finish_from_F2 (mk s2 st3 (ext s) (hist s) (win s) r (F2 t)) r t v 1).
    + rewrite mk_thr_same. reflexivity.
    + rewrite mk_thr_same, T2. reflexivity.
    + exact Hext.
    + exact F3v.
Qed.

Lemma repair_from_final s r :
  tpc (thr s r) = R0 -> ext s (ver (thr s r)) = Some EFinal ->
  let s' := run (repeat (Run r) 6) s in
  tpc (thr s' r) = Done ROk /\ sto s' = sto s /\ ext s' = ext s.
Proof.
  intros P E.
  assert (E1 : step s (Run r) = mk s (sto s) (ext s) (hist s) (win s) r (Done ROk)).
  { unfold step; cbv zeta; cbn [ev_tid ev_mode]; rewrite P, E. reflexivity. }
  set (s1 := mk s (sto s) (ext s) (hist s) (win s) r (Done ROk)) in *.
  assert (T1 : tpc (thr s1 r) = Done ROk) by (unfold s1; rewrite mk_thr_same; reflexivity).
  cbn zeta. change 6%nat with (S 5). rewrite run_S, E1, (run_done 5 s1 r ROk T1). repeat split; [exact T1].
Qed.

Lemma inv_repair s r v t :
  Inv s -> win s v = Some t -> tpc (thr s r) = R0 -> ver (thr s r) = v ->
  let s' := run (repeat (Run r) 6) s in
  tpc (thr s' r) = Done ROk /\ sto s' (KFinal v) = Some (By t) /\ ext s' v = Some EFinal.
Proof.
  intros HI Hw P V. subst v. destruct (I_win s HI _ _ Hw) as [_ He].
  destruct (ext s (ver (thr s r))) as [[o|]|] eqn:E; [| |contradiction].
  - destruct (I_estg s HI _ _ E) as [_ B]. rewrite Hw in B. inversion B; subst o.
    apply repair_from_staging; assumption.
  - destruct (repair_from_final s r P E) as [A [B C]]. cbn zeta. split; [exact A|]. rewrite B, C. split; [|exact E].
    destruct (inv_durable s _ t HI Hw) as [F | [_ F]]; [exact F | rewrite E in F; discriminate].
Qed.
