(* C01 - proofs about the commit protocol model (Store/Model_Commit.v). *)
From LanceV Require Import Common.Base Store.Model_Handlers Store.Proofs_Handlers Store.Model_Commit.
Local Open Scope N_scope.

(* ---------- paths and the finite map ---------- *)
Lemma path_eqb_eq a b : path_eqb a b = true <-> a = b.
Proof.
  destruct a, b; cbn [path_eqb]; split; intro H; try discriminate;
    try (apply N.eqb_eq in H; subst; reflexivity); inversion H; subst; apply N.eqb_refl.
Qed.
Lemma path_eqb_refl a : path_eqb a a = true.
Proof. apply path_eqb_eq; reflexivity. Qed.
Lemma path_eqb_neq a b : a <> b -> path_eqb a b = false.
Proof. intro H; destruct (path_eqb a b) eqn:E; [apply path_eqb_eq in E; contradiction | reflexivity]. Qed.

Lemma get_put_same s p c : get (put s p c) p = Some c.
Proof. unfold put; cbn [get]; rewrite path_eqb_refl; reflexivity. Qed.
Lemma get_put_other s p c q : p <> q -> get (put s p c) q = get s q.
Proof. intro H; unfold put; cbn [get]; rewrite path_eqb_neq by exact H; reflexivity. Qed.
Lemma get_del_same s p : get (del s p) p = None.
Proof.
  induction s as [|[q c] r IH]; [reflexivity|]. unfold del in *; cbn [filter fst].
  destruct (path_eqb q p) eqn:E; cbn [negb]; [exact IH|]. cbn [get]; rewrite E; exact IH.
Qed.
Lemma get_del_other s p q : p <> q -> get (del s p) q = get s q.
Proof.
  intro H. induction s as [|[k c] r IH]; [reflexivity|]. unfold del in *; cbn [filter fst].
  destruct (path_eqb k p) eqn:E; cbn [negb].
  - apply path_eqb_eq in E; subst k. cbn [get]. rewrite path_eqb_neq by exact H. exact IH.
  - cbn [get]. destruct (path_eqb k q); [reflexivity | exact IH].
Qed.

Lemma has_true s p : has s p = true <-> exists c, get s p = Some c.
Proof. unfold has; destruct (get s p); split; intro H; eauto; try discriminate. destruct H; discriminate. Qed.
Lemma has_false s p : has s p = false <-> get s p = None.
Proof. unfold has; destruct (get s p); split; intro H; auto; discriminate. Qed.

(* ---------- latest ---------- *)
Lemma latest_none s : latest s = None <-> forall v, get s (PMan v) = None.
Proof.
  induction s as [|[q c] r IH]; cbn [latest fold_right fst]; [split; auto|].
  fold (latest r). destruct q as [f|w|w|t]; cbn [parse_version get path_eqb].
  - rewrite IH; reflexivity.
  - split.
    + destruct (latest r); discriminate.
    + intro H. specialize (H w). rewrite N.eqb_refl in H. discriminate.
  - rewrite IH; reflexivity.
  - rewrite IH; reflexivity.
Qed.

Lemma latest_some s n : latest s = Some n ->
  (exists c, get s (PMan n) = Some c) /\ forall v c, get s (PMan v) = Some c -> v <= n.
Proof.
  revert n. induction s as [|[q c] r IH]; intros n; cbn [latest fold_right fst]; [discriminate|].
  fold (latest r). destruct q as [f|w|w|t]; cbn [parse_version get path_eqb].
  1,3,4: exact (IH n).
  destruct (latest r) as [a|] eqn:E; intro H; inversion H; subst; clear H.
  - destruct (IH a eq_refl) as [[c0 Hc0] Hmax]. split.
    + destruct (N.eqb_spec w (N.max a w)) as [_|Hne]; [eauto|].
      assert (N.max a w = a) as -> by lia. eauto.
    + intros v' c'. destruct (N.eqb_spec w v') as [->|_]; intro Hg; [lia|]. apply Hmax in Hg. lia.
  - split; [rewrite N.eqb_refl; eauto|].
    intros v' c'. destruct (N.eqb_spec n v') as [->|_]; intro Hg; [lia|].
    pose proof (proj1 (latest_none r) E v') as Hn. congruence.
Qed.

(* latest depends only on which attached manifests exist *)
Lemma latest_ext s s' : (forall v, has s' (PMan v) = has s (PMan v)) -> latest s' = latest s.
Proof.
  intro H.
  destruct (latest s) as [n|] eqn:E, (latest s') as [n'|] eqn:E'; try reflexivity.
  - destruct (latest_some _ _ E) as [[c Hc] Hmax]. destruct (latest_some _ _ E') as [[c' Hc'] Hmax'].
    assert (has s (PMan n') = true) as A by (rewrite <- H; apply has_true; eauto).
    assert (has s' (PMan n) = true) as B by (rewrite H; apply has_true; eauto).
    apply has_true in A as [x Hx]. apply has_true in B as [y Hy].
    apply Hmax in Hx. apply Hmax' in Hy. f_equal; lia.
  - destruct (latest_some _ _ E) as [[c Hc] _].
    pose proof (proj1 (latest_none s') E' n) as Hn.
    assert (has s' (PMan n) = true) as B by (rewrite H; apply has_true; eauto).
    apply has_true in B as [y Hy]. congruence.
  - destruct (latest_some _ _ E') as [[c Hc] _].
    pose proof (proj1 (latest_none s) E n') as Hn.
    assert (has s (PMan n') = true) as B by (rewrite <- H; apply has_true; eauto).
    apply has_true in B as [y Hy]. congruence.
Qed.

(* ---------- fresh file ids ---------- *)
Lemma max_file_ge s n c : get s (PFile n) = Some c -> n <= max_file s.
Proof.
  induction s as [|[q x] r IH]; cbn [get max_file fold_right fst]; [discriminate|].
  fold (max_file r). destruct q as [f|v|v|t]; cbn [path_eqb]; try (intro H; apply IH in H; lia).
  destruct (N.eqb_spec f n) as [->|_]; intro H; [lia | apply IH in H; lia].
Qed.

Lemma seqN_in start len x : In x (seqN start len) <-> start <= x < start + N.of_nat len.
Proof.
  revert start. induction len as [|k IH]; intro start; cbn [seqN In]; [lia|].
  rewrite IH. lia.
Qed.
Lemma seqN_length start len : length (seqN start len) = len.
Proof. revert start; induction len as [|k IH]; intro start; cbn [seqN length]; [reflexivity | rewrite IH; reflexivity]. Qed.

Lemma mask_in {A} (bs : list bool) (l : list A) x : In x (mask bs l) -> In x l.
Proof.
  revert l. induction bs as [|b bs IH]; intros [|y l]; cbn [mask]; try contradiction.
  destruct b; cbn [In]; intro H; [destruct H as [H|H]; [left; exact H | right; apply IH; exact H] | right; apply IH; exact H].
Qed.

(* ---------- well-formed stores ---------- *)
Record WF (s : store) : Prop := {
  (* the attached versions are exactly 1..N, N = latest *)
  wf_dense : forall v, has s (PMan v) = true <-> 1 <= v <= latest0 s;
  (* attached version numbers are outside the detached range, detached ones inside *)
  wf_att : forall v, has s (PMan v) = true -> is_detached v = false;
  wf_det : forall v, has s (PDet v) = true -> is_detached v = true;
  (* every published manifest carries the version of its name and every file it references exists *)
  wf_man : forall p c, is_manifest_path p = true -> get s p = Some c ->
           exists m, c = CMan m /\ m_version m = path_version p /\
                     forall r, In r (m_refs m) -> exists d, get s (PFile r) = Some (CFile d);
  wf_file : forall n c, get s (PFile n) = Some c -> exists d, c = CFile d
}.

(* ---------- stores that differ from s only by fresh files and staging files ---------- *)
Record Frame (s s' : store) : Prop := {
  fr_man : forall p, is_manifest_path p = true -> get s' p = get s p;
  fr_old : forall n, n <= max_file s -> get s' (PFile n) = get s (PFile n);
  fr_file : forall n c, get s' (PFile n) = Some c -> exists d, c = CFile d
}.

Lemma Frame_refl s : WF s -> Frame s s.
Proof. intro W; constructor; auto. exact (wf_file _ W). Qed.

Lemma frame_has_man s s' : Frame s s' -> forall v, has s' (PMan v) = has s (PMan v).
Proof. intros F v; unfold has; rewrite (fr_man _ _ F (PMan v) eq_refl); reflexivity. Qed.

Lemma frame_latest s s' : Frame s s' -> latest s' = latest s.
Proof. intro F; apply latest_ext; apply frame_has_man; exact F. Qed.

(* a file referenced by a published manifest of s keeps its content *)
Lemma frame_ref s s' r d : Frame s s' -> get s (PFile r) = Some (CFile d) -> get s' (PFile r) = Some (CFile d).
Proof. intros F H. rewrite (fr_old _ _ F r); [exact H | eapply max_file_ge; exact H]. Qed.

Lemma frame_visible s s' : WF s -> Frame s s' -> forall v, visible s' v = visible s v.
Proof.
  intros W F v. unfold visible. rewrite (fr_man _ _ F (PMan v) eq_refl).
  destruct (get s (PMan v)) as [[d|m]|] eqn:E; try reflexivity.
  destruct (wf_man _ W (PMan v) _ eq_refl E) as (m' & Hm & _ & Hrefs). inversion Hm; subst m'.
  f_equal. f_equal. apply map_ext_in. intros r Hr. destruct (Hrefs r Hr) as [d Hd].
  rewrite Hd. eapply frame_ref; eauto.
Qed.

Lemma frame_WF s s' : WF s -> Frame s s' -> WF s'.
Proof.
  intros W F. pose proof (frame_latest _ _ F) as HL.
  assert (HL0 : latest0 s' = latest0 s) by (unfold latest0; rewrite HL; reflexivity).
  constructor.
  - intro v. rewrite (frame_has_man _ _ F), HL0. apply (wf_dense _ W).
  - intro v. rewrite (frame_has_man _ _ F). apply (wf_att _ W).
  - intro v. unfold has. rewrite (fr_man _ _ F (PDet v) eq_refl). apply (wf_det _ W).
  - intros p c Hp Hg. rewrite (fr_man _ _ F p Hp) in Hg.
    destruct (wf_man _ W p c Hp Hg) as (m & Hm & Hv & Hrefs). exists m. repeat split; auto.
    intros r Hr. destruct (Hrefs r Hr) as [d Hd]. exists d. eapply frame_ref; eauto.
  - exact (fr_file _ _ F).
Qed.

(* calls that keep a store inside the frame of s: fresh file puts, staging files, probes, lock calls *)
Definition pre_commit_call (s : store) (c : call) : Prop :=
  match c with
  | Put (PFile n) (CFile _) => max_file s < n
  | Put (PTmp _) _ => True
  | Del (PTmp _) => True
  | HeadAbsent _ => True
  | Nop => True
  | _ => False
  end.

Lemma frame_step s s1 c s2 : Frame s s1 -> pre_commit_call s c -> step s1 c = Some s2 -> Frame s s2.
Proof.
  intros F P H. destruct c as [p x|p x|a b|p|a b|p|]; cbn [pre_commit_call step] in *; try contradiction.
  - (* Put *)
    inversion H; subst s2; clear H. destruct p as [n|v|v|t]; try contradiction.
    + destruct x as [d|m]; [|contradiction]. constructor.
      * intros p Hp. rewrite get_put_other; [apply (fr_man _ _ F); exact Hp | destruct p; discriminate].
      * intros k Hk. rewrite get_put_other; [apply (fr_old _ _ F); exact Hk | intro E; inversion E; lia].
      * intros k c. destruct (N.eq_dec n k) as [->|Hne].
        -- rewrite get_put_same. intro E; inversion E; eauto.
        -- rewrite get_put_other by (intro E; inversion E; contradiction). apply (fr_file _ _ F).
    + constructor.
      * intros p Hp. rewrite get_put_other; [apply (fr_man _ _ F); exact Hp | destruct p; discriminate].
      * intros k Hk. rewrite get_put_other by discriminate. apply (fr_old _ _ F); exact Hk.
      * intros k c. rewrite get_put_other by discriminate. apply (fr_file _ _ F).
  - (* Del tmp *)
    inversion H; subst s2; clear H. destruct p as [n|v|v|t]; try contradiction. constructor.
    + intros p Hp. rewrite get_del_other; [apply (fr_man _ _ F); exact Hp | destruct p; discriminate].
    + intros k Hk. rewrite get_del_other by discriminate. apply (fr_old _ _ F); exact Hk.
    + intros k c. rewrite get_del_other by discriminate. apply (fr_file _ _ F).
  - destruct (has s1 p); inversion H; subst; exact F.
  - inversion H; subst; exact F.
Qed.

Lemma frame_exec s l : forall s1, Frame s s1 -> Forall (pre_commit_call s) l -> Frame s (exec l s1).
Proof.
  induction l as [|c r IH]; intros s1 F HP; [exact F|]. cbn [exec].
  inversion HP as [|? ? Hc Hr]; subst.
  destruct (step s1 c) as [s2|] eqn:E; [|exact F]. apply IH; [eapply frame_step; eauto | exact Hr].
Qed.

(* ---------- publication of one manifest ---------- *)
Record Pub (s s' : store) (fin : path) (m : manifest) : Prop := {
  pb_fin : get s' fin = Some (CMan m);
  pb_man : forall p, is_manifest_path p = true -> p <> fin -> get s' p = get s p;
  pb_old : forall n, n <= max_file s -> get s' (PFile n) = get s (PFile n);
  pb_file : forall n c, get s' (PFile n) = Some c -> exists d, c = CFile d;
  pb_refs : forall r, In r (m_refs m) -> exists d, get s' (PFile r) = Some (CFile d)
}.

Lemma latest_char s n :
  (exists c, get s (PMan n) = Some c) -> (forall v c, get s (PMan v) = Some c -> v <= n) -> latest s = Some n.
Proof.
  intros [c Hc] Hmax. destruct (latest s) as [a|] eqn:E.
  - destruct (latest_some _ _ E) as [[c' Hc'] Hmax']. apply Hmax in Hc'. apply Hmax' in Hc. f_equal; lia.
  - pose proof (proj1 (latest_none s) E n). congruence.
Qed.

Lemma pub_ref s s' fin m r d : Pub s s' fin m -> get s (PFile r) = Some (CFile d) -> get s' (PFile r) = Some (CFile d).
Proof. intros P H. rewrite (pb_old _ _ _ _ P r); [exact H | eapply max_file_ge; exact H]. Qed.

Lemma pub_visible_old s s' fin m v : WF s -> Pub s s' fin m -> PMan v <> fin -> visible s' v = visible s v.
Proof.
  intros W P Hne. unfold visible. rewrite (pb_man _ _ _ _ P (PMan v) eq_refl Hne).
  destruct (get s (PMan v)) as [[d|m0]|] eqn:E; try reflexivity.
  destruct (wf_man _ W (PMan v) _ eq_refl E) as (m' & Hm & _ & Hrefs). inversion Hm; subst m'.
  f_equal. f_equal. apply map_ext_in. intros r Hr. destruct (Hrefs r Hr) as [d Hd].
  rewrite Hd. eapply pub_ref; eauto.
Qed.

(* the shared part of WF after a publication *)
Lemma pub_wf_man s s' fin m : WF s -> Pub s s' fin m -> is_manifest_path fin = true -> m_version m = path_version fin ->
  forall p c, is_manifest_path p = true -> get s' p = Some c ->
  exists m0, c = CMan m0 /\ m_version m0 = path_version p /\
             forall r, In r (m_refs m0) -> exists d, get s' (PFile r) = Some (CFile d).
Proof.
  intros W P Hfin Hv p c Hp Hg.
  assert (D : {p = fin} + {p <> fin}).
  { destruct (path_eqb p fin) eqn:E; [left; apply path_eqb_eq; exact E | right; intro X; subst; rewrite path_eqb_refl in E; discriminate]. }
  destruct D as [->|Hne].
  - rewrite (pb_fin _ _ _ _ P) in Hg. inversion Hg; subst c. exists m. repeat split; auto. exact (pb_refs _ _ _ _ P).
  - rewrite (pb_man _ _ _ _ P p Hp Hne) in Hg.
    destruct (wf_man _ W p c Hp Hg) as (m0 & Hm & Hv0 & Hrefs). exists m0. repeat split; auto.
    intros r Hr. destruct (Hrefs r Hr) as [d Hd]. exists d. eapply pub_ref; eauto.
Qed.

Lemma pub_attached s s' m :
  WF s -> Pub s s' (PMan (latest0 s + 1)) m -> m_version m = latest0 s + 1 -> is_detached (latest0 s + 1) = false ->
  WF s' /\ latest s' = Some (latest0 s + 1)
  /\ (forall v, v <> latest0 s + 1 -> visible s' v = visible s v)
  /\ visible s (latest0 s + 1) = None
  /\ visible s' (latest0 s + 1) = Some (m, map (fun r => get s' (PFile r)) (m_refs m))
  /\ refs_exist s' m = true.
Proof.
  intros W P Hv Hnd. set (n := latest0 s) in *.
  assert (Hnew : get s (PMan (n + 1)) = None).
  { apply has_false. destruct (has s (PMan (n + 1))) eqn:E; [|reflexivity]. apply (wf_dense _ W) in E. fold n in E. lia. }
  assert (Hother : forall v, v <> n + 1 -> get s' (PMan v) = get s (PMan v)).
  { intros v Hne. apply (pb_man _ _ _ _ P (PMan v) eq_refl). intro E; inversion E; contradiction. }
  assert (HL : latest s' = Some (n + 1)).
  { apply latest_char; [rewrite (pb_fin _ _ _ _ P); eauto|].
    intros v c Hg. destruct (N.eq_dec v (n + 1)) as [->|Hne]; [lia|].
    rewrite (Hother v Hne) in Hg.
    assert (has s (PMan v) = true) as Hh by (apply has_true; eauto). apply (wf_dense _ W) in Hh. fold n in Hh. lia. }
  assert (HL0 : latest0 s' = n + 1) by (unfold latest0; rewrite HL; reflexivity).
  split; [|split; [exact HL|split; [|split; [|split]]]].
  - constructor.
    + intro v. rewrite HL0. destruct (N.eq_dec v (n + 1)) as [->|Hne].
      * split; [lia|]. intros _. apply has_true. rewrite (pb_fin _ _ _ _ P); eauto.
      * unfold has. rewrite (Hother v Hne). fold (has s (PMan v)). rewrite (wf_dense _ W v). fold n. lia.
    + intro v. destruct (N.eq_dec v (n + 1)) as [->|Hne]; [intros _; exact Hnd|].
      unfold has. rewrite (Hother v Hne). apply (wf_att _ W).
    + intro v. unfold has. rewrite (pb_man _ _ _ _ P (PDet v) eq_refl) by discriminate. apply (wf_det _ W).
    + apply (pub_wf_man s s' (PMan (n + 1)) m W P eq_refl). exact Hv.
    + exact (pb_file _ _ _ _ P).
  - intros v Hne. apply (pub_visible_old s s' _ m v W P). intro E; inversion E; contradiction.
  - unfold visible. rewrite Hnew. reflexivity.
  - unfold visible. rewrite (pb_fin _ _ _ _ P). reflexivity.
  - unfold refs_exist. apply forallb_forall. intros r Hr. apply has_true.
    destruct (pb_refs _ _ _ _ P r Hr) as [d Hd]. eauto.
Qed.

Lemma pub_detached s s' v m :
  WF s -> Pub s s' (PDet v) m -> m_version m = v -> is_detached v = true ->
  WF s' /\ latest s' = latest s /\ (forall x, visible s' x = visible s x).
Proof.
  intros W P Hv Hd.
  assert (Hother : forall x, get s' (PMan x) = get s (PMan x)).
  { intro x. apply (pb_man _ _ _ _ P (PMan x) eq_refl). discriminate. }
  assert (HL : latest s' = latest s).
  { apply latest_ext. intro x. unfold has. rewrite Hother. reflexivity. }
  assert (HL0 : latest0 s' = latest0 s) by (unfold latest0; rewrite HL; reflexivity).
  split; [|split; [exact HL|]].
  - constructor.
    + intro x. unfold has. rewrite Hother, HL0. apply (wf_dense _ W).
    + intro x. unfold has. rewrite Hother. apply (wf_att _ W).
    + intro x. destruct (N.eq_dec x v) as [->|Hne]; [intros _; exact Hd|].
      unfold has. rewrite (pb_man _ _ _ _ P (PDet x) eq_refl) by (intro E; inversion E; contradiction). apply (wf_det _ W).
    + apply (pub_wf_man s s' (PDet v) m W P eq_refl). exact Hv.
    + exact (pb_file _ _ _ _ P).
  - intro x. apply (pub_visible_old s s' _ m x W P). discriminate.
Qed.

(* the publishing store call turns a framed store into a published one *)
Lemma pub_of_put s s1 x fin m :
  Frame s x -> (forall p, p <> fin -> is_manifest_path p = true \/ (exists n, p = PFile n) -> get x p = get s1 p) ->
  Frame s s1 -> is_manifest_path fin = true ->
  (forall r, In r (m_refs m) -> exists d, get s1 (PFile r) = Some (CFile d)) ->
  Pub s (put x fin (CMan m)) fin m.
Proof.
  intros _ Hx F Hfin Hrefs.
  assert (Hf : forall n, get (put x fin (CMan m)) (PFile n) = get s1 (PFile n)).
  { intro n. rewrite get_put_other by (destruct fin; discriminate). apply Hx; [destruct fin; discriminate | right; eauto]. }
  constructor.
  - apply get_put_same.
  - intros p Hp Hne. rewrite get_put_other by (intro E; subst; contradiction).
    rewrite Hx by auto. apply (fr_man _ _ F); exact Hp.
  - intros n Hn. rewrite Hf. apply (fr_old _ _ F); exact Hn.
  - intros n c. rewrite Hf. apply (fr_file _ _ F).
  - intros r Hr. rewrite Hf. apply Hrefs; exact Hr.
Qed.

Lemma manifest_path_is_manifest v : is_manifest_path (manifest_path v) = true.
Proof. unfold manifest_path; destruct (is_detached v); reflexivity. Qed.

(* what the handler's calls do to a framed store s1 in which the manifest's references exist:
   before the commit point nothing is published; past it the manifest is published, unless the final path
   is taken (then the call fails and nothing changes) *)
Lemma commit_calls_outcome s s1 h tv m j :
  Frame s s1 -> (forall r, In r (m_refs m) -> exists d, get s1 (PFile r) = Some (CFile d)) ->
  let fin := manifest_path tv in
  let s2 := exec (firstn j (commit_calls h tv m)) s1 in
  ((j <= commit_point h)%nat -> Frame s s2) /\
  ((commit_point h < j)%nat ->
     (Frame s s2 \/ Pub s s2 fin m) /\ (has s1 fin = false -> Pub s s2 fin m)).
Proof.
  intros F Hrefs fin s2.
  pose proof (manifest_path_is_manifest tv) as Hfin. fold fin in Hfin.
  assert (Pput : Pub s (put s1 fin (CMan m)) fin m).
  { apply (pub_of_put s s1 s1 fin m); auto. }
  assert (Ftmp : Frame s (put s1 (PTmp tv) (CMan m))).
  { exact (frame_step s s1 (Put (PTmp tv) (CMan m)) _ F I eq_refl). }
  assert (Pren : Pub s (put (del (put s1 (PTmp tv) (CMan m)) (PTmp tv)) fin (CMan m)) fin m).
  { apply (pub_of_put s s1 (del (put s1 (PTmp tv) (CMan m)) (PTmp tv)) fin m); auto.
    - exact (frame_step s _ (Del (PTmp tv)) _ Ftmp I eq_refl).
    - intros p Hne [Hp|[n ->]].
      + rewrite get_del_other by (destruct p; discriminate). apply get_put_other. destruct p; discriminate.
      + rewrite get_del_other by discriminate. apply get_put_other. discriminate. }
  subst s2. unfold commit_calls. fold fin.
  destruct h; cbn [commit_point].
  - (* conditional put *)
    destruct j as [|j]; cbn [firstn exec step]; (split; [intro Hj | intro Hj]); try lia; try exact F.
    destruct (has s1 fin) eqn:E.
    + split; [left; exact F | discriminate].
    + destruct j; cbn [firstn exec]; split; auto.
  - (* rename *)
    destruct j as [|[|j]]; cbn [firstn exec step]; (split; [intro Hj | intro Hj]); try lia; try exact F; try exact Ftmp.
    rewrite get_put_same.
    assert (Hh : has (put s1 (PTmp tv) (CMan m)) fin = has s1 fin).
    { unfold has. rewrite get_put_other; [reflexivity | destruct fin; discriminate]. }
    rewrite Hh. destruct (has s1 fin) eqn:E.
    + split; [left; exact Ftmp | discriminate].
    + destruct j; cbn [firstn exec]; split; auto.
  - (* lock *)
    destruct j as [|[|[|j]]]; cbn [firstn exec step]; (split; [intro Hj | intro Hj]); try lia; try exact F.
    + destruct (has s1 fin); exact F.
    + destruct (has s1 fin) eqn:E.
      * split; [left; exact F | discriminate].
      * destruct j as [|j]; cbn [firstn exec step]; [split; auto|]. destruct j; cbn [firstn exec]; split; auto.
  - (* unsafe *)
    destruct j as [|j]; cbn [firstn exec step]; (split; [intro Hj | intro Hj]); try lia; try exact F.
    destruct j; cbn [firstn exec]; split; auto.
Qed.

(* ---------- programs ---------- *)
Lemma exec_app a : forall b s, completes a s = true -> exec (a ++ b) s = exec b (exec a s).
Proof.
  induction a as [|c r IH]; intros b s H; [reflexivity|]. cbn [app exec completes] in *.
  destruct (step s c); [apply IH; exact H | discriminate].
Qed.
Lemma completes_app a : forall b s, completes (a ++ b) s = completes a s && completes b (exec a s).
Proof.
  induction a as [|c r IH]; intros b s; [reflexivity|]. cbn [app exec completes].
  destruct (step s c); [apply IH | reflexivity].
Qed.

Lemma Forall_firstn' {A} (P : A -> Prop) (l : list A) k : Forall P l -> Forall P (firstn k l).
Proof.
  revert k; induction l as [|x r IH]; intros k H; destruct k; cbn [firstn]; auto.
  inversion H; subst. constructor; auto.
Qed.

Definition fp (l : list (N * N)) : list call := map (fun idd => Put (PFile (fst idd)) (CFile (snd idd))) l.

Lemma fp_completes l : forall s, completes (fp l) s = true.
Proof. induction l as [|x r IH]; intro s; [reflexivity|]. cbn [fp map completes step]. apply IH. Qed.

Lemma fp_pre s l : (forall x, In x l -> max_file s < fst x) -> Forall (pre_commit_call s) (fp l).
Proof.
  induction l as [|x r IH]; intro H; cbn [fp map]; constructor.
  - cbn [pre_commit_call]. apply H; left; reflexivity.
  - apply IH. intros y Hy; apply H; right; exact Hy.
Qed.

Lemma fp_keep l : forall s i, (exists d, get s (PFile i) = Some (CFile d)) -> exists d, get (exec (fp l) s) (PFile i) = Some (CFile d).
Proof.
  induction l as [|x r IH]; intros s i H; [exact H|]. cbn [fp map exec step]. apply IH.
  destruct (N.eq_dec (fst x) i) as [<-|Hne]; [rewrite get_put_same; eauto|].
  rewrite get_put_other by (intro E; inversion E; contradiction). exact H.
Qed.

Lemma fp_exist l : forall s i, In i (map fst l) -> exists d, get (exec (fp l) s) (PFile i) = Some (CFile d).
Proof.
  induction l as [|x r IH]; intros s i H; [contradiction|]. cbn [fp map exec step].
  destruct (N.eq_dec (fst x) i) as [<-|Hne].
  - apply fp_keep. rewrite get_put_same; eauto.
  - apply IH. destruct H as [H|H]; [contradiction | exact H].
Qed.

Lemma map_fst_combine {A B} (a : list A) : forall b : list B, length a = length b -> map fst (combine a b) = a.
Proof.
  induction a as [|x r IH]; intros [|y b] H; cbn in *; try discriminate; [reflexivity|].
  f_equal. apply IH. lia.
Qed.

Definition file_list (s : store) (t : txn) : list (N * N) := combine (new_ids s t) (map fst (t_files t) ++ [0]).
Lemma file_puts_fp s t : file_puts s t = fp (file_list s t).
Proof. reflexivity. Qed.

Lemma file_list_fst s t : map fst (file_list s t) = new_ids s t.
Proof.
  apply map_fst_combine. unfold new_ids. rewrite seqN_length, app_length, map_length. cbn [length]. lia.
Qed.

Lemma new_ids_fresh s t i : In i (new_ids s t) -> max_file s < i.
Proof. unfold new_ids, next_file. intro H. apply seqN_in in H. lia. Qed.

Lemma file_list_fresh s t x : In x (file_list s t) -> max_file s < fst x.
Proof.
  intro H. apply (new_ids_fresh s t). rewrite <- file_list_fst. apply in_map. exact H.
Qed.

Lemma file_puts_length s t : length (file_puts s t) = S (length (t_files t)).
Proof.
  rewrite file_puts_fp. unfold fp. rewrite map_length, <- (map_length fst), file_list_fst.
  unfold new_ids. apply seqN_length.
Qed.

Lemma firstn_fp k l : firstn k (fp l) = fp (firstn k l).
Proof. unfold fp. apply firstn_map. Qed.

(* the handler's calls before its commit point keep the store framed *)
Lemma commit_calls_prefix s h tv m j : (j <= commit_point h)%nat -> Forall (pre_commit_call s) (firstn j (commit_calls h tv m)).
Proof.
  intro Hj. unfold commit_calls.
  destruct h; cbn [commit_point] in Hj;
    repeat (destruct j as [|j]; [cbn [firstn]; repeat constructor | try lia]).
Qed.

Definition adopt_ok (s : store) (t : txn) : Prop :=
  forall r, In r (t_adopt t) -> exists d, get s (PFile r) = Some (CFile d).

Lemma open_get v s m : open v s = Some m -> get s (manifest_path v) = Some (CMan m).
Proof. unfold open. destruct (get s (manifest_path v)) as [[d|m0]|]; intro H; inversion H; reflexivity. Qed.

Lemma base_refs_exist s t inh : WF s -> base_refs s t = Some inh ->
  forall r, In r inh -> exists d, get s (PFile r) = Some (CFile d).
Proof.
  intros W H. unfold base_refs in H.
  assert (G : forall v m, open v s = Some m -> forall r, In r (m_refs m) -> exists d, get s (PFile r) = Some (CFile d)).
  { intros v m Ho. apply open_get in Ho.
    destruct (wf_man _ W _ _ (manifest_path_is_manifest v) Ho) as (m' & Hm & _ & Hr). inversion Hm; subst. exact Hr. }
  destruct (t_base t) as [v|].
  - destruct (open v s) as [m|] eqn:E; inversion H; subst. eapply G; eauto.
  - destruct (latest s) as [n|]; [|inversion H; subst; intros r []].
    destruct (open n s) as [m|] eqn:E; inversion H; subst. eapply G; eauto.
Qed.

(* the store after the file puts *)
Lemma after_files s t : WF s ->
  let s1 := exec (file_puts s t) s in
  Frame s s1 /\ forall i, In i (new_ids s t) -> exists d, get s1 (PFile i) = Some (CFile d).
Proof.
  intros W s1. split.
  - apply frame_exec; [apply Frame_refl; exact W|]. rewrite file_puts_fp. apply fp_pre. apply file_list_fresh.
  - intros i Hi. unfold s1. rewrite file_puts_fp. apply fp_exist. rewrite file_list_fst. exact Hi.
Qed.

Lemma new_manifest_refs s t inh s1 : WF s -> adopt_ok s t -> base_refs s t = Some inh ->
  Frame s s1 -> (forall i, In i (new_ids s t) -> exists d, get s1 (PFile i) = Some (CFile d)) ->
  forall r, In r (m_refs (new_manifest s t inh)) -> exists d, get s1 (PFile r) = Some (CFile d).
Proof.
  intros W A B F Hnew r Hr. cbn [new_manifest m_refs] in Hr.
  apply in_app_or in Hr as [Hr|Hr]; [apply Hnew; unfold new_refs in Hr; eapply mask_in; exact Hr|].
  apply in_app_or in Hr as [Hr|Hr].
  - apply mask_in in Hr. destruct (base_refs_exist s t inh W B r Hr) as [d Hd]. exists d. eapply frame_ref; eauto.
  - destruct (A r Hr) as [d Hd]. exists d. eapply frame_ref; eauto.
Qed.

(* a write stopped at or before its commit point *)
Lemma write_frame s h t k : WF s -> (k <= commit_pos s h t)%nat -> Frame s (apply_op s (Write h t k)).
Proof.
  intros W Hk. cbn [apply_op]. apply frame_exec; [apply Frame_refl; exact W|]. unfold write_program.
  assert (Hpre : Forall (pre_commit_call s) (file_puts s t)).
  { rewrite file_puts_fp. apply fp_pre. apply file_list_fresh. }
  destruct (refused s t); [apply Forall_firstn'; exact Hpre|].
  destruct (base_refs s t) as [inh|]; [|apply Forall_firstn'; exact Hpre].
  rewrite firstn_app. apply Forall_app. split; [apply Forall_firstn'; exact Hpre|].
  apply commit_calls_prefix. unfold commit_pos in Hk. lia.
Qed.

(* a program without commit calls (refused version number, unreadable base version) never publishes *)
Lemma write_no_commit s h t k : WF s -> write_program s h t = file_puts s t -> Frame s (apply_op s (Write h t k)).
Proof.
  intros W E. cbn [apply_op]. rewrite E. apply frame_exec; [apply Frame_refl; exact W|].
  apply Forall_firstn'. rewrite file_puts_fp. apply fp_pre. apply file_list_fresh.
Qed.

(* a write that ran past its commit point *)
Lemma write_past s h t k inh : WF s -> adopt_ok s t -> refused s t = false -> base_refs s t = Some inh ->
  (commit_pos s h t < k)%nat ->
  let s' := apply_op s (Write h t k) in
  let fin := manifest_path (target s t) in
  let m := new_manifest s t inh in
  (Frame s s' \/ Pub s s' fin m) /\ (has s fin = false -> Pub s s' fin m).
Proof.
  intros W A R B Hk s' fin m. subst s'. cbn [apply_op]. unfold write_program. rewrite R, B.
  unfold commit_pos in Hk. rewrite firstn_app.
  rewrite (firstn_all2 (n := k) (file_puts s t)) by lia.
  rewrite exec_app by (rewrite file_puts_fp; apply fp_completes).
  destruct (after_files s t W) as [F Hnew].
  pose proof (new_manifest_refs s t inh _ W A B F Hnew) as Hrefs.
  destruct (commit_calls_outcome s _ h (target s t) m (k - length (file_puts s t)) F Hrefs) as [_ H2].
  destruct (H2 ltac:(lia)) as [H3 H4]. split; [exact H3|].
  intro Hf. apply H4. fold fin. unfold has in *. rewrite (fr_man _ _ F fin (manifest_path_is_manifest _)). exact Hf.
Qed.

Lemma write_completes s h t inh : WF s -> refused s t = false -> base_refs s t = Some inh ->
  has s (manifest_path (target s t)) = false -> completes (write_program s h t) s = true.
Proof.
  intros W R B Hf. unfold write_program. rewrite R, B. rewrite completes_app.
  rewrite file_puts_fp at 1. rewrite fp_completes. cbn [andb].
  destruct (after_files s t W) as [F _]. set (s1 := exec (file_puts s t) s) in *.
  set (fin := manifest_path (target s t)) in *.
  assert (Hf1 : has s1 fin = false).
  { unfold has in *. rewrite (fr_man _ _ F fin (manifest_path_is_manifest _)). exact Hf. }
  unfold commit_calls. fold fin. destruct h; cbn [completes step].
  - rewrite Hf1. reflexivity.
  - rewrite get_put_same.
    assert (Hh : has (put s1 (PTmp (target s t)) (CMan (new_manifest s t inh))) fin = false).
    { unfold has in *. rewrite get_put_other; [exact Hf1 | unfold fin, manifest_path; destruct (is_detached (target s t)); discriminate]. }
    rewrite Hh. reflexivity.
  - rewrite Hf1. reflexivity.
  - reflexivity.
Qed.

(* ---------- detached version numbers ---------- *)
Lemma is_detached_lor x : is_detached (N.lor x DETACHED_VERSION_MASK) = true.
Proof.
  unfold is_detached. rewrite N.land_lor_distr_l, N.land_diag.
  destruct (N.eqb_spec (N.lor (N.land x DETACHED_VERSION_MASK) DETACHED_VERSION_MASK) 0) as [E|_]; [|reflexivity].
  apply N.lor_eq_0_iff in E as [_ E]. discriminate.
Qed.

Lemma target_detached s t r : t_detached t = Some r -> is_detached (target s t) = true.
Proof. intro H. unfold target. rewrite H. apply is_detached_lor. Qed.

Lemma target_attached s t : t_detached t = None -> target s t = latest0 s + 1.
Proof. intro H. unfold target. rewrite H. reflexivity. Qed.

Lemma refused_attached s t : t_detached t = None -> refused s t = false -> is_detached (latest0 s + 1) = false.
Proof. intros H R. unfold refused in R. rewrite H in R. rewrite (target_attached s t H) in R. exact R. Qed.

Lemma next_absent s : WF s -> has s (PMan (latest0 s + 1)) = false.
Proof.
  intro W. destruct (has s (PMan (latest0 s + 1))) eqn:E; [|reflexivity]. apply (wf_dense _ W) in E. lia.
Qed.

(* ---------- (1) a write stopped before its commit point is invisible ---------- *)
Lemma crash_prefix_invisible s h t k : WF s -> (k <= commit_pos s h t)%nat ->
  let s' := exec (firstn k (write_program s h t)) s in
  (forall v, visible s' v = visible s v) /\ latest s' = latest s /\ WF s'.
Proof.
  intros W Hk s'. pose proof (write_frame s h t k W Hk) as F. cbn [apply_op] in F. fold s' in F.
  split; [apply frame_visible; assumption | split; [apply frame_latest; exact F | eapply frame_WF; eauto]].
Qed.

(* ---------- (2) a write that passes its commit point adds exactly version N+1 ---------- *)
Lemma past_commit_one_version s h t inh k :
  WF s -> adopt_ok s t -> t_detached t = None -> refused s t = false -> base_refs s t = Some inh ->
  (commit_pos s h t < k)%nat ->
  let s' := exec (firstn k (write_program s h t)) s in
  let n := latest0 s in
  let m := new_manifest s t inh in
  latest s' = Some (n + 1)
  /\ (forall v, v <> n + 1 -> visible s' v = visible s v)
  /\ visible s (n + 1) = None
  /\ visible s' (n + 1) = Some (m, map (fun r => get s' (PFile r)) (m_refs m))
  /\ refs_exist s' m = true
  /\ m_version m = n + 1
  /\ WF s'.
Proof.
  intros W A D R B Hk s' n m.
  pose proof (refused_attached s t D R) as Hnd. fold n in Hnd.
  assert (Hfin : manifest_path (target s t) = PMan (n + 1)).
  { rewrite (target_attached s t D). fold n. unfold manifest_path. rewrite Hnd. reflexivity. }
  destruct (write_past s h t k inh W A R B Hk) as [_ HP]. cbn [apply_op] in HP. fold s' in HP.
  rewrite Hfin in HP. specialize (HP (next_absent s W)). fold m in HP.
  assert (Hv : m_version m = n + 1) by (unfold m; cbn [new_manifest m_version]; apply target_attached; exact D).
  destruct (pub_attached s s' m W HP Hv Hnd) as (W' & HL & Hold & Hnone & Hnew & Hre).
  exact (conj HL (conj Hold (conj Hnone (conj Hnew (conj Hre (conj Hv W')))))).
Qed.

Lemma success_one_version s h t inh :
  WF s -> adopt_ok s t -> t_detached t = None -> refused s t = false -> base_refs s t = Some inh ->
  let w := write_program s h t in
  let s' := exec w s in
  let n := latest0 s in
  let m := new_manifest s t inh in
  completes w s = true
  /\ latest s' = Some (n + 1)
  /\ (forall v, v <> n + 1 -> visible s' v = visible s v)
  /\ visible s (n + 1) = None
  /\ visible s' (n + 1) = Some (m, map (fun r => get s' (PFile r)) (m_refs m))
  /\ refs_exist s' m = true
  /\ m_version m = n + 1
  /\ WF s'.
Proof.
  intros W A D R B w s' n m.
  assert (Hlen : (commit_pos s h t < length w)%nat).
  { unfold w, write_program, commit_pos. rewrite R, B, app_length. unfold commit_calls. destruct h; cbn [length commit_point]; lia. }
  pose proof (past_commit_one_version s h t inh (length w) W A D R B Hlen) as H.
  cbn zeta in H. fold w in H. rewrite firstn_all in H. fold s' n m in H.
  split; [|exact H].
  apply (write_completes s h t inh W R B).
  rewrite (target_attached s t D). unfold manifest_path. rewrite (refused_attached s t D R). apply next_absent; exact W.
Qed.

(* ---------- one write of a history ---------- *)
Definition op_ok (s : store) (o : op) : Prop := match o with Write _ t _ => adopt_ok s t end.

Lemma apply_op_inv s o : WF s -> op_ok s o ->
  let s' := apply_op s o in
  WF s' /\ latest0 s <= latest0 s' <= latest0 s + 1
  /\ (forall v, 1 <= v <= latest0 s -> visible s' v = visible s v).
Proof.
  intros W A s'. destruct o as [h t k]. cbn [op_ok] in A.
  assert (FR : Frame s s' -> WF s' /\ latest0 s <= latest0 s' <= latest0 s + 1
                               /\ (forall v, 1 <= v <= latest0 s -> visible s' v = visible s v)).
  { intro F. split; [eapply frame_WF; eauto|]. split.
    - unfold latest0. rewrite (frame_latest _ _ F). lia.
    - intros v _. apply frame_visible; assumption. }
  destruct (Nat.le_gt_cases k (commit_pos s h t)) as [Hk|Hk]; [apply FR; apply write_frame; assumption|].
  destruct (refused s t) eqn:R.
  { apply FR. apply write_no_commit; [exact W|]. unfold write_program. rewrite R. reflexivity. }
  destruct (base_refs s t) as [inh|] eqn:B.
  2:{ apply FR. apply write_no_commit; [exact W|]. unfold write_program. rewrite R, B. reflexivity. }
  destruct (write_past s h t k inh W A R B Hk) as [[F|P] _]; [apply FR; exact F|].
  fold s' in P. destruct (t_detached t) as [r|] eqn:D.
  - pose proof (target_detached s t r D) as Hd.
    unfold manifest_path in P. rewrite Hd in P.
    destruct (pub_detached s s' (target s t) _ W P eq_refl Hd) as (W' & HL & Hvis).
    split; [exact W'|]. split; [unfold latest0; rewrite HL; lia | intros v _; apply Hvis].
  - pose proof (refused_attached s t D R) as Hnd.
    rewrite (target_attached s t D) in P. unfold manifest_path in P. rewrite Hnd in P.
    assert (Hv : m_version (new_manifest s t inh) = latest0 s + 1) by (cbn [new_manifest m_version]; apply target_attached; exact D).
    destruct (pub_attached s s' _ W P Hv Hnd) as (W' & HL & Hold & _).
    split; [exact W'|]. split; [unfold latest0 at 2 3; rewrite HL; lia|].
    intros v Hv'. apply Hold. lia.
Qed.

(* ---------- (3) WF is an invariant of every history ---------- *)
Fixpoint ops_ok (ops : list op) (s : store) : Prop :=
  match ops with
  | [] => True
  | o :: r => op_ok s o /\ ops_ok r (apply_op s o)
  end.

Lemma reachable_WF_dense ops : forall s0, WF s0 -> ops_ok ops s0 ->
  let s := run_ops ops s0 in
  WF s
  /\ latest0 s0 <= latest0 s <= latest0 s0 + N.of_nat (length ops)
  /\ (forall v, 1 <= v <= latest0 s0 -> visible s v = visible s0 v).
Proof.
  induction ops as [|o r IH]; intros s0 W A; cbn [run_ops fold_left length].
  - split; [exact W|]. split; [lia | reflexivity].
  - destruct A as [A1 A2].
    destruct (apply_op_inv s0 o W A1) as (W1 & HL1 & Hv1).
    destruct (IH (apply_op s0 o) W1 A2) as (W2 & HL2 & Hv2).
    fold (run_ops r (apply_op s0 o)). split; [exact W2|]. split; [lia|].
    intros v Hv. rewrite Hv2 by lia. apply Hv1; exact Hv.
Qed.

Lemma WF_empty : WF [].
Proof.
  constructor; cbn; intros; try discriminate. split; [discriminate | lia].
Qed.

(* ---------- (4) detached commits never become the latest version ---------- *)
Lemma latest_ignores_detached_name s v c : is_detached v = true -> latest (put s (manifest_path v) c) = latest s.
Proof. intro H. unfold manifest_path. rewrite H. reflexivity. Qed.

Lemma latest_not_detached s v : WF s -> latest s = Some v -> is_detached v = false.
Proof.
  intros W H. destruct (latest_some _ _ H) as [[c Hc] _]. apply (wf_att _ W). apply has_true; eauto.
Qed.

Lemma detached_commit_invisible s h t k r : WF s -> adopt_ok s t -> t_detached t = Some r ->
  let s' := apply_op s (Write h t k) in
  latest s' = latest s /\ (forall v, visible s' v = visible s v) /\ WF s'.
Proof.
  intros W A D s'.
  assert (FR : Frame s s' -> latest s' = latest s /\ (forall v, visible s' v = visible s v) /\ WF s').
  { intro F. split; [apply frame_latest; exact F | split; [apply frame_visible; assumption | eapply frame_WF; eauto]]. }
  destruct (Nat.le_gt_cases k (commit_pos s h t)) as [Hk|Hk]; [apply FR; apply write_frame; assumption|].
  assert (R : refused s t = false) by (unfold refused; rewrite D; reflexivity).
  destruct (base_refs s t) as [inh|] eqn:B.
  2:{ apply FR. apply write_no_commit; [exact W|]. unfold write_program. rewrite R, B. reflexivity. }
  destruct (write_past s h t k inh W A R B Hk) as [[F|P] _]; [apply FR; exact F|].
  fold s' in P. pose proof (target_detached s t r D) as Hd.
  unfold manifest_path in P. rewrite Hd in P.
  destruct (pub_detached s s' (target s t) _ W P eq_refl Hd) as (W' & HL & Hvis). auto.
Qed.

(* ---------- the handler's calls are C02's handler programs, for one writer ----------
   Running the first j calls of `commit_calls h tv m` on a store where the final and the staging path are free
   and running j steps of writer t in Store.Model_Handlers (the model C02's theorems are about, tied to the real
   handlers by hx_c02) agree on what the final path and the staging path hold; after the last call the C02
   writer is Done ROk, and Done ROk means the final path holds the writer's manifest (C02's I_ok). *)
Definition hstep (hs : Model_Handlers.state) (t : N) := Model_Handlers.step hs (Run t).

Lemma hstep_eq hs t k p : kind (thr hs t) = k -> tpc (thr hs t) = p ->
  hstep hs t =
  let fin := KFinal (ver (thr hs t)) in
  let tmp := KTmp t in
  match k, p with
  | _, Done _ => hs
  | HCondPut, P0 => if is_none (sto hs fin) then mk hs (upd (sto hs) fin (By t)) (lck hs) t (Done ROk)
                    else mk hs (sto hs) (lck hs) t (Done RConflict)
  | HCondPut, _ => hs
  | HUnsafe, P0 => mk hs (upd (sto hs) fin (By t)) (lck hs) t (Done ROk)
  | HUnsafe, _ => hs
  | HRename, P0 => mk hs (upd (sto hs) tmp (By t)) (lck hs) t P1
  | HRename, P1 =>
      match sto hs tmp with
      | None => mk hs (sto hs) (lck hs) t (Done ROther)
      | Some c => if is_none (sto hs fin) then mk hs (Model_Handlers.del (upd (sto hs) fin c) tmp) (lck hs) t (Done ROk)
                  else mk hs (sto hs) (lck hs) t P2
      end
  | HRename, P2 => mk hs (Model_Handlers.del (sto hs) tmp) (lck hs) t (Done RConflict)
  | HRename, _ => hs
  | HLock, P0 => if is_none (lck hs) then mk hs (sto hs) (Some t) t P1 else hs
  | HLock, P1 => if is_none (sto hs fin) then mk hs (sto hs) (lck hs) t P2 else mk hs (sto hs) (lck hs) t PRelC
  | HLock, P2 => mk hs (upd (sto hs) fin (By t)) (lck hs) t P3
  | HLock, P3 => mk hs (sto hs) None t (Done ROk)
  | HLock, PRelC => mk hs (sto hs) None t (Done RConflict)
  | HLock, PRelO => mk hs (sto hs) None t (Done ROther)
  end.
Proof.
  intros K P. unfold hstep, Model_Handlers.step. cbn [ev_tid ev_mode]. rewrite K, P.
  destruct k, p; reflexivity.
Qed.

Lemma thr_mk_fields s st l t p :
  kind (thr (mk s st l t p) t) = kind (thr s t) /\ tpc (thr (mk s st l t p) t) = p /\ ver (thr (mk s st l t p) t) = ver (thr s t).
Proof. rewrite thr_mk_same. cbn. auto. Qed.

Section Refine.
  Variables (tv : N) (m : manifest) (t : N) (st0 : Model_Handlers.store) (s1 : Model_Commit.store).
  Hypothesis H1 : st0 (KFinal tv) = None.
  Hypothesis H2 : st0 (KTmp t) = None.
  Hypothesis G3 : get s1 (manifest_path tv) = None.
  Hypothesis G4 : get s1 (PTmp tv) = None.

  Local Notation fin := (manifest_path tv).
  Local Notation F := (KFinal tv).
  Local Notation T := (KTmp t).

  Lemma ne_tmp_fin : PTmp tv <> fin.
  Proof. unfold manifest_path; destruct (is_detached tv); discriminate. Qed.
  Lemma ne_fin_tmp : fin <> PTmp tv.
  Proof. intro E; apply ne_tmp_fin; symmetry; exact E. Qed.
  Lemma neK : T <> F. Proof. discriminate. Qed.
  Lemma neK' : F <> T. Proof. discriminate. Qed.

  (* the five claims, given what the two sides hold *)
  Definition agree (hs : Model_Handlers.state) (s2 : Model_Commit.store) (last : bool) : Prop :=
    (sto hs F = Some (By t) <-> get s2 fin = Some (CMan m))
    /\ (sto hs F = None <-> get s2 fin = None)
    /\ (sto hs T = None <-> get s2 (PTmp tv) = None)
    /\ (last = true -> tpc (thr hs t) = Done ROk)
    /\ (tpc (thr hs t) = Done ROk -> sto hs F = Some (By t)).

  Lemma agree_start h : agree (init st0 (fun _ => tv) (fun _ => h)) s1 false.
  Proof.
    unfold agree. cbn [init sto thr tpc].   rewrite H1, H2, G3, G4.
    repeat split; intros; try discriminate; reflexivity.
  Qed.

  Ltac close_agree :=
    unfold agree; cbn [sto mk]; rewrite ?thr_mk_same; cbn [tpc];
    repeat split; intros; try discriminate; try reflexivity; try congruence.

  Lemma refine_condput j : (j <= 1)%nat ->
    agree (Model_Handlers.run (repeat (Run t) j) (init st0 (fun _ => tv) (fun _ => HCondPut)))
          (exec (firstn j (commit_calls HCondPut tv m)) s1) (Nat.eqb j 1).
  Proof.
    intro Hj. destruct j as [|[|j]]; [apply agree_start | | lia].
    cbn [repeat Model_Handlers.run fold_left Nat.eqb]. fold (hstep (init st0 (fun _ => tv) (fun _ => HCondPut)) t).
    rewrite (hstep_eq (init st0 (fun _ => tv) (fun _ => HCondPut)) t HCondPut P0 eq_refl eq_refl). cbn zeta. cbn [init thr ver sto lck]. rewrite H1. cbn [is_none].
    unfold commit_calls. cbn [firstn exec Model_Commit.step].  unfold has. rewrite G3. cbn [exec].
    pose proof (upd_same st0 F (By t)) as A. pose proof (upd_other st0 F (By t) T neK') as B. rewrite H2 in B.
    pose proof (get_put_same s1 fin (CMan m)) as C. pose proof (get_put_other s1 fin (CMan m) (PTmp tv) ne_fin_tmp) as D. rewrite G4 in D.
    unfold agree; cbn [sto mk]; rewrite thr_mk_same; cbn [tpc].  rewrite A, B, C, D.
    repeat split; intros; try discriminate; reflexivity.
  Qed.

  Lemma refine_unsafe j : (j <= 1)%nat ->
    agree (Model_Handlers.run (repeat (Run t) j) (init st0 (fun _ => tv) (fun _ => HUnsafe)))
          (exec (firstn j (commit_calls HUnsafe tv m)) s1) (Nat.eqb j 1).
  Proof.
    intro Hj. destruct j as [|[|j]]; [apply agree_start | | lia].
    cbn [repeat Model_Handlers.run fold_left Nat.eqb]. fold (hstep (init st0 (fun _ => tv) (fun _ => HUnsafe)) t).
    rewrite (hstep_eq (init st0 (fun _ => tv) (fun _ => HUnsafe)) t HUnsafe P0 eq_refl eq_refl). cbn zeta. cbn [init thr ver sto lck].
    unfold commit_calls. cbn [firstn exec Model_Commit.step]. 
    pose proof (upd_same st0 F (By t)) as A. pose proof (upd_other st0 F (By t) T neK') as B. rewrite H2 in B.
    pose proof (get_put_same s1 fin (CMan m)) as C. pose proof (get_put_other s1 fin (CMan m) (PTmp tv) ne_fin_tmp) as D. rewrite G4 in D.
    unfold agree; cbn [sto mk]; rewrite thr_mk_same; cbn [tpc].  rewrite A, B, C, D.
    repeat split; intros; try discriminate; reflexivity.
  Qed.

  Lemma refine_rename j : (j <= 2)%nat ->
    agree (Model_Handlers.run (repeat (Run t) j) (init st0 (fun _ => tv) (fun _ => HRename)))
          (exec (firstn j (commit_calls HRename tv m)) s1) (Nat.eqb j 2).
  Proof.
    intro Hj. destruct j as [|[|[|j]]]; [apply agree_start | | | lia].
    - (* staging file written *)
      cbn [repeat Model_Handlers.run fold_left Nat.eqb]. fold (hstep (init st0 (fun _ => tv) (fun _ => HRename)) t).
      rewrite (hstep_eq (init st0 (fun _ => tv) (fun _ => HRename)) t HRename P0 eq_refl eq_refl). cbn zeta. cbn [init thr ver sto lck].
      unfold commit_calls. cbn [firstn exec Model_Commit.step]. 
      pose proof (upd_same st0 T (By t)) as A. pose proof (upd_other st0 T (By t) F neK) as B. rewrite H1 in B.
      pose proof (get_put_same s1 (PTmp tv) (CMan m)) as C. pose proof (get_put_other s1 (PTmp tv) (CMan m) fin ne_tmp_fin) as D. rewrite G3 in D.
      unfold agree; cbn [sto mk]; rewrite thr_mk_same; cbn [tpc].  rewrite A, B, C, D.
      repeat split; intros; try discriminate; reflexivity.
    - set (I0 := init st0 (fun _ => tv) (fun _ => HRename)).
      change (Model_Handlers.run (repeat (Run t) 2) I0) with (hstep (hstep I0 t) t).
      assert (E1 : hstep I0 t = mk I0 (upd st0 T (By t)) None t P1).
      { rewrite (hstep_eq I0 t HRename P0 eq_refl eq_refl). reflexivity. }
      rewrite E1. set (B1 := mk I0 (upd st0 T (By t)) None t P1).
      destruct (thr_mk_fields I0 (upd st0 T (By t)) None t P1) as (K1 & Q1 & V1). fold B1 in K1, Q1, V1.
      change (kind (thr I0 t)) with HRename in K1. change (ver (thr I0 t)) with tv in V1.
      rewrite (hstep_eq B1 t HRename P1 K1 Q1). cbn zeta. rewrite V1.
      change (sto B1) with (upd st0 T (By t)). change (lck B1) with (@None N).
      rewrite (upd_same st0 T (By t)), (upd_other st0 T (By t) F neK), H1. cbn [is_none].
      unfold commit_calls. cbn [firstn exec Model_Commit.step Nat.eqb].
      rewrite get_put_same. unfold has. rewrite (get_put_other s1 (PTmp tv) (CMan m) fin ne_tmp_fin), G3. cbn [exec].
      pose proof (del_other (upd (upd st0 T (By t)) F (By t)) T F neK) as A. rewrite upd_same in A.
      pose proof (del_same (upd (upd st0 T (By t)) F (By t)) T) as B.
      pose proof (get_put_same (Model_Commit.del (put s1 (PTmp tv) (CMan m)) (PTmp tv)) fin (CMan m)) as C.
      pose proof (get_put_other (Model_Commit.del (put s1 (PTmp tv) (CMan m)) (PTmp tv)) fin (CMan m) (PTmp tv) ne_fin_tmp) as D.
      rewrite get_del_same in D.
      unfold agree; cbn [sto mk]; rewrite thr_mk_same; cbn [tpc]. rewrite A, B, C, D.
      repeat split; intros; try discriminate; reflexivity.
  Qed.

  Lemma refine_lock j : (j <= 4)%nat ->
    agree (Model_Handlers.run (repeat (Run t) j) (init st0 (fun _ => tv) (fun _ => HLock)))
          (exec (firstn j (commit_calls HLock tv m)) s1) (Nat.eqb j 4).
  Proof.
    intro Hj. set (I0 := init st0 (fun _ => tv) (fun _ => HLock)).
    (* the four states of the writer *)
    assert (E1 : hstep I0 t = mk I0 st0 (Some t) t P1).
    { rewrite (hstep_eq I0 t HLock P0 eq_refl eq_refl). reflexivity. }
    set (C1 := mk I0 st0 (Some t) t P1) in *.
    destruct (thr_mk_fields I0 st0 (Some t) t P1) as (K1 & Q1 & V1). fold C1 in K1, Q1, V1.
    change (kind (thr I0 t)) with HLock in K1. change (ver (thr I0 t)) with tv in V1.
    assert (E2 : hstep C1 t = mk C1 st0 (Some t) t P2).
    { rewrite (hstep_eq C1 t HLock P1 K1 Q1). cbn zeta. rewrite V1. change (sto C1) with st0. rewrite H1. reflexivity. }
    set (C2 := mk C1 st0 (Some t) t P2) in *.
    destruct (thr_mk_fields C1 st0 (Some t) t P2) as (K2 & Q2 & V2). fold C2 in K2, Q2, V2. rewrite K1 in K2. rewrite V1 in V2.
    assert (E3 : hstep C2 t = mk C2 (upd st0 F (By t)) (Some t) t P3).
    { rewrite (hstep_eq C2 t HLock P2 K2 Q2). cbn zeta. rewrite V2. reflexivity. }
    set (C3 := mk C2 (upd st0 F (By t)) (Some t) t P3) in *.
    destruct (thr_mk_fields C2 (upd st0 F (By t)) (Some t) t P3) as (K3 & Q3 & V3). fold C3 in K3, Q3, V3. rewrite K2 in K3. rewrite V2 in V3.
    assert (E4 : hstep C3 t = mk C3 (upd st0 F (By t)) None t (Done ROk)).
    { rewrite (hstep_eq C3 t HLock P3 K3 Q3). reflexivity. }
    pose proof (upd_same st0 F (By t)) as A. pose proof (upd_other st0 F (By t) T neK') as B. rewrite H2 in B.
    pose proof (get_put_same s1 fin (CMan m)) as C. pose proof (get_put_other s1 fin (CMan m) (PTmp tv) ne_fin_tmp) as D. rewrite G4 in D.
    assert (Hh : has s1 fin = false) by (apply has_false; exact G3).
    unfold commit_calls.
    destruct j as [|[|[|[|[|j]]]]]; [apply agree_start | | | | | lia].
    - change (Model_Handlers.run (repeat (Run t) 1) I0) with (hstep I0 t). rewrite E1.
      cbn [firstn exec Model_Commit.step Nat.eqb].
      unfold agree. change (sto C1) with st0. rewrite Q1, H1, H2, G3, G4.
      repeat split; intros; try discriminate; reflexivity.
    - change (Model_Handlers.run (repeat (Run t) 2) I0) with (hstep (hstep I0 t) t). rewrite E1, E2.
      cbn [firstn exec Model_Commit.step Nat.eqb]. rewrite Hh. cbn [exec].
      unfold agree. change (sto C2) with st0. rewrite Q2, H1, H2, G3, G4.
      repeat split; intros; try discriminate; reflexivity.
    - change (Model_Handlers.run (repeat (Run t) 3) I0) with (hstep (hstep (hstep I0 t) t) t). rewrite E1, E2, E3.
      cbn [firstn exec Model_Commit.step Nat.eqb]. rewrite Hh. cbn [exec Model_Commit.step].
      unfold agree. change (sto C3) with (upd st0 F (By t)). rewrite Q3, A, B, C, D.
      repeat split; intros; try discriminate; reflexivity.
    - change (Model_Handlers.run (repeat (Run t) 4) I0) with (hstep (hstep (hstep (hstep I0 t) t) t) t). rewrite E1, E2, E3, E4.
      cbn [firstn exec Model_Commit.step Nat.eqb]. rewrite Hh. cbn [exec Model_Commit.step].
      unfold agree; cbn [sto mk]. rewrite thr_mk_same; cbn [tpc]. rewrite A, B, C, D.
      repeat split; intros; try discriminate; reflexivity.
  Qed.
End Refine.

Lemma commit_calls_refine_handlers h tv m t st0 s1 j :
  st0 (KFinal tv) = None -> st0 (KTmp t) = None ->
  has s1 (manifest_path tv) = false -> has s1 (PTmp tv) = false ->
  (j <= length (commit_calls h tv m))%nat ->
  agree tv m t (Model_Handlers.run (repeat (Run t) j) (init st0 (fun _ => tv) (fun _ => h)))
        (exec (firstn j (commit_calls h tv m)) s1) (Nat.eqb j (length (commit_calls h tv m))).
Proof.
  intros H1 H2 H3 H4 Hj. apply has_false in H3. apply has_false in H4.
  destruct h; cbn [commit_calls length] in Hj |- *.
  - exact (refine_condput tv m t st0 s1 H1 H2 H3 H4 j Hj).
  - exact (refine_rename tv m t st0 s1 H1 H2 H3 H4 j Hj).
  - exact (refine_lock tv m t st0 s1 H1 H2 H3 H4 j Hj).
  - exact (refine_unsafe tv m t st0 s1 H1 H2 H3 H4 j Hj).
Qed.
