(* C01 - proofs about the commit protocol model (Store/Model_Commit.v). *)
From LanceV Require Import Common.Base Store.Model_Handlers Store.Proofs_Handlers Store.Model_Commit.
Local Open Scope N_scope.

(* ---------- paths and the finite map ---------- *)
Lemma path_eqb_eq a b : path_eqb a b = true <-> a = b.
Proof.
  destruct a, b; cbn [path_eqb]; split; intro H; try discriminate;
    try (apply N.eqb_eq in H; subst; reflexivity); inversion H; subst; apply N.eqb_refl.
Qed.
Lemma path_eqb_refl a : path_eqb a a = true.
Proof. apply path_eqb_eq; reflexivity. Qed.
Lemma path_eqb_neq a b : a <> b -> path_eqb a b = false.
Proof. intro H; destruct (path_eqb a b) eqn:E; [apply path_eqb_eq in E; contradiction | reflexivity]. Qed.

Lemma get_put_same s p c : get (put s p c) p = Some c.
Proof. unfold put; cbn [get]; rewrite path_eqb_refl; reflexivity. Qed.
Lemma get_put_other s p c q : p <> q -> get (put s p c) q = get s q.
Proof. intro H; unfold put; cbn [get]; rewrite path_eqb_neq by exact H; reflexivity. Qed.
Lemma get_del_same s p : get (del s p) p = None.
Proof.
  induction s as [|[q c] r IH]; [reflexivity|]. unfold del in *; cbn [filter fst].
  destruct (path_eqb q p) eqn:E; cbn [negb]; [exact IH|]. cbn [get]; rewrite E; exact IH.
Qed.
Lemma get_del_other s p q : p <> q -> get (del s p) q = get s q.
Proof.
  intro H. induction s as [|[k c] r IH]; [reflexivity|]. unfold del in *; cbn [filter fst].
  destruct (path_eqb k p) eqn:E; cbn [negb].
  - apply path_eqb_eq in E; subst k. cbn [get]. rewrite path_eqb_neq by exact H. exact IH.
  - cbn [get]. destruct (path_eqb k q); [reflexivity | exact IH].
Qed.

Lemma has_true s p : has s p = true <-> exists c, get s p = Some c.
Proof. unfold has; destruct (get s p); split; intro H; eauto; try discriminate. destruct H; discriminate. Qed.
Lemma has_false s p : has s p = false <-> get s p = None.
Proof. unfold has; destruct (get s p); split; intro H; auto; discriminate. Qed.

(* ---------- latest ---------- *)
Lemma latest_none s : latest s = None <-> forall v, get s (PMan v) = None.
Proof.
  induction s as [|[q c] r IH]; cbn [latest fold_right fst]; [split; auto|].
  fold (latest r). destruct q as [f|w|w|t]; cbn [parse_version get path_eqb].
  - rewrite IH; reflexivity.
  - split.
    + destruct (latest r); discriminate.
    + intro H. specialize (H w). rewrite N.eqb_refl in H. discriminate.
  - rewrite IH; reflexivity.
  - rewrite IH; reflexivity.
Qed.

Lemma latest_some s n : latest s = Some n ->
  (exists c, get s (PMan n) = Some c) /\ forall v c, get s (PMan v) = Some c -> v <= n.
Proof.
  revert n. induction s as [|[q c] r IH]; intros n; cbn [latest fold_right fst]; [discriminate|].
  fold (latest r). destruct q as [f|w|w|t]; cbn [parse_version get path_eqb].
  1,3,4: exact (IH n).
  destruct (latest r) as [a|] eqn:E; intro H; inversion H; subst; clear H.
  - destruct (IH a eq_refl) as [[c0 Hc0] Hmax]. split.
    + destruct (N.eqb_spec w (N.max a w)) as [_|Hne]; [eauto|].
      assert (N.max a w = a) as -> by lia. eauto.
    + intros v' c'. destruct (N.eqb_spec w v') as [->|_]; intro Hg; [lia|]. apply Hmax in Hg. lia.
  - split; [rewrite N.eqb_refl; eauto|].
    intros v' c'. destruct (N.eqb_spec w v') as [->|_]; intro Hg; [lia|].
    pose proof (proj1 (latest_none r) E v') as Hn. congruence.
Qed.

(* latest depends only on which attached manifests exist *)
Lemma latest_ext s s' : (forall v, has s' (PMan v) = has s (PMan v)) -> latest s' = latest s.
Proof.
  intro H.
  destruct (latest s) as [n|] eqn:E, (latest s') as [n'|] eqn:E'; try reflexivity.
  - destruct (latest_some _ _ E) as [[c Hc] Hmax]. destruct (latest_some _ _ E') as [[c' Hc'] Hmax'].
    assert (has s (PMan n') = true) as A by (rewrite <- H; apply has_true; eauto).
    assert (has s' (PMan n) = true) as B by (rewrite H; apply has_true; eauto).
    apply has_true in A as [x Hx]. apply has_true in B as [y Hy].
    apply Hmax in Hx. apply Hmax' in Hy. f_equal; lia.
  - destruct (latest_some _ _ E) as [[c Hc] _].
    pose proof (proj1 (latest_none s') E' n) as Hn.
    assert (has s' (PMan n) = true) as B by (rewrite H; apply has_true; eauto).
    apply has_true in B as [y Hy]. congruence.
  - destruct (latest_some _ _ E') as [[c Hc] _].
    pose proof (proj1 (latest_none s) E n') as Hn.
    assert (has s (PMan n') = true) as B by (rewrite <- H; apply has_true; eauto).
    apply has_true in B as [y Hy]. congruence.
Qed.

(* ---------- fresh file ids ---------- *)
Lemma max_file_ge s n c : get s (PFile n) = Some c -> n <= max_file s.
Proof.
  induction s as [|[q x] r IH]; cbn [get max_file fold_right fst]; [discriminate|].
  fold (max_file r). destruct q as [f|v|v|t]; cbn [path_eqb]; try (intro H; apply IH in H; lia).
  destruct (N.eqb_spec f n) as [->|_]; intro H; [lia | apply IH in H; lia].
Qed.

Lemma seqN_in start len x : In x (seqN start len) <-> start <= x < start + N.of_nat len.
Proof.
  revert start. induction len as [|k IH]; intro start; cbn [seqN In]; [lia|].
  rewrite IH. lia.
Qed.
Lemma seqN_length start len : length (seqN start len) = len.
Proof. revert start; induction len as [|k IH]; intro start; cbn [seqN length]; [reflexivity | rewrite IH; reflexivity]. Qed.

Lemma mask_in {A} (bs : list bool) (l : list A) x : In x (mask bs l) -> In x l.
Proof.
  revert l. induction bs as [|b bs IH]; intros [|y l]; cbn [mask]; try contradiction.
  destruct b; cbn [In]; intro H; [destruct H as [H|H]; [left; exact H | right; apply IH; exact H] | right; apply IH; exact H].
Qed.

(* ---------- well-formed stores ---------- *)
Record WF (s : store) : Prop := {
  (* the attached versions are exactly 1..N, N = latest *)
  wf_dense : forall v, has s (PMan v) = true <-> 1 <= v <= latest0 s;
  (* attached version numbers are outside the detached range, detached ones inside *)
  wf_att : forall v, has s (PMan v) = true -> is_detached v = false;
  wf_det : forall v, has s (PDet v) = true -> is_detached v = true;
  (* every published manifest carries the version of its name and every file it references exists *)
  wf_man : forall p c, is_manifest_path p = true -> get s p = Some c ->
           exists m, c = CMan m /\ m_version m = path_version p /\
                     forall r, In r (m_refs m) -> exists d, get s (PFile r) = Some (CFile d);
  wf_file : forall n c, get s (PFile n) = Some c -> exists d, c = CFile d
}.

(* ---------- stores that differ from s only by fresh files and staging files ---------- *)
Record Frame (s s' : store) : Prop := {
  fr_man : forall p, is_manifest_path p = true -> get s' p = get s p;
  fr_old : forall n, n <= max_file s -> get s' (PFile n) = get s (PFile n);
  fr_file : forall n c, get s' (PFile n) = Some c -> exists d, c = CFile d
}.

Lemma Frame_refl s : WF s -> Frame s s.
Proof. intro W; constructor; auto. exact (wf_file _ W). Qed.

Lemma frame_has_man s s' : Frame s s' -> forall v, has s' (PMan v) = has s (PMan v).
Proof. intros F v; unfold has; rewrite (fr_man _ _ F (PMan v) eq_refl); reflexivity. Qed.

Lemma frame_latest s s' : Frame s s' -> latest s' = latest s.
Proof. intro F; apply latest_ext; apply frame_has_man; exact F. Qed.

(* a file referenced by a published manifest of s keeps its content *)
Lemma frame_ref s s' r d : Frame s s' -> get s (PFile r) = Some (CFile d) -> get s' (PFile r) = Some (CFile d).
Proof. intros F H. rewrite (fr_old _ _ F r); [exact H | eapply max_file_ge; exact H]. Qed.

Lemma frame_visible s s' : WF s -> Frame s s' -> forall v, visible s' v = visible s v.
Proof.
  intros W F v. unfold visible. rewrite (fr_man _ _ F (PMan v) eq_refl).
  destruct (get s (PMan v)) as [[d|m]|] eqn:E; try reflexivity.
  destruct (wf_man _ W (PMan v) _ eq_refl E) as (m' & Hm & _ & Hrefs). inversion Hm; subst m'.
  f_equal. f_equal. apply map_ext_in. intros r Hr. destruct (Hrefs r Hr) as [d Hd].
  rewrite Hd. eapply frame_ref; eauto.
Qed.

Lemma frame_WF s s' : WF s -> Frame s s' -> WF s'.
Proof.
  intros W F. pose proof (frame_latest _ _ F) as HL.
  assert (HL0 : latest0 s' = latest0 s) by (unfold latest0; rewrite HL; reflexivity).
  constructor.
  - intro v. rewrite (frame_has_man _ _ F), HL0. apply (wf_dense _ W).
  - intro v. rewrite (frame_has_man _ _ F). apply (wf_att _ W).
  - intro v. unfold has. rewrite (fr_man _ _ F (PDet v) eq_refl). apply (wf_det _ W).
  - intros p c Hp Hg. rewrite (fr_man _ _ F p Hp) in Hg.
    destruct (wf_man _ W p c Hp Hg) as (m & Hm & Hv & Hrefs). exists m. repeat split; auto.
    intros r Hr. destruct (Hrefs r Hr) as [d Hd]. exists d. eapply frame_ref; eauto.
  - exact (fr_file _ _ F).
Qed.

(* calls that keep a store inside the frame of s: fresh file puts, staging files, probes, lock calls *)
Definition pre_commit_call (s : store) (c : call) : Prop :=
  match c with
  | Put (PFile n) (CFile _) => max_file s < n
  | Put (PTmp _) _ => True
  | Del (PTmp _) => True
  | HeadAbsent _ => True
  | Nop => True
  | _ => False
  end.

Lemma frame_step s s1 c s2 : Frame s s1 -> pre_commit_call s c -> step s1 c = Some s2 -> Frame s s2.
Proof.
  intros F P H. destruct c as [p x|p x|a b|p|a b|p|]; cbn [pre_commit_call step] in *; try contradiction.
  - (* Put *)
    inversion H; subst s2; clear H. destruct p as [n|v|v|t]; try contradiction.
    + destruct x as [d|m]; [|contradiction]. constructor.
      * intros p Hp. rewrite get_put_other; [apply (fr_man _ _ F); exact Hp | destruct p; discriminate].
      * intros k Hk. rewrite get_put_other; [apply (fr_old _ _ F); exact Hk | intro E; inversion E; lia].
      * intros k c. destruct (N.eq_dec n k) as [->|Hne].
        -- rewrite get_put_same. intro E; inversion E; eauto.
        -- rewrite get_put_other by (intro E; inversion E; contradiction). apply (fr_file _ _ F).
    + constructor.
      * intros p Hp. rewrite get_put_other; [apply (fr_man _ _ F); exact Hp | destruct p; discriminate].
      * intros k Hk. rewrite get_put_other by discriminate. apply (fr_old _ _ F); exact Hk.
      * intros k c. rewrite get_put_other by discriminate. apply (fr_file _ _ F).
  - (* Del tmp *)
    inversion H; subst s2; clear H. destruct p as [n|v|v|t]; try contradiction. constructor.
    + intros p Hp. rewrite get_del_other; [apply (fr_man _ _ F); exact Hp | destruct p; discriminate].
    + intros k Hk. rewrite get_del_other by discriminate. apply (fr_old _ _ F); exact Hk.
    + intros k c. rewrite get_del_other by discriminate. apply (fr_file _ _ F).
  - destruct (has s1 p); inversion H; subst; exact F.
  - inversion H; subst; exact F.
Qed.

Lemma frame_exec s l : forall s1, Frame s s1 -> Forall (pre_commit_call s) l -> Frame s (exec l s1).
Proof.
  induction l as [|c r IH]; intros s1 F HP; [exact F|]. cbn [exec].
  inversion HP as [|? ? Hc Hr]; subst.
  destruct (step s1 c) as [s2|] eqn:E; [|exact F]. apply IH; [eapply frame_step; eauto | exact Hr].
Qed.
