(* C10 - ExternalManifestCommitHandler (rust/lance-table/src/io/commit/external_manifest.rs) as small-step
   programs over an object store and an external manifest store, run under an arbitrary interleaving with
   injected faults.  Executable definitions only (proofs are in Proofs_External.v).

   One *event* = one call of one thread to the object store or to the external store.
     `Run t`     the call behaves normally
     `Fail t`    it fails without effect
     `Lost t`    it takes effect but the caller sees an error (lost reply)
     `Stale t k` an external-store READ (get / get_latest_version) answers from the state the external store
                 had after its first k writes (eventually consistent read); any other call behaves normally
   A thread that is never scheduled again has crashed.

   commit (writer t, version v)                                   pc
     manifest_writer(staging_t)            `?`                     W0
     ext.put_if_not_exists(v, staging_t)   any error -> conflict   W1
     [on error] delete(staging_t); return CommitConflict           W1c
     finalize_manifest(staging_t)                                  F0 t ..
   finalize_manifest (staging file of writer o; shared by writers and readers)
     copy(staging_o -> final v)   NotFound => "someone else copied"    F0 o
     head(final v)                only if !copied || size >= 5 MiB      F1 o copied
     [!copied] return Ok
     ext.put_if_exists(v, final)  `?`                                   F2 o
     delete(staging_o)            NotFound ignored                      F3 o
   resolve_version_location (reader, version v)
     ext.get(v)     Final => return; Staging o => R1; NotFound => D0    R0
     head(staging_o)   (the entry carries no size)  `?`                 R1 o   then F0 o
     default_resolve_version: head(V2 path of v)  any error -> NotFound D0
     head(path)                                                         D1 b   (b: the V1 path)
     ext.put_if_not_exists(v, path)  errors ignored; return Ok          DP b
   resolve_latest_location (reader)
     ext.get_latest_version()   None => LL; Final => return; Staging o => R1 o (then as above)   L0
     current_manifest_path: list(_versions)                                                      LL
*)
From LanceV Require Import Common.Base.
Local Open Scope N_scope.

Inductive key := KFinal (v : N) | KTmp (t : N).
Definition key_eqb (a b : key) : bool :=
  match a, b with
  | KFinal x, KFinal y => N.eqb x y
  | KTmp x, KTmp y => N.eqb x y
  | _, _ => false
  end.

(* what a path holds: something published before the run, or the manifest written by writer t *)
Inductive content := Pre (c : N) | By (t : N).

(* what the external store holds for a version: the staging file of writer o, or the final path *)
Inductive entry := EStaging (o : N) | EFinal.

Definition store := key -> option content.
Definition upd (s : store) (k : key) (c : content) : store := fun k' => if key_eqb k k' then Some c else s k'.
Definition del (s : store) (k : key) : store := fun k' => if key_eqb k k' then None else s k'.

Definition eset {A} (f : N -> option A) (v : N) (a : A) : N -> option A := fun v' => if N.eqb v v' then Some a else f v'.

Inductive role := Writer | Reader | LReader.
Inductive result := ROk | RConflict | RNotFound | ROther.
Inductive pc :=
  | W0 | W1 | W1c
  | F0 (o : N) | F1 (o : N) (copied : bool) | F2 (o : N) | F3 (o : N)
  | R0 | R1 (o : N) | D0 | D1 (b : bool) | DP (b : bool)
  | L0 | LL
  | Done (r : result).

(* `big`: the manifest this writer stages is >= 5 MiB (finalize_manifest then re-reads the e_tag) *)
Record tstate := { rl : role; ver : N; big : bool; tpc : pc }.

(* `ext`: the external store; `hist`: the log of its successful writes, newest first (what an eventually
   consistent read may still see); `win`: ghost, the writer whose put_if_not_exists created the entry;
   `v1`: the table uses the V1 manifest naming scheme (then `KFinal v` is the V1 path of v) *)
Record state := {
  sto : store;
  ext : N -> option entry;
  hist : list (N * entry);
  win : N -> option N;
  v1 : bool;
  thr : N -> tstate
}.

Inductive mode := Normal | FailNoEffect | LostReply | StaleRead (k : N).
Inductive event := Run (t : N) | Fail (t : N) | Lost (t : N) | Stale (t k : N).
Definition ev_tid (e : event) : N := match e with Run t | Fail t | Lost t | Stale t _ => t end.
Definition ev_mode (e : event) : mode :=
  match e with Run _ => Normal | Fail _ => FailNoEffect | Lost _ => LostReply | Stale _ k => StaleRead k end.

Definition set_thr (s : state) (t : N) (vr : N) (p : pc) : N -> tstate :=
  fun x => if N.eqb x t then {| rl := rl (thr s x); ver := vr; big := big (thr s x); tpc := p |} else thr s x.

(* thread t moves to pc p; store / external store / log / ghost become st / ex / hs / wn *)
Definition mk (s : state) (st : store) (ex : N -> option entry) (hs : list (N * entry)) (wn : N -> option N)
              (t : N) (p : pc) : state :=
  {| sto := st; ext := ex; hist := hs; win := wn; v1 := v1 s; thr := set_thr s t (ver (thr s t)) p |}.

(* thread t (a resolve_latest reader) learns its version *)
Definition mkv (s : state) (t : N) (vr : N) (p : pc) : state :=
  {| sto := sto s; ext := ext s; hist := hist s; win := win s; v1 := v1 s; thr := set_thr s t vr p |}.

Definition is_none {A} (o : option A) : bool := match o with None => true | Some _ => false end.

(* --- eventually consistent reads: the external store after its first k writes --- *)
Definition hist_at (k : N) (h : list (N * entry)) : list (N * entry) := skipn (length h - N.to_nat k) h.
Fixpoint lookup (v : N) (h : list (N * entry)) : option entry :=
  match h with [] => None | (v', e) :: r => if N.eqb v' v then Some e else lookup v r end.
(* greatest version in the log, with its newest entry *)
Fixpoint latest (h : list (N * entry)) : option (N * entry) :=
  match h with
  | [] => None
  | (v, e) :: r =>
      match latest r with
      | None => Some (v, e)
      | Some (v', e') => if N.ltb v v' then Some (v', e') else Some (v, e)   (* same version: the newer entry wins *)
      end
  end.
(* greatest version among `cands` whose final path exists (current_manifest_path; the harness lists a
   store whose versions lie in `cands`) *)
Fixpoint latest_final (st : store) (cands : list N) : option N :=
  match cands with
  | [] => None
  | v :: r =>
      match latest_final st r with
      | Some v' => if is_none (st (KFinal v)) then Some v' else if N.ltb v v' then Some v' else Some v
      | None => if is_none (st (KFinal v)) then None else Some v
      end
  end.
(* the versions a listing can show: finals are only ever created for versions of threads or pre-existing ones;
   the model takes the candidate list from the log of versions that ever held a final: we keep it simple and
   let the state carry no such list - `LL` scans the versions 0 .. 63 (the harness keeps all versions < 64) *)
Definition scan_versions : list N := map N.of_nat (seq 0 64).

(* one call of thread t *)
Definition step (s : state) (e : event) : state :=
  let t := ev_tid e in
  let m := ev_mode e in
  let ts := thr s t in
  let v := ver ts in
  let fin := KFinal v in
  let same := fun p => mk s (sto s) (ext s) (hist s) (win s) t p in
  match tpc ts with
  | Done _ => s
  (* ---- commit ---- *)
  | W0 =>   (* manifest_writer(object_store, manifest, indices, &staging_path, transaction).await? *)
      match m with
      | FailNoEffect => same (Done ROther)
      | LostReply => mk s (upd (sto s) (KTmp t) (By t)) (ext s) (hist s) (win s) t (Done ROther)
      | _ => mk s (upd (sto s) (KTmp t) (By t)) (ext s) (hist s) (win s) t W1
      end
  | W1 =>   (* put_if_not_exists(base, version, staging, ..).await.map_err(|_| CommitConflict) *)
      match m with
      | FailNoEffect => same W1c
      | _ => if is_none (ext s v)
             then mk s (sto s) (eset (ext s) v (EStaging t)) ((v, EStaging t) :: hist s) (eset (win s) v t) t
                       (match m with LostReply => W1c | _ => F0 t end)
             else same W1c
      end
  | W1c =>  (* delete(staging): Ok | NotFound => Err(CommitConflict); Err(e) => OtherError *)
      match m with
      | FailNoEffect => same (Done ROther)
      | LostReply => mk s (del (sto s) (KTmp t)) (ext s) (hist s) (win s) t (Done ROther)
      | _ => mk s (del (sto s) (KTmp t)) (ext s) (hist s) (win s) t (Done RConflict)
      end
  (* ---- finalize_manifest ---- *)
  | F0 o => (* store.copy(staging, final): Ok => copied; NotFound => !copied; Err(e) => return Err *)
      match m with
      | FailNoEffect => same (Done ROther)
      | _ =>
          match sto s (KTmp o) with
          | None => match m with LostReply => same (Done ROther) | _ => same (F1 o false) end
          | Some c => mk s (upd (sto s) fin c) (ext s) (hist s) (win s) t
                         (match m with LostReply => Done ROther | _ => if big (thr s o) then F1 o true else F2 o end)
          end
      end
  | F1 o copied => (* store.head(final).await? *)
      match m with
      | FailNoEffect | LostReply => same (Done ROther)
      | _ => if is_none (sto s fin) then same (Done RNotFound)
             else if copied then same (F2 o) else same (Done ROk)
      end
  | F2 o => (* put_if_exists(base, version, final, ..).await? *)
      match m with
      | FailNoEffect => same (Done ROther)
      | _ => if is_none (ext s v) then same (Done ROther)
             else mk s (sto s) (eset (ext s) v EFinal) ((v, EFinal) :: hist s) (win s) t
                       (match m with LostReply => Done ROther | _ => F3 o end)
      end
  | F3 o => (* store.delete(staging): Ok | NotFound => Ok(location); Err(e) => Err *)
      match m with
      | FailNoEffect => same (Done ROther)
      | LostReply => mk s (del (sto s) (KTmp o)) (ext s) (hist s) (win s) t (Done ROther)
      | _ => mk s (del (sto s) (KTmp o)) (ext s) (hist s) (win s) t (Done ROk)
      end
  (* ---- resolve_version_location ---- *)
  | R0 =>   (* get_manifest_location(base, version) *)
      match m with
      | FailNoEffect | LostReply => same (Done ROther)
      | _ =>
          let rd := match m with StaleRead k => lookup v (hist_at k (hist s)) | _ => ext s v end in
          match rd with
          | Some EFinal => same (Done ROk)
          | Some (EStaging o) => same (R1 o)
          | None => same D0
          end
      end
  | R1 o => (* object_store.head(staging).await? *)
      match m with
      | FailNoEffect | LostReply => same (Done ROther)
      | _ => if is_none (sto s (KTmp o)) then same (Done RNotFound) else same (F0 o)
      end
  | D0 =>   (* default_resolve_version: head(V2 path); Ok => that path; NotFound => the V1 path; Err => (map_err) NotFound *)
      match m with
      | FailNoEffect | LostReply => same (Done RNotFound)
      | _ => if v1 s then same (D1 true)
             else if is_none (sto s fin) then same (D1 true) else same (D1 false)
      end
  | D1 b => (* object_store.head(path): Ok => DP; NotFound => Err(NotFound); Err(e) => Err *)
      match m with
      | FailNoEffect | LostReply => same (Done ROther)
      | _ => if Bool.eqb b (v1 s) && negb (is_none (sto s fin)) then same (DP b) else same (Done RNotFound)
      end
  | DP b => (* put_if_not_exists(base, version, path, ..): error only logged; return Ok *)
      match m with
      | FailNoEffect => same (Done ROk)
      | _ => if is_none (ext s v)
             then mk s (sto s) (eset (ext s) v EFinal) ((v, EFinal) :: hist s) (win s) t (Done ROk)
             else same (Done ROk)
      end
  (* ---- resolve_latest_location ---- *)
  | L0 =>   (* get_latest_manifest_location(base).await? *)
      match m with
      | FailNoEffect | LostReply => same (Done ROther)
      | _ =>
          let h := match m with StaleRead k => hist_at k (hist s) | _ => hist s end in
          match latest h with
          | Some (v', EFinal) => mkv s t v' (Done ROk)
          | Some (v', EStaging o) => mkv s t v' (R1 o)
          | None => same LL
          end
      end
  | LL =>   (* current_manifest_path: list the versions directory *)
      match m with
      | FailNoEffect | LostReply => same (Done ROther)
      | _ => match latest_final (sto s) scan_versions with
             | Some v' => mkv s t v' (Done ROk)
             | None => same (Done RNotFound)
             end
      end
  end.

Definition run (evs : list event) (s : state) : state := fold_left step evs s.

(* the class of runs outside the theorems (finding F13): a lost reply hits a writer's put_if_not_exists
   that took effect *)
Definition hits_ack_lost (s : state) (e : event) : bool :=
  match e with
  | Lost t => match tpc (thr s t) with W1 => is_none (ext s (ver (thr s t))) | _ => false end
  | _ => false
  end.
Fixpoint Known_C10_ack_lost_put_if_not_exists (evs : list event) (s : state) : bool :=
  match evs with
  | [] => false
  | e :: r => hits_ack_lost s e || Known_C10_ack_lost_put_if_not_exists r (step s e)
  end.

(* initial state: store `st0` without staging files, external store `ex0` (entries of already on-boarded
   versions), every thread at the first pc of its role *)
Definition first_pc (r : role) : pc := match r with Writer => W0 | Reader => R0 | LReader => L0 end.
Definition init (st0 : store) (ex0 : list N) (scheme_v1 : bool) (roles : N -> role) (vers : N -> N) (bigs : N -> bool) : state :=
  {| sto := st0;
     ext := fun v => if existsb (N.eqb v) ex0 then Some EFinal else None;
     hist := map (fun v => (v, EFinal)) ex0;
     win := fun _ => None;
     v1 := scheme_v1;
     thr := fun t => {| rl := roles t; ver := vers t; big := bigs t; tpc := first_pc (roles t) |} |}.

(* ---------- correspondence: a finite description of a run, evaluated by vm_compute ---------- *)
Definition role_of_code (c : N) : role := match c with 0 => Writer | 1 => Reader | _ => LReader end.
Definition event_of_code (c : N * N) : event :=
  match fst c with 0 => Run (snd c) | 1 => Fail (snd c) | 2 => Lost (snd c) | k => Stale (snd c) (k - 3) end.
Definition result_code (p : pc) : N :=
  match p with Done ROk => 0 | Done RConflict => 1 | Done ROther => 2 | Done RNotFound => 3 | _ => 9 (* not finished *) end.
Definition content_code (o : option content) : N :=
  match o with None => 0 | Some (Pre _) => 1 | Some (By t) => 2 + t end.
Definition entry_code (o : option entry) : N :=
  match o with None => 0 | Some EFinal => 1 | Some (EStaging o) => 2 + o end.

(* the call a thread is about to make: (operation, target)
     operation 0 put  1 ext.put_if_not_exists  2 delete  3 copy  4 head  5 ext.put_if_exists  6 ext.get
               7 ext.get_latest_version  8 list
     target    0 none  1 the V2 final path of the thread's version  2 its V1 final path  10+o staging file of
               writer o; for copy 1000 * destination + source *)
Definition fin_code (s : state) : N := if v1 s then 2 else 1.
Definition call_code (s : state) (t : N) : N * N :=
  match tpc (thr s t) with
  | W0 => (0, 10 + t) | W1 => (1, 10 + t) | W1c => (2, 10 + t)
  | F0 o => (3, 1000 * fin_code s + (10 + o)) | F1 _ _ => (4, fin_code s) | F2 _ => (5, fin_code s) | F3 o => (2, 10 + o)
  | R0 => (6, 0) | R1 o => (4, 10 + o) | D0 => (4, 1) | D1 b => (4, if b then 2 else 1) | DP b => (1, if b then 2 else 1)
  | L0 => (7, 0) | LL => (8, 0)
  | Done _ => (99, 0)
  end.
Fixpoint trace (evs : list event) (s : state) : list (N * N) :=
  match evs with [] => [] | e :: r => call_code s (ev_tid e) :: trace r (step s e) end.

Fixpoint assoc {A} (l : list (N * A)) (k : N) (d : A) : A :=
  match l with [] => d | (a, b) :: r => if N.eqb a k then b else assoc r k d end.

(* input: threads as (tid, ((role code, version), big)); pre-existing versions as (version, on-boarded 0/1);
   naming scheme (1 = V1); events as (mode code, tid); versions to probe.
   output of the implementation: trace of calls; per thread (result code, version) in the order of the thread
   list; contents code of the final path and external entry code of every probed version; ids of writers with a
   leftover staging file. *)
Definition run_case (threads : list (N * ((N * N) * N))) (pre : list (N * N)) (scheme : N) : state :=
  let roles := fun t => role_of_code (fst (fst (assoc threads t ((1, 0), 0)))) in
  let vers := fun t => snd (fst (assoc threads t ((1, 0), 0))) in
  let bigs := fun t => negb (N.eqb (snd (assoc threads t ((1, 0), 0))) 0) in
  let st0 : store := fun k => match k with KFinal v => if existsb (fun p => N.eqb v (fst p)) pre then Some (Pre v) else None | KTmp _ => None end in
  let ex0 := map fst (filter (fun p => negb (N.eqb (snd p) 0)) pre) in
  init st0 ex0 (negb (N.eqb scheme 0)) roles vers bigs.

Definition chk_obs (i : ((list (N * ((N * N) * N)) * list (N * N)) * N) * (list (N * N) * list N))
                   (o : (list (N * N) * list (N * N)) * ((list N * list N) * list N)) : bool :=
  let '(((threads, pre), scheme), (evs, probe)) := i in
  let s0 := run_case threads pre scheme in
  let es := map event_of_code evs in
  let s := run es s0 in
  list_eqb (pair_eqb N.eqb N.eqb) (trace es s0) (fst (fst o))
  && list_eqb (pair_eqb N.eqb N.eqb) (map (fun w => (result_code (tpc (thr s (fst w))), ver (thr s (fst w)))) threads) (snd (fst o))
  && list_eqb N.eqb (map (fun v => content_code (sto s (KFinal v))) probe) (fst (fst (snd o)))
  && list_eqb N.eqb (map (fun v => entry_code (ext s v)) probe) (snd (fst (snd o)))
  && list_eqb N.eqb (map fst (filter (fun w => negb (is_none (sto s (KTmp (fst w))))) threads)) (snd (snd o)).

(* is the recorded run in the known-finding class? (the harness decides the same thing from the gated store) *)
Definition chk_class (i : ((list (N * ((N * N) * N)) * list (N * N)) * N) * (list (N * N) * list N)) (o : bool) : bool :=
  let '(((threads, pre), scheme), (evs, _)) := i in
  Bool.eqb (Known_C10_ack_lost_put_if_not_exists (map event_of_code evs) (run_case threads pre scheme)) o.

(* one recorded run: (in the known class?, observations) *)
Definition chk_run (i : ((list (N * ((N * N) * N)) * list (N * N)) * N) * (list (N * N) * list N))
                   (o : bool * ((list (N * N) * list (N * N)) * ((list N * list N) * list N))) : bool :=
  chk_class i (fst o) && chk_obs i (snd o).
