(* C38 - proofs about the session-cache model (Store/Model_Cache.v). *)
From LanceV Require Import Common.Base Store.Model_History Store.Proofs_History Store.Model_Cache.
Local Open Scope N_scope.

(* ---------- generic: if the key determines the value the store holds, every execution is transparent ---------- *)
Section Generic.
  Variables (K V : Type) (keqb : K -> K -> bool).
  Hypothesis keqb_true : forall a b, keqb a b = true -> a = b.

  (* (H): along the request list, the key determines the stored object *)
  Definition functional (rs : list (request K V)) : Prop :=
    forall k l1 l2 i1 i2, In (i1, (k, l1)) rs -> In (i2, (k, l2)) rs -> l1 = l2.

  Definition coh (c : cache K V) (rs : list (request K V)) : Prop :=
    forall k v i l, cget keqb c k = Some v -> In (i, (k, l)) rs -> v = l.

  Lemma functional_tail r rs : functional (r :: rs) -> functional rs.
  Proof. intros F k l1 l2 i1 i2 A B. eapply F; right; eassumption. Qed.

  Lemma coh_put c k l i rs : functional ((i, (k, l)) :: rs) -> coh c ((i, (k, l)) :: rs) -> coh (cput c k l) rs.
  Proof.
    intros F C k' v i' l' G Hin. unfold cput in G. cbn [cget] in G. destruct (keqb k k') eqn:E.
    - apply keqb_true in E. subst k'. inversion G; subst v. eapply F; [left; reflexivity | right; exact Hin].
    - eapply C; [exact G | right; exact Hin].
  Qed.

  Lemma exec_transparent c rs outs : exec keqb c rs outs -> functional rs -> coh c rs -> outs = map (fun r => snd (snd r)) rs.
  Proof.
    intro E. induction E as [c | c c' rs outs S E IH | c k l rs outs E IH | c k l rs outs E IH]; intros F C.
    - reflexivity.
    - apply IH; [exact F|]. intros k v i l G Hin. eapply C; [apply S; exact G | exact Hin].
    - cbn [map snd]. unfold get_or_load in *. destruct (cget keqb c k) as [v|] eqn:G; cbn [fst snd] in *.
      + f_equal; [eapply C; [exact G | left; reflexivity]|]. apply IH; [eapply functional_tail; exact F|].
        intros k' v' i' l' G' Hin. eapply C; [exact G' | right; exact Hin].
      + f_equal. apply IH; [eapply functional_tail; exact F | eapply coh_put; eassumption].
    - cbn [map snd]. f_equal. apply IH; [eapply functional_tail; exact F | eapply coh_put; eassumption].
  Qed.

  Lemma coh_empty rs : coh [] rs.
  Proof. intros k v i l G. discriminate. Qed.
End Generic.

Lemma ckey_eqb_true a b : ckey_eqb a b = true -> a = b.
Proof.
  destruct a, b; cbn [ckey_eqb]; intro H; try discriminate;
    repeat (apply andb_true_iff in H; destruct H as [H ?]); repeat match goal with E : N.eqb _ _ = true |- _ => apply N.eqb_eq in E end;
    subst; try reflexivity.
  destruct etag as [e|], etag0 as [e0|]; cbn [option_eqb] in *; try discriminate; try reflexivity.
  match goal with E : N.eqb _ _ = true |- _ => apply N.eqb_eq in E end. subst. reflexivity.
Qed.

(* ---------- the store side: what a key stands for does not change (C06) ---------- *)
Section Session.
  Variable oracle : store -> N.
  Hypothesis oracle_fresh : forall s, unused (oracle s) s.
  Variable etag : manifest -> N.

  Lemma create_ext u blobs meta s : ext s (create oracle u blobs meta s).
  Proof.
    unfold create. destruct (put_fresh oracle u RData blobs s) as [s1 ns] eqn:E.
    eapply ext_trans; [eapply put_fresh_ext; [exact oracle_fresh| |exact E] | apply commit_ext; exact oracle_fresh].
    intro n. left. reflexivity.
  Qed.

  Definition ok_event (e : event) : bool := negb (is_cleanup_ev e) && negb (is_drop_ev e).

  (* an event at ANY uri r leaves every published manifest of uri u and everything it references unchanged *)
  Lemma event_frame r s e u v m : ok_event e = true ->
    get s (u, RManifest v) = Some (CMan m) ->
    get (apply_event oracle r s e) (u, RManifest v) = Some (CMan m)
    /\ (forall k, In (Some k) (man_keys u m) -> get (apply_event oracle r s e) k = get s k).
  Proof.
    intros Ok G.
    assert (EXT : forall s', ext s s' -> get s' (u, RManifest v) = Some (CMan m) /\ (forall k, In (Some k) (man_keys u m) -> get s' k = get s k)).
    { intros s' [_ E]. split.
      - rewrite E; [exact G|]. left. exists (CMan m). apply get_In. exact G.
      - intros k Hk. apply E. right. exists (u, RManifest v), m. split; [apply get_In; exact G | exact Hk]. }
    destruct e as [o| |blobs meta|ins q]; cbn [apply_event].
    - destruct (is_commit_op o) eqn:Ho.
      + apply EXT. apply step_commit_ext; assumption.
      + destruct o; try discriminate Ho; try discriminate Ok.
        * unfold step. destruct (open r v0 s); [|split; [exact G | reflexivity]]. split.
          -- rewrite get_put_neq by discriminate. exact G.
          -- intros k Hk. apply get_put_neq. intro E. subst. apply man_keys_rel in Hk as [_ [Hk _]]. discriminate.
        * unfold step. split.
          -- rewrite get_del_neq by discriminate. exact G.
          -- intros k Hk. apply get_del_neq. intro E. subst. apply man_keys_rel in Hk as [_ [Hk _]]. discriminate.
    - discriminate Ok.
    - apply EXT. apply create_ext.
    - split; [exact G | reflexivity].
  Qed.

  (* a present non-tag object stays what it is *)
  Lemma event_keeps r s e k c : ok_event e = true -> is_tag (snd k) = false ->
    get s k = Some c -> get (apply_event oracle r s e) k = Some c.
  Proof.
    intros Ok NT G.
    assert (EXT : forall s', ext s s' -> get s' k = Some c).
    { intros s' [_ E]. rewrite E; [exact G|]. left. exists c. apply get_In. exact G. }
    destruct e as [o| |blobs meta|ins q]; cbn [apply_event].
    - destruct (is_commit_op o) eqn:Ho.
      + apply EXT. apply step_commit_ext; assumption.
      + destruct o; try discriminate Ho; try discriminate Ok.
        * unfold step. destruct (open r v s); [|exact G]. rewrite get_put_neq; [exact G|]. intro E. subst. discriminate.
        * unfold step. rewrite get_del_neq; [exact G|]. intro E. subst. discriminate.
    - discriminate Ok.
    - apply EXT. apply create_ext.
    - exact G.
  Qed.

  Lemma open_get (u : root) v s m : open u v s = Some m <-> get s (u, RManifest v) = Some (CMan m).
  Proof. unfold open. destruct (get s _) as [[m0| |]|]; split; intro H; inversion H; subst; reflexivity. Qed.

  Lemma snapshot_stable r s e u v w : ok_event e = true ->
    snapshot u v s = Some w -> snapshot u v (apply_event oracle r s e) = Some w.
  Proof.
    intros Ok H. assert (H' := H). unfold snapshot, open in H'.
    destruct (get s (u, RManifest v)) as [[m| |]|] eqn:G; try discriminate H'.
    destruct (event_frame r s e u v m Ok G) as [G' F]. rewrite <- H. eapply snapshot_frame; eassumption.
  Qed.

  (* what the store holds for a key (keys other than the fragment-keyed one) *)
  Definition value_of (k : ckey) (s : store) : option cval :=
    match k with
    | KManifest u v (Some e) => match open u v s with Some m => if N.eqb (etag m) e then Some (VMan m) else None | None => None end
    | KManifest _ _ None => None
    | KTxn u v => match snapshot u v s with Some (_, _, _, _, tx) => Some (VTxn tx) | None => None end
    | KIndexMeta u v => match snapshot u v s with Some (_, _, _, ix, _) => Some (VIdx ix) | None => None end
    | KRowIdMask u v => match snapshot u v s with Some (_, _, fs, _, _) => Some (VFrags fs) | None => None end
    | KRowIdIndex u v => match snapshot u v s with Some (_, _, fs, _, _) => Some (VFrags fs) | None => None end
    | KDeletion u f rv id => match get s (u, RDel f rv id) with Some c => Some (VDel c) | None => None end
    | KRowIdSeq _ _ => None
    end.

  Lemma request_value u s q k val : request_of etag u s q = Some (k, val) -> is_seq_key k = false -> value_of k s = Some val.
  Proof.
    intros H NS. destruct q; cbn [request_of] in H.
    - destruct (open u v s) as [m|] eqn:E; [|discriminate]. inversion H; subst. cbn [value_of]. rewrite E, N.eqb_refl. reflexivity.
    - destruct (snapshot u v s) as [[[[[a b] c] d] tx]|] eqn:E; [|discriminate]. inversion H; subst. cbn [value_of]. rewrite E. reflexivity.
    - destruct (snapshot u v s) as [[[[[a b] c] d] tx]|] eqn:E; [|discriminate]. inversion H; subst. cbn [value_of]. rewrite E. reflexivity.
    - destruct (snapshot u v s) as [[[[[a b] c] d] tx]|] eqn:E; [|discriminate]. inversion H; subst. cbn [value_of]. rewrite E. reflexivity.
    - destruct (snapshot u v s) as [[[[[a b] c] d] tx]|] eqn:E; [|discriminate]. inversion H; subst. cbn [value_of]. rewrite E. reflexivity.
    - destruct (open u v s) as [m|]; [|discriminate]. destruct (find_frag m f) as [fr|]; [|discriminate].
      destruct (f_del fr) as [d|]; [|discriminate]. destruct (dr_base d); [discriminate|].
      destruct (get s (u, RDel f (dr_rv d) (dr_id d))) as [c|] eqn:E; [|discriminate]. inversion H; subst. cbn [value_of]. rewrite E. reflexivity.
    - destruct (open u v s) as [m|]; [|discriminate]. destruct (find_frag m f); [|discriminate]. inversion H; subst. discriminate NS.
  Qed.

  Lemma value_stable r s e k val : ok_event e = true -> value_of k s = Some val -> value_of k (apply_event oracle r s e) = Some val.
  Proof.
    intros Ok H. destruct k as [u v [e0|]|u v|u v|u f rv id|u v|u v|u f]; cbn [value_of] in *; try discriminate H.
    - destruct (open u v s) as [m|] eqn:E; [|discriminate H]. apply open_get in E.
      destruct (event_frame r s e u v m Ok E) as [G' _]. apply open_get in G'. rewrite G'. exact H.
    - destruct (snapshot u v s) as [w|] eqn:E; [|discriminate H]. rewrite (snapshot_stable r s e u v w Ok E). exact H.
    - destruct (snapshot u v s) as [w|] eqn:E; [|discriminate H]. rewrite (snapshot_stable r s e u v w Ok E). exact H.
    - destruct (get s (u, RDel f rv id)) as [c|] eqn:G; [|discriminate H].
      rewrite (event_keeps r s e (u, RDel f rv id) c Ok eq_refl G). exact H.
    - destruct (snapshot u v s) as [w|] eqn:E; [|discriminate H]. rewrite (snapshot_stable r s e u v w Ok E). exact H.
    - destruct (snapshot u v s) as [w|] eqn:E; [|discriminate H]. rewrite (snapshot_stable r s e u v w Ok E). exact H.
  Qed.

  Definition ok_trace (tr : list (N * event)) : Prop := Forall (fun e => ok_event (snd e) = true) tr.

  (* every later request with the same key carries the value the key stands for now *)
  Lemma later_requests tr : ok_trace tr -> forall s k val, value_of k s = Some val ->
    forall i val', In (i, (k, val')) (requests oracle etag s tr) -> is_seq_key k = false -> val' = val.
  Proof.
    induction tr as [|[u e] t IH]; intros Ok s k val Hv i val' Hin NS; [destruct Hin|].
    inversion Ok as [|? ? Oe Ot]; subst. cbn [snd] in Oe.
    destruct e as [o| |blobs meta|ins q]; cbn [requests] in Hin.
    - eapply IH; [exact Ot | apply (value_stable u s (EOp o)); eassumption | exact Hin | exact NS].
    - discriminate Oe.
    - eapply IH; [exact Ot | apply (value_stable u s (ECreate blobs meta)); eassumption | exact Hin | exact NS].
    - destruct (request_of etag u s q) as [[k0 v0]|] eqn:E.
      + destruct Hin as [Hin|Hin].
        * inversion Hin; subst. apply request_value in E; [|exact NS]. rewrite E in Hv. inversion Hv. reflexivity.
        * eapply IH; eassumption.
      + eapply IH; eassumption.
  Qed.

  Lemma requests_origin tr : forall s i r, In (i, r) (requests oracle etag s tr) -> exists s' u q, request_of etag u s' q = Some r.
  Proof.
    induction tr as [|[u e] t IH]; intros s i r Hin; [destruct Hin|].
    destruct e as [o| |blobs meta|ins q]; cbn [requests] in Hin; try (eapply IH; exact Hin).
    destruct (request_of etag u s q) as [r0|] eqn:E; [|eapply IH; exact Hin].
    destruct Hin as [Hin|Hin]; [inversion Hin; subst; exists s, u, q; exact E | eapply IH; exact Hin].
  Qed.

  Lemma request_seq u s q k val : request_of etag u s q = Some (k, val) -> is_seq_key k = true -> exists u' f a, k = KRowIdSeq u' f /\ val = VSeq a.
  Proof.
    intros H S. destruct q; cbn [request_of] in H;
      repeat match type of H with
             | match ?x with _ => _ end = _ => destruct x eqn:?; try discriminate H
             end; inversion H; subst; try discriminate S.
    eexists _, _, _. split; reflexivity.
  Qed.

  Lemma seq_conflict_false rs : seq_conflict rs = false ->
    forall i1 i2 u f a b, In (i1, (KRowIdSeq u f, VSeq a)) rs -> In (i2, (KRowIdSeq u f, VSeq b)) rs -> a = b.
  Proof.
    intros H i1 i2 u f a b A B. unfold seq_conflict in H.
    destruct (N.eqb a b) eqn:E; [apply N.eqb_eq in E; exact E|]. exfalso.
    assert (X : existsb (fun r1 => existsb (fun r2 =>
      match snd r1, snd r2 with
      | (KRowIdSeq u f, VSeq a), (KRowIdSeq u' f', VSeq b) => N.eqb u u' && N.eqb f f' && negb (N.eqb a b)
      | _, _ => false end) rs) rs = true).
    { apply existsb_exists. exists (i1, (KRowIdSeq u f, VSeq a)). split; [exact A|]. apply existsb_exists.
      exists (i2, (KRowIdSeq u f, VSeq b)). split; [exact B|]. cbn [snd]. rewrite !N.eqb_refl, E. reflexivity. }
    rewrite X in H. discriminate.
  Qed.

  (* (H) discharged: without cleanup and without removing a table directory every key other than the fragment-keyed
     one determines the stored object - from immutability (C06); the fragment-keyed one does outside its class *)
  Lemma requests_functional tr : ok_trace tr -> forall s,
    seq_conflict (requests oracle etag s tr) = false -> functional ckey cval (requests oracle etag s tr).
  Proof.
    intros Ok s SC k l1 l2 i1 i2 A B. destruct (is_seq_key k) eqn:S.
    - destruct (requests_origin tr s i1 _ A) as [s1 [u1 [q1 R1]]]. destruct (requests_origin tr s i2 _ B) as [s2 [u2 [q2 R2]]].
      destruct (request_seq _ _ _ _ _ R1 S) as [u [f [a [-> ->]]]]. destruct (request_seq _ _ _ _ _ R2 S) as [u' [f' [b [E ->]]]].
      inversion E; subst. f_equal. eapply seq_conflict_false; eassumption.
    - clear SC. revert s A B. induction tr as [|[u e] t IH]; intros s A B; [destruct A|].
      inversion Ok as [|? ? Oe Ot]; subst. cbn [snd] in Oe.
      destruct e as [o| |blobs meta|ins q]; cbn [requests] in A, B; try (eapply IH; eassumption).
      destruct (request_of etag u s q) as [[k0 v0]|] eqn:E; [|eapply IH; eassumption].
      destruct A as [A|A], B as [B|B].
      + inversion A; inversion B; subst. reflexivity.
      + inversion A; subst. apply request_value in E; [|exact S]. symmetry. eapply later_requests; eassumption.
      + inversion B; subst. apply request_value in E; [|exact S]. eapply later_requests; eassumption.
      + eapply IH; eassumption.
  Qed.

  Lemma ok_trace_of tr : no_cleanup tr = true -> Known_C38_version_keyed_cache_across_recreate tr = false -> ok_trace tr.
  Proof.
    unfold no_cleanup, Known_C38_version_keyed_cache_across_recreate, ok_trace. intros A B. apply Forall_forall. intros e He.
    rewrite forallb_forall in A. specialize (A e He). unfold ok_event. rewrite A. cbn [andb].
    destruct (is_drop_ev (snd e)) eqn:D; [|reflexivity]. exfalso.
    assert (X : existsb (fun e => is_drop_ev (snd e)) tr = true) by (apply existsb_exists; exists e; split; assumption).
    rewrite X in B. discriminate.
  Qed.

  (* C38: every answer of every execution (any eviction, any capacity) is what the store holds at that time *)
  Lemma session_transparent tr s outs :
    no_cleanup tr = true -> Known_C38_version_keyed_cache_across_recreate tr = false ->
    Known_C38_fragment_keyed_cache_across_overwrite oracle etag s tr = false ->
    exec ckey_eqb [] (requests oracle etag s tr) outs ->
    outs = map (fun r => snd (snd r)) (requests oracle etag s tr).
  Proof.
    intros NC ND NO E. eapply exec_transparent; [exact ckey_eqb_true | exact E | | apply coh_empty].
    apply requests_functional; [apply ok_trace_of; assumption | exact NO].
  Qed.
End Session.

(* the execution that never evicts is one of the executions *)
Lemma run_cache_exec {K V} (keqb : K -> K -> bool) (rs : list (request K V)) : forall c, exec keqb c rs (run_cache keqb c rs).
Proof.
  induction rs as [|[[|] [k l]] t IH]; intro c; cbn [run_cache].
  - constructor.
  - apply exec_insert. apply IH.
  - apply exec_get. apply IH.
Qed.

Definition etag0 (m : manifest) : N := m_version m * 1000 + m_meta m.

(* B2 in the model: version 1 (fragment 0 = sequence 10) is read, an Overwrite restarts fragment ids at 0
   (fragment 0 = sequence 20), version 2 and again version 1 are read through the same cache without any eviction *)
Definition tr_overwrite : list (N * event) :=
  [(1, ECreate [10; 11] 5); (1, ERead false (QRowIdSeq 1 0)); (1, EOp (OOverwrite [20] 6));
   (1, ERead false (QRowIdSeq 2 0)); (1, ERead false (QRowIdSeq 1 0))].

Lemma overwrite_witness :
  no_cleanup tr_overwrite = true /\ Known_C38_version_keyed_cache_across_recreate tr_overwrite = false /\
  Known_C38_fragment_keyed_cache_across_overwrite oracle_max etag0 [] tr_overwrite = true /\
  exists outs, exec ckey_eqb [] (requests oracle_max etag0 [] tr_overwrite) outs /\
               map (fun r => snd (snd r)) (requests oracle_max etag0 [] tr_overwrite) = [VSeq 10; VSeq 20; VSeq 10] /\
               outs = [VSeq 10; VSeq 10; VSeq 10].
Proof.
  split; [reflexivity|]. split; [reflexivity|]. split; [vm_compute; reflexivity|].
  exists (run_cache ckey_eqb [] (requests oracle_max etag0 [] tr_overwrite)).
  split; [apply run_cache_exec|]. split; vm_compute; reflexivity.
Qed.

(* drop-and-recreate in the model: the table directory is removed and another table is created at the same URI;
   transaction, index metadata and row id index of "version 1" / "version 2" are served from the old table *)
Definition tr_recreate : list (N * event) :=
  [(1, ECreate [10; 11] 5); (1, EOp (OCreateIndex 60 61));
   (1, ERead true (QTxn 2)); (1, ERead false (QIndexMeta 2)); (1, ERead false (QRowIdIndex 1)); (1, ERead false (QRowIdSeq 1 0));
   (1, EDrop);
   (1, ECreate [30] 8); (1, EOp (OAppend [31]));
   (1, ERead false (QTxn 2)); (1, ERead false (QIndexMeta 2)); (1, ERead false (QRowIdIndex 1)); (1, ERead false (QRowIdSeq 1 0))].

Lemma recreate_witness :
  no_cleanup tr_recreate = true /\ Known_C38_version_keyed_cache_across_recreate tr_recreate = true /\
  exists outs, exec ckey_eqb [] (requests oracle_max etag0 [] tr_recreate) outs /\
               outs <> map (fun r => snd (snd r)) (requests oracle_max etag0 [] tr_recreate) /\
               (* each of the four second reads is answered with the old table's object *)
               firstn 4 outs = skipn 4 outs /\
               forall i, (i < 4)%nat -> nth i (skipn 4 outs) (VSeq 0) <> nth i (skipn 4 (map (fun r => snd (snd r)) (requests oracle_max etag0 [] tr_recreate))) (VSeq 0).
Proof.
  split; [reflexivity|]. split; [reflexivity|].
  exists (run_cache ckey_eqb [] (requests oracle_max etag0 [] tr_recreate)).
  split; [apply run_cache_exec|]. split; [vm_compute; discriminate|]. split; [vm_compute; reflexivity|].
  intros i Hi. destruct i as [|[|[|[|i]]]]; try lia; vm_compute; discriminate.
Qed.

(* deletion-file keys survive drop-and-recreate when the id is fresh; manifest keys carry the e-tag *)
Definition tr_deletion_ok : list (N * event) :=
  [(1, ECreate [10; 11] 5); (1, EOp (ODelete 0 77)); (1, ERead false (QDeletion 2 0)); (1, ERead false (QManifest 2));
   (1, EOp (OTagSet 1 1)); (1, EOp (OAppend [12])); (2, ECreate [40] 9); (2, EOp (ODelete 0 78));
   (1, ERead false (QDeletion 3 0)); (2, ERead false (QDeletion 2 0)); (1, ERead false (QTxn 2)); (2, ERead false (QTxn 2));
   (1, ERead false (QManifest 2)); (2, ERead false (QManifest 2)); (1, ERead false (QRowIdMask 3)); (1, ERead false (QIndexMeta 3))].
