(* C01 - the commit protocol of rust/lance/src/io/commit.rs (commit_transaction, do_commit_new_dataset,
   do_commit_detached_transaction, write_transaction_file) + rust/lance/src/dataset.rs (write_manifest_file)
   over an object store, and the reader side of rust/lance-table/src/io/commit.rs
   (current_manifest_path / current_manifest_local / ManifestNamingScheme::{manifest_path, parse_version}).
   Executable definitions only (proofs are in Proofs_Commit.v).

   Object store = finite map path |-> content (association list, first binding wins).
   Paths are structured; the byte-level naming facts this abstraction relies on are C33's theorems
   (names are injective, `d<version>.manifest` never parses as an attached version, staging names
   `<final>-<uuid>` are not manifests):
     PFile n   any data / deletion / index / transaction file (names carry a uuid: n is fresh, see next_file)
     PMan v    _versions/<v>.manifest  (V1) or _versions/<2^64-1-v, 20 digits>.manifest (V2): attached version v
     PDet v    _versions/d<v>.manifest : detached version v (high bit set)
     PTmp t    _versions/<name>.manifest-<uuid> : staging file of RenameCommitHandler

   A write operation is a *program* = list of store calls
        [Put data_1 ..; Put deletion_j ..; Put index_k ..; Put txn_file; <commit calls of the handler>]
   (files first; the transaction file; then the handler's calls, the publication of the manifest being
   a single atomic store call: put_opts(Create) / rename_if_not_exists / put under the lock - the handlers
   themselves are C02's Store.Model_Handlers, see Proofs_Commit.commit_calls_refine_handlers).
   A crash after k calls, or the k-th call failing (the error aborts the operation; a failing call has no
   effect), is `exec (firstn k w) s`. *)
From LanceV Require Import Common.Base Store.Model_Handlers.
Local Open Scope N_scope.

(* ---------- paths, contents, store ---------- *)
Inductive path := PFile (n : N) | PMan (v : N) | PDet (v : N) | PTmp (t : N).
Definition path_eqb (a b : path) : bool :=
  match a, b with
  | PFile x, PFile y => N.eqb x y
  | PMan x, PMan y => N.eqb x y
  | PDet x, PDet y => N.eqb x y
  | PTmp x, PTmp y => N.eqb x y
  | _, _ => false
  end.

(* a manifest: its version number and the files it references (data, deletion, index, transaction file) *)
Record manifest := { m_version : N; m_refs : list N }.
Inductive content := CFile (d : N) | CMan (m : manifest).

Definition store := list (path * content).
Fixpoint get (s : store) (p : path) : option content :=
  match s with
  | [] => None
  | (q, c) :: r => if path_eqb q p then Some c else get r p
  end.
Definition put (s : store) (p : path) (c : content) : store := (p, c) :: s.
Definition del (s : store) (p : path) : store := filter (fun kv => negb (path_eqb (fst kv) p)) s.
Definition has (s : store) (p : path) : bool := match get s p with Some _ => true | None => false end.

(* ---------- naming (format/manifest.rs is_detached_version, commit.rs manifest_path / parse_version) ---------- *)
Definition DETACHED_VERSION_MASK : N := 9223372036854775808.   (* 0x8000_0000_0000_0000 *)
Definition is_detached (v : N) : bool := negb (N.land v DETACHED_VERSION_MASK =? 0).
Definition manifest_path (v : N) : path := if is_detached v then PDet v else PMan v.
(* `d...` names and staging names fail the `parse::<u64>()` step *)
Definition parse_version (p : path) : option N := match p with PMan v => Some v | _ => None end.

(* ---------- the reader ---------- *)
(* current_manifest_path / current_manifest_local: the maximum over the names that parse *)
Definition latest (s : store) : option N :=
  fold_right (fun kv acc =>
                match parse_version (fst kv) with
                | Some v => match acc with None => Some v | Some a => Some (N.max a v) end
                | None => acc
                end) None s.
Definition latest0 (s : store) : N := match latest s with Some v => v | None => 0 end.
(* checkout_version v (default_resolve_version + read_manifest) *)
Definition open (v : N) (s : store) : option manifest :=
  match get s (manifest_path v) with Some (CMan m) => Some m | _ => None end.
(* what a reader of attached version v sees: the manifest and the contents of every file it references *)
Definition visible (s : store) (v : N) : option (manifest * list (option content)) :=
  match get s (PMan v) with
  | Some (CMan m) => Some (m, map (fun r => get s (PFile r)) (m_refs m))
  | _ => None
  end.
Definition refs_exist (s : store) (m : manifest) : bool := forallb (fun r => has s (PFile r)) (m_refs m).

(* ---------- store calls ---------- *)
Inductive call :=
| Put (p : path) (c : content)          (* put: create or overwrite *)
| PutCreate (p : path) (c : content)    (* put_opts(PutMode::Create): AlreadyExists if present *)
| RenameINE (a b : path)                (* rename_if_not_exists *)
| Del (p : path)                        (* delete *)
| Copy (a b : path)                     (* copy (index remap copies unchanged index files); not used by the commit path itself *)
| HeadAbsent (p : path)                 (* head(p) that must answer NotFound (CommitLock handler) *)
| Nop.                                  (* a call that does not touch the store (lock / release) *)

(* one call; None = the call returns an error and has no effect *)
Definition step (s : store) (c : call) : option store :=
  match c with
  | Put p x => Some (put s p x)
  | PutCreate p x => if has s p then None else Some (put s p x)
  | RenameINE a b =>
      match get s a with
      | None => None
      | Some x => if has s b then None else Some (put (del s a) b x)
      end
  | Del p => Some (del s p)
  | Copy a b => match get s a with None => None | Some x => Some (put s b x) end
  | HeadAbsent p => if has s p then None else Some s
  | Nop => Some s
  end.

(* run a program; the first failing call aborts it *)
Fixpoint exec (w : list call) (s : store) : store :=
  match w with
  | [] => s
  | c :: r => match step s c with Some s' => exec r s' | None => s end
  end.
Fixpoint completes (w : list call) (s : store) : bool :=
  match w with
  | [] => true
  | c :: r => match step s c with Some s' => completes r s' | None => false end
  end.

(* ---------- the writer ---------- *)
(* what an operation hands to the commit path *)
Record txn := {
  t_files : list (N * bool); (* the data / deletion / index files the operation writes before this commit, in order:
                              payload, and whether the new manifest references the file (compaction writes its
                              rewritten files before its first commit, ReserveFragments, which does not reference them) *)
  t_adopt : list N;        (* files written by an earlier phase of the same operation (already in the store) that the
                              new manifest references: the second commit of compact_files, Rewrite *)
  t_base : option N;       (* Some v: the new manifest is derived from version v (Restore{version v}; a detached
                              commit on a checked-out version v); None: from the latest version *)
  t_keep : list bool;      (* which of the base manifest's references the new manifest keeps
                              (append: all; overwrite: none; delete/update/compaction/...: some) *)
  t_detached : option N    (* Some r: CommitBuilder::with_detached, r = the random u64 drawn *)
}.

Fixpoint mask {A} (bs : list bool) (l : list A) : list A :=
  match bs, l with
  | b :: bs', x :: l' => if b then x :: mask bs' l' else mask bs' l'
  | _, _ => []
  end.

Fixpoint seqN (start : N) (len : nat) : list N :=
  match len with O => [] | S k => start :: seqN (start + 1) k end.

(* file names carry a fresh uuid: modelled by a counter above every file id in the store *)
Definition max_file (s : store) : N :=
  fold_right (fun kv acc => match fst kv with PFile n => N.max n acc | _ => acc end) 0 s.
Definition next_file (s : store) : N := max_file s + 1.

(* ids of the files the operation writes; the last one is the transaction file (write_transaction_file) *)
Definition new_ids (s : store) (t : txn) : list N := seqN (next_file s) (S (length (t_files t))).
Definition file_puts (s : store) (t : txn) : list call :=
  map (fun idd => Put (PFile (fst idd)) (CFile (snd idd))) (combine (new_ids s t) (map fst (t_files t) ++ [0])).
(* the new files the manifest references: the flagged ones and the transaction file *)
Definition new_refs (s : store) (t : txn) : list N := mask (map snd (t_files t) ++ [true]) (new_ids s t).

(* the references inherited from the base manifest; None = that version cannot be read (the operation errs) *)
Definition base_refs (s : store) (t : txn) : option (list N) :=
  match t_base t with
  | Some v => match open v s with Some m => Some (m_refs m) | None => None end
  | None => match latest s with
            | None => Some []                                     (* commit_new_dataset: build_manifest(None, ..) *)
            | Some n => match open n s with Some m => Some (m_refs m) | None => None end
            end
  end.

(* commit_transaction: target_version = dataset.manifest.version + 1 (the dataset has just been reloaded to the
   latest version); do_commit_detached_transaction: random | DETACHED_VERSION_MASK *)
Definition target (s : store) (t : txn) : N :=
  match t_detached t with
  | Some r => N.lor (wrap64 r) DETACHED_VERSION_MASK
  | None => latest0 s + 1
  end.

(* the handler's calls (rust/lance-table/src/io/commit.rs; = Store.Model_Handlers for a single writer) *)
Definition commit_calls (h : hkind) (tv : N) (m : manifest) : list call :=
  let fin := manifest_path tv in
  match h with
  | HCondPut => [PutCreate fin (CMan m)]
  | HRename => [Put (PTmp tv) (CMan m); RenameINE (PTmp tv) fin]
  | HLock => [Nop; HeadAbsent fin; Put fin (CMan m); Nop]
  | HUnsafe => [Put fin (CMan m)]
  end.
(* index (within commit_calls) of the call that publishes the manifest *)
Definition commit_point (h : hkind) : nat :=
  match h with HCondPut => 0 | HRename => 1 | HLock => 2 | HUnsafe => 0 end%nat.

Definition new_manifest (s : store) (t : txn) (inh : list N) : manifest :=
  {| m_version := target s t; m_refs := new_refs s t ++ mask (t_keep t) inh ++ t_adopt t |}.

Definition refused (s : store) (t : txn) : bool :=
  match t_detached t with Some _ => false | None => is_detached (target s t) end.

Definition write_program (s : store) (h : hkind) (t : txn) : list call :=
  let pre := file_puts s t in
  if refused s t then pre            (* Err "regular version numbers are appearing as 'detached' versions" *)
  else match base_refs s t with
       | None => pre                 (* restore_old_manifest / checkout of the base version fails *)
       | Some inh => pre ++ commit_calls h (target s t) (new_manifest s t inh)
       end.
(* number of calls strictly before the publication *)
Definition commit_pos (s : store) (h : hkind) (t : txn) : nat :=
  (length (file_puts s t) + commit_point h)%nat.

(* one write of a history: the first k calls of its program are executed (k >= length: the whole program;
   otherwise the process crashed after k calls, or call k+1 failed and the operation returned the error) *)
Inductive op := Write (h : hkind) (t : txn) (k : nat).
Definition apply_op (s : store) (o : op) : store :=
  match o with Write h t k => exec (firstn k (write_program s h t)) s end.
Definition run_ops (ops : list op) (s : store) : store := fold_left apply_op ops s.

(* ---------- well-formed stores (boolean version, for examples and the harness; the Prop is in Proofs) ---------- *)
Definition attached_versions (s : store) : list N :=
  filter (fun v => has s (PMan v)) (seqN 1 (N.to_nat (latest0 s))).
Definition man_ok (s : store) (p : path) (v : N) : bool :=
  match get s p with
  | Some (CMan m) => (m_version m =? v) && refs_exist s m
  | Some (CFile _) => false
  | None => true
  end.
Definition wf_b (s : store) : bool :=
  forallb (fun v => has s (PMan v) && negb (is_detached v)) (seqN 1 (N.to_nat (latest0 s)))
  && forallb (fun kv => match fst kv with
                        | PMan v => man_ok s (PMan v) v && (1 <=? v)
                        | PDet v => man_ok s (PDet v) v && is_detached v
                        | PFile _ => match get s (fst kv) with Some (CFile _) => true | _ => false end
                        | PTmp _ => true
                        end) s.

(* ---------- correspondence: recorded traces of the real store calls ---------- *)
(* path code (tag, n): 0 file  1 attached manifest  2 detached manifest  3 staging file *)
Definition path_of_code (c : N * N) : path :=
  match fst c with 0 => PFile (snd c) | 1 => PMan (snd c) | 2 => PDet (snd c) | _ => PTmp (snd c) end.
Definition code_of_path (p : path) : N * N :=
  match p with PFile n => (0, n) | PMan v => (1, v) | PDet v => (2, v) | PTmp t => (3, t) end.
Definition is_manifest_path (p : path) : bool := match p with PMan _ | PDet _ => true | _ => false end.
Definition path_version (p : path) : N := match p with PMan v | PDet v | PTmp v | PFile v => v end.

(* pre-state: every object with (for manifests) its version and references *)
Definition content_of_code (p : path) (mv : N) (refs : list N) : content :=
  match p with PFile _ => CFile 0 | _ => CMan {| m_version := mv; m_refs := refs |} end.
Definition store_of_codes (l : list ((N * N) * (N * list N))) : store :=
  map (fun e => let p := path_of_code (fst e) in (p, content_of_code p (fst (snd e)) (snd (snd e)))) l.

(* call code (kind, (a, b)): 0 put a   1 put_opts(Create) a   2 rename_if_not_exists a b   3 delete a   4 copy a b *)
(* replay state: store, manifests not yet published, all protocol checks so far hold *)
Definition mk_man (x : N * list N) : manifest := {| m_version := fst x; m_refs := snd x |}.

(* protocol checks at the moment a manifest becomes visible at path p:
   every file it references exists; its number is the one in the name; an attached one is latest + 1 and
   not in the detached range; a detached one has the high bit set *)
Definition publish_ok (s : store) (p : path) (m : manifest) : bool :=
  refs_exist s m && (m_version m =? path_version p)
  && match p with
     | PMan v => (v =? latest0 s + 1) && negb (is_detached v)
     | PDet v => is_detached v
     | _ => false
     end.

Fixpoint replay (calls : list (N * ((N * N) * (N * N)))) (mans : list (N * list N)) (s : store) (ok : bool)
  : option (store * list (N * list N) * bool) :=
  match calls with
  | [] => Some (s, mans, ok)
  | (k, (a, b)) :: r =>
      let pa := path_of_code a in
      let pb := path_of_code b in
      let cur := match mans with m :: _ => CMan (mk_man m) | [] => CFile 0 end in
      match k with
      | 0 | 1 =>
          let x := match pa with PFile _ => CFile 0 | _ => cur end in
          match step s (if k =? 0 then Put pa x else PutCreate pa x) with
          | None => None
          | Some s' =>
              if is_manifest_path pa
              then match mans with
                   | m :: mans' => replay r mans' s' (ok && publish_ok s pa (mk_man m))
                   | [] => replay r [] s' false
                   end
              else replay r mans s' ok
          end
      | 2 =>
          match step s (RenameINE pa pb) with
          | None => None
          | Some s' =>
              if is_manifest_path pb
              then match mans, get s pa with
                   | m :: mans', Some (CMan m') =>
                       replay r mans' s' (ok && publish_ok s pb m' && (m_version m' =? fst m))
                   | _, _ => replay r mans s' false
                   end
              else replay r mans s' ok
          end
      | 4 =>
          (* copy of a file to a new file *)
          match pa, pb, step s (Copy pa pb) with
          | PFile _, PFile _, Some s' => replay r mans s' ok
          | _, _, _ => None
          end
      | 3 =>
          (* the write path never deletes a published manifest or a file; only staging files *)
          match pa with
          | PTmp _ => replay r mans (del s pa) ok
          | _ => replay r mans (del s pa) false
          end
      | _ => None
      end
  end.

Definition last_is_publish (calls : list (N * ((N * N) * (N * N)))) : bool :=
  match rev calls with
  | (k, (a, b)) :: _ =>
      match k with
      | 0 | 1 => is_manifest_path (path_of_code a)
      | 2 => is_manifest_path (path_of_code b)
      | _ => false
      end
  | [] => false
  end.

(* `trace_ok`: a clean run's trace is accepted by the protocol: replays without a failing call, every
   publication passes publish_ok, every expected manifest is published, and the publication is the last
   mutating call *)
Definition trace_ok (pre : store) (calls : list (N * ((N * N) * (N * N)))) (mans : list (N * list N)) : bool :=
  match replay calls mans pre true with
  | Some (_, rest, ok) => ok && match rest with [] => true | _ => false end && last_is_publish calls
  | None => false
  end.

(* input: ((pre-state, recorded mutating calls), (complete?, manifests the clean run publishes, in order));
   output of the implementation, observed by re-opening the table: (latest version, versions()) *)
Definition chk_replay (i : (list ((N * N) * (N * list N)) * list (N * ((N * N) * (N * N)))) * (bool * list (N * list N)))
                      (o : N * list N) : bool :=
  let '((pre, calls), (complete, mans)) := i in
  let s0 := store_of_codes pre in
  match replay calls mans s0 true with
  | None => false
  | Some (s', _, ok) =>
      ok && (latest0 s' =? fst o) && list_eqb N.eqb (attached_versions s') (snd o) && wf_b s'
      && (if complete then trace_ok s0 calls mans else true)
  end.

(* the program the model builds for a transaction, as call codes (mutating calls only) *)
Definition mutating (c : call) : bool := match c with HeadAbsent _ | Nop => false | _ => true end.
Definition code_of_call (c : call) : N * ((N * N) * (N * N)) :=
  match c with
  | Put p _ => (0, (code_of_path p, (0, 0)))
  | PutCreate p _ => (1, (code_of_path p, (0, 0)))
  | RenameINE a b => (2, (code_of_path a, code_of_path b))
  | Del p => (3, (code_of_path p, (0, 0)))
  | _ => (9, ((0, 0), (0, 0)))
  end.
Definition published_by (w : list call) : option (N * list N) :=
  (* the manifest the program publishes (content of the publishing call / of the staging file renamed) *)
  match filter (fun c => match c with Put _ (CMan _) | PutCreate _ (CMan _) => true | _ => false end) w with
  | Put _ (CMan m) :: _ | PutCreate _ (CMan m) :: _ => Some (m_version m, m_refs m)
  | _ => None
  end.

Definition txn_of_code (x : (list bool * (N * N)) * (list bool * list N)) : txn :=
  (* ((referenced flag of each file written, (base + 1 or 0, detached random + 1 or 0)), (keep mask, adopted files)) *)
  let '((fl, (b, d)), (keep, adopt)) := x in
  {| t_files := map (fun r => (0, r)) fl;
     t_adopt := adopt;
     t_base := if b =? 0 then None else Some (b - 1);
     t_keep := keep;
     t_detached := if d =? 0 then None else Some (d - 1) |}.

(* input: (pre-state, (handler code, transaction)); output: the recorded mutating calls of one commit of a clean
   run (a copy that creates a file counts as a put) and the (version, references) of the manifest it published *)
Definition chk_prog (i : list ((N * N) * (N * list N)) * (N * ((list bool * (N * N)) * (list bool * list N))))
                    (o : list (N * ((N * N) * (N * N))) * (N * list N)) : bool :=
  let '(pre, (h, tx)) := i in
  let s := store_of_codes pre in
  let w := write_program s (kind_of_code h) (txn_of_code tx) in
  list_eqb (pair_eqb N.eqb (pair_eqb (pair_eqb N.eqb N.eqb) (pair_eqb N.eqb N.eqb)))
           (map code_of_call (filter mutating w)) (fst o)
  && match published_by w with
     | Some (v, refs) => (v =? fst (snd o)) && list_eqb N.eqb refs (snd (snd o))
     | None => (* the model refuses to commit: the implementation published nothing, reported as (0, []) *)
         (fst (snd o) =? 0) && match snd (snd o) with [] => true | _ => false end
     end.
