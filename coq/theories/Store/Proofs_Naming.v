(* Proofs about Store/Model_Naming.v (C33). *)
From LanceV Require Import Common.Base Store.Model_Naming.
Local Open Scope N_scope.

Lemma scheme_eqb_eq : forall a b, scheme_eqb a b = true <-> a = b.
Proof. intros [] []; cbn; split; intro H; try reflexivity; discriminate. Qed.
