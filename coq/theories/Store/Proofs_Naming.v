(* Proofs about Store/Model_Naming.v (C33): decimal printing/parsing round trip, naming round trip,
   separation of detached and attached names, V2 order, latest-version discovery, listing, migration. *)
From Coq Require Import Permutation Sorting.Sorted.
From LanceV Require Import Common.Base Store.Model_Naming.
Local Open Scope N_scope.

(* ------------------------------------------------------------------ *)
(* small facts                                                         *)
(* ------------------------------------------------------------------ *)
Lemma scheme_eqb_eq : forall a b, scheme_eqb a b = true <-> a = b.
Proof. intros [] []; cbn; split; intro H; try reflexivity; discriminate. Qed.

Lemma scheme_eqb_refl : forall a, scheme_eqb a a = true.
Proof. intros []; reflexivity. Qed.

Lemma name_eqb_eq : forall a b : name, name_eqb a b = true <-> a = b.
Proof. apply list_eqb_eq. intros x y. apply N.eqb_eq. Qed.

Lemma name_eqb_refl : forall a : name, name_eqb a a = true.
Proof. intro a. apply name_eqb_eq. reflexivity. Qed.

Lemma name_eqb_neq : forall a b : name, name_eqb a b = false <-> a <> b.
Proof.
  intros a b. split.
  - intros H E. apply name_eqb_eq in E. congruence.
  - intro H. destruct (name_eqb a b) eqn:E; [apply name_eqb_eq in E; contradiction | reflexivity].
Qed.

Definition digit (c : N) : Prop := 48 <= c <= 57.

Lemma is_digit_true : forall c, is_digit c = true <-> digit c.
Proof. intro c. unfold is_digit, digit, c_0, c_9. lia. Qed.

Definition pow10 (w : nat) : N := 10 ^ N.of_nat w.

Lemma pow10_0 : pow10 0 = 1.
Proof. reflexivity. Qed.

Lemma pow10_S : forall w, pow10 (S w) = 10 * pow10 w.
Proof.
  intro w. unfold pow10. rewrite Nat2N.inj_succ, N.pow_succ_r by lia. reflexivity.
Qed.

Lemma pow10_pos : forall w, 0 < pow10 w.
Proof. intro w. unfold pow10. apply N.neq_0_lt_0. apply N.pow_nonzero. lia. Qed.

(* ------------------------------------------------------------------ *)
(* decimal value of a digit string                                     *)
(* ------------------------------------------------------------------ *)
Definition dstep (a c : N) : N := a * 10 + (c - 48).
Definition dval (acc : N) (s : name) : N := fold_left dstep s acc.

Lemma dval_cons : forall acc c s, dval acc (c :: s) = dval (dstep acc c) s.
Proof. reflexivity. Qed.

Lemma dval_app : forall s t acc, dval acc (s ++ t) = dval (dval acc s) t.
Proof. intros s t acc. unfold dval. apply fold_left_app. Qed.

Lemma dval_ge : forall s acc, acc <= dval acc s.
Proof.
  induction s as [|c s IH]; intro acc; cbn [dval fold_left]; [lia|].
  fold (dval (dstep acc c) s). specialize (IH (dstep acc c)). unfold dstep in *. lia.
Qed.

Lemma parse_digits_dval : forall s acc,
  Forall digit s -> dval acc s <= u64max -> parse_digits acc s = Some (dval acc s).
Proof.
  induction s as [|c s IH]; intros acc Hd Hle; cbn [parse_digits]; [reflexivity|].
  inversion Hd as [|? ? Hc Hs]; subst.
  apply is_digit_true in Hc. rewrite Hc.
  rewrite dval_cons in Hle |- *. unfold c_0. fold (dstep acc c).
  pose proof (dval_ge s (dstep acc c)) as Hge.
  destruct (dstep acc c <=? u64max) eqn:E; [apply IH; assumption | lia].
Qed.

(* the converse direction: whatever parse_digits accepts is a digit string with that value *)
Lemma parse_digits_sound : forall s acc v,
  parse_digits acc s = Some v -> Forall digit s /\ v = dval acc s.
Proof.
  induction s as [|c s IH]; intros acc v H; cbn [parse_digits] in H.
  - inversion H; subst. split; [constructor | reflexivity].
  - destruct (is_digit c) eqn:Hc; [|discriminate].
    destruct (acc * 10 + (c - c_0) <=? u64max) eqn:E; [|discriminate].
    apply IH in H as [Hs Hv]. apply is_digit_true in Hc. split; [constructor; assumption|].
    rewrite dval_cons. exact Hv.
Qed.

(* ------------------------------------------------------------------ *)
(* fixed-width printing                                                *)
(* ------------------------------------------------------------------ *)
Lemma digits_w_length : forall w v, length (digits_w w v) = w.
Proof.
  induction w as [|w IH]; intro v; cbn [digits_w]; [reflexivity|].
  rewrite app_length, IH. cbn. lia.
Qed.

Lemma digits_w_digit : forall w v, Forall digit (digits_w w v).
Proof.
  induction w as [|w IH]; intro v; cbn [digits_w]; [constructor|].
  apply Forall_app. split; [apply IH|]. constructor; [|constructor].
  unfold digit, c_0. assert (v mod 10 < 10) by (apply N.mod_lt; lia). lia.
Qed.

Lemma dval_digits_w : forall w v acc, dval acc (digits_w w v) = acc * pow10 w + v mod pow10 w.
Proof.
  induction w as [|w IH]; intros v acc.
  - cbn [digits_w dval fold_left]. rewrite pow10_0, N.mod_1_r. lia.
  - cbn [digits_w]. rewrite dval_app, IH. cbn [dval fold_left]. unfold dstep, c_0.
    rewrite pow10_S.
    pose proof (pow10_pos w) as Hp.
    rewrite (N.mod_mul_r v 10 (pow10 w)) by lia.
    assert (v mod 10 < 10) by (apply N.mod_lt; lia).
    replace (48 + v mod 10 - 48) with (v mod 10) by lia. lia.
Qed.

(* most-significant-digit-first view *)
Lemma digits_w_split : forall b a v,
  digits_w (a + b) v = digits_w a (v / pow10 b) ++ digits_w b v.
Proof.
  induction b as [|b IH]; intros a v.
  - rewrite Nat.add_0_r, pow10_0, N.div_1_r. cbn [digits_w]. rewrite app_nil_r. reflexivity.
  - rewrite Nat.add_succ_r. cbn [digits_w]. rewrite IH, app_assoc.
    rewrite pow10_S, N.div_div by (pose proof (pow10_pos b); lia). reflexivity.
Qed.

Lemma digits_w_cons : forall w v,
  digits_w (S w) v = (48 + (v / pow10 w) mod 10) :: digits_w w v.
Proof.
  intros w v. change (S w) with (1 + w)%nat. rewrite digits_w_split.
  cbn [digits_w app]. unfold c_0. reflexivity.
Qed.

Lemma digits_w_zero : forall w, digits_w w 0 = repeat 48 w.
Proof.
  induction w as [|w IH]; [reflexivity|].
  rewrite digits_w_cons, IH. cbn [repeat]. rewrite N.div_0_l by (pose proof (pow10_pos w); lia).
  reflexivity.
Qed.

Lemma two64_lt_pow10_20 : u64max < pow10 20.
Proof. reflexivity. Qed.

Lemma pad20_length : forall v, length (pad20 v) = 20%nat.
Proof. intro v. apply digits_w_length. Qed.

Lemma pad20_digit : forall v, Forall digit (pad20 v).
Proof. intro v. apply digits_w_digit. Qed.

Lemma dval_pad20 : forall v, v <= u64max -> dval 0 (pad20 v) = v.
Proof.
  intros v Hv. unfold pad20. rewrite dval_digits_w. pose proof two64_lt_pow10_20.
  rewrite N.mod_small by lia. lia.
Qed.

(* a non-empty digit string is parsed without looking at a sign *)
Lemma parse_u64_digits : forall s, s <> [] -> Forall digit s -> parse_u64 s = parse_digits 0 s.
Proof.
  intros [|c r] Hne Hd; [contradiction|]. unfold parse_u64.
  inversion Hd as [|? ? Hc ?]; subst. unfold digit in Hc.
  destruct (c =? c_plus) eqn:E; [unfold c_plus in E; lia | reflexivity].
Qed.

Lemma parse_u64_pad20 : forall v, v <= u64max -> parse_u64 (pad20 v) = Some v.
Proof.
  intros v Hv. rewrite parse_u64_digits.
  - rewrite parse_digits_dval; rewrite ?dval_pad20; auto using pad20_digit.
  - intro E. pose proof (pad20_length v) as L. rewrite E in L. discriminate.
  - apply pad20_digit.
Qed.

(* ------------------------------------------------------------------ *)
(* printing without leading zeros                                      *)
(* ------------------------------------------------------------------ *)
Lemma strip_zeros_digit : forall s, Forall digit s -> Forall digit (strip_zeros s).
Proof.
  induction s as [|c s IH]; intro H; cbn [strip_zeros]; [constructor|].
  inversion H; subst. destruct (c =? c_0); [apply IH; assumption | assumption].
Qed.

Lemma strip_zeros_dval : forall s, dval 0 (strip_zeros s) = dval 0 s.
Proof.
  induction s as [|c s IH]; cbn [strip_zeros]; [reflexivity|].
  destruct (c =? c_0) eqn:E; [|reflexivity].
  apply N.eqb_eq in E. subst c. rewrite IH. rewrite dval_cons. unfold dstep, c_0.
  replace (0 * 10 + (48 - 48)) with 0 by lia. reflexivity.
Qed.

Lemma strip_zeros_length : forall s, (length (strip_zeros s) <= length s)%nat.
Proof.
  induction s as [|c s IH]; cbn [strip_zeros]; [lia|].
  destruct (c =? c_0); cbn [length]; lia.
Qed.

Lemma strip_zeros_repeat : forall n s, strip_zeros (repeat 48 n ++ s) = strip_zeros s.
Proof. induction n as [|n IH]; intro s; cbn [repeat app strip_zeros]; [reflexivity | apply IH]. Qed.

Lemma to_dec_digit : forall v, Forall digit (to_dec v).
Proof.
  intro v. unfold to_dec. pose proof (strip_zeros_digit _ (pad20_digit v)) as H.
  destruct (strip_zeros (pad20 v)); [|exact H].
  constructor; [unfold digit, c_0; lia | constructor].
Qed.

Lemma to_dec_nonempty : forall v, to_dec v <> [].
Proof. intro v. unfold to_dec. destruct (strip_zeros (pad20 v)); discriminate. Qed.

Lemma dval_to_dec : forall v, v <= u64max -> dval 0 (to_dec v) = v.
Proof.
  intros v Hv. unfold to_dec. pose proof (strip_zeros_dval (pad20 v)) as H.
  rewrite dval_pad20 in H by assumption.
  destruct (strip_zeros (pad20 v)) eqn:E; [|exact H].
  cbn in H. subst v. reflexivity.
Qed.

Lemma parse_u64_to_dec : forall v, v <= u64max -> parse_u64 (to_dec v) = Some v.
Proof.
  intros v Hv. rewrite parse_u64_digits by auto using to_dec_nonempty, to_dec_digit.
  rewrite parse_digits_dval; rewrite ?dval_to_dec; auto using to_dec_digit.
Qed.

(* v < 10^k prints in at most k digits (k <= 20) *)
Lemma to_dec_length : forall k v, (1 <= k <= 20)%nat -> v < pow10 k -> (length (to_dec v) <= k)%nat.
Proof.
  intros k v Hk Hv. unfold to_dec, pad20.
  replace 20%nat with ((20 - k) + k)%nat by lia.
  rewrite digits_w_split, N.div_small, digits_w_zero, strip_zeros_repeat by assumption.
  pose proof (strip_zeros_length (digits_w k v)) as H. rewrite digits_w_length in H.
  destruct (strip_zeros (digits_w k v)); cbn [length] in *; lia.
Qed.

(* ------------------------------------------------------------------ *)
(* string helpers                                                      *)
(* ------------------------------------------------------------------ *)
Lemma starts_with_app : forall p r, starts_with p (p ++ r) = true.
Proof.
  induction p as [|a p IH]; intro r; cbn [starts_with app]; [reflexivity|].
  rewrite N.eqb_refl, IH. reflexivity.
Qed.

Lemma ends_with_app : forall p x, ends_with p (x ++ p) = true.
Proof. intros p x. unfold ends_with. rewrite rev_app_distr. apply starts_with_app. Qed.

Lemma ends_with_dot_ext : forall x, ends_with EXT (x ++ DOT_EXT) = true.
Proof.
  intro x. unfold DOT_EXT. change (c_dot :: EXT) with ([c_dot] ++ EXT).
  rewrite app_assoc. apply ends_with_app.
Qed.

Lemma starts_with_d_digit : forall c r, digit c -> starts_with [c_d] (c :: r) = false.
Proof.
  intros c r Hc. cbn [starts_with]. unfold digit in Hc. unfold c_d.
  destruct (100 =? c) eqn:E; [lia | reflexivity].
Qed.

Lemma split_once_dot_app : forall s t, Forall (fun c => c <> c_dot) s ->
  split_once_dot (s ++ c_dot :: t) = Some (s, t).
Proof.
  induction s as [|c s IH]; intros t H; cbn [app split_once_dot].
  - rewrite N.eqb_refl. reflexivity.
  - inversion H as [|? ? Hc Hs]; subst.
    destruct (c =? c_dot) eqn:E; [apply N.eqb_eq in E; contradiction|].
    rewrite IH by assumption. reflexivity.
Qed.

Lemma digit_not_dot : forall s, Forall digit s -> Forall (fun c => c <> c_dot) s.
Proof.
  intros s H. eapply Forall_impl; [|exact H]. intros c Hc. unfold digit in Hc. unfold c_dot. lia.
Qed.

(* ------------------------------------------------------------------ *)
(* detached versions                                                   *)
(* ------------------------------------------------------------------ *)
Definition two63 : N := 9223372036854775808.

Lemma land_pow2 : forall a n, N.land a (2 ^ n) = if N.testbit a n then 2 ^ n else 0.
Proof.
  intros a n. apply N.bits_inj. intro m.
  rewrite N.land_spec, N.pow2_bits_eqb.
  destruct (N.testbit a n) eqn:Ha.
  - rewrite N.pow2_bits_eqb. destruct (N.eqb_spec n m) as [->|Hne]; [rewrite Ha; reflexivity|].
    rewrite andb_false_r. reflexivity.
  - rewrite N.bits_0. destruct (N.eqb_spec n m) as [->|Hne]; [rewrite Ha; reflexivity|].
    rewrite andb_false_r. reflexivity.
Qed.

Lemma is_detached_spec : forall v, v <= u64max -> is_detached_version v = (two63 <=? v).
Proof.
  intros v Hv. unfold is_detached_version, DETACHED_VERSION_MASK.
  change 9223372036854775808 with (2 ^ 63) at 1. rewrite land_pow2.
  destruct (N.testbit v 63) eqn:Hb.
  - apply N.testbit_true in Hb. change (2 ^ 63) with 9223372036854775808 in Hb.
    assert (H : two63 <= v) by (unfold two63, u64max in *; lia).
    apply N.leb_le in H. rewrite H. reflexivity.
  - apply N.testbit_false in Hb. change (2 ^ 63) with 9223372036854775808 in Hb.
    assert (H : v < two63) by (unfold two63, u64max in *; lia).
    apply N.leb_gt in H. rewrite H. reflexivity.
Qed.

Definition attached (v : N) : Prop := v < two63.
Definition detached (v : N) : Prop := two63 <= v <= u64max.

Lemma attached_not_detached : forall v, attached v -> is_detached_version v = false.
Proof.
  intros v H. unfold attached, two63 in H. rewrite is_detached_spec by (unfold u64max; lia).
  unfold two63. lia.
Qed.

Lemma detached_is_detached : forall v, detached v -> is_detached_version v = true.
Proof.
  intros v [H1 H2]. rewrite is_detached_spec by assumption. lia.
Qed.

Lemma manifest_name_attached : forall s v, attached v ->
  manifest_name s v = match s with V1 => to_dec v ++ DOT_EXT | V2 => pad20 (u64max - v) ++ DOT_EXT end.
Proof. intros s v H. unfold manifest_name. rewrite attached_not_detached by assumption. reflexivity. Qed.

Lemma manifest_name_detached : forall s v, detached v -> manifest_name s v = c_d :: to_dec v ++ DOT_EXT.
Proof. intros s v H. unfold manifest_name. rewrite detached_is_detached by assumption. reflexivity. Qed.

(* ------------------------------------------------------------------ *)
(* name -> version round trip, scheme detection                        *)
(* ------------------------------------------------------------------ *)
Lemma parse_version_attached : forall s v, attached v -> parse_version s (manifest_name s v) = Some v.
Proof.
  intros s v H. rewrite manifest_name_attached by assumption.
  unfold attached, two63 in H. unfold parse_version, DOT_EXT. destruct s.
  - rewrite split_once_dot_app by (apply digit_not_dot, to_dec_digit).
    apply parse_u64_to_dec. unfold u64max. lia.
  - rewrite split_once_dot_app by (apply digit_not_dot, pad20_digit).
    rewrite parse_u64_pad20 by (unfold u64max; lia). cbn [option_map]. f_equal. unfold u64max. lia.
Qed.

Lemma head_digit : forall s, s <> [] -> Forall digit s -> exists c r, s = c :: r /\ digit c.
Proof.
  intros [|c r] Hne Hd; [contradiction|]. inversion Hd; subst. eauto.
Qed.

Lemma pad20_nonempty : forall v, pad20 v <> [].
Proof. intros v E. pose proof (pad20_length v) as L. rewrite E in L. discriminate. Qed.

Lemma two63_lt_pow10_19 : two63 < pow10 19.
Proof. reflexivity. Qed.

Lemma digits_no_d : forall s t, s <> [] -> Forall digit s -> starts_with [c_d] (s ++ t) = false.
Proof.
  intros s t Hne Hd. destruct (head_digit s Hne Hd) as (c & r & E & Hc).
  rewrite E. cbn [app]. apply starts_with_d_digit. assumption.
Qed.

Lemma detect_scheme_attached : forall s v, attached v -> detect_scheme (manifest_name s v) = Some s.
Proof.
  intros s v H. rewrite manifest_name_attached by assumption. unfold detect_scheme. destruct s.
  - rewrite digits_no_d by auto using to_dec_nonempty, to_dec_digit.
    rewrite ends_with_dot_ext.
    assert (L : (length (to_dec v) <= 19)%nat).
    { apply to_dec_length; [lia|]. unfold attached in H. pose proof two63_lt_pow10_19. lia. }
    rewrite app_length. unfold V2_LEN. cbn [length DOT_EXT EXT].
    destruct (N.of_nat (length (to_dec v) + 9) =? 29) eqn:E9; [lia | reflexivity].
  - rewrite digits_no_d by auto using pad20_nonempty, pad20_digit.
    rewrite ends_with_dot_ext, app_length, pad20_length. reflexivity.
Qed.

Lemma attached_name_no_d : forall s v, attached v -> starts_with [c_d] (manifest_name s v) = false.
Proof.
  intros s v H. rewrite manifest_name_attached by assumption. destruct s.
  - apply digits_no_d; auto using to_dec_nonempty, to_dec_digit.
  - apply digits_no_d; auto using pad20_nonempty, pad20_digit.
Qed.

Lemma valid_entry_attached : forall s v, attached v ->
  valid_entry (manifest_name s v) = Some (s, manifest_name s v).
Proof.
  intros s v H. unfold valid_entry. rewrite detect_scheme_attached, parse_version_attached by assumption.
  reflexivity.
Qed.

(* detached names: detected as V2, never parse as an attached version under either scheme *)
Lemma parse_u64_d : forall r, parse_u64 (c_d :: r) = None.
Proof. intro r. reflexivity. Qed.

Lemma parse_version_detached : forall s s' v, detached v -> parse_version s' (manifest_name s v) = None.
Proof.
  intros s s' v H. rewrite manifest_name_detached by assumption. unfold parse_version, DOT_EXT.
  change (c_d :: to_dec v ++ c_dot :: EXT) with ((c_d :: to_dec v) ++ c_dot :: EXT).
  rewrite split_once_dot_app.
  - rewrite parse_u64_d. destruct s'; reflexivity.
  - constructor; [unfold c_d, c_dot; lia | apply digit_not_dot, to_dec_digit].
Qed.

Lemma detect_scheme_detached : forall s v, detached v -> detect_scheme (manifest_name s v) = Some V2.
Proof.
  intros s v H. rewrite manifest_name_detached by assumption. unfold detect_scheme.
  cbn [starts_with]. rewrite N.eqb_refl. reflexivity.
Qed.

Lemma valid_entry_detached : forall s v, detached v -> valid_entry (manifest_name s v) = None.
Proof.
  intros s v H. unfold valid_entry. rewrite detect_scheme_detached by assumption.
  rewrite parse_version_detached by assumption. reflexivity.
Qed.

Lemma detached_name_scheme_free : forall v, detached v -> manifest_name V1 v = manifest_name V2 v.
Proof. intros v H. rewrite !manifest_name_detached by assumption. reflexivity. Qed.

(* the number after the d is the version itself *)
Lemma detached_name_carries_version : forall s v, detached v ->
  exists digits, manifest_name s v = c_d :: digits ++ DOT_EXT /\ parse_u64 digits = Some v.
Proof.
  intros s v H. exists (to_dec v). split; [apply manifest_name_detached; assumption|].
  apply parse_u64_to_dec. destruct H; assumption.
Qed.

Lemma attached_detached_names_differ : forall s s' v d, attached v -> detached d ->
  manifest_name s v <> manifest_name s' d.
Proof.
  intros s s' v d Hv Hd E. pose proof (attached_name_no_d s v Hv) as H1.
  rewrite E, manifest_name_detached in H1 by assumption. cbn [starts_with] in H1.
  rewrite N.eqb_refl in H1. discriminate.
Qed.

Lemma manifest_name_inj : forall s v1 v2, v1 <= u64max -> v2 <= u64max ->
  manifest_name s v1 = manifest_name s v2 -> v1 = v2.
Proof.
  intros s v1 v2 H1 H2 E.
  assert (C : forall v, v <= u64max -> attached v \/ detached v).
  { intros v Hv. unfold attached, detached. destruct (N.lt_ge_cases v two63); [left | right]; lia. }
  destruct (C v1 H1) as [A1|D1], (C v2 H2) as [A2|D2].
  - pose proof (parse_version_attached s v1 A1) as P1. rewrite E, parse_version_attached in P1 by assumption.
    congruence.
  - exfalso. eapply attached_detached_names_differ; eauto.
  - exfalso. eapply attached_detached_names_differ; eauto.
  - rewrite !manifest_name_detached in E by assumption.
    apply (f_equal (@tl N)) in E. cbn [tl] in E. rename E into E'.
    apply app_inv_tail in E'.
    pose proof (parse_u64_to_dec v1 H1) as P1. rewrite E', parse_u64_to_dec in P1 by assumption. congruence.
Qed.

(* staging copies <name>-<uuid>: never taken for a manifest, keep their scheme *)
Lemma ends_with_last : forall p s a b, ends_with (p ++ [a]) (s ++ [b]) = true -> a = b.
Proof.
  intros p s a b H. unfold ends_with in H. rewrite !rev_app_distr in H. cbn [rev app starts_with] in H.
  apply andb_true_iff in H as [H _]. apply N.eqb_eq in H. exact H.
Qed.

Lemma detect_scheme_none_by_last : forall x b, b <> 116 -> starts_with [c_d] (x ++ [b]) = false ->
  detect_scheme (x ++ [b]) = None.
Proof.
  intros x b Hb Hd. unfold detect_scheme. rewrite Hd.
  destruct (ends_with EXT (x ++ [b])) eqn:E; [|reflexivity].
  change EXT with ([109; 97; 110; 105; 102; 101; 115] ++ [116]) in E.
  apply ends_with_last in E. congruence.
Qed.

Lemma valid_entry_none_by_last : forall x b, b <> 116 -> valid_entry (x ++ [b]) = None.
Proof.
  intros x b Hb. unfold valid_entry.
  destruct (starts_with [c_d] (x ++ [b])) eqn:Hd.
  - unfold detect_scheme. rewrite Hd. unfold parse_version.
    destruct (x ++ [b]) as [|c r] eqn:E; [discriminate|].
    cbn [starts_with] in Hd. apply andb_true_iff in Hd as [Hc _]. apply N.eqb_eq in Hc. subst c.
    cbn [split_once_dot]. change (c_d =? c_dot) with false. cbv iota.
    destruct (split_once_dot r) as [[a t]|]; [|reflexivity]. rewrite parse_u64_d. reflexivity.
  - rewrite detect_scheme_none_by_last by assumption. reflexivity.
Qed.

Lemma nth_error_char_starts_ascii : forall s t n, Forall (fun c => c < 128) s -> (n < length s)%nat ->
  nth_error (char_starts (s ++ t)) n = nth_error s n.
Proof.
  induction s as [|c s IH]; intros t n Hs Hn; cbn [length] in Hn; [lia|].
  inversion Hs as [|? ? Hc Hs']; subst. cbn [app char_starts filter].
  unfold is_cont. assert ((128 <=? c) = false) as -> by lia. cbn [andb negb].
  destruct n as [|n]; [reflexivity|]. cbn [nth_error]. apply IH; [assumption | lia].
Qed.

Lemma detect_scheme_staging_v2 : forall v suffix, v <= u64max ->
  detect_scheme_staging (pad20 v ++ DOT_EXT ++ suffix) = V2.
Proof.
  intros v suffix Hv. unfold detect_scheme_staging.
  rewrite app_assoc.
  replace (nth_error (char_starts ((pad20 v ++ DOT_EXT) ++ suffix)) 20) with (Some c_dot); [reflexivity|].
  symmetry. rewrite nth_error_char_starts_ascii.
  - rewrite nth_error_app2 by (rewrite pad20_length; lia). rewrite pad20_length. reflexivity.
  - apply Forall_app. split.
    + eapply Forall_impl; [|apply pad20_digit]. intros c Hc. unfold digit in Hc. lia.
    + unfold DOT_EXT, EXT, c_dot. repeat constructor; lia.
  - rewrite app_length, pad20_length. cbn. lia.
Qed.

Lemma filter_all {A} (f : A -> bool) : forall l, (forall x, In x l -> f x = true) -> filter f l = l.
Proof.
  induction l as [|x l IH]; intro H; cbn [filter]; [reflexivity|].
  rewrite (H x (or_introl eq_refl)), IH; [reflexivity|]. intros y Hy. apply H. right. exact Hy.
Qed.

Lemma detect_scheme_staging_v1 : forall v suffix, attached v -> Forall (fun c => c <> c_dot) suffix ->
  detect_scheme_staging (to_dec v ++ DOT_EXT ++ suffix) = V1.
Proof.
  intros v suffix Hv Hs. unfold detect_scheme_staging.
  destruct (nth_error (char_starts (to_dec v ++ DOT_EXT ++ suffix)) 20) as [c|] eqn:E; [|reflexivity].
  destruct (c =? c_dot) eqn:Ec; [|reflexivity]. exfalso. apply N.eqb_eq in Ec. subst c.
  (* the only '.' is at index length (to_dec v) <= 19 *)
  assert (L : (length (to_dec v) <= 19)%nat).
  { apply to_dec_length; [lia|]. unfold attached in Hv. pose proof two63_lt_pow10_19. lia. }
  assert (A : Forall (fun c => c < 128) (to_dec v ++ DOT_EXT)).
  { apply Forall_app. split.
    - eapply Forall_impl; [|apply to_dec_digit]. intros c Hc. unfold digit in Hc. lia.
    - unfold DOT_EXT, EXT, c_dot. repeat constructor; lia. }
  rewrite app_assoc in E.
  destruct (Nat.lt_ge_cases 20 (length (to_dec v ++ DOT_EXT))) as [Hlt|Hge].
  - rewrite nth_error_char_starts_ascii in E by assumption.
    rewrite nth_error_app2 in E by lia.
    remember (20 - length (to_dec v))%nat as k eqn:Hk.
    assert (1 <= k)%nat by lia.
    destruct k as [|k]; [lia|]. unfold DOT_EXT in E. cbn [nth_error] in E.
    apply nth_error_In in E. unfold EXT, c_dot in E. cbn [In] in E.
    repeat (destruct E as [E|E]; [discriminate|]). exact E.
  - (* index 20 falls into the suffix part of char_starts *)
    unfold char_starts in E. rewrite filter_app in E.
    assert (F : filter (fun b => negb (is_cont b)) (to_dec v ++ DOT_EXT) = to_dec v ++ DOT_EXT).
    { apply filter_all. intros x Hx.
      rewrite Forall_forall in A. specialize (A x Hx). unfold is_cont.
      assert ((128 <=? x) = false) as -> by lia. reflexivity. }
    rewrite F in E. rewrite nth_error_app2 in E by lia.
    apply nth_error_In in E. apply filter_In in E as [E _].
    rewrite Forall_forall in Hs. apply (Hs _ E). reflexivity.
Qed.

(* ------------------------------------------------------------------ *)
(* lexicographic order of V2 names = reverse version order             *)
(* ------------------------------------------------------------------ *)
Lemma lex_ltb_irrefl : forall a, lex_ltb a a = false.
Proof.
  induction a as [|x a IH]; cbn [lex_ltb]; [reflexivity|].
  rewrite N.ltb_irrefl. exact IH.
Qed.

Lemma lex_ltb_app_same_length : forall x y t, length x = length y ->
  lex_ltb (x ++ t) (y ++ t) = lex_ltb x y.
Proof.
  induction x as [|a x IH]; intros [|b y] t L; cbn [length] in L; try discriminate.
  - cbn [app]. rewrite lex_ltb_irrefl. reflexivity.
  - cbn [app lex_ltb]. destruct (a <? b); [reflexivity|]. destruct (b <? a); [reflexivity|].
    apply IH. lia.
Qed.

Lemma lex_digits_w : forall w a b,
  lex_ltb (digits_w w a) (digits_w w b) = (a mod pow10 w <? b mod pow10 w).
Proof.
  induction w as [|w IH]; intros a b.
  - cbn [digits_w lex_ltb]. rewrite pow10_0, !N.mod_1_r. reflexivity.
  - rewrite !digits_w_cons. cbn [lex_ltb]. rewrite IH.
    pose proof (pow10_pos w) as Hp. set (P := pow10 w) in *.
    rewrite pow10_S. fold P. rewrite (N.mul_comm 10 P).
    rewrite (N.mod_mul_r a P 10), (N.mod_mul_r b P 10) by lia.
    assert (Ha : a mod P < P) by (apply N.mod_lt; lia).
    assert (Hb : b mod P < P) by (apply N.mod_lt; lia).
    set (qa := (a / P) mod 10). set (qb := (b / P) mod 10).
    set (ra := a mod P) in *. set (rb := b mod P) in *.
    destruct (48 + qa <? 48 + qb) eqn:E1.
    + assert (qa + 1 <= qb) by lia.
      assert (P * (qa + 1) <= P * qb) by (apply N.mul_le_mono_l; assumption).
      symmetry. apply N.ltb_lt. lia.
    + destruct (48 + qb <? 48 + qa) eqn:E2.
      * assert (qb + 1 <= qa) by lia.
        assert (P * (qb + 1) <= P * qa) by (apply N.mul_le_mono_l; assumption).
        symmetry. apply N.ltb_ge. lia.
      * assert (qa = qb) as -> by lia.
        destruct (ra <? rb) eqn:E3; symmetry; [apply N.ltb_lt | apply N.ltb_ge]; lia.
Qed.

Lemma lex_pad20 : forall a b, a <= u64max -> b <= u64max ->
  lex_ltb (pad20 a) (pad20 b) = (a <? b).
Proof.
  intros a b Ha Hb. unfold pad20. rewrite lex_digits_w. pose proof two64_lt_pow10_20.
  rewrite !N.mod_small by lia. reflexivity.
Qed.

Lemma v2_name_order : forall v1 v2, attached v1 -> attached v2 ->
  lex_ltb (manifest_name V2 v2) (manifest_name V2 v1) = (v1 <? v2).
Proof.
  intros v1 v2 H1 H2. rewrite !manifest_name_attached by assumption.
  rewrite lex_ltb_app_same_length by (rewrite !pad20_length; reflexivity).
  unfold attached, two63 in *.
  rewrite lex_pad20 by (unfold u64max; lia).
  unfold u64max. destruct (v1 <? v2) eqn:E; [apply N.ltb_lt | apply N.ltb_ge]; lia.
Qed.

(* ------------------------------------------------------------------ *)
(* directories                                                         *)
(* ------------------------------------------------------------------ *)
(* a file that is not an attached manifest: detached manifests, staging copies, temporary files,
   anything whose scheme is not detected or whose version does not parse *)
Definition junk (f : name) : Prop := valid_entry f = None.
Definition canon (s : scheme) (f : name) : Prop := exists v, attached v /\ f = manifest_name s v.
(* version denoted by a file name, if any *)
Definition ver_of (f : name) : option N :=
  match detect_scheme f with Some s => parse_version s f | None => None end.

Lemma ver_of_canon : forall s v, attached v -> ver_of (manifest_name s v) = Some v.
Proof. intros s v H. unfold ver_of. rewrite detect_scheme_attached, parse_version_attached by assumption. reflexivity. Qed.

Lemma ver_of_junk : forall f, junk f -> ver_of f = None.
Proof.
  intros f H. unfold junk, valid_entry in H. unfold ver_of.
  destruct (detect_scheme f) as [s|]; [|reflexivity].
  destruct (parse_version s f); [discriminate | reflexivity].
Qed.

Lemma location_of_canon : forall s v, attached v ->
  location_of (manifest_name s v) = Some (v, manifest_name s v, s).
Proof. intros s v H. unfold location_of. rewrite detect_scheme_attached, parse_version_attached by assumption. reflexivity. Qed.

Lemma location_of_junk : forall f, junk f -> location_of f = None.
Proof.
  intros f H. unfold junk, valid_entry in H. unfold location_of.
  destruct (detect_scheme f) as [s|]; [|reflexivity].
  destruct (parse_version s f); [discriminate | reflexivity].
Qed.

Lemma filter_map_app {A B} (g : A -> option B) : forall l1 l2,
  filter_map g (l1 ++ l2) = filter_map g l1 ++ filter_map g l2.
Proof.
  induction l1 as [|x l1 IH]; intro l2; cbn [app filter_map]; [reflexivity|].
  destruct (g x); rewrite IH; reflexivity.
Qed.

Lemma filter_map_none {A B} (g : A -> option B) : forall l, Forall (fun x => g x = None) l -> filter_map g l = [].
Proof.
  induction l as [|x l IH]; intro H; cbn [filter_map]; [reflexivity|].
  inversion H as [|? ? Hx Hl]; subst. rewrite Hx. apply IH. assumption.
Qed.

Lemma filter_map_some {A B C} (g : A -> option B) (h : C -> A) (k : C -> B) : forall l,
  Forall (fun x => g (h x) = Some (k x)) l -> filter_map g (map h l) = map k l.
Proof.
  induction l as [|x l IH]; intro H; cbn [filter_map map]; [reflexivity|].
  inversion H as [|? ? Hx Hl]; subst. rewrite Hx, IH by assumption. reflexivity.
Qed.

Lemma Permutation_filter_map {A B} (g : A -> option B) : forall l1 l2,
  Permutation l1 l2 -> Permutation (filter_map g l1) (filter_map g l2).
Proof.
  intros l1 l2 P. induction P as [|x l1 l2 P IH|x y l|l1 l2 l3 P1 IH1 P2 IH2]; cbn [filter_map].
  - constructor.
  - destruct (g x); [constructor|]; exact IH.
  - destruct (g x), (g y); try apply Permutation_refl. constructor.
  - eapply Permutation_trans; eassumption.
Qed.

(* the valid entries of a well-formed directory are exactly the attached manifests *)
Lemma filter_map_dir {B} (g : name -> option B) (k : N -> B) s : forall vs jk ls,
  Forall attached vs -> Forall junk jk ->
  (forall v, attached v -> g (manifest_name s v) = Some (k v)) ->
  (forall f, junk f -> g f = None) ->
  Permutation ls (map (manifest_name s) vs ++ jk) ->
  Permutation (filter_map g ls) (map k vs).
Proof.
  intros vs jk ls Hvs Hjk Hc Hj P.
  apply (Permutation_filter_map g) in P. rewrite filter_map_app in P.
  rewrite (filter_map_some g (manifest_name s) k) in P.
  - rewrite (filter_map_none g jk), app_nil_r in P; [exact P|].
    eapply Forall_impl; [|exact Hjk]. exact Hj.
  - eapply Forall_impl; [|exact Hvs]. exact Hc.
Qed.

(* ------------------------------------------------------------------ *)
(* maxima                                                              *)
(* ------------------------------------------------------------------ *)
Definition lmax (l : list N) : N := fold_right N.max 0 l.
Definition is_max (m : N) (l : list N) : Prop := In m l /\ Forall (fun v => v <= m) l.

Lemma lmax_upper : forall l, Forall (fun v => v <= lmax l) l.
Proof.
  induction l as [|x l IH]; [constructor|]. cbn [lmax fold_right]. fold (lmax l). constructor; [lia|].
  eapply Forall_impl; [|exact IH]. cbn. intros; lia.
Qed.

Lemma lmax_in : forall l, l <> [] -> In (lmax l) l.
Proof.
  induction l as [|x l IH]; intro H; [contradiction|]. cbn [lmax fold_right]. fold (lmax l).
  destruct l as [|y l].
  - left. cbn. lia.
  - destruct (N.max_spec x (lmax (y :: l))) as [[_ ->]|[_ ->]]; [right; apply IH; discriminate | left; reflexivity].
Qed.

Lemma is_max_lmax : forall m l, is_max m l -> m = lmax l.
Proof.
  intros m l [Hin Hub]. assert (l <> []) by (destruct l; [contradiction | discriminate]).
  pose proof (lmax_in l H) as Hin'. pose proof (lmax_upper l) as Hub'.
  rewrite Forall_forall in Hub, Hub'. specialize (Hub _ Hin'). specialize (Hub' _ Hin). lia.
Qed.

Lemma is_max_perm : forall m l l', Permutation l l' -> is_max m l -> is_max m l'.
Proof.
  intros m l l' P [H1 H2]. split; [eapply Permutation_in; eassumption | eapply Permutation_Forall; eassumption].
Qed.

Definition nmax_step (m v : N) : N := if m <? v then v else m.

Lemma fold_nmax_spec : forall l c, let M := fold_left nmax_step l c in
  (M = c \/ In M l) /\ c <= M /\ Forall (fun v => v <= M) l.
Proof.
  induction l as [|x l IH]; intro c; cbn [fold_left].
  - repeat split; [left; reflexivity | lia | constructor].
  - specialize (IH (nmax_step c x)). cbn zeta in IH. destruct IH as (H1 & H2 & H3).
    set (M := fold_left nmax_step l (nmax_step c x)) in *.
    unfold nmax_step in H1, H2. destruct (c <? x) eqn:E.
    + repeat split; [destruct H1 as [->|H1]; right; [left; reflexivity | right; assumption] | lia | constructor; [lia | assumption]].
    + repeat split; [destruct H1 as [->|H1]; [left; reflexivity | right; right; assumption] | lia | constructor; [lia | assumption]].
Qed.

(* ------------------------------------------------------------------ *)
(* the listing path of current_manifest_path                           *)
(* ------------------------------------------------------------------ *)
Definition entry_of (s : scheme) (v : N) : scheme * name := (s, manifest_name s v).

Lemma full_scan_canon : forall s vl cv, Forall attached vl -> attached cv ->
  full_scan s cv (manifest_name s cv) s (map (entry_of s) vl) =
  Ok (fold_left nmax_step vl cv, manifest_name s (fold_left nmax_step vl cv), s).
Proof.
  intros s vl. induction vl as [|v vl IH]; intros cv Hvl Hc; cbn [map full_scan fold_left]; [reflexivity|].
  inversion Hvl as [|? ? Hv Hvl']; subst. unfold entry_of at 1.
  assert (scheme_eqb s V1 && scheme_eqb s V2 = false) as -> by (destruct s; reflexivity).
  rewrite parse_version_attached by assumption.
  destruct (cv <? v) eqn:E.
  - replace (nmax_step cv v) with v by (unfold nmax_step; rewrite E; reflexivity). apply IH; assumption.
  - replace (nmax_step cv v) with cv by (unfold nmax_step; rewrite E; reflexivity). apply IH; assumption.
Qed.

Lemma sanity_loop_canon : forall s vl ver, Forall attached vl -> sanity_loop ver (map (entry_of s) vl) = Ok tt.
Proof.
  intros s vl ver H. induction vl as [|v vl IH]; cbn [map sanity_loop]; [reflexivity|].
  inversion H as [|? ? Hv Hvl]; subst. unfold entry_of at 1.
  destruct (negb (scheme_eqb s V2)); [reflexivity|].
  rewrite parse_version_attached by assumption.
  destruct (ver <=? v); [reflexivity | apply IH; assumption].
Qed.

Lemma Forall_firstn' {A} (P : A -> Prop) : forall n l, Forall P l -> Forall P (firstn n l).
Proof.
  induction n as [|n IH]; intros l H; [constructor|]. destruct l as [|x l]; [constructor|].
  inversion H; subst. cbn [firstn]. constructor; [assumption | apply IH; assumption].
Qed.

Definition lex_le (a b : name) : Prop := lex_ltb b a = false.
Definition lex_sorted (l : list name) : Prop := StronglySorted lex_le l.

Lemma valid_entry_snd : forall f e, valid_entry f = Some e -> snd e = f.
Proof.
  intros f e H. unfold valid_entry in H. destruct (detect_scheme f) as [s|]; [|discriminate].
  destruct (parse_version s f); [|discriminate]. inversion H; reflexivity.
Qed.

Lemma location_of_name : forall f e, location_of f = Some e -> snd (fst e) = f.
Proof.
  intros f e H. unfold location_of in H. destruct (detect_scheme f) as [s|]; [|discriminate].
  destruct (parse_version s f); [|discriminate]. inversion H; reflexivity.
Qed.

Lemma filter_map_sorted {B} (g : name -> option B) (nm : B -> name) :
  (forall f e, g f = Some e -> nm e = f) ->
  forall ls, lex_sorted ls -> StronglySorted (fun a b => lex_le (nm a) (nm b)) (filter_map g ls).
Proof.
  intros Hg ls H. induction H as [|f ls Hs IH Hall]; cbn [filter_map]; [constructor|].
  destruct (g f) as [e|] eqn:E; [|exact IH].
  constructor; [exact IH|].
  apply Hg in E. rewrite E. clear IH Hs. induction ls as [|f' ls IH']; cbn [filter_map]; [constructor|].
  inversion Hall as [|? ? H1 H2]; subst. destruct (g f') as [e'|] eqn:E'; [|apply IH'; assumption].
  constructor; [apply Hg in E'; rewrite E'; exact H1 | apply IH'; assumption].
Qed.

Definition list_path (lexical : bool) (listing : list name) : lres :=
  current_manifest_path false lexical [] listing.

Lemma current_manifest_path_local : forall lexical rd ls,
  current_manifest_path true lexical rd ls =
  match current_manifest_local rd with
  | Ok (Some (v, f, s)) => Found v f s
  | _ => list_path lexical ls
  end.
Proof. reflexivity. Qed.

Lemma current_manifest_path_nonlocal : forall lexical rd ls,
  current_manifest_path false lexical rd ls = list_path lexical ls.
Proof. reflexivity. Qed.

Definition expected (s : scheme) (vs : list N) : lres :=
  match vs with
  | [] => NotFound
  | _ => Found (lmax vs) (manifest_name s (lmax vs)) s
  end.

Lemma expected_is_max : forall s vs m, is_max m vs -> expected s vs = Found m (manifest_name s m) s.
Proof.
  intros s vs m H. pose proof (is_max_lmax m vs H) as E. destruct H as [Hin _].
  destruct vs; [contradiction|]. unfold expected. rewrite <- E. reflexivity.
Qed.

Lemma list_path_latest : forall s vs jk ls lexical,
  Forall attached vs -> Forall junk jk ->
  Permutation ls (map (manifest_name s) vs ++ jk) ->
  (lexical = true -> lex_sorted ls) ->
  list_path lexical ls = expected s vs.
Proof.
  intros s vs jk ls lexical Hvs Hjk P Hsort.
  pose proof (filter_map_dir valid_entry (entry_of s) s vs jk ls Hvs Hjk
                (valid_entry_attached s) (fun f H => H) P) as PV.
  apply Permutation_map_inv in PV. destruct PV as (vl & EV & PV).
  assert (Hvl : Forall attached vl) by (eapply Permutation_Forall; eassumption).
  unfold list_path, current_manifest_path. rewrite EV.
  destruct vl as [|v0 vl].
  - (* no attached manifest *)
    apply Permutation_sym, Permutation_nil in PV. subst vs. destruct lexical; reflexivity.
  - inversion Hvl as [|? ? Hv0 Hvl']; subst. cbn [map]. unfold entry_of at 1.
    assert (Scan : match full_scan s v0 (manifest_name s v0) s (map (entry_of s) vl) with
                   | Ok (v, g, s') => Found v g s' | Err => LErr | Panic => LPanic end = expected s vs).
    { rewrite full_scan_canon by assumption.
      symmetry. apply expected_is_max. apply (is_max_perm _ (v0 :: vl)); [apply Permutation_sym; exact PV|].
      destruct (fold_nmax_spec vl v0) as (H1 & H2 & H3). split.
      - destruct H1 as [->|H1]; [left; reflexivity | right; exact H1].
      - constructor; assumption. }
    destruct s.
    + (* V1 names: always the full scan *)
      rewrite parse_version_attached by assumption. destruct lexical; exact Scan.
    + destruct lexical.
      * (* V2 names on a lexically ordered store: the first entry *)
        rewrite parse_version_attached by assumption.
        rewrite firstn_map.
        rewrite sanity_loop_canon by (apply Forall_firstn'; assumption).
        symmetry. apply expected_is_max. apply (is_max_perm _ (v0 :: vl)); [apply Permutation_sym; exact PV|].
        split; [left; reflexivity|]. constructor; [lia|].
        specialize (Hsort eq_refl).
        pose proof (filter_map_sorted valid_entry snd valid_entry_snd ls Hsort) as SS.
        rewrite EV in SS. cbn [map] in SS. inversion SS as [|? ? _ Hall]; subst.
        rewrite Forall_forall in Hall |- *. intros v Hv.
        assert (Hin : In (entry_of V2 v) (map (entry_of V2) vl)) by (apply in_map; exact Hv).
        specialize (Hall _ Hin). unfold entry_of, lex_le in Hall. cbn [snd] in Hall.
        rewrite Forall_forall in Hvl'.
        rewrite v2_name_order in Hall by auto. lia.
      * rewrite parse_version_attached by assumption. exact Scan.
Qed.

(* ------------------------------------------------------------------ *)
(* current_manifest_local                                              *)
(* ------------------------------------------------------------------ *)
Notation lstate := (option (N * name) * option scheme)%type (only parsing).

Definition linv (s : scheme) (acc : list N) (st : lstate) : Prop :=
  match fst st with
  | None => acc = []
  | Some (m, f) => f = manifest_name s m /\ attached m /\ is_max m acc /\ snd st = Some s
  end.

Lemma fold_local_err : forall rd, fold_left local_step rd Err = Err.
Proof. induction rd as [|f rd IH]; [reflexivity | exact IH]. Qed.

Lemma fold_local_panic : forall rd, fold_left local_step rd Panic = Panic.
Proof. induction rd as [|f rd IH]; [reflexivity | exact IH]. Qed.

Lemma is_max_snoc_new : forall m acc v, is_max m acc -> m < v -> is_max v (acc ++ [v]).
Proof.
  intros m acc v [H1 H2] Hlt. split; [apply in_or_app; right; left; reflexivity|].
  apply Forall_app. split; [|constructor; [lia | constructor]].
  eapply Forall_impl; [|exact H2]. cbn. intros; lia.
Qed.

Lemma is_max_snoc_old : forall m acc v, is_max m acc -> v <= m -> is_max m (acc ++ [v]).
Proof.
  intros m acc v [H1 H2] Hle. split; [apply in_or_app; left; assumption|].
  apply Forall_app. split; [assumption | constructor; [assumption | constructor]].
Qed.

Lemma local_step_inv : forall s acc st f, (canon s f \/ junk f) -> linv s acc st ->
  match local_step (Ok st) f with
  | Ok st' => linv s (acc ++ filter_map ver_of [f]) st'
  | Err => True
  | Panic => False
  end.
Proof.
  intros s acc [latest sch] f Hf Hinv. unfold linv in Hinv. cbn [fst snd] in Hinv.
  cbn [local_step filter_map]. destruct Hf as [(v & Hv & ->)|Hj].
  - (* an attached manifest of the directory's scheme *)
    rewrite detect_scheme_attached, ver_of_canon by assumption.
    destruct latest as [[m g]|].
    + destruct Hinv as (-> & Hm & Hmax & ->). rewrite scheme_eqb_refl.
      rewrite parse_version_attached by assumption.
      destruct (m <? v) eqn:E; unfold linv; cbn [fst snd].
      * split; [reflexivity | split; [assumption | split; [|reflexivity]]].
        apply (is_max_snoc_new m); [assumption | lia].
      * split; [reflexivity | split; [assumption | split; [|reflexivity]]].
        apply is_max_snoc_old; [assumption | lia].
    + subst acc.
      assert (Hs : exists sch', (match sch with
                 | Some s0 => if scheme_eqb s0 s then Some sch else None
                 | None => Some (Some s) end) = sch' /\ (sch' = None \/ sch' = Some (Some s))).
      { destruct sch as [s0|]; [|eauto]. destruct (scheme_eqb s0 s) eqn:E; [|eauto].
        apply scheme_eqb_eq in E. subst s0. eauto. }
      destruct Hs as (sch' & -> & [->| ->]); [exact I|].
      rewrite parse_version_attached by assumption. unfold linv. cbn [fst snd app].
      split; [reflexivity | split; [assumption | split; [|reflexivity]]].
      split; [left; reflexivity | constructor; [lia | constructor]].
  - (* junk: either not detected, or detected but without a version *)
    rewrite (ver_of_junk f Hj), app_nil_r. unfold junk, valid_entry in Hj.
    destruct (detect_scheme f) as [es|]; [|unfold linv; exact Hinv].
    destruct (parse_version es f); [discriminate|].
    destruct sch as [s0|].
    + destruct (scheme_eqb s0 es); [unfold linv; exact Hinv | exact I].
    + destruct latest as [[m g]|]; [destruct Hinv as (_ & _ & _ & Hn); discriminate|].
      unfold linv. cbn [fst]. exact Hinv.
Qed.

Lemma local_fold_inv : forall s rd acc st, Forall (fun f => canon s f \/ junk f) rd -> linv s acc st ->
  match fold_left local_step rd (Ok st) with
  | Ok st' => linv s (acc ++ filter_map ver_of rd) st'
  | Err => True
  | Panic => False
  end.
Proof.
  intros s rd. induction rd as [|f rd IH]; intros acc st Hrd Hinv.
  - cbn [fold_left filter_map]. rewrite app_nil_r. exact Hinv.
  - inversion Hrd as [|? ? Hf Hrd']; subst. cbn [fold_left].
    pose proof (local_step_inv s acc st f Hf Hinv) as Hstep.
    destruct (local_step (Ok st) f) as [st1| |].
    + specialize (IH _ _ Hrd' Hstep). 
      replace (acc ++ filter_map ver_of (f :: rd)) with ((acc ++ filter_map ver_of [f]) ++ filter_map ver_of rd).
      * exact IH.
      * rewrite <- app_assoc. f_equal. cbn [filter_map]. destruct (ver_of f); reflexivity.
    + rewrite fold_local_err. exact I.
    + exfalso. exact Hstep.
Qed.

Lemma dir_entries_classified : forall s vs jk l,
  Forall attached vs -> Forall junk jk -> Permutation l (map (manifest_name s) vs ++ jk) ->
  Forall (fun f => canon s f \/ junk f) l.
Proof.
  intros s vs jk l Hvs Hjk P. eapply Permutation_Forall; [apply Permutation_sym; exact P|].
  apply Forall_app. split.
  - apply Forall_forall. intros f Hf. apply in_map_iff in Hf as (v & <- & Hv).
    left. exists v. split; [|reflexivity]. rewrite Forall_forall in Hvs. auto.
  - eapply Forall_impl; [|exact Hjk]. intros f Hf. right. exact Hf.
Qed.

(* the local fast path either declines (Err / no manifest) or answers with the highest attached version *)
Lemma current_manifest_local_spec : forall s vs jk rd,
  Forall attached vs -> Forall junk jk -> Permutation rd (map (manifest_name s) vs ++ jk) ->
  current_manifest_local rd = Err \/
  (current_manifest_local rd = Ok None /\ vs = []) \/
  (exists m, current_manifest_local rd = Ok (Some (m, manifest_name s m, s)) /\ is_max m vs).
Proof.
  intros s vs jk rd Hvs Hjk P.
  pose proof (dir_entries_classified s vs jk rd Hvs Hjk P) as Hcl.
  pose proof (local_fold_inv s rd [] (None, None) Hcl eq_refl) as H.
  pose proof (filter_map_dir ver_of (fun v => v) s vs jk rd Hvs Hjk (ver_of_canon s) ver_of_junk P) as PV.
  rewrite map_id in PV. cbn [app] in H.
  unfold current_manifest_local. revert H.
  destruct (fold_left local_step rd (Ok (None, None))) as [[latest sch]| |]; intro H; [|left; reflexivity | exfalso; exact H].
  unfold linv in H. cbn [fst snd] in H. destruct latest as [[m g]|].
  - destruct H as (-> & Hm & Hmax & ->). right. right. exists m. split; [reflexivity|].
    eapply is_max_perm; eassumption.
  - right. left. rewrite H in PV. apply Permutation_nil in PV. split; [reflexivity | exact PV].
Qed.

(* ------------------------------------------------------------------ *)
(* C33_latest                                                          *)
(* ------------------------------------------------------------------ *)
Theorem latest_exact : forall s vs jk_rd jk_ls is_local lexical rd ls,
  Forall attached vs -> Forall junk jk_rd -> Forall junk jk_ls ->
  Permutation rd (map (manifest_name s) vs ++ jk_rd) ->
  Permutation ls (map (manifest_name s) vs ++ jk_ls) ->
  (lexical = true -> lex_sorted ls) ->
  current_manifest_path is_local lexical rd ls = expected s vs.
Proof.
  intros s vs jk_rd jk_ls is_local lexical rd ls Hvs Hj1 Hj2 P1 P2 Hsort.
  pose proof (list_path_latest s vs jk_ls ls lexical Hvs Hj2 P2 Hsort) as HL.
  destruct is_local.
  - rewrite current_manifest_path_local.
    destruct (current_manifest_local_spec s vs jk_rd rd Hvs Hj1 P1) as [E|[[E _]|(m & E & Hmax)]]; rewrite E.
    + exact HL.
    + exact HL.
    + symmetry. apply expected_is_max. exact Hmax.
  - rewrite current_manifest_path_nonlocal. exact HL.
Qed.

(* ------------------------------------------------------------------ *)
(* list_manifest_locations                                             *)
(* ------------------------------------------------------------------ *)
Definition loc_of (s : scheme) (v : N) : N * name * scheme := (v, manifest_name s v, s).
Definition ge_ver (a b : N * name * scheme) : Prop := loc_version b <= loc_version a.

Lemma insert_desc_perm : forall x l, Permutation (insert_desc x l) (x :: l).
Proof.
  intros x l. induction l as [|y r IH]; cbn [insert_desc]; [apply Permutation_refl|].
  destruct (loc_version x <? loc_version y); [|apply Permutation_refl].
  eapply Permutation_trans; [apply perm_skip; exact IH | apply perm_swap].
Qed.

Lemma sort_desc_perm : forall l, Permutation (sort_desc l) l.
Proof.
  induction l as [|x l IH]; [constructor|]. cbn [sort_desc fold_right]. fold (sort_desc l).
  eapply Permutation_trans; [apply insert_desc_perm | apply perm_skip; exact IH].
Qed.

Lemma insert_desc_sorted : forall x l, StronglySorted ge_ver l -> StronglySorted ge_ver (insert_desc x l).
Proof.
  intros x l H. induction H as [|y r Hr IH Hall]; cbn [insert_desc].
  - constructor; constructor.
  - destruct (loc_version x <? loc_version y) eqn:E.
    + constructor; [exact IH|].
      eapply Permutation_Forall; [apply Permutation_sym, insert_desc_perm|].
      constructor; [unfold ge_ver; lia | exact Hall].
    + constructor; [constructor; assumption|].
      constructor; [unfold ge_ver; lia|].
      eapply Forall_impl; [|exact Hall]. unfold ge_ver. intros; lia.
Qed.

Lemma sort_desc_sorted : forall l, StronglySorted ge_ver (sort_desc l).
Proof.
  induction l as [|x l IH]; [constructor|]. cbn [sort_desc fold_right]. fold (sort_desc l).
  apply insert_desc_sorted. exact IH.
Qed.

Lemma v2_locs_sorted : forall vl, Forall attached vl ->
  StronglySorted (fun a b => lex_le (snd (fst a)) (snd (fst b))) (map (loc_of V2) vl) ->
  StronglySorted ge_ver (map (loc_of V2) vl).
Proof.
  induction vl as [|v vl IH]; intros Hatt H; cbn [map] in *; [constructor|].
  inversion Hatt as [|? ? Hv Hvl]; subst. inversion H as [|? ? Hs Hall]; subst.
  constructor; [apply IH; assumption|].
  rewrite Forall_forall in Hall |- *. intros e He. specialize (Hall e He).
  apply in_map_iff in He as (w & <- & Hw). rewrite Forall_forall in Hvl.
  unfold loc_of, lex_le, ge_ver, loc_version in *. cbn [fst snd] in *.
  rewrite v2_name_order in Hall by auto. lia.
Qed.

Theorem list_exact : forall s vs jk ls sorted lexical,
  Forall attached vs -> Forall junk jk ->
  Permutation ls (map (manifest_name s) vs ++ jk) ->
  (lexical = true -> lex_sorted ls) ->
  Permutation (list_manifest_locations sorted lexical ls) (map (loc_of s) vs) /\
  (sorted = true -> StronglySorted ge_ver (list_manifest_locations sorted lexical ls)).
Proof.
  intros s vs jk ls sorted lexical Hvs Hjk P Hsort.
  pose proof (filter_map_dir location_of (loc_of s) s vs jk ls Hvs Hjk
                (location_of_canon s) location_of_junk P) as PL.
  fold (list_manifests ls) in PL.
  unfold list_manifest_locations. destruct sorted; cbn [negb].
  2:{ split; [exact PL | discriminate]. }
  assert (Sorted_case : Permutation (sort_desc (list_manifests ls)) (map (loc_of s) vs) /\
                        (true = true -> StronglySorted ge_ver (sort_desc (list_manifests ls)))).
  { split; [eapply Permutation_trans; [apply sort_desc_perm | exact PL] | intros _; apply sort_desc_sorted]. }
  destruct lexical; [|exact Sorted_case].
  destruct (list_manifests ls) as [|[[v f] sch] rest] eqn:EL.
  - split; [exact PL | intros _; constructor].
  - destruct sch; [exact Sorted_case|].
    split; [exact PL | intros _].
    pose proof PL as PL'. apply Permutation_map_inv in PL'. destruct PL' as (vl & EV & PV).
    assert (Hvl : Forall attached vl) by (eapply Permutation_Forall; eassumption).
    assert (s = V2) as ->.
    { destruct vl as [|v0 vl]; [discriminate|]. cbn [map] in EV. unfold loc_of at 1 in EV. inversion EV; reflexivity. }
    rewrite EV. apply v2_locs_sorted; [exact Hvl|]. rewrite <- EV, <- EL.
    apply (filter_map_sorted location_of (fun e => snd (fst e)) location_of_name). apply Hsort. reflexivity.
Qed.

(* with distinct versions the sorted listing is strictly descending *)
Lemma sorted_ge_nodup_strict : forall l, StronglySorted ge_ver l -> NoDup (map loc_version l) ->
  StronglySorted (fun a b => loc_version b < loc_version a) l.
Proof.
  intros l H. induction H as [|x l Hl IH Hall]; intro ND; [constructor|].
  cbn [map] in ND. inversion ND as [|? ? Hnin ND']; subst.
  constructor; [apply IH; exact ND'|].
  rewrite Forall_forall in Hall |- *. intros y Hy. specialize (Hall y Hy). unfold ge_ver in Hall.
  assert (loc_version y <> loc_version x).
  { intro E. apply Hnin. rewrite <- E. apply in_map. exact Hy. }
  lia.
Qed.

Theorem list_sorted_strict : forall s vs jk ls lexical,
  Forall attached vs -> Forall junk jk -> NoDup vs ->
  Permutation ls (map (manifest_name s) vs ++ jk) ->
  (lexical = true -> lex_sorted ls) ->
  StronglySorted (fun a b => loc_version b < loc_version a) (list_manifest_locations true lexical ls).
Proof.
  intros s vs jk ls lexical Hvs Hjk ND P Hsort.
  destruct (list_exact s vs jk ls true lexical Hvs Hjk P Hsort) as [PL HS].
  apply sorted_ge_nodup_strict; [apply HS; reflexivity|].
  eapply Permutation_NoDup; [apply Permutation_sym, Permutation_map; exact PL|].
  rewrite map_map. unfold loc_of, loc_version. cbn [fst]. rewrite map_id. exact ND.
Qed.

(* ------------------------------------------------------------------ *)
(* migrate_scheme_to_v2                                                *)
(* ------------------------------------------------------------------ *)
Definition names (d : dir) : list name := map fst d.
(* the name a file has after the migration *)
Definition target (f : name) : name :=
  if is_v1_name f then match parse_version V1 f with Some v => manifest_name V2 v | None => f end else f.
Definition retarget (e : name * N) : name * N := (target (fst e), snd e).

Lemma parse_digits_bound : forall s acc v, acc <= u64max -> parse_digits acc s = Some v -> v <= u64max.
Proof.
  induction s as [|c s IH]; intros acc v Hacc H; cbn [parse_digits] in H.
  - inversion H; subst; assumption.
  - destruct (is_digit c); [|discriminate].
    destruct (acc * 10 + (c - c_0) <=? u64max) eqn:E; [|discriminate].
    eapply IH; [|exact H]. lia.
Qed.

Lemma parse_u64_bound : forall s v, parse_u64 s = Some v -> v <= u64max.
Proof.
  intros [|c r] v H; cbn [parse_u64] in H; [discriminate|].
  destruct (c =? c_plus).
  - destruct r; [discriminate|]. eapply parse_digits_bound; [|exact H]. unfold u64max; lia.
  - eapply parse_digits_bound; [|exact H]. unfold u64max; lia.
Qed.

Lemma parse_version_v1_bound : forall f v, parse_version V1 f = Some v -> v <= u64max.
Proof.
  intros f v H. unfold parse_version in H. destruct (split_once_dot f) as [[a b]|]; [|discriminate].
  apply parse_u64_bound in H. exact H.
Qed.

Lemma attached_or_detached : forall v, v <= u64max -> attached v \/ detached v.
Proof. intros v Hv. unfold attached, detached. destruct (N.lt_ge_cases v two63); [left | right]; lia. Qed.

Lemma v2_name_not_v1 : forall v, v <= u64max -> is_v1_name (manifest_name V2 v) = false.
Proof.
  intros v Hv. unfold is_v1_name. destruct (attached_or_detached v Hv) as [H|H].
  - rewrite detect_scheme_attached by assumption. reflexivity.
  - rewrite detect_scheme_detached by assumption. reflexivity.
Qed.

Lemma target_not_v1 : forall f, (is_v1_name f = true -> parse_version V1 f <> None) -> is_v1_name (target f) = false.
Proof.
  intros f H. unfold target. destruct (is_v1_name f) eqn:E; [|exact E].
  destruct (parse_version V1 f) as [v|] eqn:P; [|exfalso; apply H; reflexivity].
  apply v2_name_not_v1. eapply parse_version_v1_bound; eassumption.
Qed.

Lemma target_v1_canon : forall v, attached v -> target (manifest_name V1 v) = manifest_name V2 v.
Proof.
  intros v H. unfold target, is_v1_name. rewrite detect_scheme_attached, parse_version_attached by assumption.
  reflexivity.
Qed.

Lemma target_not_v1_id : forall f, is_v1_name f = false -> target f = f.
Proof. intros f H. unfold target. rewrite H. reflexivity. Qed.

(* the version a file denotes is unchanged by its renaming *)
Lemma target_keeps_version : forall f,
  (forall v, ver_of f = Some v -> attached v) -> ver_of (target f) = ver_of f.
Proof.
  intros f H. unfold target. destruct (is_v1_name f) eqn:E; [|reflexivity].
  unfold is_v1_name in E. unfold ver_of in H |- *. destruct (detect_scheme f) as [[|]|] eqn:D; try discriminate.
  destruct (parse_version V1 f) as [v|] eqn:P.
  - specialize (H v eq_refl). fold (ver_of (manifest_name V2 v)). apply ver_of_canon. exact H.
  - rewrite D, P. reflexivity.
Qed.

(* association-list facts *)
Lemma names_remove : forall f d, names (remove_name f d) = filter (fun g => negb (name_eqb g f)) (names d).
Proof.
  intros f d. unfold names, remove_name. induction d as [|e d IH]; cbn [filter map]; [reflexivity|].
  destruct (negb (name_eqb (fst e) f)); cbn [map]; rewrite IH; reflexivity.
Qed.

Lemma in_names_remove : forall f g d, In g (names (remove_name f d)) <-> In g (names d) /\ g <> f.
Proof.
  intros f g d. rewrite names_remove, filter_In. split; intros [H1 H2]; split; try assumption.
  - apply negb_true_iff, name_eqb_neq in H2. exact H2.
  - apply negb_true_iff, name_eqb_neq. exact H2.
Qed.

Lemma remove_name_notin : forall f d, ~ In f (names d) -> remove_name f d = d.
Proof.
  intros f d H. unfold remove_name. apply filter_all. intros e He.
  apply negb_true_iff, name_eqb_neq. intro E. apply H. unfold names. rewrite <- E. apply in_map. exact He.
Qed.

Lemma lookup_in : forall f d, In f (names d) -> exists c, lookup f d = Some c /\ In (f, c) d.
Proof.
  intros f d. unfold lookup, names. induction d as [|[g c] d IH]; cbn [map In find fst snd]; [contradiction|].
  intros [E|H].
  - subst g. rewrite name_eqb_refl. exists c. split; [reflexivity | left; reflexivity].
  - destruct (name_eqb g f) eqn:E.
    + apply name_eqb_eq in E. subst g. exists c. split; [reflexivity | left; reflexivity].
    + destruct (IH H) as (c' & H1 & H2). exists c'. split; [exact H1 | right; exact H2].
Qed.

Lemma perm_remove : forall f c d, NoDup (names d) -> In (f, c) d -> Permutation d ((f, c) :: remove_name f d).
Proof.
  intros f c d. unfold names, remove_name. induction d as [|[g c'] d IH]; intros ND Hin; [contradiction|].
  cbn [map fst] in ND. inversion ND as [|? ? Hnin ND']; subst. cbn [filter fst].
  destruct Hin as [E|Hin].
  - inversion E; subst. rewrite name_eqb_refl. cbn [negb].
    apply perm_skip. fold (remove_name f d). rewrite remove_name_notin by exact Hnin. apply Permutation_refl.
  - assert (g <> f).
    { intro E. subst g. apply Hnin. change f with (fst (f, c)). apply in_map. exact Hin. }
    apply name_eqb_neq in H. rewrite H. cbn [negb].
    eapply Permutation_trans; [apply perm_skip; apply IH; assumption | apply perm_swap].
Qed.

Definition inb (f : name) (t : list name) : bool := existsb (name_eqb f) t.
Definition rt (t : list name) (e : name * N) : name * N := if inb (fst e) t then retarget e else e.

Lemma inb_in : forall f t, inb f t = true <-> In f t.
Proof.
  intros f t. unfold inb. rewrite existsb_exists. split.
  - intros (g & Hg & E). apply name_eqb_eq in E. subst g. exact Hg.
  - intro H. exists f. split; [exact H | apply name_eqb_refl].
Qed.

Lemma inb_notin : forall f t, inb f t = false <-> ~ In f t.
Proof.
  intros f t. split.
  - intros H Hin. apply inb_in in Hin. congruence.
  - intro H. destruct (inb f t) eqn:E; [apply inb_in in E; contradiction | reflexivity].
Qed.

Lemma migrate_loop_spec : forall todo d,
  NoDup todo -> NoDup (names d) ->
  (forall f, In f todo -> In f (names d) /\ is_v1_name f = true /\ parse_version V1 f <> None) ->
  (forall f, In f todo -> ~ In (target f) (names d)) ->
  NoDup (map target todo) ->
  exists d', migrate_loop todo d = Ok d' /\ Permutation d' (map (rt todo) d).
Proof.
  induction todo as [|f todo IH]; intros d NDt NDd Hin Hfresh NDtt.
  - exists d. split; [reflexivity|]. unfold rt, inb. cbn [existsb]. rewrite map_id. apply Permutation_refl.
  - cbn [migrate_loop].
    destruct (Hin f (or_introl eq_refl)) as (Hfd & Hv1 & Hp).
    destruct (parse_version V1 f) as [v|] eqn:P; [|contradiction].
    assert (Ht : target f = manifest_name V2 v) by (unfold target; rewrite Hv1, P; reflexivity).
    set (t := manifest_name V2 v) in *.
    pose proof (Hfresh f (or_introl eq_refl)) as Htf. rewrite Ht in Htf.
    destruct (lookup_in f d Hfd) as (c & Hl & Hfc).
    assert (Hne : f <> t) by (intro E; apply Htf; rewrite <- E; exact Hfd).
    unfold rename. rewrite Hl. apply name_eqb_neq in Hne. rewrite Hne. apply name_eqb_neq in Hne.
    rewrite (remove_name_notin t) by (intro H; apply in_names_remove in H as [H _]; contradiction).
    inversion NDt as [|? ? Hft NDt']; subst. cbn [map] in NDtt. inversion NDtt as [|? ? Htt NDtt']; subst.
    destruct (IH ((t, c) :: remove_name f d)) as (d' & Hd' & Pd'); try assumption.
    + cbn [names map fst]. constructor.
      * intro H. fold (names (remove_name f d)) in H. apply in_names_remove in H as [H _]. contradiction.
      * fold (names (remove_name f d)). rewrite names_remove. apply NoDup_filter. exact NDd.
    + intros g Hg. destruct (Hin g (or_intror Hg)) as (H1 & H2 & H3). split; [|split; assumption].
      cbn [names map fst]. right. fold (names (remove_name f d)). apply in_names_remove. split; [exact H1|].
      intro E. subst g. contradiction.
    + intros g Hg H. cbn [names map fst] in H. destruct H as [H|H].
      * apply Htt. rewrite Ht, H. apply in_map. exact Hg.
      * fold (names (remove_name f d)) in H. apply in_names_remove in H as [H _].
        apply (Hfresh g (or_intror Hg)). exact H.
    + exists d'. split; [exact Hd'|].
      eapply Permutation_trans; [exact Pd'|]. cbn [map].
      assert (Htn : ~ In t todo).
      { intro H. destruct (Hin t (or_intror H)) as (H1 & _). contradiction. }
      unfold rt at 1. cbn [fst]. apply inb_notin in Htn. rewrite Htn.
      eapply Permutation_trans;
        [|apply Permutation_sym; apply (Permutation_map (rt (f :: todo))); apply (perm_remove f c d NDd Hfc)].
      cbn [map].
      assert (E1 : rt (f :: todo) (f, c) = (t, c)).
      { unfold rt, inb, retarget. cbn [fst snd existsb]. rewrite name_eqb_refl. cbn [orb]. rewrite Ht. reflexivity. }
      rewrite E1. apply perm_skip.
      apply Permutation_refl'. apply map_ext_in. intros e He.
      assert (fst e <> f).
      { intro E. assert (In (fst e) (names (remove_name f d))) by (apply in_map; exact He).
        apply in_names_remove in H as [_ H]. contradiction. }
      unfold rt, inb. cbn [existsb]. apply name_eqb_neq in H. rewrite H. reflexivity.
Qed.

Lemma NoDup_map_inj_on {A B} (h : A -> B) : forall l a b,
  NoDup (map h l) -> In a l -> In b l -> h a = h b -> a = b.
Proof.
  induction l as [|x l IH]; intros a b ND Ha Hb E; [contradiction|].
  cbn [map] in ND. inversion ND as [|? ? Hnin ND']; subst.
  destruct Ha as [->|Ha], Hb as [->|Hb]; try reflexivity.
  - exfalso. apply Hnin. rewrite E. apply in_map. exact Hb.
  - exfalso. apply Hnin. rewrite <- E. apply in_map. exact Ha.
  - eapply IH; eassumption.
Qed.

Lemma NoDup_map_filter {A B} (h : A -> B) (p : A -> bool) : forall l,
  NoDup (map h l) -> NoDup (map h (filter p l)).
Proof.
  induction l as [|x l IH]; intro ND; cbn [filter map]; [constructor|].
  cbn [map] in ND. inversion ND as [|? ? Hnin ND']; subst.
  destruct (p x); cbn [map]; [|apply IH; exact ND'].
  constructor; [|apply IH; exact ND'].
  intro H. apply Hnin. apply in_map_iff in H as (y & E & Hy). apply filter_In in Hy as [Hy _].
  rewrite <- E. apply in_map. exact Hy.
Qed.

Theorem migrate_exact : forall d,
  NoDup (map target (names d)) ->
  (forall f, In f (names d) -> is_v1_name f = true -> parse_version V1 f <> None) ->
  exists d', migrate_scheme_to_v2 d = Ok d' /\ Permutation d' (map retarget d) /\
             migrate_scheme_to_v2 d' = Ok d'.
Proof.
  intros d NDt Hparse.
  assert (NDd : NoDup (names d)) by (eapply NoDup_map_inv; exact NDt).
  unfold migrate_scheme_to_v2. fold (names d).
  set (todo := filter is_v1_name (names d)).
  destruct (migrate_loop_spec todo d) as (d' & Hd' & Pd').
  - apply NoDup_filter. exact NDd.
  - exact NDd.
  - intros f Hf. apply filter_In in Hf as [H1 H2]. repeat split; auto.
  - intros f Hf Hin. apply filter_In in Hf as [H1 H2].
    assert (Hnv : is_v1_name (target f) = false) by (apply target_not_v1; auto).
    assert (E : target (target f) = target f) by (apply target_not_v1_id; exact Hnv).
    assert (target f = f) by (eapply (NoDup_map_inj_on target); eassumption).
    rewrite H in Hnv. congruence.
  - apply NoDup_map_filter. exact NDt.
  - exists d'. split; [exact Hd'|].
    assert (Pr : Permutation d' (map retarget d)).
    { eapply Permutation_trans; [exact Pd'|]. apply Permutation_refl'. apply map_ext_in. intros e He.
      unfold rt. destruct (inb (fst e) todo) eqn:E; [reflexivity|].
      apply inb_notin in E. unfold retarget.
      assert (is_v1_name (fst e) = false).
      { destruct (is_v1_name (fst e)) eqn:V; [|reflexivity]. exfalso. apply E. apply filter_In.
        split; [apply in_map; exact He | exact V]. }
      rewrite target_not_v1_id by assumption. destruct e; reflexivity. }
    split; [exact Pr|].
    (* idempotent: nothing is detected as V1 any more *)
    assert (Hnone : filter is_v1_name (map fst d') = []).
    { apply (Permutation_map fst) in Pr. rewrite map_map in Pr. cbn [retarget fst] in Pr.
      assert (F : Forall (fun f => is_v1_name f = false) (map fst d')).
      { eapply Permutation_Forall; [apply Permutation_sym; exact Pr|].
        apply Forall_forall. intros f Hf. apply in_map_iff in Hf as (e & <- & He).
        apply target_not_v1. apply Hparse. apply in_map. exact He. }
      clear -F. induction (map fst d') as [|x l IH]; [reflexivity|].
      inversion F as [|? ? Hx Hl]; subst. cbn [filter]. rewrite Hx. apply IH. exact Hl. }
    rewrite Hnone. reflexivity.
Qed.

(* a uniform V1 directory: attached manifests (version, content) under V1 names plus files not detected as V1 *)
Definition v1_entry (p : N * N) : name * N := (manifest_name V1 (fst p), snd p).
Definition v2_entry (p : N * N) : name * N := (manifest_name V2 (fst p), snd p).

Lemma NoDup_app' {A} : forall l1 l2 : list A,
  NoDup l1 -> NoDup l2 -> (forall x, In x l1 -> ~ In x l2) -> NoDup (l1 ++ l2).
Proof.
  induction l1 as [|x l1 IH]; intros l2 H1 H2 H; cbn [app]; [exact H2|].
  inversion H1 as [|? ? Hnin H1']; subst. constructor.
  - intro Hin. apply in_app_or in Hin as [Hin|Hin]; [contradiction | apply (H x (or_introl eq_refl)); exact Hin].
  - apply IH; try assumption. intros y Hy. apply H. right. exact Hy.
Qed.

Lemma NoDup_map_inj_in {A B} (h : A -> B) : forall l,
  (forall a b, In a l -> In b l -> h a = h b -> a = b) -> NoDup l -> NoDup (map h l).
Proof.
  induction l as [|x l IH]; intros Hinj ND; cbn [map]; [constructor|].
  inversion ND as [|? ? Hnin ND']; subst. constructor.
  - intro H. apply in_map_iff in H as (y & E & Hy). apply Hnin.
    rewrite (Hinj x y (or_introl eq_refl) (or_intror Hy) (eq_sym E)). exact Hy.
  - apply IH; [|exact ND']. intros a b Ha Hb. apply Hinj; right; assumption.
Qed.

Theorem migrate_uniform : forall (vc : list (N * N)) (jk d : dir),
  NoDup (map fst vc) -> Forall attached (map fst vc) ->
  Forall (fun e => is_v1_name (fst e) = false) jk -> NoDup (names jk) ->
  (forall v, In v (map fst vc) -> ~ In (manifest_name V2 v) (names jk)) ->
  Permutation d (map v1_entry vc ++ jk) ->
  exists d', migrate_scheme_to_v2 d = Ok d' /\ Permutation d' (map v2_entry vc ++ jk) /\
             migrate_scheme_to_v2 d' = Ok d'.
Proof.
  intros vc jk d NDv Hatt Hjk NDj Hdis P.
  rewrite Forall_forall in Hatt.
  assert (Hret : map retarget (map v1_entry vc ++ jk) = map v2_entry vc ++ jk).
  { rewrite map_app, map_map. f_equal.
    - apply map_ext_in. intros p Hp. unfold retarget, v1_entry, v2_entry. cbn [fst snd].
      rewrite target_v1_canon; [reflexivity|]. apply Hatt. apply in_map. exact Hp.
    - rewrite <- (map_id jk) at 2. apply map_ext_in. intros e He. unfold retarget.
      rewrite Forall_forall in Hjk. rewrite target_not_v1_id by (apply Hjk; exact He). destruct e; reflexivity. }
  destruct (migrate_exact d) as (d' & H1 & H2 & H3).
  - (* no two files end up under the same name *)
    apply (Permutation_map fst) in P. fold (names d) in P.
    eapply Permutation_NoDup; [apply Permutation_sym, Permutation_map; exact P|].
    replace (map target (map fst (map v1_entry vc ++ jk))) with (map fst (map retarget (map v1_entry vc ++ jk)))
      by (rewrite !map_map; reflexivity).
    rewrite Hret, map_app. apply NoDup_app'.
    + rewrite map_map. unfold v2_entry. cbn [fst]. rewrite <- (map_map fst (manifest_name V2)).
      apply NoDup_map_inj_in; [|exact NDv].
      intros a b Ha Hb E. apply (manifest_name_inj V2); [| |exact E].
      * specialize (Hatt a Ha). unfold attached, two63 in Hatt. unfold u64max. lia.
      * specialize (Hatt b Hb). unfold attached, two63 in Hatt. unfold u64max. lia.
    + exact NDj.
    + intros x Hx. rewrite map_map in Hx. apply in_map_iff in Hx as (p & <- & Hp). unfold v2_entry. cbn [fst].
      apply Hdis. apply in_map. exact Hp.
  - intros f Hf Hv1. apply (Permutation_map fst) in P. fold (names d) in P.
    apply (Permutation_in _ P) in Hf. rewrite map_app in Hf. apply in_app_or in Hf as [Hf|Hf].
    + rewrite map_map in Hf. apply in_map_iff in Hf as (p & <- & Hp). unfold v1_entry. cbn [fst].
      rewrite parse_version_attached by (apply Hatt; apply in_map; exact Hp). discriminate.
    + apply in_map_iff in Hf as (e & <- & He). rewrite Forall_forall in Hjk. rewrite (Hjk e He) in Hv1. discriminate.
  - exists d'. split; [exact H1|]. split; [|exact H3].
    eapply Permutation_trans; [exact H2|]. rewrite <- Hret. apply Permutation_map. exact P.
Qed.

(* ------------------------------------------------------------------ *)
(* complete description of the u64 parser                              *)
(* ------------------------------------------------------------------ *)
Theorem parse_u64_spec : forall s v,
  parse_u64 s = Some v <->
  exists ds, (s = ds \/ s = c_plus :: ds) /\ ds <> [] /\ Forall digit ds /\ dval 0 ds = v /\ v <= u64max.
Proof.
  intros s v. split.
  - intro H. pose proof (parse_u64_bound s v H) as Hb. destruct s as [|c r]; [discriminate|].
    cbn [parse_u64] in H. destruct (c =? c_plus) eqn:E.
    + apply N.eqb_eq in E. subst c. destruct r as [|c' r']; [discriminate|].
      apply parse_digits_sound in H as [Hd Hv]. exists (c' :: r'). split; [right; reflexivity|]. split; [discriminate|]. split; [exact Hd|].
      split; [symmetry; exact Hv | exact Hb].
    + apply parse_digits_sound in H as [Hd Hv]. exists (c :: r). split; [left; reflexivity|]. split; [discriminate|]. split; [exact Hd|].
      split; [symmetry; exact Hv | exact Hb].
  - intros (ds & Hs & Hne & Hd & Hv & Hb). destruct Hs as [->| ->].
    + rewrite parse_u64_digits by assumption. rewrite parse_digits_dval; [congruence | assumption | lia].
    + cbn [parse_u64]. rewrite N.eqb_refl. destruct ds as [|c r]; [contradiction|].
      rewrite parse_digits_dval; [congruence | assumption | lia].
Qed.

Lemma parse_u64_overflow : forall ds, Forall digit ds -> u64max < dval 0 ds ->
  parse_u64 ds = None /\ parse_u64 (c_plus :: ds) = None.
Proof.
  intros ds Hd Hov. split.
  - destruct (parse_u64 ds) as [v|] eqn:E; [|reflexivity]. exfalso.
    apply parse_u64_spec in E as (ds' & Hs & _ & Hd' & Hv & Hb). destruct Hs as [->| ->]; [lia|].
    inversion Hd as [|? ? Hc _]; subst. unfold digit, c_plus in Hc. lia.
  - destruct (parse_u64 (c_plus :: ds)) as [v|] eqn:E; [|reflexivity]. exfalso.
    apply parse_u64_spec in E as (ds' & Hs & _ & Hd' & Hv & Hb). destruct Hs as [E|E].
    + subst ds'. inversion Hd' as [|? ? Hc _]; subst. unfold digit, c_plus in Hc. lia.
    + inversion E; subst. lia.
Qed.
