(* Model of manifest naming and latest-version discovery:
   rust/lance-table/src/io/commit.rs  (ManifestNamingScheme::{manifest_path, parse_version, detect_scheme,
   detect_scheme_staging}, current_manifest_path, current_manifest_local, list_manifests,
   CommitHandler::list_manifest_locations, migrate_scheme_to_v2) and
   rust/lance-table/src/format/manifest.rs (is_detached_version).
   File names are byte lists ([list N], one N per UTF-8 byte). Executable definitions only. *)
From Coq Require String Ascii.
From LanceV Require Import Common.Base.
Export String.StringSyntax.   (* string literals only (no other name of Coq.Strings.String is imported) *)
Local Open Scope N_scope.

Definition name := list N.
(* the bytes of a string literal: correspondence shards write file names as [bs "12.manifest"] *)
Fixpoint bs (s : String.string) : name :=
  match s with
  | String.EmptyString => []
  | String.String c r => Ascii.N_of_ascii c :: bs r
  end.
Arguments bs s%string_scope.
Inductive scheme := V1 | V2.
Definition scheme_eqb (a b : scheme) : bool :=
  match a, b with V1, V1 | V2, V2 => true | _, _ => false end.

(* ---- bytes ---- *)
Definition c_plus : N := 43.   (* '+' *)
Definition c_dash : N := 45.   (* '-' *)
Definition c_dot : N := 46.    (* '.' *)
Definition c_0 : N := 48.      (* '0' *)
Definition c_9 : N := 57.      (* '9' *)
Definition c_d : N := 100.     (* 'd' = DETACHED_VERSION_PREFIX *)
(* MANIFEST_EXTENSION = "manifest" *)
Definition EXT : name := [109; 97; 110; 105; 102; 101; 115; 116].
Definition DOT_EXT : name := c_dot :: EXT.

Definition u64max : N := 18446744073709551615.
Definition DETACHED_VERSION_MASK : N := 9223372036854775808.   (* 0x8000_0000_0000_0000 *)

(* manifest.rs: version & DETACHED_VERSION_MASK != 0 *)
Definition is_detached_version (v : N) : bool := negb (N.land v DETACHED_VERSION_MASK =? 0).

(* ---- core::fmt Display for u64: decimal, and {:020} zero padding ---- *)
(* the [w] least significant decimal digits of [v], most significant first *)
Fixpoint digits_w (w : nat) (v : N) : name :=
  match w with
  | O => []
  | S w' => digits_w w' (v / 10) ++ [c_0 + v mod 10]
  end.
(* format!("{v:020}"): exact for v < 10^20, in particular for every u64 *)
Definition pad20 (v : N) : name := digits_w 20 v.
Fixpoint strip_zeros (s : name) : name :=
  match s with
  | c :: r => if c =? c_0 then strip_zeros r else s
  | [] => []
  end.
(* format!("{v}"): no leading zeros, "0" for zero; exact for v < 10^20 *)
Definition to_dec (v : N) : name :=
  match strip_zeros (pad20 v) with [] => [c_0] | s => s end.

(* ---- core::num  <u64 as FromStr>::from_str ---- *)
Definition is_digit (c : N) : bool := (c_0 <=? c) && (c <=? c_9).
(* checked_mul(10) then checked_add(digit): None on any non-digit or on overflow of u64 *)
Fixpoint parse_digits (acc : N) (s : name) : option N :=
  match s with
  | [] => Some acc
  | c :: r =>
      if is_digit c then
        let acc' := acc * 10 + (c - c_0) in
        if acc' <=? u64max then parse_digits acc' r else None
      else None
  end.
(* empty -> Err(Empty); a lone sign -> Err(InvalidDigit); a leading '+' is accepted; '-' is an invalid digit *)
Definition parse_u64 (s : name) : option N :=
  match s with
  | [] => None
  | c :: r =>
      if c =? c_plus then (match r with [] => None | _ => parse_digits 0 r end)
      else parse_digits 0 s
  end.

(* ---- str helpers ---- *)
Fixpoint starts_with (p s : name) : bool :=
  match p, s with
  | [], _ => true
  | a :: p', b :: s' => (a =? b) && starts_with p' s'
  | _ :: _, [] => false
  end.
Definition ends_with (p s : name) : bool := starts_with (rev p) (rev s).
(* str::split_once('.') : the part before the first '.', and the rest *)
Fixpoint split_once_dot (s : name) : option (name * name) :=
  match s with
  | [] => None
  | c :: r =>
      if c =? c_dot then Some ([], r)
      else match split_once_dot r with Some (a, b) => Some (c :: a, b) | None => None end
  end.
(* str::chars(): a char starts at every byte that is not a UTF-8 continuation byte (10xxxxxx) *)
Definition is_cont (b : N) : bool := (128 <=? b) && (b <? 192).
Definition char_starts (s : name) : name := filter (fun b => negb (is_cont b)) s.

(* ---- ManifestNamingScheme ---- *)
(* file name (last path segment) of manifest_path(base, version); the path is base/_versions/<name> *)
Definition manifest_name (s : scheme) (v : N) : name :=
  if is_detached_version v then c_d :: to_dec v ++ DOT_EXT
  else match s with
       | V1 => to_dec v ++ DOT_EXT
       | V2 => pad20 (u64max - v) ++ DOT_EXT
       end.

Definition parse_version (s : scheme) (f : name) : option N :=
  let file_number :=
    match split_once_dot f with
    | Some (version_str, _) => parse_u64 version_str
    | None => None
    end in
  match s with
  | V1 => file_number
  | V2 => option_map (fun v => u64max - v) file_number
  end.

Definition V2_LEN : N := 29.   (* 20 + 1 + "manifest".len() *)
Definition detect_scheme (f : name) : option scheme :=
  if starts_with [c_d] f then Some V2
  else if ends_with EXT f then
    (if N.of_nat (length f) =? V2_LEN then Some V2 else Some V1)
  else None.

Definition detect_scheme_staging (f : name) : scheme :=
  match nth_error (char_starts f) 20 with
  | Some c => if c =? c_dot then V2 else V1
  | None => V1
  end.

(* ---- latest-version discovery ---- *)
Inductive lres := Found (v : N) (f : name) (s : scheme) | NotFound | LErr | LPanic.

(* current_manifest_local: one pass over read_dir (arbitrary order).
   state = (latest (version, entry), scheme seen so far) *)
Definition local_step (st : outcome (option (N * name) * option scheme)) (f : name)
  : outcome (option (N * name) * option scheme) :=
  match st with
  | Ok (latest, sch) =>
      match detect_scheme f with
      | None => Ok (latest, sch)                                (* temporary files: continue *)
      | Some entry_scheme =>
          match (match sch with
                 | Some s0 => if scheme_eqb s0 entry_scheme then Some sch else None
                 | None => Some (Some entry_scheme)
                 end) with
          | None => Err                                          (* multiple naming schemes *)
          | Some sch' =>
              match parse_version entry_scheme f with
              | None => Ok (latest, sch')                        (* continue *)
              | Some version =>
                  match latest with
                  | Some (latest_version, _) =>
                      if latest_version <? version then Ok (Some (version, f), sch')
                      else Ok (latest, sch')
                  | None => Ok (Some (version, f), sch')
                  end
              end
          end
      end
  | _ => st
  end.

Definition current_manifest_local (read_dir : list name) : outcome (option (N * name * scheme)) :=
  match fold_left local_step read_dir (Ok (None, None)) with
  | Ok (Some (version, f), Some s) => Ok (Some (version, f, s))
  | Ok (Some _, None) => Panic                                   (* scheme.unwrap() *)
  | Ok (None, _) => Ok None
  | Err => Err
  | Panic => Panic
  end.

(* the try_filter_map of current_manifest_path: keep entries whose scheme is detected AND whose
   version parses under it (repair a1985d8) *)
Definition valid_entry (f : name) : option (scheme * name) :=
  match detect_scheme f with
  | Some s => match parse_version s f with Some _ => Some (s, f) | None => None end
  | None => None
  end.
Fixpoint filter_map {A B} (g : A -> option B) (l : list A) : list B :=
  match l with
  | [] => []
  | x :: r => match g x with Some y => y :: filter_map g r | None => filter_map g r end
  end.

(* the 999-entry sanity loop of the lexically ordered fast path: only warns and breaks, but unwraps *)
Fixpoint sanity_loop (version : N) (rest : list (scheme * name)) : outcome unit :=
  match rest with
  | [] => Ok tt
  | (s, f) :: r =>
      if negb (scheme_eqb s V2) then Ok tt                       (* warn; break *)
      else match parse_version s f with
           | None => Panic                                       (* unwrap *)
           | Some next_version =>
               if version <=? next_version then Ok tt            (* warn; break *)
               else sanity_loop version r
           end
  end.

(* the full scan of the second arm (repair 68164c9): [first] is the scheme of the first valid entry;
   a V2 entry is rejected only in a directory that started out as V1; every entry is parsed with its
   own scheme; the scheme reported is that of the entry chosen *)
Fixpoint full_scan (first : scheme) (cur_v : N) (cur_f : name) (cur_s : scheme) (rest : list (scheme * name))
  : outcome (N * name * scheme) :=
  match rest with
  | [] => Ok (cur_v, cur_f, cur_s)
  | (entry_scheme, f) :: r =>
      if scheme_eqb first V1 && scheme_eqb entry_scheme V2 then Err   (* "Found V2 manifest in a V1 manifest directory" *)
      else match parse_version entry_scheme f with
           | None => Panic
           | Some version =>
               if cur_v <? version then full_scan first version f entry_scheme r
               else full_scan first cur_v cur_f cur_s r
           end
  end.

(* current_manifest_path(object_store, base): [read_dir] is the order std::fs::read_dir yields
   (used only when the store is local), [listing] the order object_store.list yields. *)
Definition current_manifest_path (is_local lexical : bool) (read_dir listing : list name) : lres :=
  let list_path :=
    let valid := filter_map valid_entry listing in
    match valid, lexical with
    | (V2, f) :: rest, true =>
        match parse_version V2 f with
        | None => LPanic
        | Some version =>
            match sanity_loop version (firstn 999 rest) with
            | Ok _ => Found version f V2
            | Err => LErr
            | Panic => LPanic
            end
        end
    | (s, f) :: rest, _ =>
        match parse_version s f with
        | None => LPanic
        | Some v0 =>
            match full_scan s v0 f s rest with
            | Ok (v, g, s') => Found v g s'
            | Err => LErr
            | Panic => LPanic
            end
        end
    | [], _ => NotFound
    end in
  if is_local then
    match current_manifest_local read_dir with
    | Ok (Some (v, f, s)) => Found v f s
    | _ => list_path
    end
  else list_path.

(* ---- list_manifests / list_manifest_locations ---- *)
(* ManifestLocation::try_from(meta).ok() : (version, file name, scheme) *)
Definition location_of (f : name) : option (N * name * scheme) :=
  match detect_scheme f with
  | Some s => match parse_version s f with Some v => Some (v, f, s) | None => None end
  | None => None
  end.
Definition list_manifests (listing : list name) : list (N * name * scheme) := filter_map location_of listing.

(* Vec::sort_by_key(|m| Reverse(m.version)) : stable, descending by version *)
Definition loc_version (l : N * name * scheme) : N := fst (fst l).
Fixpoint insert_desc (x : N * name * scheme) (l : list (N * name * scheme)) :=
  match l with
  | [] => [x]
  | y :: r => if loc_version x <? loc_version y then y :: insert_desc x r else x :: y :: r
  end.
Definition sort_desc (l : list (N * name * scheme)) := fold_right insert_desc [] l.

Definition list_manifest_locations (sorted_descending lexical : bool) (listing : list name)
  : list (N * name * scheme) :=
  let underlying := list_manifests listing in
  if negb sorted_descending then underlying
  else if lexical then
    match underlying with
    | (_, _, V2) :: _ => underlying
    | [] => underlying
    | _ => sort_desc underlying
    end
  else sort_desc underlying.

(* ---- migrate_scheme_to_v2 ---- *)
(* A directory is an association list file name -> content id. rename(from, to) overwrites [to]. *)
Definition dir := list (name * N).
Definition name_eqb : name -> name -> bool := list_eqb N.eqb.
Definition remove_name (f : name) (d : dir) : dir := filter (fun e => negb (name_eqb (fst e) f)) d.
Definition lookup (f : name) (d : dir) : option N :=
  match find (fun e => name_eqb (fst e) f) d with Some e => Some (snd e) | None => None end.
Definition rename (from to : name) (d : dir) : dir :=
  match lookup from d with
  | Some c => if name_eqb from to then d else (to, c) :: remove_name to (remove_name from d)
  | None => d
  end.
(* the renames, in listing order (the real ones run concurrently; they commute when targets are distinct) *)
Fixpoint migrate_loop (todo : list name) (d : dir) : outcome dir :=
  match todo with
  | [] => Ok d
  | f :: r =>
      match parse_version V1 f with
      | None => Panic                                            (* V1.parse_version(filename).unwrap() *)
      | Some version => migrate_loop r (rename f (manifest_name V2 version) d)
      end
  end.
Definition is_v1_name (f : name) : bool :=
  match detect_scheme f with Some V1 => true | _ => false end.
Definition migrate_scheme_to_v2 (d : dir) : outcome dir :=
  migrate_loop (filter is_v1_name (map fst d)) d.

(* ---- lexicographic order on byte strings (what a lexically ordered store lists by) ---- *)
Fixpoint lex_ltb (a b : name) : bool :=
  match a, b with
  | [], [] => false
  | [], _ :: _ => true
  | _ :: _, [] => false
  | x :: a', y :: b' => if x <? y then true else if y <? x then false else lex_ltb a' b'
  end.
Fixpoint insert_lex (x : name) (l : list name) : list name :=
  match l with
  | [] => [x]
  | y :: r => if lex_ltb y x then y :: insert_lex x r else x :: y :: r
  end.
Definition sort_lex (l : list name) : list name := fold_right insert_lex [] l.

(* ---- correspondence checkers (recorded implementation output is the second argument) ---- *)
Definition sch_of_N (n : N) : scheme := match n with 1 => V1 | _ => V2 end.
Definition sch_to_N (s : scheme) : N := match s with V1 => 1 | V2 => 2 end.
Definition name_list_eqb : list name -> list name -> bool := list_eqb name_eqb.

(* format!("{v}"), format!("{v:020}") *)
Definition chk_fmt (v : N) (out : name * name) : bool :=
  name_eqb (to_dec v) (fst out) && name_eqb (pad20 v) (snd out).
(* s.parse::<u64>().ok() *)
Definition chk_parse_u64 (s : name) (out : option N) : bool := option_eqb N.eqb (parse_u64 s) out.
(* is_detached_version, V1.manifest_path(..).filename(), V2.manifest_path(..).filename() *)
Definition chk_name (v : N) (out : bool * name * name) : bool :=
  let '(det, n1, n2) := out in
  Bool.eqb (is_detached_version v) det && name_eqb (manifest_name V1 v) n1 && name_eqb (manifest_name V2 v) n2.
(* V1.parse_version, V2.parse_version, detect_scheme, detect_scheme_staging *)
Definition chk_file (f : name) (out : option N * option N * option N * N) : bool :=
  let '(p1, p2, det, stg) := out in
  option_eqb N.eqb (parse_version V1 f) p1 && option_eqb N.eqb (parse_version V2 f) p2
  && option_eqb N.eqb (option_map sch_to_N (detect_scheme f)) det
  && (sch_to_N (detect_scheme_staging f) =? stg).

Definition lres_eqb (a b : lres) : bool :=
  match a, b with
  | Found v f s, Found v' f' s' => (v =? v') && name_eqb f f' && scheme_eqb s s'
  | NotFound, NotFound | LErr, LErr | LPanic, LPanic => true
  | _, _ => false
  end.
(* resolve_latest_location on a store with the given flags and the two observed listing orders *)
Definition chk_latest (i : bool * bool * list name * list name) (out : lres) : bool :=
  let '(is_local, lexical, read_dir, listing) := i in
  lres_eqb (current_manifest_path is_local lexical read_dir listing) out.

Definition loc_eqb (a b : N * name * scheme) : bool :=
  let '(v, f, s) := a in let '(v', f', s') := b in (v =? v') && name_eqb f f' && scheme_eqb s s'.
Definition chk_list (i : bool * bool * list name) (out : list (N * name * scheme)) : bool :=
  let '(sorted, lexical, listing) := i in
  list_eqb loc_eqb (list_manifest_locations sorted lexical listing) out.

(* Dataset::versions(): the attached version numbers, ascending *)
Definition chk_versions (listing : list name) (out : list N) : bool :=
  list_eqb N.eqb (rev (map loc_version (sort_desc (list_manifests listing)))) out.

(* migration: directory after the call, as a list sorted by file name *)
Fixpoint insert_entry (x : name * N) (l : dir) : dir :=
  match l with
  | [] => [x]
  | y :: r => if lex_ltb (fst y) (fst x) then y :: insert_entry x r else x :: y :: r
  end.
Definition sort_dir (d : dir) : dir := fold_right insert_entry [] d.
Definition entry_eqb (a b : name * N) : bool := name_eqb (fst a) (fst b) && (snd a =? snd b).
Definition chk_migrate (d : dir) (out : outcome dir) : bool :=
  outcome_eqb (list_eqb entry_eqb)
    (match migrate_scheme_to_v2 d with Ok d' => Ok (sort_dir d') | Err => Err | Panic => Panic end) out.

(* the order a lexically ordered store must list in: does the observed listing equal the sorted one *)
Definition chk_lex_listing (files : list name) (listing : list name) : bool :=
  name_list_eqb (sort_lex files) listing.
