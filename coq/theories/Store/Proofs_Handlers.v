(* C02 - invariants of the commit handlers under arbitrary interleavings and faults. *)
From LanceV Require Import Common.Base Store.Model_Handlers.
Local Open Scope N_scope.

Definition holder_pc (p : pc) : bool :=
  match p with P1 | P2 | P3 | PRelC | PRelO => true | _ => false end.

(* all writers use handlers with atomic create that are compatible with each other *)
Definition Hom (s : state) : Prop :=
  (forall t, kind (thr s t) = HCondPut \/ kind (thr s t) = HRename) \/ (forall t, kind (thr s t) = HLock).

Record Inv (s : state) : Prop := {
  I_ok : forall t, tpc (thr s t) = Done ROk -> sto s (KFinal (ver (thr s t))) = Some (By t);
  I_hold : forall t, kind (thr s t) = HLock -> holder_pc (tpc (thr s t)) = true -> lck s = Some t;
  I_p2 : forall t, kind (thr s t) = HLock -> tpc (thr s t) = P2 -> sto s (KFinal (ver (thr s t))) = None;
  I_p3 : forall t, kind (thr s t) = HLock -> tpc (thr s t) = P3 -> sto s (KFinal (ver (thr s t))) = Some (By t);
  I_tmp : forall t c, sto s (KTmp t) = Some c -> c = By t
}.

Lemma key_eqb_refl k : key_eqb k k = true.
Proof. destruct k; cbn; apply N.eqb_refl. Qed.

Lemma key_eqb_eq a b : key_eqb a b = true <-> a = b.
Proof.
  destruct a, b; cbn; split; intro H; try discriminate; try (apply N.eqb_eq in H; subst; reflexivity);
    inversion H; subst; apply N.eqb_refl.
Qed.

Lemma upd_same s k c : upd s k c k = Some c.
Proof. unfold upd; rewrite key_eqb_refl; reflexivity. Qed.
Lemma upd_other s k c k' : k <> k' -> upd s k c k' = s k'.
Proof. unfold upd; intro H; destruct (key_eqb k k') eqn:E; [apply key_eqb_eq in E; contradiction | reflexivity]. Qed.
Lemma del_same s k : del s k k = None.
Proof. unfold del; rewrite key_eqb_refl; reflexivity. Qed.
Lemma del_other s k k' : k <> k' -> del s k k' = s k'.
Proof. unfold del; intro H; destruct (key_eqb k k') eqn:E; [apply key_eqb_eq in E; contradiction | reflexivity]. Qed.

Lemma thr_mk_same s st l t p :
  thr (mk s st l t p) t = {| ver := ver (thr s t); kind := kind (thr s t); tpc := p |}.
Proof. cbn; unfold set_thr; rewrite N.eqb_refl; reflexivity. Qed.
Lemma thr_mk_other s st l t p x : x <> t -> thr (mk s st l t p) x = thr s x.
Proof. cbn; unfold set_thr; intro H; destruct (N.eqb_spec x t); [contradiction | reflexivity]. Qed.

Lemma ver_mk s st l t p x : ver (thr (mk s st l t p) x) = ver (thr s x).
Proof. cbn; unfold set_thr; destruct (N.eqb x t); reflexivity. Qed.
Lemma kind_mk s st l t p x : kind (thr (mk s st l t p) x) = kind (thr s x).
Proof. cbn; unfold set_thr; destruct (N.eqb x t); reflexivity. Qed.

(* `step` is either the identity or a `mk` *)
Lemma step_shape s e : step s e = s \/ exists st l p, step s e = mk s st l (ev_tid e) p.
Proof.
  unfold step. destruct (kind (thr s (ev_tid e))), (tpc (thr s (ev_tid e))), (ev_mode e);
    repeat match goal with
           | |- context [if ?b then _ else _] => destruct b
           | |- context [match sto s ?k with _ => _ end] => destruct (sto s k)
           end; auto; right; eauto.
Qed.

Lemma step_ver s e x : ver (thr (step s e) x) = ver (thr s x).
Proof. destruct (step_shape s e) as [-> | (st & l & p & ->)]; [reflexivity | apply ver_mk]. Qed.
Lemma step_kind s e x : kind (thr (step s e) x) = kind (thr s x).
Proof. destruct (step_shape s e) as [-> | (st & l & p & ->)]; [reflexivity | apply kind_mk]. Qed.

Lemma Hom_step s e : Hom s -> Hom (step s e).
Proof. intros [H | H]; [left | right]; intro t; rewrite step_kind; apply H. Qed.

Lemma is_none_true {A} (o : option A) : is_none o = true -> o = None.
Proof. destruct o; [discriminate | reflexivity]. Qed.
Lemma is_none_false {A} (o : option A) : is_none o = false -> exists a, o = Some a.
Proof. destruct o; [eauto | discriminate]. Qed.

(* A generic way to establish the invariant of `mk s st l t p`. *)
Lemma Inv_mk s st l t p :
  Inv s ->
  (forall v c, sto s (KFinal v) = Some c -> st (KFinal v) = Some c) ->                       (* finals monotone *)
  (forall x c, st (KTmp x) = Some c -> c = By x) ->
  (p = Done ROk -> st (KFinal (ver (thr s t))) = Some (By t)) ->
  (* lock bookkeeping *)
  (forall x, x <> t -> kind (thr s x) = HLock -> holder_pc (tpc (thr s x)) = true -> l = Some x) ->
  (kind (thr s t) = HLock -> holder_pc p = true -> l = Some t) ->
  (forall x, x <> t -> kind (thr s x) = HLock -> tpc (thr s x) = P2 -> st (KFinal (ver (thr s x))) = None) ->
  (kind (thr s t) = HLock -> p = P2 -> st (KFinal (ver (thr s t))) = None) ->
  (kind (thr s t) = HLock -> p = P3 -> st (KFinal (ver (thr s t))) = Some (By t)) ->
  Inv (mk s st l t p).
Proof.
  intros I Hmono Htmp Hok Hhold_o Hhold_t Hp2_o Hp2_t Hp3_t.
  constructor.
  - intros x Hx. destruct (N.eq_dec x t) as [-> | Hne].
    + rewrite thr_mk_same in *. cbn [ver tpc] in *. cbn [sto mk]. apply Hok; exact Hx.
    + rewrite thr_mk_other in * by exact Hne. cbn [sto mk]. apply Hmono. apply (I_ok s I); exact Hx.
  - intros x Hk Hh. destruct (N.eq_dec x t) as [-> | Hne].
    + rewrite thr_mk_same in *. cbn [kind tpc] in *. cbn [lck mk]. apply Hhold_t; assumption.
    + rewrite thr_mk_other in * by exact Hne. cbn [lck mk]. apply Hhold_o; assumption.
  - intros x Hk Hp. destruct (N.eq_dec x t) as [-> | Hne].
    + rewrite thr_mk_same in *. cbn [kind tpc ver] in *. cbn [sto mk]. apply Hp2_t; assumption.
    + rewrite thr_mk_other in * by exact Hne. cbn [sto mk]. apply Hp2_o; assumption.
  - intros x Hk Hp. destruct (N.eq_dec x t) as [-> | Hne].
    + rewrite thr_mk_same in *. cbn [kind tpc ver] in *. cbn [sto mk]. apply Hp3_t; assumption.
    + rewrite thr_mk_other in * by exact Hne. cbn [sto mk]. apply Hmono. apply (I_p3 s I); assumption.
  - intros x c Hx. cbn [sto mk] in Hx. eapply Htmp; exact Hx.
Qed.


Ltac norm := unfold upd, del in *; cbn [key_eqb] in *.
Ltac split_eqb := repeat match goal with
  | |- context [N.eqb ?a ?b] => destruct (N.eqb_spec a b); subst
  | H : context [N.eqb ?a ?b] |- _ => destruct (N.eqb_spec a b); subst end.
Ltac fin := norm; split_eqb; cbn [holder_pc] in *; try congruence; try discriminate;
            intuition (try congruence; try discriminate).

Lemma step_inv s e : Inv s -> Hom s -> Inv (step s e).
Proof.
  intros I H. unfold step.
  set (t := ev_tid e) in *.
  destruct (kind (thr s t)) eqn:K; destruct (tpc (thr s t)) eqn:P; destruct (ev_mode e); try exact I;
  repeat match goal with
         | |- context [if is_none ?b then _ else _] => let E := fresh "E" in destruct (is_none b) eqn:E;
              [apply is_none_true in E | apply is_none_false in E; destruct E as [? E]]
         | |- context [match sto s ?k with _ => _ end] => let E := fresh "E" in destruct (sto s k) eqn:E
         end; try exact I.
  all: try (destruct H as [H | H]; [ | specialize (H t); congruence ]).
  all: try (destruct H as [H | H]; [ destruct (H t); congruence | ]).
  all: try solve [ destruct (H t) as [HH | HH]; congruence ].
  all: pose proof (I_hold _ I t) as Ht1; pose proof (I_p2 _ I t) as Ht2; pose proof (I_p3 _ I t) as Ht3;
       pose proof (I_tmp _ I) as Ht4; rewrite K, P in Ht1, Ht2, Ht3; cbn [holder_pc] in Ht1.
  all: try specialize (Ht1 eq_refl eq_refl); try specialize (Ht2 eq_refl eq_refl); try specialize (Ht3 eq_refl eq_refl).
  all: apply Inv_mk; [exact I | .. ].
  all: try solve [ intros; fin ].
  all: try solve [ exact Ht4 ].
  all: try solve [ intros y0 Hne Hk Hh; first [apply (I_hold _ I y0 Hk Hh) | apply (I_p2 _ I y0 Hk Hh)] ].
  all: try solve [ intros _; norm; cbn [key_eqb]; rewrite N.eqb_refl; f_equal; eapply Ht4; eauto ].
  all: try solve [ let y0 := fresh "y" in intros y0 Hne Hk Hp; pose proof (I_hold _ I y0 Hk) as Hx1; rewrite Hp in Hx1;
                   cbn [holder_pc] in Hx1; specialize (Hx1 eq_refl); congruence ].
  all: try solve [ let y0 := fresh "y" in intros y0; intros; pose proof (I_hold _ I y0) as Hx1; pose proof (I_p2 _ I y0) as Hx2;
                   try (pose proof (H y0)); fin ].
  all: try solve [ let y0 := fresh "y" in intros y0 c0 Hx; norm; split_eqb; try congruence; eapply Ht4; eauto ].
Qed.

(* published manifests never change *)
Lemma step_mono s e v c : Inv s -> Hom s -> sto s (KFinal v) = Some c -> sto (step s e) (KFinal v) = Some c.
Proof.
  intros I H Hv. unfold step.
  set (t := ev_tid e) in *.
  destruct (kind (thr s t)) eqn:K; destruct (tpc (thr s t)) eqn:P; destruct (ev_mode e); try exact Hv;
  repeat match goal with
         | |- context [if is_none ?b then _ else _] => let E := fresh "E" in destruct (is_none b) eqn:E;
              [apply is_none_true in E | apply is_none_false in E; destruct E as [? E]]
         | |- context [match sto s ?k with _ => _ end] => let E := fresh "E" in destruct (sto s k) eqn:E
         end; try exact Hv.
  all: try (destruct H as [H | H]; [ | specialize (H t); congruence ]).
  all: try (destruct H as [H | H]; [ destruct (H t); congruence | ]).
  all: try solve [ destruct (H t) as [HH | HH]; congruence ].
  all: pose proof (I_p2 _ I t) as Ht2; rewrite K, P in Ht2; try specialize (Ht2 eq_refl eq_refl).
  all: cbn [sto mk]; norm; split_eqb; congruence.
Qed.

Lemma run_app a b s : run (a ++ b) s = run b (run a s).
Proof. unfold run; apply fold_left_app. Qed.

Lemma run_inv evs : forall s, Inv s -> Hom s -> Inv (run evs s) /\ Hom (run evs s).
Proof.
  induction evs as [|e evs IH]; intros s I H; [split; assumption|].
  cbn [run fold_left]. apply IH; [apply step_inv | apply Hom_step]; assumption.
Qed.

Lemma run_mono evs : forall s v c, Inv s -> Hom s -> sto s (KFinal v) = Some c -> sto (run evs s) (KFinal v) = Some c.
Proof.
  induction evs as [|e evs IH]; intros s v c I H Hv; [exact Hv|].
  cbn [run fold_left]. apply IH; [apply step_inv | apply Hom_step | apply step_mono]; assumption.
Qed.

Lemma run_ver evs : forall s x, ver (thr (run evs s) x) = ver (thr s x).
Proof. induction evs as [|e evs IH]; intros s x; [reflexivity|]. cbn [run fold_left]. fold (run evs (step s e)). rewrite IH. apply step_ver. Qed.
Lemma run_kind evs : forall s x, kind (thr (run evs s) x) = kind (thr s x).
Proof. induction evs as [|e evs IH]; intros s x; [reflexivity|]. cbn [run fold_left]. fold (run evs (step s e)). rewrite IH. apply step_kind. Qed.

Lemma init_inv st0 vers kinds : (forall t, st0 (KTmp t) = None) -> Inv (init st0 vers kinds).
Proof.
  intro Htmp. constructor; cbn; intros; try discriminate. rewrite Htmp in *; discriminate.
Qed.

(* ---- runs without injected faults end in Ok or CommitConflict only ---- *)
Record NoErr (s : state) : Prop := {
  NE_pc : forall t, tpc (thr s t) <> Done ROther /\ tpc (thr s t) <> PRelO;
  NE_tmp : forall t, kind (thr s t) = HRename -> tpc (thr s t) = P1 -> sto s (KTmp t) <> None
}.

Lemma NoErr_mk s st l t p :
  NoErr s -> p <> Done ROther -> p <> PRelO ->
  (forall x, x <> t -> kind (thr s x) = HRename -> tpc (thr s x) = P1 -> st (KTmp x) <> None) ->
  (kind (thr s t) = HRename -> p = P1 -> st (KTmp t) <> None) ->
  NoErr (mk s st l t p).
Proof.
  intros [N1 N2] Hp1 Hp2 Ho Ht. constructor.
  - intro x. destruct (N.eq_dec x t) as [-> | Hne].
    + rewrite thr_mk_same; cbn [tpc]; split; assumption.
    + rewrite thr_mk_other by exact Hne; apply N1.
  - intros x Hk Hp. destruct (N.eq_dec x t) as [-> | Hne].
    + rewrite thr_mk_same in *; cbn [kind tpc] in *; cbn [sto mk]; apply Ht; assumption.
    + rewrite thr_mk_other in * by exact Hne; cbn [sto mk]; apply Ho; assumption.
Qed.

Lemma step_noerr s t : NoErr s -> NoErr (step s (Run t)).
Proof.
  intros NE. unfold step. cbn [ev_tid ev_mode].
  destruct (kind (thr s t)) eqn:K; destruct (tpc (thr s t)) eqn:P; try exact NE;
  repeat match goal with
         | |- context [if is_none ?b then _ else _] => let E := fresh "E" in destruct (is_none b) eqn:E
         | |- context [match sto s ?k with _ => _ end] => let E := fresh "E" in destruct (sto s k) eqn:E
         end; try exact NE.
  all: try solve [ exfalso; apply (NE_tmp _ NE t K P); assumption ].
  all: try solve [ exfalso; destruct (NE_pc _ NE t) as [A B]; congruence ].
  all: apply NoErr_mk; [exact NE | discriminate | discriminate | | ].
  all: try solve [ intros; discriminate ].
  all: try solve [ let y := fresh "y" in intros y Hne Hk Hp; pose proof (NE_tmp _ NE y Hk Hp); norm; split_eqb; congruence ].
  all: try solve [ intros; norm; rewrite ?N.eqb_refl; discriminate ].
  all: try solve [ intros; congruence ].
Qed.

Definition all_run (evs : list event) : Prop := forall e, In e evs -> exists t, e = Run t.

Lemma run_noerr evs : forall s, all_run evs -> NoErr s -> NoErr (run evs s).
Proof.
  induction evs as [|e evs IH]; intros s Hall NE; [exact NE|].
  cbn [run fold_left]. fold (run evs (step s e)).
  destruct (Hall e (or_introl eq_refl)) as [t ->].
  apply IH; [intros e' He'; apply Hall; right; exact He' | apply step_noerr; exact NE].
Qed.

Lemma init_noerr st0 vers kinds : NoErr (init st0 vers kinds).
Proof. constructor; cbn; intros; [split; discriminate | discriminate]. Qed.

(* the handler families the theorems are about: all writers use conditional put / rename, or all use a lock *)
Definition atomic_handlers (kinds : N -> hkind) : Prop :=
  (forall t, kinds t = HCondPut \/ kinds t = HRename) \/ (forall t, kinds t = HLock).

Lemma Hom_init st0 vers kinds : atomic_handlers kinds -> Hom (init st0 vers kinds).
Proof. intros [H | H]; [left | right]; exact H. Qed.

