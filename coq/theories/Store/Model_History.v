(* C06 / C42 / C38 - store-level model of a Lance table directory and of the operations that change it.
   Executable definitions only (proofs are in Proofs_History.v).

   Object store = finite map (root, relative path) -> content.  A table lives under one root; every path a
   manifest stores is RELATIVE to the root the manifest was opened at, unless the reference carries a
   base_id, which is looked up in the manifest's base_paths (rust/lance/src/dataset.rs data_file_dir,
   dataset_dir_for_deletion, indice_files_dir: `None => self.base.child(..)`).

     _versions/<v>.manifest                       RManifest v     (ManifestNamingScheme V1 or V2, by version)
     data/<uuid>.lance                            RData u         (uuid v4 chosen by the writer)
     _deletions/<frag>-<read_version>-<id>.<ext>  RDel f rv id    (lance-table/src/io/deletion.rs deletion_file_path;
                                                                   write_deletion_file: id = rand::rng().random::<u64>())
     _indices/<uuid>/<file>                       RIndex u sub    (uuid v4 chosen by create_index / optimize)
     _transactions/<read_version>-<uuid>.txn      RTxn rv u
     _refs/tags/<name>.json                       RTag t

   Every operation only PUTs to fresh paths (names drawn from an oracle, see Section Ops) plus the manifest of
   version latest+1; nothing is overwritten or deleted, except tag files (tag create / update / delete) and
   cleanup, which deletes manifests of the selected old versions and then only files that no retained
   manifest references. *)
From LanceV Require Import Common.Base.
Local Open Scope N_scope.

Definition root := N.

Inductive rel :=
| RManifest (v : N)
| RData (u : N)
| RDel (f rv id : N)
| RIndex (u sub : N)
| RTxn (rv u : N)
| RTag (t : N)
| ROther (n : N).

Definition rel_eqb (a b : rel) : bool :=
  match a, b with
  | RManifest x, RManifest y => N.eqb x y
  | RData x, RData y => N.eqb x y
  | RDel f r i, RDel f' r' i' => N.eqb f f' && N.eqb r r' && N.eqb i i'
  | RIndex u s, RIndex u' s' => N.eqb u u' && N.eqb s s'
  | RTxn r u, RTxn r' u' => N.eqb r r' && N.eqb u u'
  | RTag x, RTag y => N.eqb x y
  | ROther x, ROther y => N.eqb x y
  | _, _ => false
  end.

Definition key := (root * rel)%type.
Definition key_eqb (a b : key) : bool := N.eqb (fst a) (fst b) && rel_eqb (snd a) (snd b).

(* the oracle-chosen component of a path *)
Definition rel_names (r : rel) : list N :=
  match r with
  | RData u => [u]
  | RDel _ _ id => [id]
  | RIndex u _ => [u]
  | RTxn _ u => [u]
  | _ => []
  end.

Definition is_tag (r : rel) : bool := match r with RTag _ => true | _ => false end.
Definition is_manifest (r : rel) : bool := match r with RManifest _ => true | _ => false end.

(* ---------- what a manifest stores ---------- *)
Record fref := { fr_base : option N; fr_name : N }.                 (* DataFile { path, base_id } *)
Record dref := { dr_base : option N; dr_rv : N; dr_id : N }.        (* DeletionFile { read_version, id, base_id } *)
Record frag := { f_id : N; f_files : list fref; f_del : option dref; f_meta : N }.
   (* f_meta: physical rows and row id sequence (opaque) *)
Record iref := { ix_base : option N; ix_uuid : N; ix_meta : N }.    (* IndexMetadata { uuid, base_id, name/fields/bitmap.. } *)
Record manifest := {
  m_version : N;
  m_meta : N;                      (* schema, config, table metadata ... (opaque) *)
  m_frags : list frag;
  m_indices : list iref;
  m_txn : option (N * N);          (* transaction_file = "<read_version>-<uuid>.txn" *)
  m_bases : list (N * root);       (* base_paths: id -> root of another table *)
  m_max_frag : N                   (* max_fragment_id high-water mark *)
}.

Inductive content := CMan (m : manifest) | CBlob (d : N) | CTagC (v : N).

Definition store := list (key * content).

Fixpoint get (s : store) (k : key) : option content :=
  match s with
  | [] => None
  | (k', c) :: t => if key_eqb k' k then Some c else get t k
  end.
Definition put (s : store) (k : key) (c : content) : store := (k, c) :: s.
Definition del (s : store) (k : key) : store := filter (fun e => negb (key_eqb (fst e) k)) s.

Fixpoint assoc_root (l : list (N * root)) (id : N) : option root :=
  match l with [] => None | (a, r) :: t => if N.eqb a id then Some r else assoc_root t id end.

(* data_file_dir / dataset_dir_for_deletion / indice_files_dir: None => the root the table was opened at *)
Definition base_root (here : root) (m : manifest) (b : option N) : option root :=
  match b with None => Some here | Some id => assoc_root (m_bases m) id end.

Definition ref_key (here : root) (m : manifest) (b : option N) (r : rel) : option key :=
  match base_root here m b with Some rt => Some (rt, r) | None => None end.

Definition deref (s : store) (here : root) (m : manifest) (b : option N) (r : rel) : option content :=
  match ref_key here m b r with Some k => get s k | None => None end.

(* every key `open` dereferences for manifest m opened at `here` *)
Definition frag_keys (here : root) (m : manifest) (f : frag) : list (option key) :=
  map (fun fr => ref_key here m (fr_base fr) (RData (fr_name fr))) (f_files f)
  ++ match f_del f with Some d => [ref_key here m (dr_base d) (RDel (f_id f) (dr_rv d) (dr_id d))] | None => [] end.
Definition man_keys (here : root) (m : manifest) : list (option key) :=
  flat_map (frag_keys here m) (m_frags m)
  ++ map (fun i => ref_key here m (ix_base i) (RIndex (ix_uuid i) 0)) (m_indices m)
  ++ match m_txn m with Some t => [Some (here, RTxn (fst t) (snd t))] | None => [] end.

(* oracle-chosen names a manifest mentions *)
Definition frag_names (f : frag) : list N :=
  map fr_name (f_files f) ++ match f_del f with Some d => [dr_id d] | None => [] end.
Definition man_names (m : manifest) : list N :=
  flat_map frag_names (m_frags m) ++ map ix_uuid (m_indices m) ++ match m_txn m with Some t => [snd t] | None => [] end.

(* ---------- open / snapshot: the closure of content reachable from manifest v ---------- *)
Definition frag_view := (N * N * list (option content) * option (option content))%type.
Definition open_frag (s : store) (here : root) (m : manifest) (f : frag) : frag_view :=
  (f_id f, f_meta f,
   map (fun fr => deref s here m (fr_base fr) (RData (fr_name fr))) (f_files f),
   option_map (fun d => deref s here m (dr_base d) (RDel (f_id f) (dr_rv d) (dr_id d))) (f_del f)).
Definition view := (N * N * list frag_view * list (N * N * option content) * option (option content))%type.
Definition open_man (s : store) (here : root) (m : manifest) : view :=
  (m_version m, m_meta m,
   map (open_frag s here m) (m_frags m),
   map (fun i => (ix_uuid i, ix_meta i, deref s here m (ix_base i) (RIndex (ix_uuid i) 0))) (m_indices m),
   option_map (fun t => get s (here, RTxn (fst t) (snd t))) (m_txn m)).

Definition open (here : root) (v : N) (s : store) : option manifest :=
  match get s (here, RManifest v) with Some (CMan m) => Some m | _ => None end.
Definition snapshot (here : root) (v : N) (s : store) : option view :=
  option_map (open_man s here) (open here v s).

(* tags resolve to a version number *)
Definition resolve_tag (here : root) (t : N) (s : store) : option N :=
  match get s (here, RTag t) with Some (CTagC v) => Some v | _ => None end.

(* latest version = the largest <v> among the manifest paths listed under the root *)
Fixpoint latest (here : root) (s : store) : N :=
  match s with
  | [] => 0
  | ((r, RManifest v), _) :: t => if N.eqb r here then N.max v (latest here t) else latest here t
  | _ :: t => latest here t
  end.

(* ---------- operations ---------- *)
Inductive op :=
| OAppend (blobs : list N)                       (* new fragments, one data file each; InsertBuilder / Dataset::append *)
| ODelete (fid : N) (dv : N)                     (* a new deletion file for fragment fid *)
| OUpdate (fid : N) (dv : N) (blobs : list N)    (* update / merge_insert: deletion file + new fragments *)
| ORewrite (old : list N) (blobs : list N)       (* compaction: fragments `old` replaced by new ones *)
| OMerge (blob : N) (meta : N)                   (* add_columns: one more data file in every fragment *)
| OProject (meta : N)                            (* drop_columns / alter_columns: metadata only *)
| OCreateIndex (blob : N) (imeta : N)            (* a new index directory *)
| OOverwrite (blobs : list N) (meta : N)         (* fragment ids restart at 0, indices dropped *)
| ORestore (v : N)                               (* the manifest of v republished as latest+1 *)
| OConfig (meta : N)                             (* update_config / update_schema_metadata *)
| OTagSet (t v : N)                              (* tags.create / tags.update: (over)writes _refs/tags/<t>.json *)
| OTagDel (t : N)
| OCleanup (sel : list N) (cand : list rel).     (* versions selected for removal, files considered for removal *)

Definition set_meta (m : manifest) (x : N) : manifest :=
  {| m_version := m_version m; m_meta := x; m_frags := m_frags m; m_indices := m_indices m; m_txn := m_txn m;
     m_bases := m_bases m; m_max_frag := m_max_frag m |}.
Definition set_frags (m : manifest) (fs : list frag) (mx : N) : manifest :=
  {| m_version := m_version m; m_meta := m_meta m; m_frags := fs; m_indices := m_indices m; m_txn := m_txn m;
     m_bases := m_bases m; m_max_frag := mx |}.
Definition set_indices (m : manifest) (ix : list iref) : manifest :=
  {| m_version := m_version m; m_meta := m_meta m; m_frags := m_frags m; m_indices := ix; m_txn := m_txn m;
     m_bases := m_bases m; m_max_frag := m_max_frag m |}.
Definition publish (m : manifest) (v : N) (txn : option (N * N)) : manifest :=
  {| m_version := v; m_meta := m_meta m; m_frags := m_frags m; m_indices := m_indices m; m_txn := txn;
     m_bases := m_bases m; m_max_frag := m_max_frag m |}.

(* new fragments first+0, first+1, ..: one data file each, stored relative (base_id = None) *)
Fixpoint new_frags (first : N) (names : list N) (blobs : list N) : list frag :=
  match names, blobs with
  | n :: ns, b :: bs => {| f_id := first; f_files := [{| fr_base := None; fr_name := n |}]; f_del := None; f_meta := b |}
                        :: new_frags (first + 1) ns bs
  | _, _ => []
  end.

Definition set_del (rv id : N) (fid : N) (f : frag) : frag :=
  if N.eqb (f_id f) fid
  then {| f_id := f_id f; f_files := f_files f; f_del := Some {| dr_base := None; dr_rv := rv; dr_id := id |}; f_meta := f_meta f |}
  else f.

Fixpoint add_files (names : list N) (fs : list frag) : list frag :=
  match names, fs with
  | n :: ns, f :: ft => {| f_id := f_id f; f_files := f_files f ++ [{| fr_base := None; fr_name := n |}]; f_del := f_del f; f_meta := f_meta f |}
                        :: add_files ns ft
  | _, _ => fs
  end.

Definition tagged (here : root) (s : store) (v : N) : bool :=
  existsb (fun e => match e with ((r, RTag _), CTagC v') => N.eqb r here && N.eqb v' v | _ => false end) s.

(* is k referenced by a manifest stored at root `here` in s? *)
Definition referenced (here : root) (s : store) (k : key) : bool :=
  existsb (fun e => match e with
                    | ((r, RManifest _), CMan m) =>
                        N.eqb r here && existsb (fun ok => match ok with Some k' => key_eqb k' k | None => false end) (man_keys here m)
                    | _ => false end) s.

Section Ops.
  (* Fresh-name oracle.  The real code draws these names at random: Uuid::new_v4() for data files
     (rust/lance/src/dataset/fragment/write.rs, write.rs), index directories (index.rs / scalar.rs /
     optimize), transaction files (Transaction::new uuid); rand::rng().random::<u64>() for the id of a deletion
     file (lance-table/src/io/deletion.rs write_deletion_file, whose full name also carries the fragment id and
     the read version).  FRESHNESS HYPOTHESIS (Proofs_History.v, Section): the name drawn is mentioned by no path
     in the store and by no manifest in the store.  This is a probabilistic fact about 122 / 64 random bits,
     not something the code checks (puts of data / deletion / index files are unconditional). *)
  Variable oracle : store -> N.

  (* put one object per blob under fresh names; returns the store and the names, in order *)
  Fixpoint put_fresh (here : root) (mk : N -> rel) (blobs : list N) (s : store) : store * list N :=
    match blobs with
    | [] => (s, [])
    | b :: t => let n := oracle s in
                let '(s', ns) := put_fresh here mk t (put s (here, mk n) (CBlob b)) in
                (s', n :: ns)
    end.

  (* commit: write the transaction file, then the manifest of version latest+1
     (write_transaction_file; write_manifest_file -> CommitHandler::commit: C02) *)
  Definition commit (here : root) (s : store) (rv : N) (m : manifest) : store :=
    let u := oracle s in
    let s1 := put s (here, RTxn rv u) (CBlob (m_meta m)) in
    let v := latest here s + 1 in
    put s1 (here, RManifest v) (CMan (publish m v (Some (rv, u)))).

  Definition cleanup (here : root) (sel : list N) (cand : list rel) (s : store) : store :=
    let l := latest here s in
    (* old manifests: selected, not the latest, not tagged (error_if_tagged_old_versions = false: kept) *)
    let s1 := fold_left (fun acc v => if N.eqb v l || tagged here s v then acc else del acc (here, RManifest v)) sel s in
    (* files: never a manifest or a tag, and only if no retained manifest references them *)
    fold_left (fun acc r => if is_manifest r || is_tag r || referenced here s1 (here, r) then acc else del acc (here, r)) cand s1.

  Definition step (here : root) (s : store) (o : op) : store :=
    match o with
    | OTagSet t v => match open here v s with Some _ => put s (here, RTag t) (CTagC v) | None => s end
    | OTagDel t => del s (here, RTag t)
    | OCleanup sel cand => cleanup here sel cand s
    | _ =>
      match open here (latest here s) s with
      | None => s                                    (* no table here: the call fails *)
      | Some cur =>
        let rv := m_version cur in
        match o with
        | OAppend blobs =>
            let '(s1, ns) := put_fresh here RData blobs s in
            commit here s1 rv (set_frags cur (m_frags cur ++ new_frags (m_max_frag cur + 1) ns blobs) (m_max_frag cur + N.of_nat (length ns)))
        | ODelete fid dv =>
            let '(s1, ns) := put_fresh here (fun n => RDel fid rv n) [dv] s in
            commit here s1 rv (set_frags cur (map (set_del rv (hd 0 ns) fid) (m_frags cur)) (m_max_frag cur))
        | OUpdate fid dv blobs =>
            let '(s1, ds) := put_fresh here (fun n => RDel fid rv n) [dv] s in
            let '(s2, ns) := put_fresh here RData blobs s1 in
            commit here s2 rv (set_frags cur (map (set_del rv (hd 0 ds) fid) (m_frags cur) ++ new_frags (m_max_frag cur + 1) ns blobs)
                                 (m_max_frag cur + N.of_nat (length ns)))
        | ORewrite old blobs =>
            let '(s1, ns) := put_fresh here RData blobs s in
            commit here s1 rv (set_frags cur (filter (fun f => negb (existsb (N.eqb (f_id f)) old)) (m_frags cur)
                                              ++ new_frags (m_max_frag cur + 1) ns blobs)
                                 (m_max_frag cur + N.of_nat (length ns)))
        | OMerge blob meta =>
            let '(s1, ns) := put_fresh here RData (map (fun _ => blob) (m_frags cur)) s in
            commit here s1 rv (set_meta (set_frags cur (add_files ns (m_frags cur)) (m_max_frag cur)) meta)
        | OProject meta => commit here s rv (set_meta cur meta)
        | OConfig meta => commit here s rv (set_meta cur meta)
        | OCreateIndex blob imeta =>
            let '(s1, ns) := put_fresh here (fun n => RIndex n 0) [blob] s in
            commit here s1 rv (set_indices cur (m_indices cur ++ [{| ix_base := None; ix_uuid := hd 0 ns; ix_meta := imeta |}]))
        | OOverwrite blobs meta =>
            let '(s1, ns) := put_fresh here RData blobs s in
            commit here s1 rv (set_meta (set_indices (set_frags cur (new_frags 0 ns blobs) (N.of_nat (length ns) - 1)) []) meta)
        | ORestore v =>
            match open here v s with
            | Some old => commit here s rv (set_frags old (m_frags old) (N.max (m_max_frag old) (m_max_frag cur)))
            | None => s
            end
        | _ => s
        end
      end
    end.

  Definition run (here : root) (h : list op) (s : store) : store := fold_left (step here) h s.

  (* a new table: first write at an empty root *)
  Definition create (here : root) (blobs : list N) (meta : N) (s : store) : store :=
    let '(s1, ns) := put_fresh here RData blobs s in
    commit here s1 0 {| m_version := 0; m_meta := meta; m_frags := new_frags 0 ns blobs; m_indices := []; m_txn := None;
                        m_bases := []; m_max_frag := N.of_nat (length ns) - 1 |}.
End Ops.

(* "cleanup in h' never selects v" *)
Definition never_selects (v : N) (h : list op) : Prop :=
  Forall (fun o => match o with OCleanup sel _ => ~ In v sel | _ => True end) h.

(* ---------- C42: copying a root ---------- *)
Definition copy_root (r r' : root) (s : store) : store :=
  s ++ map (fun e => ((r', snd (fst e)), snd e)) (filter (fun e => N.eqb (fst (fst e)) r) s).
Definition remove_root (r : root) (s : store) : store := filter (fun e => negb (N.eqb (fst (fst e)) r)) s.

(* "uses no base path other than the root": every reference of the manifest is relative *)
Definition frag_local (f : frag) : bool :=
  forallb (fun fr => match fr_base fr with None => true | Some _ => false end) (f_files f)
  && match f_del f with Some d => match dr_base d with None => true | Some _ => false end | None => true end.
Definition man_local (m : manifest) : bool :=
  forallb frag_local (m_frags m) && forallb (fun i => match ix_base i with None => true | Some _ => false end) (m_indices m).
Definition all_local (r : root) (s : store) : Prop :=
  forall v m, In ((r, RManifest v), CMan m) s -> man_local m = true.

(* Manifest::shallow_clone (lance-table/src/format/manifest.rs): every reference without a base gets
   base_id := ref_base_id and base_paths gains ref_base_id -> the source root *)
Definition shallow_clone (m : manifest) (bid : N) (src : root) : manifest :=
  {| m_version := m_version m; m_meta := m_meta m;
     m_frags := map (fun f => {| f_id := f_id f;
                                 f_files := map (fun fr => match fr_base fr with None => {| fr_base := Some bid; fr_name := fr_name fr |} | Some _ => fr end) (f_files f);
                                 f_del := option_map (fun d => match dr_base d with None => {| dr_base := Some bid; dr_rv := dr_rv d; dr_id := dr_id d |} | Some _ => d end) (f_del f);
                                 f_meta := f_meta f |}) (m_frags m);
     m_indices := map (fun i => {| ix_base := Some bid; ix_uuid := ix_uuid i; ix_meta := ix_meta i |}) (m_indices m);
     m_txn := m_txn m; m_bases := (bid, src) :: m_bases m; m_max_frag := m_max_frag m |}.

(* ---------- a concrete oracle (used by the Examples and the refutation witnesses): 1 + every name in sight ---------- *)
Definition list_max (l : list N) : N := fold_right N.max 0 l.
Definition entry_names (e : key * content) : list N :=
  rel_names (snd (fst e)) ++ match snd e with CMan m => man_names m | _ => [] end.
Definition oracle_max (s : store) : N := list_max (flat_map entry_names s) + 1.

(* ---------- correspondence checkers (evaluated by vm_compute on real directory listings) ---------- *)
(* a listing: every file under the table root as a `rel` with the digest of its content *)
Definition listing := list (rel * N).
Fixpoint lget (l : listing) (r : rel) : option N :=
  match l with [] => None | (r', d) :: t => if rel_eqb r' r then Some d else lget t r end.
Definition store_of (here : root) (l : listing) : store := map (fun e => ((here, fst e), CBlob (snd e))) l.

(* no overwrite, no delete: everything of `before` (except tag files) is in `after` with the same digest *)
Definition preserved (before after : listing) : bool :=
  forallb (fun e => is_tag (fst e) || match lget after (fst e) with Some d => N.eqb d (snd e) | None => false end) before.

Definition name_used (l : listing) (n : N) : bool := existsb (fun e => existsb (N.eqb n) (rel_names (fst e))) l.

(* a new path of a commit: the manifest of a version above `latest`, or a path whose oracle name is used by no
   path of `before`; deletion and transaction files carry a read version <= latest *)
Definition new_path_ok (latest : N) (before : listing) (r : rel) : bool :=
  match r with
  | RManifest v => N.ltb latest v
  | RData u => negb (name_used before u)
  | RDel _ rv id => N.leb rv latest && negb (name_used before id)
  | RIndex u _ => negb (name_used before u)
  | RTxn rv u => N.leb rv latest && negb (name_used before u)
  | RTag _ => false
  | ROther _ => false
  end.

Definition new_entries (before after : listing) : listing :=
  filter (fun e => match lget before (fst e) with None => true | Some _ => false end) after.

(* manifests of a commit are exactly latest+1 .. latest+k for some k >= 0 *)
Definition manifests_dense (latest : N) (news : listing) : bool :=
  let vs := flat_map (fun e => match fst e with RManifest v => [v] | _ => [] end) news in
  forallb (fun v => N.ltb latest v && N.leb v (latest + N.of_nat (length vs))) vs
  && forallb (fun v => N.eqb (N.of_nat (length (filter (N.eqb v) vs))) 1) vs.

(* kind 0: a commit (any write / maintenance operation); 1: a tag operation; 2: cleanup.
   `refd`: for cleanup, the paths referenced by the versions that are still listed afterwards. *)
Definition step_ok (kind latest : N) (refd : list rel) (before after : listing) : bool :=
  match kind with
  | 0 => preserved before after
         && forallb (fun e => new_path_ok latest before (fst e)) (new_entries before after)
         && manifests_dense latest (new_entries before after)
  | 1 => preserved before after
         && forallb (fun e => is_tag (fst e)) (new_entries before after)
  | _ => (* only deletions; content of what is left unchanged; referenced files and the latest manifest kept *)
         forallb (fun e => match lget before (fst e) with Some d => N.eqb d (snd e) | None => false end) after
         && forallb (fun r => match r with
                              | RIndex u _ => existsb (fun e => match fst e with RIndex u' _ => N.eqb u u' | _ => false end) after
                              | _ => match lget after r with Some _ => true | None => false end
                              end) refd
         && match lget after (RManifest latest) with Some _ => true | None => false end
  end.

Definition chk_step (i : listing * ((N * N) * list rel)) (o : listing) : bool :=
  let '(before, ((kind, latest), refd)) := i in step_ok kind latest refd before o.

(* every path a manifest references exists in the listing (index directories: some file below them) *)
Definition chk_closed (i : listing * list rel) (o : bool) : bool :=
  let '(l, refs) := i in
  Bool.eqb o (forallb (fun r => match r with
                                 | RIndex u _ => existsb (fun e => match fst e with RIndex u' _ => N.eqb u u' | _ => false end) l
                                 | _ => match lget l r with Some _ => true | None => false end
                                 end) refs).

(* C42: a stored path is relative and stays below the root: no leading '/', no "://", no ".." segment,
   and it carries no base_id.  Paths as byte lists. *)
Fixpoint has_sub (pat s : list N) : bool :=
  match s with
  | [] => match pat with [] => true | _ => false end
  | _ :: t => list_eqb N.eqb pat (firstn (length pat) s) || has_sub pat t
  end.
Fixpoint split_on (c : N) (s : list N) (cur : list N) : list (list N) :=
  match s with
  | [] => [rev cur]
  | x :: t => if N.eqb x c then rev cur :: split_on c t [] else split_on c t (x :: cur)
  end.
Definition path_relative (p : list N) : bool :=
  match p with [] => false | c :: _ => negb (N.eqb c 47) end
  && negb (has_sub [58; 47; 47] p)
  && forallb (fun seg => negb (list_eqb N.eqb seg [46; 46]) && negb (list_eqb N.eqb seg [])) (split_on 47 p []).
Definition chk_relative (i : list (list N * option N)) (o : bool) : bool :=
  Bool.eqb o (forallb (fun e => path_relative (fst e) && match snd e with None => true | Some _ => false end) i).

(* C42: the model's `open` closure evaluated on a REAL manifest (structure exported by the harness) over the REAL
   directory listing placed at root 1: copy root 1 to root 2, remove root 1; every key the manifest dereferences at
   root 2 must hold the object root 1 held, the manifest must carry no base id, and nothing may be missing. *)
Definition blob_eqb (a b : option content) : bool :=
  match a, b with Some (CBlob x), Some (CBlob y) => N.eqb x y | _, _ => false end.
Definition chk_copy_open (i : listing * manifest) (o : bool) : bool :=
  let '(l, m) := i in
  let s := store_of 1 l in
  let s' := remove_root 1 (copy_root 1 2 s) in
  Bool.eqb o
    (man_local m
     && forallb (fun ok => match ok with
                           | Some (r, p) => N.eqb r 1 && blob_eqb (get s (1, p)) (get s' (2, p)) && match get s' (1, p) with None => true | Some _ => false end
                           | None => false end) (man_keys 1 m)
     && forallb (fun ok => match ok with Some (r, p) => N.eqb r 2 | None => false end) (man_keys 2 m)).
