(* Proofs about Io/Model_Sched.v (C30). *)
From LanceV Require Import Common.Base Io.Model_Sched.
Local Open Scope N_scope.

(* ---------------------------------------------------------------------------------------- *)
(* F8: the faithful model violates "one buffer per range, exact bytes" outside Dom_C30.      *)
(* ---------------------------------------------------------------------------------------- *)
Definition f16 : bytes := N_seq 0 16.

Lemma request_shape_refuted_empty :
  in_file f16 [(5,5)] = true /\ Known_C30_request_shape 4 100 [(5,5)] = true /\
  submit_request f16 4 100 [(5,5)] = Ok [].
Proof. vm_compute. repeat split. Qed.

Lemma request_shape_refuted_unsorted :
  in_file f16 [(10,12);(0,5)] = true /\ Known_C30_request_shape 2 100 [(10,12);(0,5)] = true /\
  submit_request f16 2 100 [(10,12);(0,5)] = Ok [[10;11]].
Proof. vm_compute. repeat split. Qed.

Lemma request_shape_refuted_overlap_split :
  in_file f16 [(0,3);(0,4)] = true /\ Known_C30_request_shape 0 3 [(0,3);(0,4)] = true /\
  submit_request f16 0 3 [(0,3);(0,4)] = Panic.
Proof. vm_compute. repeat split. Qed.

(* ---------------------------------------------------------------------------------------- *)
(* A. slices of a file                                                                       *)
(* ---------------------------------------------------------------------------------------- *)
Lemma firstn_app_skipn {A} : forall n1 n2 (l : list A),
  firstn n1 l ++ firstn n2 (skipn n1 l) = firstn (n1 + n2) l.
Proof.
  induction n1 as [|n1 IH]; intros n2 l; [reflexivity|].
  destruct l as [|x l]; cbn [firstn skipn Nat.add app].
  - now rewrite firstn_nil.
  - now rewrite IH.
Qed.

Lemma skipn_skipn' {A} : forall a b (l : list A), skipn a (skipn b l) = skipn (b + a) l.
Proof.
  intros a b; revert a; induction b as [|b IH]; intros a l; [reflexivity|].
  destruct l as [|x l]; cbn [skipn Nat.add]; [now rewrite skipn_nil | apply IH].
Qed.

Definition wf_in (f : bytes) (u : range) : Prop := fst u <= snd u /\ snd u <= blen f.

Lemma blen_slice f u : wf_in f u -> blen (slice f u) = snd u - fst u.
Proof.
  intros [H1 H2]. unfold blen, slice in *.
  rewrite firstn_length_le; [lia|]. rewrite skipn_length. lia.
Qed.

Lemma slice_empty f s : slice f (s, s) = [].
Proof. unfold slice; cbn [fst snd]. now rewrite N.sub_diag. Qed.

Lemma slice_app f a b c : a <= b -> b <= c -> c <= blen f ->
  slice f (a, b) ++ slice f (b, c) = slice f (a, c).
Proof.
  intros H1 H2 H3. unfold slice; cbn [fst snd].
  replace (N.to_nat b) with (N.to_nat a + N.to_nat (b - a))%nat by lia.
  rewrite <- skipn_skipn'. rewrite firstn_app_skipn. f_equal. lia.
Qed.

Lemma bytes_slice_slice f u x y : wf_in f u -> x <= y -> y <= snd u - fst u ->
  bytes_slice (slice f u) x y = Ok (slice f (fst u + x, fst u + y)).
Proof.
  intros Hwf Hxy Hy. unfold bytes_slice. rewrite (blen_slice f u Hwf).
  destruct (y <? x) eqn:E1; [lia|]. destruct (snd u - fst u <? y) eqn:E2; [lia|].
  f_equal. unfold slice; cbn [fst snd].
  rewrite skipn_firstn_comm, firstn_firstn, skipn_skipn'.
  f_equal; [lia|]. f_equal. lia.
Qed.

(* ---------------------------------------------------------------------------------------- *)
(* B. The un-coalescing walk.  Invariant (DESIGN.md App. A): the head of the issued list is   *)
(*    at or before the first piece intersecting the next request.                             *)
(* ---------------------------------------------------------------------------------------- *)

(* starting from a piece ending at [c], contiguous pieces reach the offset [e] *)
Fixpoint chain (c : N) (us : list range) (e : N) : Prop :=
  e <= c \/ match us with [] => False | v :: us' => fst v = c /\ chain (snd v) us' e end.

(* request [o] starts inside some piece of [us] (all earlier pieces end before it) and is
   covered from there by contiguous pieces *)
Fixpoint covers (us : list range) (o : range) : Prop :=
  match us with
  | [] => False
  | u :: us' => (fst u <= fst o /\ fst o < snd u /\ chain (snd u) us' (snd o))
                \/ (snd u <= fst o /\ covers us' o)
  end.

(* the same, inside one piece *)
Fixpoint covers1 (us : list range) (o : range) : Prop :=
  match us with
  | [] => False
  | u :: us' => (fst u <= fst o /\ fst o < snd u /\ snd o <= snd u)
                \/ (snd u <= fst o /\ covers1 us' o)
  end.

Fixpoint Inv (us os : list range) : Prop :=
  match os with
  | [] => True
  | o :: os' =>
      (fst o < snd o /\ covers us o /\ Forall (fun o' => fst o <= fst o') os'
       /\ (covers1 us o \/ Forall (fun o' => snd o <= fst o') os'))
      /\ Inv us os'
  end.

Lemma covers_drop u us o : covers (u :: us) o -> snd u <= fst o -> covers us o.
Proof. cbn [covers]. intros [(_ & H & _) | (_ & H)] Hle; [lia | exact H]. Qed.

Lemma covers1_drop u us o : covers1 (u :: us) o -> snd u <= fst o -> covers1 us o.
Proof. cbn [covers1]. intros [(_ & H & _) | (_ & H)] Hle; [lia | exact H]. Qed.

Lemma Inv_drop u us : forall os, Inv (u :: us) os -> Forall (fun o => snd u <= fst o) os -> Inv us os.
Proof.
  induction os as [|o os IH]; intros HI HF; [exact I|].
  inversion HF as [|? ? Ho HF']; subst. destruct HI as ((Hne & Hc & Hs & Hd) & HI').
  split; [|apply IH; assumption].
  repeat split; try assumption.
  - eapply covers_drop; eassumption.
  - destruct Hd as [Hd | Hd]; [left; eapply covers1_drop; eassumption | right; exact Hd].
Qed.

Definition with_b (f : bytes) (us : list range) : list (range * bytes) := map (fun u => (u, slice f u)) us.

Section Walk.
  Variable f : bytes.

  Lemma copy_loop_ok (o : range) : fst o < snd o -> snd o <= blen f ->
    forall us cur c acc,
      Forall (wf_in f) us -> fst o <= c -> c <= snd o ->
      (c < snd o -> snd cur <= c) ->
      chain c us (snd o) -> acc = slice f (fst o, c) ->
      exists rem,
        copy_loop (snd o - fst o) (c - fst o) acc (cur, slice f cur) (with_b f us) = Ok (slice f o, with_b f rem)
        /\ (forall x, In x rem -> In x (cur :: us))
        /\ (forall os', Forall (fun o' => snd o <= fst o') os' -> Inv (cur :: us) os' -> Inv rem os').
  Proof.
    intros Hne Hfile. induction us as [|v us IH]; intros cur c acc Hwf Hoc Hco Hcur Hch Hacc.
    - cbn [chain] in Hch. destruct Hch as [Hch | []].
      assert (c = snd o) by lia; subst c.
      exists [cur]. cbn [copy_loop with_b map].
      destruct (snd o - fst o <? snd o - fst o) eqn:E; [lia|].
      rewrite Hacc. destruct o as [s e]; cbn [fst snd] in *. repeat split; auto.
    - cbn [with_b map copy_loop].
      destruct (c - fst o <? snd o - fst o) eqn:E.
      + assert (Hlt : c < snd o) by lia.
        cbn [chain] in Hch. destruct Hch as [Hch | (Hvs & Hch)]; [lia|].
        apply Forall_cons_iff in Hwf. destruct Hwf as [Hv Hwf'].
        subst c. cbn [fst snd].
        set (take := N.min (snd o - fst o - (fst v - fst o)) (snd v - fst v)).
        assert (Htake : take <= snd v - fst v) by (unfold take; lia).
        rewrite (bytes_slice_slice f v 0 take Hv) by lia.
        cbn [bind].
        destruct Hv as [Hv1 Hv2].
        assert (Hc' : fst o <= fst v + take /\ fst v + take <= snd o) by (unfold take; lia).
        specialize (IH v (fst v + take) (slice f (fst o, fst v) ++ slice f (fst v + 0, fst v + take)) Hwf'
                       (proj1 Hc') (proj2 Hc')).
        destruct IH as (rem & Hrun & Hin & Hinv).
        * intro Hlt'. unfold take in *. lia.
        * destruct (N.eq_dec (fst v + take) (snd v)) as [Heq | Hneq].
          -- rewrite Heq. exact Hch.
          -- destruct us; cbn [chain]; left; unfold take in *; lia.
        * rewrite N.add_0_r. apply slice_app; lia.
        * exists rem. repeat split.
          -- replace (fst v - fst o + take) with (fst v + take - fst o) by lia.
             rewrite Hacc. exact Hrun.
          -- intros x Hx. right. apply Hin. exact Hx.
          -- intros os' HF HI. apply Hinv; [exact HF|].
             apply (Inv_drop cur (v :: us) os' HI).
             eapply Forall_impl; [|exact HF]. cbn beta. intros o' Ho'. specialize (Hcur Hlt). lia.
      + assert (c = snd o) by lia; subst c.
        exists (cur :: v :: us). repeat split; auto.
        rewrite Hacc. destruct o; reflexivity.
  Qed.

  Lemma find_and_take_ok (o : range) : fst o < snd o -> snd o <= blen f ->
    forall us, Forall (wf_in f) us -> covers us o ->
      exists rem,
        find_and_take o (with_b f us) = Ok (Some (slice f o, with_b f rem))
        /\ (forall x, In x rem -> In x us)
        /\ (forall os', Forall (fun o' => fst o <= fst o') os' ->
                        (covers1 us o \/ Forall (fun o' => snd o <= fst o') os') ->
                        Inv us os' -> Inv rem os').
  Proof.
    intros Hne Hfile. induction us as [|u us IH]; intros Hwf Hcov; [destruct Hcov|].
    apply Forall_cons_iff in Hwf. destruct Hwf as [Hu Hwf'].
    cbn [with_b map find_and_take]. unfold is_overlapping.
    cbn [covers] in Hcov. destruct Hcov as [(H1 & H2 & Hch) | (H1 & Hcov)].
    - destruct (fst u <? snd o) eqn:E1; [|lia]. destruct (fst o <? snd u) eqn:E2; [|lia].
      cbn [andb]. unfold sub_chk. destruct (fst o <? fst u) eqn:E3; [lia|]. cbn [bind].
      destruct (snd o <=? snd u) eqn:E4.
      + destruct (snd o <? fst u) eqn:E5; [lia|]. cbn [bind].
        rewrite (bytes_slice_slice f u (fst o - fst u) (snd o - fst u) Hu) by lia. cbn [bind].
        exists (u :: us). repeat split; auto.
        replace (fst u + (fst o - fst u)) with (fst o) by lia.
        replace (fst u + (snd o - fst u)) with (snd o) by lia.
        destruct o; reflexivity.
      + rewrite (blen_slice f u Hu).
        rewrite (bytes_slice_slice f u (fst o - fst u) (snd u - fst u) Hu) by lia. cbn [bind].
        replace (fst u + (fst o - fst u)) with (fst o) by lia.
        replace (fst u + (snd u - fst u)) with (snd u) by (destruct Hu; lia).
        rewrite (blen_slice f (fst o, snd u)) by (destruct Hu; split; cbn [fst snd]; lia).
        cbn [fst snd].
        destruct (copy_loop_ok o Hne Hfile us u (snd u) (slice f (fst o, snd u)) Hwf')
          as (rem & Hrun & Hin & Hinv); try lia; auto.
        exists rem.
        match goal with |- context [bind ?X _] =>
          replace X with (Ok (slice f o, with_b f rem) : outcome (bytes * list (range * bytes)))
            by (symmetry; exact Hrun) end.
        cbn [bind]. repeat split; auto.
        intros os' Hs Hd HI. apply Hinv; [|exact HI].
        destruct Hd as [Hd | Hd]; [|exact Hd].
        cbn [covers1] in Hd. destruct Hd as [(_ & _ & Hd) | (Hd & _)]; lia.
    - destruct (fst o <? snd u) eqn:E2; [lia|]. rewrite andb_false_r.
      destruct (IH Hwf' Hcov) as (rem & Hrun & Hin & Hinv).
      exists rem. split; [exact Hrun|]. split; [intros x Hx; right; apply Hin, Hx|].
      intros os' Hs Hd HI. apply Hinv; [exact Hs | |].
      + destruct Hd as [Hd | Hd]; [left; eapply covers1_drop; eassumption | right; exact Hd].
      + apply (Inv_drop u us os' HI). eapply Forall_impl; [|exact Hs]. cbn beta. intros; lia.
  Qed.

  Theorem walk_ok : forall os us,
    Forall (wf_in f) us -> Forall (fun o => snd o <= blen f) os -> Inv us os ->
    walk os (with_b f us) = Ok (map (slice f) os).
  Proof.
    induction os as [|o os IH]; intros us Hwf Hfile HI; [reflexivity|].
    apply Forall_cons_iff in Hfile. destruct Hfile as [Ho Hfile].
    destruct HI as ((Hne & Hcov & Hs & Hd) & HI).
    destruct (find_and_take_ok o Hne Ho us Hwf Hcov) as (rem & Hrun & Hin & Hinv).
    cbn [walk map]. rewrite Hrun. cbn [bind].
    rewrite (IH rem).
    - reflexivity.
    - rewrite Forall_forall in *. intros x Hx. apply Hwf, Hin, Hx.
    - exact Hfile.
    - apply Hinv; assumption.
  Qed.
End Walk.

(* ---------------------------------------------------------------------------------------- *)
(* C. Coalescing and splitting produce a list of issued ranges that covers every request     *)
(* ---------------------------------------------------------------------------------------- *)
Fixpoint mcovers (ms : list range) (o : range) : Prop :=
  match ms with
  | [] => False
  | m :: ms' => (fst m <= fst o /\ snd o <= snd m) \/ (snd m <= fst o /\ mcovers ms' o)
  end.

Lemma starts_sorted_cons r rs : starts_sorted (r :: rs) = true ->
  Forall (fun r' => fst r <= fst r') rs /\ starts_sorted rs = true.
Proof.
  cbn [starts_sorted]. intro H. apply andb_true_iff in H. destruct H as [H1 H2]. split; [|exact H2].
  rewrite forallb_forall in H1. apply Forall_forall. intros x Hx. specialize (H1 x Hx). lia.
Qed.

Lemma coalesce_go_covers bs : forall rest cur ms,
  coalesce_go bs cur rest = Ok ms ->
  Forall (fun r => fst cur <= fst r) rest -> starts_sorted rest = true ->
  forall o, ((fst cur <= fst o /\ snd o <= snd cur) \/ In o rest) -> mcovers ms o.
Proof.
  induction rest as [|r rest IH]; intros cur ms Hrun Hge Hsort o Ho.
  - cbn [coalesce_go] in Hrun. inversion Hrun; subst. destruct Ho as [Ho | []]. cbn [mcovers]. left; exact Ho.
  - cbn [coalesce_go] in Hrun. unfold is_close_together, add_chk in Hrun.
    destruct (two64 <=? snd cur + bs) eqn:E0; [discriminate|]. cbn [bind] in Hrun.
    apply Forall_cons_iff in Hge. destruct Hge as [Hr Hge].
    destruct (starts_sorted_cons _ _ Hsort) as [Hrr Hsort'].
    destruct (fst r <=? snd cur + bs) eqn:E1.
    + apply (IH _ _ Hrun); cbn [fst snd]; [exact Hge | exact Hsort' |].
      destruct Ho as [[H1 H2] | [Ho | Ho]]; [left; lia | subst o; left; lia | right; exact Ho].
    + destruct (coalesce_go bs r rest) as [tl| |] eqn:Etl; try discriminate. cbn [bind] in Hrun.
      inversion Hrun; subst ms. cbn [mcovers].
      destruct Ho as [Ho | Ho]; [left; exact Ho|]. right. split.
      * destruct Ho as [Ho | Ho]; [subst o; lia|].
        rewrite Forall_forall in Hrr. specialize (Hrr o Ho). lia.
      * apply (IH _ _ Etl Hrr Hsort'). destruct Ho as [Ho | Ho]; [subst o; left; lia | right; exact Ho].
Qed.

Lemma coalesce_go_ends bs B : forall rest cur ms,
  coalesce_go bs cur rest = Ok ms -> snd cur <= B -> Forall (fun r => snd r <= B) rest ->
  Forall (fun m => snd m <= B) ms.
Proof.
  induction rest as [|r rest IH]; intros cur ms Hrun Hc Hr.
  - cbn [coalesce_go] in Hrun. inversion Hrun; subst. constructor; [exact Hc | constructor].
  - cbn [coalesce_go] in Hrun. unfold is_close_together, add_chk in Hrun.
    destruct (two64 <=? snd cur + bs); [discriminate|]. cbn [bind] in Hrun.
    apply Forall_cons_iff in Hr. destruct Hr as [Hr Hr'].
    destruct (fst r <=? snd cur + bs).
    + apply (IH _ _ Hrun); cbn [fst snd]; [lia | exact Hr'].
    + destruct (coalesce_go bs r rest) as [tl| |] eqn:Etl; try discriminate. cbn [bind] in Hrun.
      inversion Hrun; subst ms. constructor; [exact Hc | apply (IH _ _ Etl Hr Hr')].
Qed.

(* ---- pieces of one coalesced range ---- *)
Lemma pieces_chain : forall k start bpr e x tl, (1 <= k)%nat -> x <= e ->
  chain start (pieces k start bpr e ++ tl) x.
Proof.
  induction k as [|k IH]; intros start bpr e x tl Hk Hx; [lia|].
  destruct k as [|k'].
  - cbn [pieces app chain fst snd]. right. split; [reflexivity|]. destruct tl; cbn [chain]; left; exact Hx.
  - change (pieces (S (S k')) start bpr e) with ((start, start + bpr) :: pieces (S k') (start + bpr) bpr e).
    cbn [app chain fst snd]. right. split; [reflexivity|]. apply IH; [lia | exact Hx].
Qed.

Lemma pieces_covers : forall k start bpr e o tl, (1 <= k)%nat ->
  start <= fst o -> fst o < snd o -> snd o <= e -> covers (pieces k start bpr e ++ tl) o.
Proof.
  induction k as [|k IH]; intros start bpr e o tl Hk Hs Hne He; [lia|].
  destruct k as [|k'].
  - cbn [pieces app covers fst snd]. left. repeat split; [exact Hs | lia |].
    destruct tl; cbn [chain]; left; exact He.
  - change (pieces (S (S k')) start bpr e) with ((start, start + bpr) :: pieces (S k') (start + bpr) bpr e).
    cbn [app covers fst snd].
    destruct (N.lt_ge_cases (fst o) (start + bpr)) as [Hlt | Hge].
    + left. repeat split; [exact Hs | exact Hlt |]. apply pieces_chain; [lia | exact He].
    + right. split; [exact Hge|]. apply IH; [lia | exact Hge | exact Hne | exact He].
Qed.

Lemma pieces_ends : forall k start bpr e, start + N.of_nat (k - 1) * bpr <= e ->
  Forall (fun p => snd p <= e) (pieces k start bpr e).
Proof.
  induction k as [|k IH]; intros start bpr e H; [constructor|].
  destruct k as [|k'].
  - cbn [pieces]. constructor; [cbn [snd]; lia | constructor].
  - change (pieces (S (S k')) start bpr e) with ((start, start + bpr) :: pieces (S k') (start + bpr) bpr e).
    replace (N.of_nat (S (S k') - 1)) with (N.of_nat (S k' - 1) + 1) in H by lia.
    constructor; [cbn [snd]; nia | apply IH; nia].
Qed.

Lemma covers_skip_app o : forall pre tl, Forall (fun p => snd p <= fst o) pre -> covers tl o -> covers (pre ++ tl) o.
Proof.
  induction pre as [|p pre IH]; intros tl Hp Hc; [exact Hc|].
  apply Forall_cons_iff in Hp. destruct Hp as [Hp Hp'].
  cbn [app covers]. right. split; [exact Hp | apply IH; assumption].
Qed.

Lemma div_ceil_pos size mx : 0 < size -> 0 < mx -> 1 <= div_ceil size mx.
Proof.
  intros Hs Hm. unfold div_ceil.
  destruct (N.eq_dec (size / mx) 0) as [Hz|Hz].
  - rewrite Hz. apply N.div_small_iff in Hz; [|lia]. rewrite (N.mod_small _ _ Hz).
    destruct (size =? 0) eqn:E; lia.
  - generalize dependent (size / mx). intros q Hq. destruct (size mod mx =? 0); lia.
Qed.

Lemma split_one_spec mx m ps : 0 < mx -> split_one mx m = Ok ps ->
  Forall (fun p => snd p <= snd m) ps /\
  (forall o tl, fst m <= fst o -> fst o < snd o -> snd o <= snd m -> covers (ps ++ tl) o).
Proof.
  intros Hmx Hrun. unfold split_one, r_is_empty in Hrun.
  destruct (fst m <? snd m) eqn:E; cbn [negb] in Hrun.
  - destruct (mx =? 0) eqn:E0; [lia|]. inversion Hrun; subst ps; clear Hrun.
    set (size := snd m - fst m). set (n := div_ceil size mx).
    assert (Hn : 1 <= n) by (apply div_ceil_pos; unfold size; lia).
    assert (Hmul : n * (size / n) <= size) by (apply N.mul_div_le; lia).
    split.
    + apply pieces_ends. replace (N.of_nat (N.to_nat n - 1)) with (n - 1) by lia. unfold size in *. nia.
    + intros o tl H1 H2 H3. apply pieces_covers; [lia | exact H1 | exact H2 | exact H3].
  - inversion Hrun; subst ps. split; [constructor; [lia | constructor]|].
    intros o tl H1 H2 H3. lia.
Qed.

Lemma split_all_covers mx : 0 < mx -> forall ms us o,
  split_all mx ms = Ok us -> fst o < snd o -> mcovers ms o -> covers us o.
Proof.
  intros Hmx. induction ms as [|m ms IH]; intros us o Hrun Hne Hc; [destruct Hc|].
  cbn [split_all] in Hrun.
  destruct (split_one mx m) as [ps| |] eqn:Eps; try discriminate. cbn [bind] in Hrun.
  destruct (split_all mx ms) as [tl| |] eqn:Etl; try discriminate. cbn [bind] in Hrun.
  inversion Hrun; subst us; clear Hrun.
  destruct (split_one_spec mx m ps Hmx Eps) as [Hends Hcov].
  cbn [mcovers] in Hc. destruct Hc as [[H1 H2] | [H1 H2]].
  - apply Hcov; assumption.
  - apply covers_skip_app; [|apply (IH tl o eq_refl Hne H2)].
    eapply Forall_impl; [|exact Hends]. cbn beta. intros; lia.
Qed.

Lemma split_all_ends mx B : 0 < mx -> forall ms us,
  split_all mx ms = Ok us -> Forall (fun m => snd m <= B) ms -> Forall (fun u => snd u <= B) us.
Proof.
  intros Hmx. induction ms as [|m ms IH]; intros us Hrun HB.
  - inversion Hrun; constructor.
  - cbn [split_all] in Hrun.
    destruct (split_one mx m) as [ps| |] eqn:Eps; try discriminate. cbn [bind] in Hrun.
    destruct (split_all mx ms) as [tl| |] eqn:Etl; try discriminate. cbn [bind] in Hrun.
    inversion Hrun; subst us; clear Hrun.
    apply Forall_cons_iff in HB. destruct HB as [Hm HB].
    apply Forall_app. split; [|apply (IH tl eq_refl HB)].
    destruct (split_one_spec mx m ps Hmx Eps) as [Hends _].
    eapply Forall_impl; [|exact Hends]. cbn beta. intros; lia.
Qed.

Lemma sizes_chk_ok : forall us l, sizes_chk us = Ok l -> Forall (fun u => fst u <= snd u) us.
Proof.
  induction us as [|u us IH]; intros l H; [constructor|].
  cbn [sizes_chk fold_right] in H. unfold sub_chk in H at 1.
  destruct (snd u <? fst u) eqn:E; [discriminate|]. cbn [bind] in H.
  fold (sizes_chk us) in H. destruct (sizes_chk us) as [tl| |] eqn:Et; try discriminate.
  constructor; [lia | apply (IH tl eq_refl)].
Qed.

Lemma read_all_ok f : forall us, read_all f no_fail us = Ok (with_b f us).
Proof.
  induction us as [|u us IH]; [reflexivity|].
  cbn [read_all with_b map]. fold (with_b f us). rewrite IH. unfold read_one, no_fail.
  destruct (fst u =? snd u) eqn:E; [|reflexivity].
  destruct u as [s e]; cbn [fst snd] in E. assert (s = e) by lia; subst e. now rewrite slice_empty.
Qed.

(* ---------------------------------------------------------------------------------------- *)
(* D. C30_bytes_exact                                                                        *)
(* ---------------------------------------------------------------------------------------- *)
Lemma single_piece_covers1 o : forall us, single_piece us o = true -> covers1 us o.
Proof.
  induction us as [|u us IH]; cbn [single_piece covers1]; intro H; [discriminate|].
  destruct ((fst u <=? fst o) && (fst o <? snd u)) eqn:E.
  - left. lia.
  - right. apply andb_true_iff in H. destruct H as [H1 H2]. split; [lia | apply IH, H2].
Qed.

Lemma Inv_intro us : forall os,
  (forall o, In o os -> fst o < snd o /\ covers us o) ->
  starts_sorted os = true -> straddle_ok us os = true -> Inv us os.
Proof.
  induction os as [|o os IH]; intros Hall Hsort Hstr; [exact I|].
  destruct (starts_sorted_cons _ _ Hsort) as [Hs Hsort'].
  cbn [straddle_ok] in Hstr. apply andb_true_iff in Hstr. destruct Hstr as [Hd Hstr'].
  cbn [Inv]. split; [|apply IH; [intros x Hx; apply Hall; right; exact Hx | exact Hsort' | exact Hstr']].
  destruct (Hall o (or_introl eq_refl)) as [Hne Hc].
  repeat split; [exact Hne | exact Hc | exact Hs |].
  apply orb_true_iff in Hd. destruct Hd as [Hd | Hd].
  - left. apply single_piece_covers1, Hd.
  - right. rewrite forallb_forall in Hd. apply Forall_forall. intros x Hx. specialize (Hd x Hx). lia.
Qed.

Lemma updated_requests_spec f bs mx rs us :
  0 < mx -> starts_sorted rs = true -> in_file f rs = true ->
  updated_requests bs mx rs = Ok us ->
  Forall (wf_in f) us /\ (forall o, In o rs -> fst o < snd o -> covers us o).
Proof.
  intros Hmx Hsort Hfile Hrun. unfold updated_requests in Hrun.
  destruct (coalesce bs rs) as [ms| |] eqn:Ems; try discriminate. cbn [bind] in Hrun.
  destruct (split_all mx ms) as [us'| |] eqn:Eus; try discriminate. cbn [bind] in Hrun.
  destruct (sizes_chk us') as [l| |] eqn:El; try discriminate. cbn [bind] in Hrun.
  inversion Hrun; subst us'; clear Hrun.
  assert (HB : Forall (fun r => snd r <= blen f) rs).
  { unfold in_file in Hfile. rewrite forallb_forall in Hfile. apply Forall_forall.
    intros x Hx. specialize (Hfile x Hx). lia. }
  destruct rs as [|r rest].
  - cbn [coalesce] in Ems. inversion Ems; subst ms. cbn [split_all] in Eus. inversion Eus; subst us.
    split; [constructor | intros o []].
  - cbn [coalesce] in Ems. destruct (starts_sorted_cons _ _ Hsort) as [Hge Hsort'].
    apply Forall_cons_iff in HB. destruct HB as [HBr HB].
    split.
    + pose proof (coalesce_go_ends bs (blen f) _ _ _ Ems HBr HB) as Hme.
      pose proof (split_all_ends mx (blen f) Hmx _ _ Eus Hme) as Hue.
      pose proof (sizes_chk_ok _ _ El) as Hwf.
      rewrite Forall_forall in *. intros u Hu. split; [apply Hwf, Hu | apply Hue, Hu].
    + intros o Ho Hne. apply (split_all_covers mx Hmx ms us o Eus Hne).
      apply (coalesce_go_covers bs _ _ _ Ems Hge Hsort').
      destruct Ho as [Ho | Ho]; [subst o; left; lia | right; exact Ho].
Qed.

Theorem bytes_exact f bs mx rs :
  in_file f rs = true -> Dom_C30 bs mx rs = true ->
  submit_request f bs mx rs = Ok (map (slice f) rs).
Proof.
  intros Hfile Hdom. unfold Dom_C30 in Hdom.
  repeat (apply andb_true_iff in Hdom; destruct Hdom as [Hdom ?]).
  destruct (updated_requests bs mx rs) as [us| |] eqn:Eus; try discriminate.
  assert (Hmx : 0 < mx) by lia.
  destruct (updated_requests_spec f bs mx rs us Hmx H2 Hfile Eus) as [Hwf Hcov].
  unfold submit_request, submit_request_f. rewrite Eus. cbn [bind].
  change (read_all f (fun _ => false) us) with (read_all f no_fail us).
  rewrite read_all_ok. cbn [bind].
  apply walk_ok; [exact Hwf | |].
  - unfold in_file in Hfile. rewrite forallb_forall in Hfile. apply Forall_forall.
    intros x Hx. specialize (Hfile x Hx). lia.
  - apply Inv_intro; [|assumption|assumption].
    intros o Ho. unfold all_nonempty in H1. rewrite forallb_forall in H1. specialize (H1 o Ho).
    split; [lia | apply Hcov; [exact Ho | lia]].
Qed.

Lemma list_eqb_refl {A} (eqb : A -> A -> bool) : (forall x, eqb x x = true) -> forall l, list_eqb eqb l l = true.
Proof. intros H; induction l; cbn [list_eqb]; [reflexivity | rewrite H, IHl; reflexivity]. Qed.

Lemma exact_result_iff f rs res : exact_result f rs res = true <-> res = Ok (map (slice f) rs).
Proof.
  unfold exact_result. destruct res as [bufs| |]; [|split; discriminate|split; discriminate].
  assert (Hb : forall x y : bytes, bytes_eqb x y = true <-> x = y).
  { apply list_eqb_eq. intros; apply N.eqb_eq. }
  rewrite (list_eqb_eq bytes_eqb Hb). split; [intros ->; reflexivity | intro H; inversion H; reflexivity].
Qed.

(* ---------------------------------------------------------------------------------------- *)
(* E. The simple sufficient condition of DESIGN.md (disjoint, or nothing is split) implies   *)
(*    Dom_C30; in particular no panic there.                                                 *)
(* ---------------------------------------------------------------------------------------- *)
Lemma covers1_single_piece o : forall us, covers1 us o -> single_piece us o = true.
Proof.
  induction us as [|u us IH]; cbn [single_piece covers1]; intro H; [destruct H|].
  destruct H as [(H1 & H2 & H3) | (H1 & H2)].
  - destruct ((fst u <=? fst o) && (fst o <? snd u)) eqn:E; lia.
  - destruct ((fst u <=? fst o) && (fst o <? snd u)) eqn:E; [lia|]. rewrite (IH H2). lia.
Qed.

Lemma coalesce_go_total bs : forall rest cur,
  snd cur + bs < two64 -> Forall (fun r => snd r + bs < two64) rest ->
  fst cur <= snd cur -> Forall (fun r => fst r <= snd r) rest ->
  exists ms, coalesce_go bs cur rest = Ok ms /\ Forall (fun m => fst m <= snd m) ms.
Proof.
  induction rest as [|r rest IH]; intros cur Hc Hr Hwf Hne.
  - exists [cur]. split; [reflexivity | constructor; [exact Hwf | constructor]].
  - apply Forall_cons_iff in Hr. destruct Hr as [Hr Hr'].
    apply Forall_cons_iff in Hne. destruct Hne as [Hne Hne'].
    cbn [coalesce_go]. unfold is_close_together, add_chk.
    destruct (two64 <=? snd cur + bs) eqn:E0; [lia|]. cbn [bind].
    destruct (fst r <=? snd cur + bs) eqn:E1.
    + apply IH; cbn [fst snd]; [lia | exact Hr' | lia | exact Hne'].
    + destruct (IH r Hr Hr' Hne Hne') as (tl & Htl & Hwf'). rewrite Htl. cbn [bind].
      exists (cur :: tl). split; [reflexivity | constructor; assumption].
Qed.

Lemma pieces_wf : forall k start bpr e, start + N.of_nat (k - 1) * bpr <= e ->
  Forall (fun p => fst p <= snd p) (pieces k start bpr e).
Proof.
  induction k as [|k IH]; intros start bpr e H; [constructor|].
  destruct k as [|k'].
  - cbn [pieces]. constructor; [cbn [fst snd]; lia | constructor].
  - change (pieces (S (S k')) start bpr e) with ((start, start + bpr) :: pieces (S k') (start + bpr) bpr e).
    replace (N.of_nat (S (S k') - 1)) with (N.of_nat (S k' - 1) + 1) in H by lia.
    constructor; [cbn [fst snd]; lia | apply IH; nia].
Qed.

Lemma split_all_total mx : 0 < mx -> forall ms, Forall (fun m => fst m <= snd m) ms ->
  exists us, split_all mx ms = Ok us /\ Forall (fun u => fst u <= snd u) us.
Proof.
  intros Hmx. induction ms as [|m ms IH]; intro Hwf; [exists []; split; [reflexivity | constructor]|].
  apply Forall_cons_iff in Hwf. destruct Hwf as [Hm Hwf].
  destruct (IH Hwf) as (tl & Htl & Hwtl). cbn [split_all]. unfold split_one, r_is_empty.
  destruct (fst m <? snd m) eqn:E; cbn [negb].
  - destruct (mx =? 0) eqn:E0; [lia|]. cbn [bind]. rewrite Htl. cbn [bind].
    eexists. split; [reflexivity|]. apply Forall_app. split; [|exact Hwtl].
    set (size := snd m - fst m). set (n := div_ceil size mx).
    assert (Hn : 1 <= n) by (apply div_ceil_pos; unfold size; lia).
    assert (Hmul : n * (size / n) <= size) by (apply N.mul_div_le; lia).
    apply pieces_wf. replace (N.of_nat (N.to_nat n - 1)) with (n - 1) by lia. unfold size in *. nia.
  - cbn [bind]. rewrite Htl. cbn [bind]. eexists. split; [reflexivity|].
    constructor; [exact Hm | exact Hwtl].
Qed.

Lemma sizes_chk_total : forall us, Forall (fun u => fst u <= snd u) us -> exists l, sizes_chk us = Ok l.
Proof.
  induction us as [|u us IH]; intro H; [exists []; reflexivity|].
  apply Forall_cons_iff in H. destruct H as [Hu H]. destruct (IH H) as (l & Hl).
  cbn [sizes_chk fold_right]. fold (sizes_chk us). rewrite Hl. unfold sub_chk.
  destruct (snd u <? fst u) eqn:E; [lia|]. cbn [bind]. eexists; reflexivity.
Qed.

(* no panic: sorted-or-not, any non-empty ranges within u64 are coalesced, split and issued *)
Lemma updated_requests_total bs mx rs :
  0 < mx -> all_nonempty rs = true -> forallb (fun r => snd r + bs <? two64) rs = true ->
  exists us, updated_requests bs mx rs = Ok us.
Proof.
  intros Hmx Hne Hb. unfold updated_requests.
  assert (Hne' : Forall (fun r => fst r <= snd r) rs).
  { unfold all_nonempty in Hne. rewrite forallb_forall in Hne. apply Forall_forall. intros x Hx. specialize (Hne x Hx). lia. }
  assert (Hb' : Forall (fun r => snd r + bs < two64) rs).
  { rewrite forallb_forall in Hb. apply Forall_forall. intros x Hx. specialize (Hb x Hx). lia. }
  assert (Hms : exists ms, coalesce bs rs = Ok ms /\ Forall (fun m => fst m <= snd m) ms).
  { destruct rs as [|r rest]; [exists []; split; [reflexivity | constructor]|].
    apply Forall_cons_iff in Hne'. apply Forall_cons_iff in Hb'.
    apply coalesce_go_total; tauto. }
  destruct Hms as (ms & Hms & Hwm). rewrite Hms. cbn [bind].
  destruct (split_all_total mx Hmx ms Hwm) as (us & Hus & Hwu). rewrite Hus. cbn [bind].
  destruct (sizes_chk_total us Hwu) as (l & Hl). rewrite Hl. cbn [bind]. exists us; reflexivity.
Qed.

Lemma split_all_nosplit mx : 0 < mx -> forall ms,
  forallb (fun m => snd m - fst m <=? mx) ms = true -> split_all mx ms = Ok ms.
Proof.
  intros Hmx. induction ms as [|m ms IH]; intro H; [reflexivity|].
  cbn [forallb] in H. apply andb_true_iff in H. destruct H as [Hm H].
  cbn [split_all]. rewrite (IH H). unfold split_one, r_is_empty.
  destruct (fst m <? snd m) eqn:E; cbn [negb bind]; [|reflexivity].
  destruct (mx =? 0) eqn:E0; [lia|]. cbn [bind].
  assert (Hn : div_ceil (snd m - fst m) mx = 1).
  { unfold div_ceil. destruct (N.eq_dec (snd m - fst m) mx) as [Heq | Hneq].
    - rewrite Heq, N.div_same, N.mod_same by lia. reflexivity.
    - rewrite N.div_small, N.mod_small by lia. destruct (snd m - fst m =? 0) eqn:Ez; lia. }
  rewrite Hn. cbn [N.to_nat Pos.to_nat Pos.iter_op pieces app]. destruct m; reflexivity.
Qed.

Lemma mcovers_covers1 o : fst o < snd o -> forall ms, mcovers ms o -> covers1 ms o.
Proof.
  intros Hne. induction ms as [|m ms IH]; cbn [mcovers covers1]; intro H; [exact H|].
  destruct H as [[H1 H2] | [H1 H2]]; [left; lia | right; split; [exact H1 | apply IH, H2]].
Qed.

Theorem Dom_simple_in_Dom bs mx rs : Dom_C30_simple bs mx rs = true -> Dom_C30 bs mx rs = true.
Proof.
  unfold Dom_C30_simple, Dom_C30. intro H.
  apply andb_true_iff in H. destruct H as [H Hcase].
  apply andb_true_iff in H. destruct H as [H Hb].
  apply andb_true_iff in H. destruct H as [H Hne].
  apply andb_true_iff in H. destruct H as [Hmx Hsort].
  rewrite Hmx, Hsort, Hne, Hb. cbn [andb].
  assert (Hmx' : 0 < mx) by lia.
  destruct (updated_requests_total bs mx rs Hmx' Hne Hb) as (us & Hus). rewrite Hus.
  apply orb_true_iff in Hcase. destruct Hcase as [Hdis | Hns].
  - (* disjoint: every request ends before the later ones start *)
    clear Hus. revert Hdis. clear. induction rs as [|r rs IH]; intro H; [reflexivity|].
    cbn [disjoint_sorted straddle_ok] in *. apply andb_true_iff in H. destruct H as [H1 H2].
    rewrite H1, (IH H2). now rewrite orb_true_r.
  - (* nothing split: every request lies inside one issued range *)
    unfold no_split in Hns. unfold updated_requests in Hus.
    destruct (coalesce bs rs) as [ms| |] eqn:Ems; try discriminate. cbn [bind] in Hus.
    rewrite (split_all_nosplit mx Hmx' ms Hns) in Hus. cbn [bind] in Hus.
    destruct (sizes_chk ms); try discriminate. cbn [bind] in Hus. inversion Hus; subst us; clear Hus.
    assert (Hall : forall o, In o rs -> single_piece ms o = true).
    { intros o Ho. apply covers1_single_piece.
      unfold all_nonempty in Hne. rewrite forallb_forall in Hne. specialize (Hne o Ho).
      apply mcovers_covers1; [lia|].
      destruct rs as [|r rest]; [destruct Ho|]. cbn [coalesce] in Ems.
      destruct (starts_sorted_cons _ _ Hsort) as [Hge Hsort'].
      apply (coalesce_go_covers bs _ _ _ Ems Hge Hsort').
      destruct Ho as [Ho | Ho]; [subst o; left; lia | right; exact Ho]. }
    clear - Hall. induction rs as [|r rs IH]; [reflexivity|].
    cbn [straddle_ok]. rewrite (Hall r (or_introl eq_refl)). cbn [orb andb].
    apply IH. intros o Ho. apply Hall. right; exact Ho.
Qed.
